(** Counterexample search for Script.ScriptType (bscript/script.go) (printed as [Script_ScriptType] in gen/Funcs.v) against [script_type] of model/Classify.v (outcome incl. panic).
    NOT a proof and independent of proofs/GenFuncs_Script_ScriptType.v: it compiles whether or not the two sides agree and
    prints one line, "AGREE Script_ScriptType <candidates>" or "DISAGREE Script_ScriptType <input>" (see search/GenFuncsSearchLib.v,
    tools/gen_search.py).  Domain searched: every script of at most 2 bytes; the standard templates (P2PKH, P2PK 33 / 65, P2SH, multisig, inscription with and without a trailing OP_RETURN, data) with every byte position mutated through 27 values, every prefix of them, one byte appended; truncated, exact and over-long pushes in all four forms; pushes of 0, 1, 2, 75, 76, 77, 255, 256, 257 bytes. *)
From Coq Require Import List ZArith NArith Bool String.
From Coq Require Import Strings.Byte.
From GoBT Require Import lib.Bytes lib.GoSem lib.GoTx gen.Funcs search.GenFuncsSearchLib.
From GoBT Require lib.Checked model.Classify model.JsonScripts.
Import ListNotations.
Local Open Scope Z_scope.
Set Printing Width 1000000.

Definition outcome_eqb {A} (eqb : A -> A -> bool) (x y : Checked.outcome A) : bool :=
  match x, y with
  | Checked.Ok a, Checked.Ok b => eqb a b
  | Checked.Err, Checked.Err => true | Checked.Panic, Checked.Panic => true | Checked.Fuel, Checked.Fuel => true
  | _, _ => false
  end.
Definition to_outcome {A} (m : M A) : Checked.outcome A :=
  match m with Val a => Checked.Ok a | Panic => Checked.Panic | NoFuel => Checked.Fuel end.
Definition stype_bytes (t : Classify.stype) : bytes := list_byte_of_string (JsonScripts.stype_name t).
Definition agree_Script_ScriptType (b : bytes) : bool :=
  outcome_eqb bytes_eqb (to_outcome (Script_ScriptType b)) (Checked.obind (Classify.script_type b) (fun t => Checked.Ok (stype_bytes t))).
Definition candidates_Script_ScriptType : list bytes := script_candidates.
Definition show_Script_ScriptType := show_script.

Definition first_disagreement_Script_ScriptType := find (fun x => negb (agree_Script_ScriptType x)) candidates_Script_ScriptType.

Eval vm_compute in (verdict "Script_ScriptType" show_Script_ScriptType agree_Script_ScriptType candidates_Script_ScriptType).
