(** Counterexample search for opcodeDup (bscript/interpreter/operations.go) (printed as [opcodeDup] in gen/Funcs.v) against the branch of [exec_handler] (model/Interp.v) for OP_DUP.
    NOT a proof and independent of proofs/GenFuncs_opcodeDup.v: it compiles whether or not the two sides agree and
    prints one line, "AGREE opcodeDup <candidates>" or "DISAGREE opcodeDup <input>" (see search/GenFuncsSearchLib.v,
    search/GenFuncsSearchInterp.v -- loaded textually below --, tools/gen_search.py).  Domain searched: the small interpreter states of search/GenFuncsSearchInterp.v (354 data stacks of 0..6 items over a 12-item alphabet x both eras x MINIMALDATA off / on). *)
From Coq Require Import List ZArith NArith Bool String.
From Coq Require Import Strings.Byte.
From GoBT Require Import lib.Bytes lib.GoSem lib.GoInterp gen.Funcs search.GenFuncsSearchLib.
From GoBT Require model.Interp model.ScriptNum.
Import ListNotations.
Local Open Scope Z_scope.
Set Printing Width 1000000.
Load GenFuncsSearchInterp.

Definition agree_opcodeDup : si_state -> bool :=
  si_agree_handler Interp.OP_DUP (fun c s => h_view s (opcodeDup (rev (Interp.ds s)))).
Definition candidates_opcodeDup : list si_state := si_states.
Definition show_opcodeDup := si_show_state.

Definition first_disagreement_opcodeDup := find (fun x => negb (agree_opcodeDup x)) candidates_opcodeDup.

Eval vm_compute in (verdict "opcodeDup" show_opcodeDup agree_opcodeDup candidates_opcodeDup).
