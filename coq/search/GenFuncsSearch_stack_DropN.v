(** Counterexample search for stack.DropN (bscript/interpreter/stack.go) (printed as [stack_DropN] in gen/Funcs.v) against its meaning in the model's order (the right-hand side of C05_go_source_stack_DropN_is_model, Properties/Gen_stack_DropN.v for n = 1, 2, 3, and C05_go_source_stack_DropN_is_spec_all_n, Properties/GenAll_stack_DropN.v, for every n).
    NOT a proof and independent of proofs/GenFuncs_stack_DropN.v: it compiles whether or not the two sides agree and
    prints one line, "AGREE stack_DropN <candidates>" or "DISAGREE stack_DropN <input>" (see search/GenFuncsSearchLib.v,
    search/GenFuncsSearchInterp.v -- loaded textually below --, tools/gen_search.py).  Domain searched: the 354 data stacks of search/GenFuncsSearchInterp.v (0..6 items over a 12-item alphabet) x the arguments -1..7. *)
From Coq Require Import List ZArith NArith Bool String.
From Coq Require Import Strings.Byte.
From GoBT Require Import lib.Bytes lib.GoSem lib.GoInterp gen.Funcs search.GenFuncsSearchLib.
From GoBT Require model.Interp model.ScriptNum.
Import ListNotations.
Local Open Scope Z_scope.
Set Printing Width 1000000.
Load GenFuncsSearchInterp.

Definition agree_stack_DropN (x : list bytes * Z) : bool := let '(d, n) := x in (M_eq (si_option_eqb si_stack_eqb)) (st_view (stack_DropN n (rev d))) (Val (si_counted si_drop_n n d)).
Definition candidates_stack_DropN : list (list bytes * Z) := si_stacks_idx.
Definition show_stack_DropN := si_show_stack_idx.

Definition first_disagreement_stack_DropN := find (fun x => negb (agree_stack_DropN x)) candidates_stack_DropN.

Eval vm_compute in (verdict "stack_DropN" show_stack_DropN agree_stack_DropN candidates_stack_DropN).
