(** Counterexample search for stack.PopInt (bscript/interpreter/stack.go) (printed as [stack_PopInt] in gen/Funcs.v) against its meaning in the model's order (the right-hand side of C05_go_source_stack_PopInt_is_model, Properties/Gen_stack_PopInt.v).
    NOT a proof and independent of proofs/GenFuncs_stack_PopInt.v: it compiles whether or not the two sides agree and
    prints one line, "AGREE stack_PopInt <candidates>" or "DISAGREE stack_PopInt <input>" (see search/GenFuncsSearchLib.v,
    search/GenFuncsSearchInterp.v -- loaded textually below --, tools/gen_search.py).  Domain searched: the small interpreter states of search/GenFuncsSearchInterp.v (354 data stacks of 0..6 items over a 12-item alphabet x both eras x MINIMALDATA off / on) (the stack's maxNumLength / verifyMinimalData / afterGenesis as the engine sets them). *)
From Coq Require Import List ZArith NArith Bool String.
From Coq Require Import Strings.Byte.
From GoBT Require Import lib.Bytes lib.GoSem lib.GoInterp gen.Funcs search.GenFuncsSearchLib.
From GoBT Require model.Interp model.ScriptNum.
Import ListNotations.
Local Open Scope Z_scope.
Set Printing Width 1000000.
Load GenFuncsSearchInterp.

Definition agree_stack_PopInt (x : si_state) : bool :=
  let '(ag, md, d, a) := x in let c := si_ctx ag md in
  let mx := Interp.max_numlen c in let mn := Interp.has_flag c Interp.F_MINIMALDATA in
  (M_eq (pair_eqb si_stack_eqb (pair_eqb Z.eqb Bool.eqb))) (stack_PopInt mx mn ag (rev d)) (Val (match d with [] => (rev [], (sn_nil, true)) | x :: r => (rev r, sn_make x mx mn ag) end)).
Definition candidates_stack_PopInt : list si_state := si_states.
Definition show_stack_PopInt := si_show_state.

Definition first_disagreement_stack_PopInt := find (fun x => negb (agree_stack_PopInt x)) candidates_stack_PopInt.

Eval vm_compute in (verdict "stack_PopInt" show_stack_PopInt agree_stack_PopInt candidates_stack_PopInt).
