(** Counterexample search for stack.NipN (bscript/interpreter/stack.go) (printed as [stack_NipN] in gen/Funcs.v) against its meaning in the model's order (the right-hand side of C05_go_source_stack_NipN_is_model, Properties/Gen_stack_NipN.v).
    NOT a proof and independent of proofs/GenFuncs_stack_NipN.v: it compiles whether or not the two sides agree and
    prints one line, "AGREE stack_NipN <candidates>" or "DISAGREE stack_NipN <input>" (see search/GenFuncsSearchLib.v,
    search/GenFuncsSearchInterp.v -- loaded textually below --, tools/gen_search.py).  Domain searched: the 354 data stacks of search/GenFuncsSearchInterp.v (0..6 items over a 12-item alphabet) x the arguments -1..7. *)
From Coq Require Import List ZArith NArith Bool String.
From Coq Require Import Strings.Byte.
From GoBT Require Import lib.Bytes lib.GoSem lib.GoInterp gen.Funcs search.GenFuncsSearchLib.
From GoBT Require model.Interp model.ScriptNum.
Import ListNotations.
Local Open Scope Z_scope.
Set Printing Width 1000000.
Load GenFuncsSearchInterp.

Definition agree_stack_NipN (x : list bytes * Z) : bool := let '(d, n) := x in (M_eq (pair_eqb si_stack_eqb Bool.eqb)) (stack_NipN n (rev d)) (Val (rev (fst (nip_model n d)), snd (snd (nip_model n d)))).
Definition candidates_stack_NipN : list (list bytes * Z) := si_stacks_idx.
Definition show_stack_NipN := si_show_stack_idx.

Definition first_disagreement_stack_NipN := find (fun x => negb (agree_stack_NipN x)) candidates_stack_NipN.

Eval vm_compute in (verdict "stack_NipN" show_stack_NipN agree_stack_NipN candidates_stack_NipN).
