(** Counterexample search for the interpreter's own code under the function-body translator (the 20 methods of
    stack.go, the handlers and helpers of operations.go): the shared candidate generator, comparison and rendering.

    This file is LOADED TEXTUALLY ([Load GenFuncsSearchInterp.]) by search/GenFuncsSearch_<fn>.v, after that file has
    imported search.GenFuncsSearchLib: tools/gen_search.py copies only the library and the per-function file to its
    private directory, and [Load] finds this file through the load path of the Coq tree searched (-Q <tree> GoBT).  It
    is not compiled on its own and nothing here depends on gen/Funcs.v or on an equivalence proof.  The model sides of
    the comparisons are the right-hand sides of the exported theorems (Properties/Gen_stack_*.v, Gen_opcode*.v); the
    views [st_view] / [h_view] / [h_view2] and the model-order stack primitives [nip_model] / [peek_model] /
    [pop_model] those statements are written with are DEFINITIONS of proofs/GenFuncsInterpTac.v (a library that does
    not mention the printed functions).

    CANDIDATES: a few hundred small interpreter states --
      data stacks (model order, top first) of 0..6 items over the alphabet
        empty, 00, 80, 01, 81, 7f, ff, 0001, ffff7f, a 5-byte number, a 9-byte number, a 33-byte negative number:
        every stack of 0..2 items, every stack of 3 items over {empty, 01, 81, 7f, 0001}, 72 stacks of 4..6 items
        (the alphabet walked from every start with strides 1 and 5);
      alt stacks of 0..2 items (only for the functions that touch the alt stack);
      both eras (GENESIS flag off / on) x MINIMALDATA off / on;
      index / count arguments -1..7 for the stack methods that take one.
    Rendering: era=before|after,minimaldata=..,stack=[hex,...] (Go order: top LAST; the empty item is written empty),alt=[..],n=.. *)
From Coq Require Import List ZArith NArith Bool String.
From Coq Require Import Strings.Byte.
From GoBT Require Import lib.Bytes lib.GoSem lib.GoInterp proofs.GenFuncsInterpTac.
From GoBT Require model.Interp model.ScriptNum.
Import ListNotations.
Local Open Scope Z_scope.

(** ** the alphabet of items *)
Definition it_num5 : bytes := [x01; x02; x03; x04; x05].
Definition it_num9 : bytes := [xff; xff; xff; xff; xff; xff; xff; xff; x7f].
Definition it_neg33 : bytes := repeat x01 32 ++ [x81].
Definition si_items : list bytes :=
  [ []; [x00]; [x80]; [x01]; [x81]; [x7f]; [xff]; [x00; x01]; [xff; xff; x7f]; it_num5; it_num9; it_neg33 ].
Definition si_items_small : list bytes := [ []; [x01]; [x81]; [x7f]; [x00; x01] ].

(** ** stacks, in the MODEL's order (top first) *)
Definition si_walk (start stride len : nat) : list bytes :=
  map (fun j => nth ((start + j * stride) mod 12) si_items []) (seq 0 len).
Definition si_stacks : list (list bytes) :=
  [[]] ++ map (fun a => [a]) si_items
  ++ flat_map (fun a => map (fun b => [a; b]) si_items) si_items
  ++ flat_map (fun a => flat_map (fun b => map (fun c => [a; b; c]) si_items_small) si_items_small) si_items_small
  ++ flat_map (fun len => flat_map (fun stride => map (fun start => si_walk start stride len) (seq 0 12)) [1%nat; 5%nat]) [4%nat; 5%nat; 6%nat].
Definition si_alts : list (list bytes) := [ []; [[x01]]; [[]; [x81]] ].
Definition si_indexes : list Z := [-1; 0; 1; 2; 3; 4; 5; 6; 7].

(** ** interpreter states: (after genesis, MINIMALDATA, data stack, alt stack) *)
Definition si_state : Type := (bool * bool * list bytes * list bytes)%type.
Definition si_ctx (ag md : bool) : Interp.ctx :=
  Interp.mkCtx ((if ag then 2 ^ Interp.F_GENESIS else 0) + (if md then 2 ^ Interp.F_MINIMALDATA else 0))%N false 0 0 0 false.
Definition si_st (d a : list bytes) : Interp.st := Interp.mkSt d a [] [] 0 0 false [].
Definition si_pop (op : N) : Interp.pop := Interp.mkPop op 1 [] true.
Definition si_so : Interp.sigops := Interp.mkSigops (fun _ _ _ _ => Interp.OErr) (fun _ _ _ _ => Interp.OErr).

Definition si_states_with (alts : list (list bytes)) : list si_state :=
  flat_map (fun ag => flat_map (fun md => flat_map (fun d => map (fun a => (ag, md, d, a)) alts) si_stacks) [false; true]) [true; false].
Definition si_states : list si_state := si_states_with [[]].
Definition si_states_alt : list si_state := si_states_with si_alts.
(** ... with an index / count argument *)
Definition si_states_idx : list (si_state * Z) := flat_map (fun x => map (fun i => (x, i)) si_indexes) si_states.
(** stacks alone (the methods of stack.go that read no field besides the items) *)
Definition si_stacks_idx : list (list bytes * Z) := flat_map (fun d => map (fun i => (d, i)) si_indexes) si_stacks.

(** ** equality tests *)
Fixpoint si_list_eqb {A} (eqb : A -> A -> bool) (x y : list A) : bool :=
  match x, y with
  | [], [] => true
  | a :: r, b :: t => eqb a b && si_list_eqb eqb r t
  | _, _ => false
  end.
Definition si_bytes_eqb : bytes -> bytes -> bool := si_list_eqb (fun a b => (b2n a =? b2n b)%N).
Definition si_stack_eqb : list bytes -> list bytes -> bool := si_list_eqb si_bytes_eqb.
Definition si_option_eqb {A} (eqb : A -> A -> bool) (x y : option A) : bool :=
  match x, y with Some a, Some b => eqb a b | None, None => true | _, _ => false end.
Definition si_st_eqb (s t : Interp.st) : bool :=
  si_stack_eqb (Interp.ds s) (Interp.ds t) && si_stack_eqb (Interp.als s) (Interp.als t)
  && si_list_eqb N.eqb (Interp.cond s) (Interp.cond t) && si_list_eqb Bool.eqb (Interp.els s) (Interp.els t)
  && (Interp.nops s =? Interp.nops t) && Nat.eqb (Interp.last_sep s) (Interp.last_sep t) && Bool.eqb (Interp.early s) (Interp.early t)
  && Nat.eqb (List.length (Interp.cur s)) (List.length (Interp.cur t)).
Definition si_outcome_eqb (x y : Interp.outcome) : bool :=
  match x, y with
  | Interp.OOk s, Interp.OOk t => si_st_eqb s t
  | Interp.OReturn s, Interp.OReturn t => si_st_eqb s t
  | Interp.OErr, Interp.OErr => true
  | Interp.OPanic, Interp.OPanic => true
  | _, _ => false
  end.

(** ** a handler: the printed function seen through [h_view] / [h_view2] against [exec_handler] at its opcode *)
Definition si_agree_handler (op : N) (run : Interp.ctx -> Interp.st -> option Interp.outcome) (x : si_state) : bool :=
  let '(ag, md, d, a) := x in
  let c := si_ctx ag md in let s := si_st d a in
  si_option_eqb si_outcome_eqb (run c s) (Some (Interp.exec_handler si_so c (si_pop op) 0 s)).

(** ** rendering (stacks as the Go slices: top LAST) *)
Definition si_show_item (b : bytes) : string := match b with [] => "empty"%string | _ => hex_bytes b end.
Definition si_show_stack (d : list bytes) : string := ("[" ++ join "," (map si_show_item (rev d)) ++ "]")%string.
Definition si_show_state (x : si_state) : string :=
  let '(ag, md, d, a) := x in
  ("era=" ++ (if ag then "after" else "before") ++ ",minimaldata=" ++ show_bool md ++ ",stack=" ++ si_show_stack d ++ ",alt=" ++ si_show_stack a)%string.
Definition si_show_state_idx (x : si_state * Z) : string := (si_show_state (fst x) ++ ",n=" ++ dec_Z (snd x))%string.
Definition si_show_stack_idx (x : list bytes * Z) : string := ("stack=" ++ si_show_stack (fst x) ++ ",n=" ++ dec_Z (snd x))%string.
Definition si_show_stack_only (d : list bytes) : string := ("stack=" ++ si_show_stack d)%string.

(** ** the general meaning of the five counted stack methods (n < 1 is an error in Go), in the model's order *)
Definition si_counted (f : nat -> list bytes -> option (list bytes)) (n : Z) (d : list bytes) : option (list bytes) :=
  if n <? 1 then None else f (Z.to_nat n) d.
Definition si_drop_n (n : nat) (d : list bytes) : option (list bytes) :=
  if Nat.ltb (List.length d) n then None else Some (skipn n d).
