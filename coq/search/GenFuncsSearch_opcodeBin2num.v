(** Counterexample search for opcodeBin2num (bscript/interpreter/operations.go) (printed as [opcodeBin2num] in gen/Funcs.v) against the branch of [exec_handler] (model/Interp.v) for OP_BIN2NUM.
    NOT a proof and independent of proofs/GenFuncs_opcodeBin2num.v: it compiles whether or not the two sides agree and
    prints one line, "AGREE opcodeBin2num <candidates>" or "DISAGREE opcodeBin2num <input>" (see search/GenFuncsSearchLib.v,
    search/GenFuncsSearchInterp.v -- loaded textually below --, tools/gen_search.py).  Domain searched: the small interpreter states of search/GenFuncsSearchInterp.v (354 data stacks of 0..6 items over a 12-item alphabet x both eras x MINIMALDATA off / on). *)
From Coq Require Import List ZArith NArith Bool String.
From Coq Require Import Strings.Byte.
From GoBT Require Import lib.Bytes lib.GoSem lib.GoInterp gen.Funcs search.GenFuncsSearchLib.
From GoBT Require model.Interp model.ScriptNum.
Import ListNotations.
Local Open Scope Z_scope.
Set Printing Width 1000000.
Load GenFuncsSearchInterp.

Definition agree_opcodeBin2num : si_state -> bool :=
  si_agree_handler Interp.OP_BIN2NUM (fun c s => h_view s (opcodeBin2num (Interp.after_genesis c) (rev (Interp.ds s)))).
Definition candidates_opcodeBin2num : list si_state := si_states.
Definition show_opcodeBin2num := si_show_state.

Definition first_disagreement_opcodeBin2num := find (fun x => negb (agree_opcodeBin2num x)) candidates_opcodeBin2num.

Eval vm_compute in (verdict "opcodeBin2num" show_opcodeBin2num agree_opcodeBin2num candidates_opcodeBin2num).
