(** Counterexample search for verifyLockTime (bscript/interpreter/operations.go) (printed as [verifyLockTime] in gen/Funcs.v) against the negation of [verify_locktime] of model/Interp.v.
    NOT a proof and independent of proofs/GenFuncs_verifyLockTime.v: it compiles whether or not the two sides agree and
    prints one line, "AGREE verifyLockTime <candidates>" or "DISAGREE verifyLockTime <input>" (see search/GenFuncsSearchLib.v,
    tools/gen_search.py).  Domain searched: all triples over 0..12; txLockTime, lockTime over the values around 0, the two thresholds, 2^31, 2^32 and the int64 limits x threshold in {0, 1, 5, 4194304, 500000000}. *)
From Coq Require Import List ZArith NArith Bool String.
From Coq Require Import Strings.Byte.
From GoBT Require Import lib.Bytes lib.GoSem gen.Funcs search.GenFuncsSearchLib.
From GoBT Require model.Interp.
Import ListNotations.
Local Open Scope Z_scope.
Set Printing Width 1000000.

Definition agree_verifyLockTime (x : Z * Z * Z) : bool :=
  let '(a, t, l) := x in M_eq Bool.eqb (verifyLockTime a t l) (Val (negb (Interp.verify_locktime a t l))).
Definition lt_values : list Z :=
  flat_map around [0; 5; 4194304; 4259839; 500000000; 2147483648; 4294967295] ++
  [-9223372036854775808; -9223372036854775807; 9223372036854775806; 9223372036854775807].
Definition candidates_verifyLockTime : list (Z * Z * Z) :=
  flat_map (fun a => flat_map (fun t => map (fun l => (a, t, l)) (range_Z 13%N)) (range_Z 13%N)) (range_Z 13%N)
  ++ flat_map (fun a => flat_map (fun t => map (fun l => (a, t, l)) lt_values) [0; 1; 5; 4194304; 500000000]) lt_values.
Definition show_verifyLockTime (x : Z * Z * Z) : string :=
  let '(a, t, l) := x in ("txLockTime=" ++ dec_Z a ++ ",threshold=" ++ dec_Z t ++ ",lockTime=" ++ dec_Z l)%string.

Definition first_disagreement_verifyLockTime := find (fun x => negb (agree_verifyLockTime x)) candidates_verifyLockTime.

Eval vm_compute in (verdict "verifyLockTime" show_verifyLockTime agree_verifyLockTime candidates_verifyLockTime).
