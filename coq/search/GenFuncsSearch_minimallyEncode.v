(** Counterexample search for minimallyEncode (bscript/interpreter/number.go) (printed as [minimallyEncode] in gen/Funcs.v) against [minimally_encode] of model/ScriptNum.v.
    NOT a proof and independent of proofs/GenFuncs_minimallyEncode.v: it compiles whether or not the two sides agree and
    prints one line, "AGREE minimallyEncode <candidates>" or "DISAGREE minimallyEncode <input>" (see search/GenFuncsSearchLib.v,
    tools/gen_search.py).  Domain searched: the empty string, all 256 one-byte strings, two- and three-byte strings over a 27-byte alphabet, four-byte strings over 8 bytes, five-byte strings over {00,01,80,81}, strings of every length 2..80 and 252..258 with first / fill / last byte varied. *)
From Coq Require Import List ZArith NArith Bool String.
From Coq Require Import Strings.Byte.
From GoBT Require Import lib.Bytes lib.GoSem gen.Funcs search.GenFuncsSearchLib.
From GoBT Require model.ScriptNum.
Import ListNotations.
Local Open Scope Z_scope.
Set Printing Width 1000000.

Definition num_strings : list bdesc :=
  byte_strings_short
  ++ flat_map (fun a => flat_map (fun b => map (fun c => Lit [a; b; c]) alphabet) alphabet) alphabet
  ++ flat_map (fun a => flat_map (fun b => flat_map (fun c => map (fun d => Lit [a; b; c; d]) small_alphabet) small_alphabet) small_alphabet) small_alphabet
  ++ flat_map (fun a => flat_map (fun b => flat_map (fun c => flat_map (fun d => map (fun e => Lit [a; b; c; d; e]) [x00; x01; x80; x81]) [x00; x01; x80; x81]) [x00; x01; x80; x81]) [x00; x01; x80; x81]) [x00; x01; x80; x81].
Definition agree_minimallyEncode (d : bdesc) : bool :=
  let b := expand d in M_eq bytes_eqb (minimallyEncode b) (Val (ScriptNum.minimally_encode b)).
(** the loop of minimallyEncode is quadratic in the model of slices: the long strings with fewer first / last bytes *)
Definition candidates_minimallyEncode : list bdesc :=
  filter (fun d => match d with Rep f _ n _ => Nat.leb n 14 || existsb (byte_eqb f) [x00; x81] | Lit _ => true end) num_strings.
Definition show_minimallyEncode (d : bdesc) : string := show_bdesc d.

Definition first_disagreement_minimallyEncode := find (fun x => negb (agree_minimallyEncode x)) candidates_minimallyEncode.

Eval vm_compute in (verdict "minimallyEncode" show_minimallyEncode agree_minimallyEncode candidates_minimallyEncode).
