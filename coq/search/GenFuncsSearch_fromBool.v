(** Counterexample search for fromBool (bscript/interpreter/stack.go) (printed as [fromBool] in gen/Funcs.v) against [from_bool] of model/ScriptNum.v.
    NOT a proof and independent of proofs/GenFuncs_fromBool.v: it compiles whether or not the two sides agree and
    prints one line, "AGREE fromBool <candidates>" or "DISAGREE fromBool <input>" (see search/GenFuncsSearchLib.v,
    tools/gen_search.py).  Domain searched: both booleans. *)
From Coq Require Import List ZArith NArith Bool String.
From Coq Require Import Strings.Byte.
From GoBT Require Import lib.Bytes lib.GoSem gen.Funcs search.GenFuncsSearchLib.
From GoBT Require model.ScriptNum.
Import ListNotations.
Local Open Scope Z_scope.
Set Printing Width 1000000.

Definition agree_fromBool (v : bool) : bool := M_eq bytes_eqb (fromBool v) (Val (ScriptNum.from_bool v)).
Definition candidates_fromBool : list bool := [true; false].
Definition show_fromBool (v : bool) : string := show_bool v.

Definition first_disagreement_fromBool := find (fun x => negb (agree_fromBool x)) candidates_fromBool.

Eval vm_compute in (verdict "fromBool" show_fromBool agree_fromBool candidates_fromBool).
