(** Counterexample search for Script.IsP2SH (bscript/script.go) (printed as [Script_IsP2SH] in gen/Funcs.v) against [is_p2sh] of model/Classify.v (outcome incl. panic).
    NOT a proof and independent of proofs/GenFuncs_Script_IsP2SH.v: it compiles whether or not the two sides agree and
    prints one line, "AGREE Script_IsP2SH <candidates>" or "DISAGREE Script_IsP2SH <input>" (see search/GenFuncsSearchLib.v,
    tools/gen_search.py).  Domain searched: the P2PKH / P2SH / data templates with every byte position mutated through 27 values, every prefix of them, one byte appended; the empty, all one-byte and two-byte-alphabet strings, strings of every length 2..80 and 252..258. *)
From Coq Require Import List ZArith NArith Bool String.
From Coq Require Import Strings.Byte.
From GoBT Require Import lib.Bytes lib.GoSem gen.Funcs search.GenFuncsSearchLib.
From GoBT Require lib.Checked model.Classify.
Import ListNotations.
Local Open Scope Z_scope.
Set Printing Width 1000000.

Definition outcome_eqb (x y : Checked.outcome bool) : bool :=
  match x, y with
  | Checked.Ok a, Checked.Ok b => Bool.eqb a b
  | Checked.Err, Checked.Err => true | Checked.Panic, Checked.Panic => true | Checked.Fuel, Checked.Fuel => true
  | _, _ => false
  end.
Definition to_outcome {A} (m : M A) : Checked.outcome A :=
  match m with Val a => Checked.Ok a | Panic => Checked.Panic | NoFuel => Checked.Fuel end.
Definition templates : list bytes :=
  [ [x76; xa9; x14] ++ repeat x00 20 ++ [x88; xac];
    [xa9; x14] ++ repeat x00 20 ++ [x87];
    [x6a; x01; x02]; [x00; x6a; x01]; [x6a]; [x00; x6a] ].
Definition agree_Script_IsP2SH (b : bytes) : bool :=
  outcome_eqb (to_outcome (Script_IsP2SH b)) (Classify.is_p2sh b).
Definition candidates_Script_IsP2SH : list bytes := script_mutants templates ++ map expand byte_strings_short.
Definition show_Script_IsP2SH (b : bytes) : string := ("hex:" ++ hex_bytes b)%string.

Definition first_disagreement_Script_IsP2SH := find (fun x => negb (agree_Script_IsP2SH x)) candidates_Script_IsP2SH.

Eval vm_compute in (verdict "Script_IsP2SH" show_Script_IsP2SH agree_Script_IsP2SH candidates_Script_IsP2SH).
