(** Counterexample search for shiftCount (bscript/interpreter/operations.go) (printed as [shiftCount] in gen/Funcs.v) against the shift count of the OP_LSHIFT / OP_RSHIFT branch of [exec_handler] (model/Interp.v): the number limited to the bits of the operand.
    NOT a proof and independent of proofs/GenFuncs_shiftCount.v: it compiles whether or not the two sides agree and
    prints one line, "AGREE shiftCount <candidates>" or "DISAGREE shiftCount <input>" (see search/GenFuncsSearchLib.v,
    search/GenFuncsSearchInterp.v -- loaded textually below --, tools/gen_search.py).  Domain searched: the 12 items of search/GenFuncsSearchInterp.v as operands x the non-negative numbers 0..70, the boundaries of 8*len, 2^31, 2^63 and 2^64 with their neighbours. *)
From Coq Require Import List ZArith NArith Bool String.
From Coq Require Import Strings.Byte.
From GoBT Require Import lib.Bytes lib.GoSem lib.GoInterp gen.Funcs search.GenFuncsSearchLib.
From GoBT Require model.Interp model.ScriptNum.
Import ListNotations.
Local Open Scope Z_scope.
Set Printing Width 1000000.
Load GenFuncsSearchInterp.

Definition agree_shiftCount (x : bytes * Z) : bool :=
  let '(b, num) := x in
  M_eq Z.eqb (shiftCount num b) (Val (let bits := 8 * Interp.lenZ b in if num <? bits then num else bits)).
Definition candidates_shiftCount : list (bytes * Z) :=
  flat_map (fun b => map (fun n => (b, n)) (count_up 71 0 ++ [255; 256; 257; 263; 264; 265; 2147483647; 2147483648; 9223372036854775807; 9223372036854775808; 18446744073709551615; 18446744073709551616])) si_items.
Definition show_shiftCount (x : bytes * Z) : string := ("x=hex:" ++ hex_bytes (fst x) ++ ",num=" ++ dec_Z (snd x))%string.

Definition first_disagreement_shiftCount := find (fun x => negb (agree_shiftCount x)) candidates_shiftCount.

Eval vm_compute in (verdict "shiftCount" show_shiftCount agree_shiftCount candidates_shiftCount).
