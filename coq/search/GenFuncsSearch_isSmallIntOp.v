(** Counterexample search for isSmallIntOp (bscript/script.go) (printed as [isSmallIntOp] in gen/Funcs.v) against [is_small_int_op] of model/Classify.v.
    NOT a proof and independent of proofs/GenFuncs_isSmallIntOp.v: it compiles whether or not the two sides agree and
    prints one line, "AGREE isSmallIntOp <candidates>" or "DISAGREE isSmallIntOp <input>" (see search/GenFuncsSearchLib.v,
    tools/gen_search.py).  Domain searched: all 256 opcode values. *)
From Coq Require Import List ZArith NArith Bool String.
From Coq Require Import Strings.Byte.
From GoBT Require Import lib.Bytes lib.GoSem gen.Funcs search.GenFuncsSearchLib.
From GoBT Require model.Classify.
Import ListNotations.
Local Open Scope Z_scope.
Set Printing Width 1000000.

Definition agree_isSmallIntOp (v : N) : bool :=
  M_eq Bool.eqb (isSmallIntOp (Z.of_N v)) (Val (Classify.is_small_int_op v)).
Definition candidates_isSmallIntOp : list N := all_ops.
Definition show_isSmallIntOp (v : N) : string := dec_N v.

Definition first_disagreement_isSmallIntOp := find (fun x => negb (agree_isSmallIntOp x)) candidates_isSmallIntOp.

Eval vm_compute in (verdict "isSmallIntOp" show_isSmallIntOp agree_isSmallIntOp candidates_isSmallIntOp).
