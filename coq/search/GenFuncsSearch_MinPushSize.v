(** Counterexample search for bscript.MinPushSize (bscript/script.go) (printed as [MinPushSize] in gen/Funcs.v) against [min_push_size] of model/Push.v.
    NOT a proof and independent of proofs/GenFuncs_MinPushSize.v: it compiles whether or not the two sides agree and
    prints one line, "AGREE MinPushSize <candidates>" or "DISAGREE MinPushSize <input>" (see search/GenFuncsSearchLib.v,
    tools/gen_search.py).  Domain searched: the empty string, all 256 one-byte strings, byte strings of every length 2..80, 252..258, 65534..65538. *)
From Coq Require Import List ZArith NArith Bool String.
From Coq Require Import Strings.Byte.
From GoBT Require Import lib.Bytes lib.GoSem gen.Funcs search.GenFuncsSearchLib.
From GoBT Require model.Push.
Import ListNotations.
Local Open Scope Z_scope.
Set Printing Width 1000000.

Definition agree_MinPushSize (d : bdesc) : bool :=
  let b := expand d in M_eq Z.eqb (MinPushSize b) (Val (Z.of_N (Push.min_push_size b))).
Definition candidates_MinPushSize : list bdesc := byte_strings.
Definition show_MinPushSize (d : bdesc) : string := show_bdesc d.

Definition first_disagreement_MinPushSize := find (fun x => negb (agree_MinPushSize x)) candidates_MinPushSize.

Eval vm_compute in (verdict "MinPushSize" show_MinPushSize agree_MinPushSize candidates_MinPushSize).
