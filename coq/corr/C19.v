(** Correspondence cases for C19: a C05 case (program, context, verdict, number of AfterStep snapshots and
    their hash — observed with a recording debugger attached) plus the complete observed callback sequence, stack
    push/pop callbacks included, one character per event.
    [check]: C05's check AND the model's event list equals the lifecycle part of the observed sequence AND the
    complete sequence is accepted by the full automaton of model/DebugStack.v (stack callbacks paired and only
    where the documented order allows them) — or is empty: arguments rejected before a thread exists. *)
From Coq Require Import String Ascii List NArith ZArith Bool.
From Coq Require Import Strings.Byte.
From GoBT Require Import lib.Bytes lib.Hex model.Interp model.Debug model.DebugStack corr.Corr corr.C05.
Import ListNotations.

Record case19 := mkCase19 { k19_case : case; k19_trace : string }.

(** the observed callback sequence, one character per event:
    E BeforeExecute, e AfterExecute, S BeforeStep, s AfterStep, O BeforeExecuteOpcode, o AfterExecuteOpcode,
    C BeforeScriptChange, c AfterScriptChange, K AfterSuccess, R AfterError,
    u BeforeStackPush+AfterStackPush, d BeforeStackPop+AfterStackPop, x BeforeStackPop without AfterStackPop
    (anything else, e.g. the harness' '?' for an unpaired stack callback, does not parse) *)
Definition fev_of_ascii (a : ascii) : option fev :=
  if Ascii.eqb a "E" then Some (FL BE) else if Ascii.eqb a "e" then Some (FL AE)
  else if Ascii.eqb a "S" then Some (FL BS) else if Ascii.eqb a "s" then Some (FL AS)
  else if Ascii.eqb a "O" then Some (FL BO) else if Ascii.eqb a "o" then Some (FL AO)
  else if Ascii.eqb a "C" then Some (FL BC) else if Ascii.eqb a "c" then Some (FL AC)
  else if Ascii.eqb a "K" then Some (FL EOK) else if Ascii.eqb a "R" then Some (FL EER)
  else if Ascii.eqb a "u" then Some FPush else if Ascii.eqb a "d" then Some FPop
  else if Ascii.eqb a "x" then Some FPopFail else None.

Fixpoint parse_full (s : string) : option (list fev) :=
  match s with
  | EmptyString => Some []
  | String a r => match fev_of_ascii a, parse_full r with
                  | Some e, Some es => Some (e :: es)
                  | _, _ => None
                  end
  end.

Definition input_of (k : case) : exec_input :=
  mkExecInput (k_unlock k) (k_lock k) (k_flags k) (k_has_tx k) (k_has_prev k)
              (k_tx_lock k) (k_tx_version k) (k_in_seq k).

(** the run is a pre-Genesis pay-to-script-hash evaluation (the only runs in which stack callbacks may follow a
    script change) *)
Definition p2sh_run (k : case) : bool :=
  let flags := normalise_flags (k_flags k) in
  N.testbit flags F_BIP16 && negb (N.testbit flags F_GENESIS) && is_p2sh (k_lock k).

Definition check (k : case19) : bool :=
  C05.check (k19_case k) &&
  match parse_full (k19_trace k) with
  | None => false
  | Some full =>
      let observed := project full in
      evs_eqb (events_of (engine_execute_dbg no_sigops (input_of (k19_case k)))) observed &&
      match full with
      | [] => true
      | _ => full_lifecycle_ok (p2sh_run (k19_case k)) full && lifecycle_ok observed
      end
  end.
Definition mismatches := mismatches_with check.

Example parse_full_ex : option_map project (parse_full "ESOuosSOxeR") = Some [BE; BS; BO; AO; AS; BS; BO; AE; EER].
Proof. reflexivity. Qed.
