(** Correspondence cases for C19: a C05 case (program, context, verdict, number of AfterStep snapshots and
    their hash — observed with a recording debugger attached) plus the observed callback sequence projected
    to the lifecycle events (stack push/pop callbacks removed), as a space-separated string.
    [check]: C05's check AND the model's event list equals the observed one AND the observed one is accepted
    by the lifecycle automaton (or is empty: arguments rejected before a thread exists). *)
From Coq Require Import String Ascii List NArith ZArith Bool.
From Coq Require Import Strings.Byte.
From GoBT Require Import lib.Bytes lib.Hex model.Interp model.Debug corr.Corr corr.C05.
Import ListNotations.

Record case19 := mkCase19 { k19_case : case; k19_trace : string }.

(** split at spaces *)
Fixpoint tokens_aux (s : string) (cur : string) : list string :=
  match s with
  | EmptyString => match cur with EmptyString => [] | _ => [cur] end
  | String a r =>
      if Ascii.eqb a " "%char
      then match cur with EmptyString => tokens_aux r EmptyString | _ => cur :: tokens_aux r EmptyString end
      else tokens_aux r (cur ++ String a EmptyString)
  end.
Definition tokens (s : string) : list string := tokens_aux s EmptyString.

Definition ev_of_token (t : string) : option ev :=
  if String.eqb t "BE" then Some BE else if String.eqb t "AE" then Some AE
  else if String.eqb t "BS" then Some BS else if String.eqb t "AS" then Some AS
  else if String.eqb t "BO" then Some BO else if String.eqb t "AO" then Some AO
  else if String.eqb t "BC" then Some BC else if String.eqb t "AC" then Some AC
  else if String.eqb t "OK" then Some EOK else if String.eqb t "ER" then Some EER
  else None.

Fixpoint evs_of_tokens (l : list string) : option (list ev) :=
  match l with
  | [] => Some []
  | t :: r => match ev_of_token t, evs_of_tokens r with
              | Some e, Some es => Some (e :: es)
              | _, _ => None
              end
  end.
Definition parse_trace (s : string) : option (list ev) := evs_of_tokens (tokens s).

Definition input_of (k : case) : exec_input :=
  mkExecInput (k_unlock k) (k_lock k) (k_flags k) (k_has_tx k) (k_has_prev k)
              (k_tx_lock k) (k_tx_version k) (k_in_seq k).

Definition check (k : case19) : bool :=
  C05.check (k19_case k) &&
  match parse_trace (k19_trace k) with
  | None => false
  | Some observed =>
      evs_eqb (events_of (engine_execute_dbg no_sigops (input_of (k19_case k)))) observed &&
      match observed with [] => true | _ => lifecycle_ok observed end
  end.
Definition mismatches := mismatches_with check.

Example parse_trace_ex : parse_trace "BE BS BO AO AS BS BO AE ER" = Some [BE; BS; BO; AO; AS; BS; BO; AE; EER].
Proof. reflexivity. Qed.
