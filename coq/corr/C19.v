(** Correspondence cases for C19: a C05 case (program, context, verdict, number of AfterStep snapshots and
    their hash — observed with a recording debugger attached) plus the complete observed callback sequence, stack
    push/pop callbacks included, one character per event.
    [check]: C05's check AND the model's event list equals the lifecycle part of the observed sequence AND the
    complete sequence is accepted by the full automaton of model/DebugStack.v (stack callbacks paired and only
    where the documented order allows them) — or is empty: arguments rejected before a thread exists. *)
From Coq Require Import String Ascii List NArith ZArith Bool.
From Coq Require Import Strings.Byte.
From GoBT Require Import lib.Bytes lib.Hex model.Interp model.Debug model.DebugStack corr.Corr corr.C05.
Import ListNotations.

Record case19 := mkCase19 { k19_case : case; k19_trace : string }.

(** the observed callback sequence, one character per event:
    E BeforeExecute, e AfterExecute, S BeforeStep, s AfterStep, O BeforeExecuteOpcode, o AfterExecuteOpcode,
    C BeforeScriptChange, c AfterScriptChange, K AfterSuccess, R AfterError,
    u BeforeStackPush+AfterStackPush, d BeforeStackPop+AfterStackPop, x BeforeStackPop without AfterStackPop
    (anything else, e.g. the harness' '?' for an unpaired stack callback, does not parse) *)
Definition fev_of_ascii (a : ascii) : option fev :=
  if Ascii.eqb a "E" then Some (FL BE) else if Ascii.eqb a "e" then Some (FL AE)
  else if Ascii.eqb a "S" then Some (FL BS) else if Ascii.eqb a "s" then Some (FL AS)
  else if Ascii.eqb a "O" then Some (FL BO) else if Ascii.eqb a "o" then Some (FL AO)
  else if Ascii.eqb a "C" then Some (FL BC) else if Ascii.eqb a "c" then Some (FL AC)
  else if Ascii.eqb a "K" then Some (FL EOK) else if Ascii.eqb a "R" then Some (FL EER)
  else if Ascii.eqb a "u" then Some FPush else if Ascii.eqb a "d" then Some FPop
  else if Ascii.eqb a "x" then Some FPopFail else None.

Fixpoint parse_full (s : string) : option (list fev) :=
  match s with
  | EmptyString => Some []
  | String a r => match fev_of_ascii a, parse_full r with
                  | Some e, Some es => Some (e :: es)
                  | _, _ => None
                  end
  end.

Definition input_of (k : case) : exec_input :=
  mkExecInput (k_unlock k) (k_lock k) (k_flags k) (k_has_tx k) (k_has_prev k)
              (k_tx_lock k) (k_tx_version k) (k_in_seq k).

(** the run is a pre-Genesis pay-to-script-hash evaluation (the only runs in which stack callbacks may follow a
    script change) *)
Definition p2sh_run (k : case) : bool :=
  let flags := normalise_flags (k_flags k) in
  N.testbit flags F_BIP16 && negb (N.testbit flags F_GENESIS) && is_p2sh (k_lock k).

Definition check (k : case19) : bool :=
  C05.check (k19_case k) &&
  match parse_full (k19_trace k) with
  | None => false
  | Some full =>
      let observed := project full in
      evs_eqb (events_of (engine_execute_dbg no_sigops (input_of (k19_case k)))) observed &&
      match full with
      | [] => true
      | _ => full_lifecycle_ok (p2sh_run (k19_case k)) full && lifecycle_ok observed
      end
  end.
Definition mismatches := mismatches_with check.

Example parse_full_ex : option_map project (parse_full "ESOuosSOxeR") = Some [BE; BS; BO; AO; AS; BS; BO; AE; EER].
Proof. reflexivity. Qed.

(** ** The library's own debugger object (debug.NewDebugger; model/DebugFanout.v).
    A C19 case plus: the Attach calls made on the object, in order - two characters per call, the hook (E e S s O o C c K R
    as above, p BeforeStackPush, P AfterStackPush, q BeforeStackPop, Q AfterStackPop) and the label of the recording
    handler passed - and the log the handlers wrote (two characters per handler call: hook, label).
    [check_fan]: the lifecycle part of the observed callback sequence is the model's trace and the whole is accepted by
    the automaton of model/DebugStack.v (as [check]); the model object built by the same [attach] calls, its [dispatch]
    run over that callback sequence (stack callbacks spelled out), writes the same log. *)
From GoBT Require Import model.DebugFanout.

Record case19f := mkCase19F { k19f_case : case19; k19f_regs : string; k19f_log : string }.

Definition fevent_of_ascii (a : ascii) : option fevent :=
  if Ascii.eqb a "E" then Some HBeforeExecute else if Ascii.eqb a "e" then Some HAfterExecute
  else if Ascii.eqb a "S" then Some HBeforeStep else if Ascii.eqb a "s" then Some HAfterStep
  else if Ascii.eqb a "O" then Some HBeforeExecuteOpcode else if Ascii.eqb a "o" then Some HAfterExecuteOpcode
  else if Ascii.eqb a "C" then Some HBeforeScriptChange else if Ascii.eqb a "c" then Some HAfterScriptChange
  else if Ascii.eqb a "K" then Some HAfterSuccess else if Ascii.eqb a "R" then Some HAfterError
  else if Ascii.eqb a "p" then Some HBeforeStackPush else if Ascii.eqb a "P" then Some HAfterStackPush
  else if Ascii.eqb a "q" then Some HBeforeStackPop else if Ascii.eqb a "Q" then Some HAfterStackPop
  else None.

Fixpoint parse_pairs (s : string) : option (list (fevent * ascii)) :=
  match s with
  | EmptyString => Some []
  | String a (String l r) =>
      match fevent_of_ascii a, parse_pairs r with
      | Some e, Some es => Some ((e, l) :: es)
      | _, _ => None
      end
  | _ => None
  end.

Fixpoint log_eqb (a b : list (fevent * ascii)) : bool :=
  match a, b with
  | [], [] => true
  | (e, l) :: a', (e', l') :: b' => fevent_eqb e e' && Ascii.eqb l l' && log_eqb a' b'
  | _, _ => false
  end.

Definition check_fan (k : case19f) : bool :=
  let k19 := k19f_case k in
  match parse_full (k19_trace k19), parse_pairs (k19f_regs k), parse_pairs (k19f_log k) with
  | Some full, Some regs, Some log =>
      evs_eqb (events_of (engine_execute_dbg no_sigops (input_of (k19_case k19)))) (project full) &&
      match full with
      | [] => true
      | _ => full_lifecycle_ok (p2sh_run (k19_case k19)) full
      end &&
      log_eqb (fan_replay (recording_fanout regs) (blank_calls (expand full)) []) log
  | _, _, _ => false
  end.
Definition mismatches_fan := mismatches_with check_fan.

Example check_fan_ex :
  let k := mkCase (unhex "51") (unhex "00") 0 false false 0 0 0 ObsErr 2 "" 0 in
  (* OP_1 | OP_0: E S O u o C c s S O u o C c s e d R; handlers sb (registered first), Ea, sa, pa, qa *)
  check_fan (mkCase19F (mkCase19 k "ESOuoCcsSOuoCcsedR") "sbEasapaqa" "Eapasbsapasbsaqa") = true /\
  (* reverse order / a handler skipped / a handler twice / handlers of one callback not consecutive *)
  check_fan (mkCase19F (mkCase19 k "ESOuoCcsSOuoCcsedR") "sbEasapaqa" "Eapasasbpasasbqa") = false /\
  check_fan (mkCase19F (mkCase19 k "ESOuoCcsSOuoCcsedR") "sbEasapaqa" "Eapasbpasbsaqa") = false /\
  check_fan (mkCase19F (mkCase19 k "ESOuoCcsSOuoCcsedR") "sbEasapaqa" "Eapasbsasapasbsaqa") = false /\
  check_fan (mkCase19F (mkCase19 k "ESOuoCcsSOuoCcsedR") "sbEasapaqa" "Easbpasapasbsaqa") = false.
Proof. vm_compute. repeat split; reflexivity. Qed.

(** ** The data argument of the stack callbacks (model/DebugStackData.v; round 8).
    A case is the sequence of stack callbacks observed in one run of the real engine with a read-only debugger: for
    every BeforeStackPush / AfterStackPush / BeforeStackPop / AfterStackPop the two stacks of the State it was shown
    (top first) and the item it was handed; the lifecycle callbacks in between are marks.
    [check_data]: the sequence is accepted by [data_ok] - the item AfterStackPush reports is the item BeforeStackPush
    announced and the new top of the one stack that grew, AfterStackPop reports the item the one stack that shrank lost,
    a pop without after-callback saw an empty stack and ends the run - the checker that accepts every trace of the
    instrumented two-stack machine ([irun_data_ok]) and is the inductive specification [DataOK] ([data_ok_iff]). *)
From GoBT Require Import model.DebugStackData.

Record case19d := mkCase19D { k19d_events : list sev }.

Definition check_data (k : case19d) : bool := data_ok (k19d_events k).
Definition mismatches_data := mismatches_with check_data.

Example check_data_ex :
  (* OP_1 OP_7 | OP_TOALTSTACK: E S O (push 01) o s S O (push 07) o C c s S O (pop 07) (push 07 on alt) o (alt dropped) C c s e (pop) K *)
  check_data (mkCase19D [SMark; SBeforePush (mkStacks [] []) (unhex "01"); SAfterPush (mkStacks [unhex "01"] []) (unhex "01"); SMark;
     SBeforePush (mkStacks [unhex "01"] []) (unhex "07"); SAfterPush (mkStacks [unhex "07"; unhex "01"] []) (unhex "07"); SMark;
     SBeforePop (mkStacks [unhex "07"; unhex "01"] []); SAfterPop (mkStacks [unhex "01"] []) (unhex "07");
     SBeforePush (mkStacks [unhex "01"] []) (unhex "07"); SAfterPush (mkStacks [unhex "01"] [unhex "07"]) (unhex "07"); SMark;
     SBeforePop (mkStacks [unhex "01"] [unhex "07"]); SAfterPop (mkStacks [unhex "01"] []) (unhex "07"); SMark;
     SBeforePop (mkStacks [unhex "01"] []); SAfterPop (mkStacks [] []) (unhex "01"); SMark]) = true /\
  (* AfterStackPush handed the top of the data stack for the push onto the alt stack *)
  check_data (mkCase19D [SBeforePush (mkStacks [unhex "01"] []) (unhex "07"); SAfterPush (mkStacks [unhex "01"] [unhex "07"]) (unhex "01")]) = false.
Proof. vm_compute. split; reflexivity. Qed.
