(** Correspondence cases for C09: what the Go decoders were observed to do on hostile input
    (verdict, bytes consumed, measured allocation) against the models the theorems of
    Properties/C09.v are about. *)
From Coq Require Import String List NArith ZArith Bool.
From Coq Require Import Strings.Byte.
From Flocq Require Import Core IEEE754.BinarySingleNaN.
From GoBT Require Import lib.Bytes lib.Hex lib.Parse lib.VarInt model.Tx model.Alloc model.Amount model.Json corr.Corr.
Import ListNotations.
Local Open Scope N_scope.

Inductive entry := ETx | ETxs | EIn | EInExt | EOut.

(** a float64 as the harness prints it: sign, integer significand, exponent (value = m * 2^e, exact) *)
Definition f64_lit (neg : bool) (m : N) (e : Z) : f64 :=
  match m with
  | N0 => B754_zero neg
  | Npos p => binary_normalize 53 1024 _ _ mode_NE (if neg then Zneg p else Zpos p) e false
  end.

Inductive case :=
(** binary decoders: verdict, bytes reported, NewTxFromBytes verdict (ETx only), measured TotalAlloc delta *)
| CDec (e : entry) (b : bytes) (ok : bool) (used : N) (fb_ok : bool) (alloc : N)
(** JSON, after encoding/json: the struct it filled in, verdict, and on success the observables *)
| CJTx (j : tx_j) (ok : bool) (tx_hex : string)
| CJNodeTx (j : node_tx_j) (ok : bool) (tx_hex : string)
| CJNodeTxs (l : list node_tx_j) (ok : bool) (all_hex : string)
| CJNodeOut (j : option node_output_j) (ok : bool) (sats : N) (lock_hex : string)
| CJUtxo (j : utxo_j) (ok : bool) (txid_hex : string) (vout : N) (lock_hex : string) (sats : N)
| CJNodeUtxo (j : utxo_node_j) (ok : bool) (txid_hex : string) (vout : N) (lock_hex : string) (sats : N).

(** TotalAlloc is process-wide: a GC cycle starting its workers or refilling a pool inside the
    measured window adds a few KB that are not the decoder's (observed: about 2.3 KB, once in
    ~80 000 cases even with the smaller of several runs reported) *)
Definition noise_allowance : N := 4096.

Definition proj {A} (r : ares A) : option (bool * N * N) :=
  match r with
  | AOk _ n _ al => Some (true, n, al)
  | AErr n al => Some (false, n, al)
  | AFuel => None
  | APanic => None       (* the cases are runs that returned: a model panic is a mismatch *)
  end.

Definition run (e : entry) (b : bytes) : option (bool * N * N) :=
  match e with
  | ETx => proj (a_tx_from_stream b)
  | ETxs => proj (a_read_txs b)
  | EIn => proj (a_read_input false b)
  | EInExt => proj (a_read_input true b)
  | EOut => proj (a_read_output b)
  end.

Definition jres_hex (r : jres gtx) : option string :=
  match r with
  | JOk g => match gtx_bytes g with JOk b => Some (hex_of b) | _ => None end
  | _ => None
  end.

Definition opt_str_eqb (a : option string) (b : string) : bool :=
  match a with Some s => String.eqb s b | None => false end.

Definition is_err {A} (r : jres A) : bool := match r with JErr => true | _ => false end.

Fixpoint all_hex (l : list gtx) : option string :=
  match l with
  | [] => Some EmptyString
  | g :: r => match gtx_bytes g, all_hex r with
              | JOk b, Some s => Some (hex_of b ++ s)%string
              | _, _ => None
              end
  end.

Definition check (c : case) : bool :=
  match c with
  | CDec e b ok used fb alloc =>
      match run e b with
      | Some (mok, mused, malloc) =>
          Bool.eqb ok mok && (used =? mused) &&
          (* the allocation model over-approximates what the runtime did (up to the runtime's own
             one-off allocations, which TotalAlloc also counts: [noise_allowance]); and the
             theorem's bound holds *)
          (alloc <=? malloc + noise_allowance) && (alloc <=? alloc_bound (lenN b)) &&
          (match e with ETx => Bool.eqb fb (mok && (mused =? lenN b)) | _ => true end)
      | None => false
      end
  | CJTx j ok h =>
      let r := unmarshal_tx (mkGTx 0 [] [] 0) j in
      if ok then opt_str_eqb (jres_hex r) h else is_err r
  | CJNodeTx j ok h =>
      let r := node_unmarshal_tx new_tx j in
      if ok then opt_str_eqb (jres_hex r) h else is_err r
  | CJNodeTxs l ok h =>
      match node_unmarshal_txs l with
      | JOk gs => ok && opt_str_eqb (all_hex gs) h
      | JErr => negb ok
      | JPanic => false
      end
  | CJNodeOut j ok sats lock =>
      match node_unmarshal_output j with
      | JOk o => ok && (go_sats o =? sats) && String.eqb (script_string (go_lock o)) lock
      | JErr => negb ok
      | JPanic => false
      end
  | CJUtxo j ok t v l s =>
      match unmarshal_utxo zero_utxo j with
      | JOk u => ok && String.eqb (hex_of (u_txid u)) t && (u_vout u =? v) && String.eqb (script_string (u_lock u)) l && (u_sats u =? s)
      | JErr => negb ok
      | JPanic => false
      end
  | CJNodeUtxo j ok t v l s =>
      match node_unmarshal_utxo zero_utxo j with
      | JOk u => ok && String.eqb (hex_of (u_txid u)) t && (u_vout u =? v) && String.eqb (script_string (u_lock u)) l && (u_sats u =? s)
      | JErr => negb ok
      | JPanic => false
      end
  end.

Definition mismatches := mismatches_with check.
