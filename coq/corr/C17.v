(** Correspondence cases for C17: observed behaviour of EncodeBIP276 / DecodeBIP276 / ValidateAddress
    (on bitcoin-script: texts) against the model's executable definitions. *)
From Coq Require Import String List NArith ZArith Bool.
From Coq Require Import Strings.Byte.
From GoBT Require Import lib.Bytes lib.Hex lib.Str model.Bip276 corr.Corr.
Import ListNotations.
Local Open Scope string_scope.

Inductive case :=
| CEnc (p : string) (version network : Z) (d : bytes) (out : string)
| CDec (text : string) (res : option (string * Z * Z * bytes))
| CVal (text : string) (ok : bool).

Definition check (c : case) : bool :=
  match c with
  | CEnc p v n d out => String.eqb (encode_bip276 (mkBip276 p v n d)) out
  | CDec text res =>
      match decode_bip276 text, res with
      | DOk s, Some (p, v, n, d) =>
          String.eqb (b_prefix s) p && Z.eqb (b_version s) v && Z.eqb (b_network s) n &&
          bytes_eqb (b_data s) d
      | DErr _, None => true
      | _, _ => false
      end
  | CVal text ok =>
      (* only the BIP276 branch belongs to this property; the Base58 branch is C15's *)
      has_prefix "bitcoin-script:" text &&
      Bool.eqb (validate_address_with (fun _ => false) text) ok
  end.

Definition mismatches := mismatches_with check.
