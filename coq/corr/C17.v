(** Correspondence cases for C17: observed behaviour of EncodeBIP276 / DecodeBIP276 / ValidateAddress
    (on bitcoin-script: texts) against the model's executable definitions. *)
From Coq Require Import String List NArith ZArith Bool.
From Coq Require Import Strings.Byte.
From GoBT Require Import lib.Bytes lib.Hex lib.Str model.Bip276 model.AsmArena model.Bip276Mem corr.Corr.
Import ListNotations.
Local Open Scope string_scope.

Inductive case :=
| CEnc (p : string) (version network : Z) (d : bytes) (out : string)
| CDec (text : string) (res : option (string * Z * Z * bytes))
| CVal (text : string) (ok : bool)
(* the payload handed to the encoder as a window (offset, length, capacity) of a larger buffer of the caller's:
   [buf] is the buffer before the call, [written] the places that read differently after it (with what they read
   then), [out] the text.  The model (model/Bip276Mem.v) computes the text from the bytes the window denotes and
   the buffer afterwards — which is the buffer before. *)
| CEncWin (p : string) (version network : Z) (buf : bytes) (off len cap : N) (written : list (N * byte)) (out : string).

Definition check (c : case) : bool :=
  match c with
  | CEnc p v n d out => String.eqb (encode_bip276 (mkBip276 p v n d)) out
  | CDec text res =>
      match decode_bip276 text, res with
      | DOk s, Some (p, v, n, d) =>
          String.eqb (b_prefix s) p && Z.eqb (b_version s) v && Z.eqb (b_network s) n &&
          bytes_eqb (b_data s) d
      | DErr _, None => true
      | _, _ => false
      end
  | CVal text ok =>
      (* only the BIP276 branch belongs to this property; the Base58 branch is C15's *)
      has_prefix "bitcoin-script:" text &&
      Bool.eqb (validate_address_with (fun _ => false) text) ok
  | CEncWin p v n buf off len cap written out =>
      let '(after, text) := encode_mem buf (mkCall p v n (Win (N.to_nat off) (N.to_nat len) (N.to_nat cap))) in
      String.eqb text out && bytes_eqb after (apply_writes buf written)
  end.

Definition mismatches := mismatches_with check.
