(** Correspondence cases for C20: the observed behaviour of the real ordinals flows and of the
    inscription codec is compared with the executable model (model/Ord.v, model/Inscription.v) — the
    definitions the theorems of Properties/C20.v are about.  Long observations (serialised
    transactions, preimages, payloads) are compared through SHA-256 computed on both sides. *)
From Coq Require Import String List NArith Bool.
From Coq Require Import Strings.Byte.
From GoBT Require Import lib.Bytes lib.Hex lib.Sha256 model.Tx spec.FeeSpec model.Fees model.Change
  spec.DigestSpec model.SigHash model.SigHashWire spec.OrdSpec model.Ord model.Inscription model.InscriptionArgs
  corr.Corr.
Import ListNotations.
Local Open Scope N_scope.
Local Open Scope bool_scope.

Definition sha_is (b : bytes) (h : string) : bool := String.eqb (hex_of (sha256 b)) h.

(** what a flow was observed to return: the transaction (SHA-256 of its extended serialisation), an error, a panic *)
Inductive obs := ObsTx (ext_sha : string) | ObsErr | ObsPanic.

Definition obs_matches (r : flow tx) (o : obs) : bool :=
  match r, o with
  | Done t, ObsTx h => sha_is (tx_bytes true t) h
  | Fail _, ObsErr => true
  | Crash, ObsPanic => true
  | _, _ => false
  end.

(** the signer of the correspondence: the unlocking scripts the real unlocker.Simple produced, by input
    index; it answers only when asked for the hash type that is in the observed signature
    (unlocking script = push(DER ++ hash type) push(pubkey): the hash type is byte number [first byte]) *)
Definition sig_flag (u : bytes) : N :=
  match u with l :: _ => b2n (nth (N.to_nat (b2n l)) u x00) | [] => 0 end.
Fixpoint lookup (tbl : list (N * bytes)) (j : N) : option bytes :=
  match tbl with
  | [] => None
  | (k, u) :: r => if k =? j then Some u else lookup r j
  end.
Definition table_signer (tbl : list (N * bytes)) : tx -> N -> N -> option bytes :=
  fun _ j flags => match lookup tbl j with
                   | Some u => if sig_flag u =? flags then Some u else None
                   | None => None
                   end.

Inductive parse_obs := PObsOk (ct_sha data_sha : string) (prefix : bytes) | PObsErr | PObsPanic.
Definition parse_matches (r : pi_res) (o : parse_obs) : bool :=
  match r, o with
  | PIOk ct d p, PObsOk cs ds p' => sha_is ct cs && sha_is d ds && bytes_eqb p p'
  | PIErr, PObsErr => true
  | PIPanic, PObsPanic => true
  | _, _ => false
  end.

Inductive case :=
(** listing flows: ListOrdinalForSale then AcceptOrdinalSaleListing(2Dummies) *)
| CList (two_d : bool) (ord : utxo) (seller_out : output) (listed : option utxo) (us : list utxo)
        (buyer dummy change_script : bytes) (q : quote)
        (seller_unlock : bytes) (unlocks : list (N * bytes))
        (listing final : obs)
        (preimage_sha : string)        (* CalcInputPreimage(final, k, 0xc3) as computed by the library *)
        (prev_sats : list N)           (* values of the previous outputs, from the scenario *)
        (fifo_dst : N)                 (* where the harness's own FIFO computation puts the ordinal *)
(** bid flows: MakeBidToBuy1SatOrdinal(2Dummies) then AcceptBidToBuy1SatOrdinal(2Dummies) *)
| CBid (two_d : bool) (ord : utxo) (bid : N) (listed : utxo) (us : list utxo)
       (buyer dummy change_script : bytes) (q expected : quote)
       (dummy_prev dummy_pay seller_script : bytes)
       (unlocks : list (N * bytes)) (seller_unlock : bytes)
       (pstx final : obs) (prev_sats : list N) (fifo_dst : N)
(** Inscribe then ParseInscription *)
| CInscribe (prefix ct data : bytes) (enriched : option (list bytes)) (script_sha : string) (parsed : parse_obs)
(** Inscribe then ParseInscription, the argument object as Go was given it: Data nil ([None]) or not, EnrichedArgs nil
    ([None]), OpReturnData nil ([Some None]) or a list whose elements may be nil (model/InscriptionArgs.v) *)
| CInscribeArgs (prefix ct : bytes) (data : option bytes) (enriched : option (option (list (option bytes))))
                (script_sha : string) (parsed : parse_obs)
(** ParseInscription of an arbitrary script *)
| CParse (script : bytes) (parsed : parse_obs)
(** InscribeSpecificOrdinal on inputs with these values: the amount of the first output, or an error *)
| CRange (in_sats : list N) (input_idx sat_idx : N) (amount : option N) (fifo_dst : N).

Definition ord_index (two_d : bool) : nat := if two_d then 2%nat else 1%nat.

(** the ordinal's first satoshi, by the specification's FIFO numbering over the scenario's values,
    lands in output [dst], and that output pays [script] *)
Definition fifo_ok (t : tx) (prev_sats : list N) (k : nat) (dst : N) (script : bytes) : bool :=
  match output_of_sat (map out_sats (tx_outs t)) (first_sat_of_input prev_sats k) with
  | Some d => (N.of_nat d =? dst) &&
              match nth_error (tx_outs t) d with Some o => bytes_eqb (out_script o) script | None => false end
  | None => false
  end.

Fixpoint list_n_eqb (a b : list N) : bool :=
  match a, b with
  | [], [] => true
  | x :: a', y :: b' => (x =? y) && list_n_eqb a' b'
  | _, _ => false
  end.

Definition sres_bytes (r : sres) : option bytes := match r with SOk b => Some b | _ => None end.

Definition check (c : case) : bool :=
  match c with
  | CList two_d ou so listed us buyer dummy chg q su unlocks lobs fobs psha prev dst =>
      let l := list_ordinal (table_signer [(0, su)]) ou so in
      obs_matches l lobs &&
      match l with
      | Done lt =>
          let a := (if two_d then accept_listing_2d else accept_listing)
                     (table_signer unlocks) listed lt us buyer dummy chg q in
          obs_matches a fobs &&
          match a with
          | Done at_ =>
              let k := ord_index two_d in
              (* the seller's SINGLE|ANYONECANPAY preimage: listing at 0 = accepted at k = the library's *)
              match sres_bytes (fst (calc_input_preimage lt 0 195)),
                    sres_bytes (fst (calc_input_preimage at_ (N.of_nat k) 195)),
                    forkid_preimage (wire_tx at_) k (u_script ou) (u_sats ou) 195 with
              | Some p0, Some pk, Some ps => bytes_eqb p0 pk && bytes_eqb pk ps && sha_is pk psha
              | _, _, _ => false
              end &&
              (* the seller's output at the committed index *)
              match nth_error (tx_outs at_) k with
              | Some o => (out_sats o =? out_sats so) && bytes_eqb (out_script o) (out_script so)
              | None => false
              end &&
              list_n_eqb (map in_sats (tx_ins at_)) prev &&
              fifo_ok at_ prev k dst buyer
          | _ => true
          end
      | _ => true
      end
  | CBid two_d ou bid listed us buyer dummy chg q eq dprev dpay ss unlocks su pobs fobs prev dst =>
      let p := (if two_d then make_bid_2d else make_bid)
                 (table_signer unlocks) bid (u_txid ou) (u_vout ou) us buyer dummy chg q dprev dpay in
      obs_matches p pobs &&
      match p with
      | Done pt =>
          let k := ord_index two_d in
          let a := if two_d
                   then accept_bid_2d (table_signer [(2, su)])
                          (firstn 2 us ++ [listed] ++ skipn 2 us) bid eq pt ss
                   else accept_bid (table_signer [(1, su)]) listed bid eq pt ss in
          obs_matches a fobs &&
          match a with
          | Done at_ =>
              match nth_error (tx_outs at_) k with
              | Some o => (out_sats o =? bid) && bytes_eqb (out_script o) ss
              | None => false
              end &&
              fifo_ok at_ prev k dst buyer
          | _ => true
          end
      | _ => true
      end
  | CInscribe prefix ct data enriched ssha parsed =>
      match inscribe_script prefix ct data enriched with
      | Some s => sha_is s ssha && parse_matches (parse_inscription s) parsed
      | None => String.eqb ssha ""
      end
  | CInscribeArgs prefix ct data enriched ssha parsed =>
      match inscribe_args_script (mkInscArgs prefix data ct enriched) with
      | Some s => sha_is s ssha && parse_matches (parse_inscription s) parsed
      | None => String.eqb ssha ""
      end
  | CParse s parsed => parse_matches (parse_inscription s) parsed
  | CRange sats i j amount dst =>
      let ins := map (fun v => mkInput [] 0 [] 0 v None) sats in
      match inscribe_specific_ordinal (mkTx 1 ins [] 0) [] [] [] None i j [], amount with
      | RaOk t, Some a =>
          match tx_outs t with
          | o0 :: o1 :: [] =>
              (out_sats o0 =? a) && (out_sats o1 =? 1) &&
              match output_of_sat [out_sats o0; out_sats o1] (first_sat_of_input sats (N.to_nat i) + j) with
              | Some d => N.of_nat d =? dst
              | None => dst =? 99
              end
          | _ => false
          end
      | RaErr _, None => true
      | _, _ => false
      end
  end.

Definition mismatches := mismatches_with check.
