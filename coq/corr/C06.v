(** Correspondence cases for the signature opcodes (C06): scripts, flags, the spending transaction, the
    input index and the spent value, the go-bk oracle tables the run needs, and what the implementation
    did (verdict, number of AfterStep snapshots, SHA-256 of all snapshots).

    The oracle tables are computed by the harness by calling go-bk directly (ParsePubKey,
    ParseSignature / ParseDERSignature, Signature.Verify) — never through the interpreter.  A Verify
    query that is not in the table makes the model run end in the panic verdict ([mk_sigops_loud]),
    which never equals an observed verdict of a healthy run: a missing entry cannot go unnoticed. *)
From Coq Require Import String List NArith ZArith Bool.
From Coq Require Import Strings.Byte.
From GoBT Require Import lib.Bytes lib.Hex lib.Sha256 model.Tx model.SigHash model.ScriptNum model.Interp
  model.CheckSig corr.Corr corr.C05.
Import ListNotations.

Record case := mkCase {
  k_unlock : bytes; k_lock : bytes; k_flags : N;
  k_tx : tx;                 (* the spending transaction; the unlocking script of input k_idx is installed from k_unlock *)
  k_idx : N;                 (* input index *)
  k_sats : N;                (* value of the previous output *)
  k_blobs : list bytes;      (* the distinct public keys and signatures (without hash type) of the tables *)
  k_pub : list (N * bool);                     (* blob index -> ParsePubKey succeeds *)
  k_sig : list (N * bool * bool);              (* blob index, DER-strict parser? -> parse succeeds *)
  k_ver : list (N * N * bool * bytes * bool);  (* key blob, signature blob, DER-strict parser?, hash -> Verify *)
  k_obs : obs; k_steps : N; k_trace_sha : string
}.

Fixpoint blob_index (blobs : list bytes) (b : bytes) (i : N) : option N :=
  match blobs with
  | [] => None
  | x :: r => if bytes_eqb x b then Some i else blob_index r b (i + 1)%N
  end.

Fixpoint find_pub (tbl : list (N * bool)) (i : N) : option bool :=
  match tbl with
  | [] => None
  | (j, r) :: rest => if (i =? j)%N then Some r else find_pub rest i
  end.
Fixpoint find_sig (tbl : list (N * bool * bool)) (i : N) (der : bool) : option bool :=
  match tbl with
  | [] => None
  | (j, d, r) :: rest => if (i =? j)%N && Bool.eqb d der then Some r else find_sig rest i der
  end.
Fixpoint find_ver (tbl : list (N * N * bool * bytes * bool)) (pk sg : N) (der : bool) (h : bytes) : option bool :=
  match tbl with
  | [] => None
  | (p, s, d, hh, r) :: rest =>
      if (p =? pk)%N && (s =? sg)%N && Bool.eqb d der && bytes_eqb hh h then Some r else find_ver rest pk sg der h
  end.

(** a parse query outside the tables answers "parses", so that the run goes on to the Verify query,
    which is then outside the table as well and ends the run loudly *)
Definition table_oracle (k : case) : sig_oracle :=
  mkOracle
    (fun pk => match blob_index (k_blobs k) pk 0 with
               | Some i => match find_pub (k_pub k) i with Some r => r | None => true end
               | None => true
               end)
    (fun der sg => match blob_index (k_blobs k) sg 0 with
                   | Some i => match find_sig (k_sig k) i der with Some r => r | None => true end
                   | None => true
                   end)
    (fun pk h sg der => match blob_index (k_blobs k) pk 0, blob_index (k_blobs k) sg 0 with
                        | Some i, Some j => find_ver (k_ver k) i j der h
                        | _, _ => None
                        end).

Definition run_case (k : case) : verdict * list snapshot :=
  let t := engine_tx (k_tx k) (k_idx k) (k_unlock k) (k_lock k) (k_sats k) in
  match nthN (tx_ins t) (k_idx k) with
  | None => (VPanic, [])
  | Some inp =>
      engine_execute (mk_sigops_loud (table_oracle k) t (k_idx k))
        (mkExecInput (k_unlock k) (k_lock k) (k_flags k) true true
                     (Z.of_N (tx_lock t)) (Z.of_N (tx_version t)) (Z.of_N (in_seq inp)))
  end.

Definition check (k : case) : bool :=
  let '(v, tr) := run_case k in
  match v, k_obs k with
  | VOk, ObsOk | VErr, ObsErr =>
      (N.of_nat (length tr) =? k_steps k)%N && String.eqb (hex_of (sha256 (ser_trace tr))) (k_trace_sha k)
  | _, _ => false     (* in particular VPanic: a table miss, or a panic the theorems exclude *)
  end.

Definition mismatches := mismatches_with check.
