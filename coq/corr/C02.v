(** Correspondence for C02 (FORKID signature hash): see corr/SigHashCorr.v. *)
From GoBT Require Export corr.SigHashCorr.
