(** Correspondence for C02 (FORKID signature hash): the cases shared with C03 (corr/SigHashCorr.v: calls on one
    transaction object, node vectors) and, for C02 only, HISTORIES of setter / builder calls — some of them
    refused — on one long-lived transaction object with digests computed in between (harness/sighash/
    c02_failed_calls.go).  The transaction the model computes the digests of is never read back from the
    library: it is [t0] taken through the model of the calls (model/SigBuild.v), where the model itself decides
    whether PreviousTxIDAdd / PreviousTxIDAddStr / From / FromUTXOs fail and must agree with the verdict observed. *)
From Coq Require Import String List NArith Bool.
From Coq Require Import Strings.Byte.
From GoBT Require Import lib.Bytes lib.Hex model.Tx model.SigHash corr.Corr.
From GoBT Require Export corr.SigHashCorr model.SigBuild.
Import ListNotations.
Local Open Scope N_scope. Local Open Scope bool_scope.

(** one entry of a history: a call with the verdict observed (true: it returned an error), or digests computed at
    that point (with the SHA-256 of the object's ExtendedBytes after them) *)
Inductive hstep :=
| HOp (o : op) (failed : bool)
| HCalls (after_sha : string) (cs : list call).

Inductive case :=
| Shared (c : SigHashCorr.case)
| CHist (t0 : tx) (steps : list hstep).

(** the shared constructors under their own names, so that the case files of the shared families read as before *)
Definition CCalls (legacy : bool) (t : tx) (after_sha : string) (calls : list call) : case :=
  Shared (SigHashCorr.CCalls legacy t after_sha calls).
Definition CVecForkid (raw script : bytes) (idx ht : N) (expected : string) : case :=
  Shared (SigHashCorr.CVecForkid raw script idx ht expected).
Definition CVecLegacy (raw script : bytes) (idx ht : N) (expected : string) : case :=
  Shared (SigHashCorr.CVecLegacy raw script idx ht expected).

Fixpoint check_hist (t : tx) (l : list hstep) : bool :=
  match l with
  | [] => true
  | HOp o failed :: r =>
      match step_op t o failed with
      | Some t' => check_hist t' r
      | None => false                      (* the model's verdict on the call differs from the library's *)
      end
  | HCalls after cs :: r =>
      let '(ok, t') := check_calls false t cs in
      ok && sha_is (tx_bytes true t') after && check_hist t' r
  end.

Definition check (c : case) : bool :=
  match c with
  | Shared c => SigHashCorr.check c
  | CHist t0 steps => check_hist t0 steps
  end.

Definition mismatches := mismatches_with check.
