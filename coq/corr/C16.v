(** Correspondence cases for C16: the JSON documents go-bt produced (library and node dialect)
    and what came back from unmarshalling them, against model/Json.v and model/Amount.v - the
    definitions the theorems of Properties/C16.v are about. *)
From Coq Require Import String List NArith ZArith Bool.
From Coq Require Import Strings.Byte.
From Flocq Require Import Core IEEE754.BinarySingleNaN.
From GoBT Require Import lib.Bytes lib.Hex lib.Parse lib.VarInt lib.Sha256 model.Tx model.Amount model.Json model.JsonScripts model.JsonHeap corr.Corr.
Import ListNotations.
Local Open Scope N_scope.

(** node documents as observed: the float as its IEEE-754 bit pattern; asm / type / reqSigs are
    bscript's business (the oracle of model/Json.v) and are not compared *)
Record onode_in := mkOIn { oi_hex : string; oi_txid : string; oi_vout : N; oi_seq : N }.
Record onode_out := mkOOut { oo_bits : N; oo_n : N; oo_hex : string }.
Record onode_tx := mkOTx { ot_version : N; ot_lock : N; ot_txid : string; ot_hash : string; ot_size : N;
                           ot_hex : string; ot_vin : list onode_in; ot_vout : list onode_out }.

Inductive case :=
(** amounts start .. start+count-1: SHA-256 over LE64(Float64bits(value)) ++ LE64(satoshis read back) *)
| CAmtRange (start count : N) (sha : string)
| CAmtList (l : list N) (sha : string)
(** a transaction at some build stage: both documents, and the serialisation of what each
    unmarshals to (node: with the hex shortcut, and with "hex" removed = the vin/vout path) *)
| CTx (g : gtx) (lib : tx_j) (lib_back : string) (node : onode_tx) (node_back node_fields_back : string)
| CTxs (gs : list gtx) (lib_back node_back : string)
(** an output: library document, node document, satoshis and script read back from each *)
| COut (o : goutput) (lib : output_j) (lib_back_sats : N) (lib_back_lock : string)
       (node : onode_out) (node_back_sats : N) (node_back_lock : string)
(** a UTXO: library document, node document (amount bits), fields read back from each *)
| CUtxo (u : gutxo) (lib : utxo_j) (lib_back : utxo_j) (node_txid : string) (node_vout : N) (node_spk : string)
        (node_bits : N) (node_back : utxo_j)
(** what the node document says about one script: asm / reqSigs / type of an output carrying it, asm of an input
    carrying it as unlocking script - against bscript's inspection code as modelled (model/JsonScripts.v
    [script_info_bscript]: the instance the "any script" theorems of Properties/C16.v are about) *)
| CNodeScript (s : bytes) (asm : string) (reqsigs : N) (type : string) (in_asm : string)
(** a list of UTXOs (round 8: repeated and near-identical elements): what each dialect's list read back *)
| CUtxos (us : list gutxo) (lib_back node_back : list utxo_j)
(** a transaction of 64 KiB and more (round 8). [g] is written with generator expressions ([lcg_bytes], [big_outs],
    [big_ins]) for its big parts; of the documents only digests are observed: the library document's txid, the length
    of its hex string and the SHA-256 of the bytes it encodes, the SHA-256 over the scripts its inputs and outputs list
    and their counts, the node document's txid and size, and the SHA-256 of the serialisation of what each of the three
    documents (library, node, node without "hex") unmarshals to. *)
| CBig (g : gtx) (lib_txid : string) (lib_hex_len : N) (lib_hex_sha lib_scripts_sha : string) (n_ins n_outs : N)
       (node_txid : string) (node_size : N) (lib_back_sha node_back_sha node_fields_back_sha : string)
(** a list of UTXOs marshalled and unmarshalled into a destination WITH A PAST (round 8; model/JsonHeap.v): the heap
    before (buffers, UTXO objects referring to them), the destination's backing array (object addresses; nil and
    repeated pointers allowed), the list marshalled; observed: the fields of the elements of the destination afterwards,
    and of EVERY object of the heap afterwards (reused or not).  [node]: through utxos.NodeJSON(). *)
| CInto (node : bool) (bufs : list bytes) (objs : list uobj) (backing : list (option nat)) (src : list gutxo)
        (result objs_after : list utxo_j).

(** the generators of harness/cmd/c16/round8.go: x' = (1103515245 x + 12345) mod 2^31, byte = x' / 2^16 mod 256 *)
Fixpoint lcg_go (n : nat) (x : N) : bytes :=
  match n with
  | O => []
  | S k => let x' := (x * 1103515245 + 12345) mod 2147483648 in n2b (x' / 65536) :: lcg_go k x'
  end.
Definition lcg_bytes (seed n : N) : bytes := lcg_go (N.to_nat n) (seed mod 2147483648).
(** [big_outs seed k]: output i pays i satoshis to the P2PKH script of the hash lcg_bytes (seed+i) 20 *)
Fixpoint big_outs_go (k : nat) (seed i : N) : list goutput :=
  match k with
  | O => []
  | S k' => mkGOutput i (Some ([x76; xa9; x14] ++ lcg_bytes (seed + i) 20 ++ [x88; xac])) :: big_outs_go k' seed (N.succ i)
  end.
Definition big_outs (seed k : N) : list goutput := big_outs_go (N.to_nat k) seed 0.
(** [big_ins seed k]: input i spends output i of the txid lcg_bytes (seed+i) 32; even ones carry an empty unlocking
    script, odd ones none yet *)
Fixpoint big_ins_go (k : nat) (seed i : N) : list ginput :=
  match k with
  | O => []
  | S k' => mkGInput (lcg_bytes (seed + i) 32) i (if N.even i then Some [] else None) 4294967295 0 None :: big_ins_go k' seed (N.succ i)
  end.
Definition big_ins (seed k : N) : list ginput := big_ins_go (N.to_nat k) seed 0.

Definition trivial_info (_ : bytes) : jres (string * N * string) := JOk (EmptyString, 0, EmptyString).

Definition amt_bytes (sat : N) : bytes :=
  let v := of_sat sat in le_enc 8 (f64_bits v) ++ le_enc 8 (to_sat v).
Fixpoint amt_range (n : nat) (k : N) : bytes :=
  match n with O => [] | S m => amt_bytes k ++ amt_range m (N.succ k) end.
Definition sha_is (b : bytes) (h : string) : bool := String.eqb (hex_of (sha256 b)) h.

Definition opt_eqb {A} (f : A -> A -> bool) (a b : option A) : bool :=
  match a, b with Some x, Some y => f x y | None, None => true | _, _ => false end.
Fixpoint list_eqb {A} (f : A -> A -> bool) (a b : list A) : bool :=
  match a, b with
  | [], [] => true
  | x :: a', y :: b' => f x y && list_eqb f a' b'
  | _, _ => false
  end.
Definition input_j_eqb (a b : input_j) : bool :=
  String.eqb (ij_unlock a) (ij_unlock b) && String.eqb (ij_txid a) (ij_txid b) &&
  (ij_vout a =? ij_vout b) && (ij_seq a =? ij_seq b).
Definition output_j_eqb (a b : output_j) : bool :=
  (oj_sats a =? oj_sats b) && String.eqb (oj_lock a) (oj_lock b).
Definition tx_j_eqb (a b : tx_j) : bool :=
  String.eqb (tj_txid a) (tj_txid b) && String.eqb (tj_hex a) (tj_hex b) &&
  list_eqb (opt_eqb input_j_eqb) (tj_ins a) (tj_ins b) &&
  list_eqb (opt_eqb output_j_eqb) (tj_outs a) (tj_outs b) &&
  (tj_version a =? tj_version b) && (tj_lock a =? tj_lock b).
Definition utxo_j_eqb (a b : utxo_j) : bool :=
  String.eqb (uj_txid a) (uj_txid b) && (uj_vout a =? uj_vout b) &&
  String.eqb (uj_lock a) (uj_lock b) && (uj_sats a =? uj_sats b).

Definition obs_in (i : option node_input_j) : option onode_in :=
  match i with
  | Some i' => match ni_scriptsig i' with
               | Some ss => Some (mkOIn (ss_hex ss) (ni_txid i') (ni_vout i') (ni_seq i'))
               | None => None end
  | None => None
  end.
Definition obs_out (o : option node_output_j) : option onode_out :=
  match o with
  | Some o' => match no_spk o' with
               | Some spk => Some (mkOOut (f64_bits (no_value o')) (no_n o') (spk_hex spk))
               | None => None end
  | None => None
  end.
Definition oin_eqb (a b : onode_in) : bool :=
  String.eqb (oi_hex a) (oi_hex b) && String.eqb (oi_txid a) (oi_txid b) && (oi_vout a =? oi_vout b) && (oi_seq a =? oi_seq b).
Definition oout_eqb (a b : onode_out) : bool :=
  (oo_bits a =? oo_bits b) && (oo_n a =? oo_n b) && String.eqb (oo_hex a) (oo_hex b).
Definition node_matches (m : node_tx_j) (o : onode_tx) : bool :=
  (nt_version m =? ot_version o) && (nt_lock m =? ot_lock o) && String.eqb (nt_txid m) (ot_txid o) &&
  String.eqb (nt_hash m) (ot_hash o) && (nt_size m =? ot_size o) && String.eqb (nt_hex m) (ot_hex o) &&
  list_eqb (opt_eqb oin_eqb) (map obs_in (nt_vin m)) (map Some (ot_vin o)) &&
  list_eqb (opt_eqb oout_eqb) (map obs_out (nt_vout m)) (map Some (ot_vout o)).

Definition jres_hex (r : jres gtx) : option string :=
  match r with
  | JOk g => match gtx_bytes g with JOk b => Some (hex_of b) | _ => None end
  | _ => None
  end.
Definition opt_str_eqb (a : option string) (b : string) : bool :=
  match a with Some s => String.eqb s b | None => false end.
Fixpoint all_hex (l : list gtx) : option string :=
  match l with
  | [] => Some EmptyString
  | g :: r => match gtx_bytes g, all_hex r with
              | JOk b, Some s => Some (hex_of b ++ s)%string
              | _, _ => None
              end
  end.
Definition no_hex (j : node_tx_j) : node_tx_j :=
  mkNT (nt_version j) (nt_lock j) (nt_txid j) (nt_hash j) (nt_size j) EmptyString (nt_vin j) (nt_vout j).
Definition utxo_fields (u : gutxo) : utxo_j :=
  mkUtxoJ (hex_of (u_txid u)) (u_vout u) (script_string (u_lock u)) (u_sats u).

Definition jres_sha_is (r : jres gtx) (h : string) : bool :=
  match r with
  | JOk g => match gtx_bytes g with JOk b => sha_is b h | _ => false end
  | _ => false
  end.
Definition hex_sha_is (s h : string) : bool := match hexdecode s with Some b => sha_is b h | None => false end.
(** the scripts a library document lists: inputs' unlocking scripts, then outputs' locking scripts *)
Definition doc_scripts (j : tx_j) : bytes :=
  List.concat (map (fun i => match i with Some i' => unhex (ij_unlock i') | None => [] end) (tj_ins j)) ++
  List.concat (map (fun o => match o with Some o' => unhex (oj_lock o') | None => [] end) (tj_outs j)).

Definition check (c : case) : bool :=
  match c with
  | CAmtRange start count sha => sha_is (amt_range (N.to_nat count) start) sha
  | CAmtList l sha => sha_is (List.concat (map amt_bytes l)) sha
  | CTx g lib lib_back node node_back node_fields_back =>
      match marshal_tx g, node_marshal_tx trivial_info g with
      | JOk j, JOk nj =>
          tx_j_eqb j lib && opt_str_eqb (jres_hex (unmarshal_tx (mkGTx 0 [] [] 0) j)) lib_back &&
          node_matches nj node && opt_str_eqb (jres_hex (node_unmarshal_tx new_tx nj)) node_back &&
          opt_str_eqb (jres_hex (node_unmarshal_tx new_tx (no_hex nj))) node_fields_back
      | _, _ => false
      end
  | CTxs gs lib_back node_back =>
      match marshal_txs gs, node_marshal_txs trivial_info gs with
      | JOk js, JOk njs =>
          match unmarshal_txs js, node_unmarshal_txs njs with
          | JOk a, JOk b => opt_str_eqb (all_hex a) lib_back && opt_str_eqb (all_hex b) node_back
          | _, _ => false
          end
      | _, _ => false
      end
  | COut o lib ls ll node ns nl =>
      match marshal_output o, node_marshal_output trivial_info o with
      | JOk j, JOk nj =>
          output_j_eqb j lib &&
          match unmarshal_output j with
          | JOk o' => (go_sats o' =? ls) && String.eqb (script_string (go_lock o')) ll | _ => false end &&
          opt_eqb oout_eqb (obs_out (Some nj)) (Some node) &&
          match node_unmarshal_output (Some nj) with
          | JOk o' => (go_sats o' =? ns) && String.eqb (script_string (go_lock o')) nl | _ => false end
      | _, _ => false
      end
  | CUtxo u lib lib_back ntxid nvout nspk nbits node_back =>
      match marshal_utxo u, node_marshal_utxo u with
      | JOk j, JOk nj =>
          utxo_j_eqb j lib &&
          match unmarshal_utxo zero_utxo j with JOk u' => utxo_j_eqb (utxo_fields u') lib_back | _ => false end &&
          String.eqb (un_txid nj) ntxid && (un_vout nj =? nvout) && String.eqb (un_spk nj) nspk &&
          (f64_bits (un_amount nj) =? nbits) &&
          match node_unmarshal_utxo zero_utxo nj with JOk u' => utxo_j_eqb (utxo_fields u') node_back | _ => false end
      | _, _ => false
      end
  | CNodeScript s asm n ty in_asm =>
      match node_script_docs s with
      | JOk (o, i) =>
          match no_spk o, ni_scriptsig i with
          | Some spk, Some ss =>
              String.eqb (spk_asm spk) asm && (spk_reqsigs spk =? n) && String.eqb (spk_type spk) ty &&
              String.eqb (spk_hex spk) (hex_of s) && String.eqb (ss_asm ss) in_asm && String.eqb (ss_hex ss) (hex_of s)
          | _, _ => false
          end
      | _ => false
      end
  | CUtxos us lib_back node_back =>
      match marshal_utxos us, node_marshal_utxos us with
      | JOk js, JOk njs =>
          match unmarshal_utxos js, node_unmarshal_utxos njs with
          | JOk a, JOk b => list_eqb utxo_j_eqb (map utxo_fields a) lib_back && list_eqb utxo_j_eqb (map utxo_fields b) node_back
          | _, _ => false
          end
      | _, _ => false
      end
  | CBig g ltxid hexlen hexsha scriptsha nins nouts ntxid nsize lsha nsha nfsha =>
      match marshal_tx g, node_marshal_tx trivial_info g with
      | JOk j, JOk nj =>
          String.eqb (tj_txid j) ltxid && (N.of_nat (String.length (tj_hex j)) =? hexlen) && hex_sha_is (tj_hex j) hexsha &&
          sha_is (doc_scripts j) scriptsha && (N.of_nat (List.length (tj_ins j)) =? nins) && (N.of_nat (List.length (tj_outs j)) =? nouts) &&
          String.eqb (nt_txid nj) ntxid && (nt_size nj =? nsize) && String.eqb (nt_hex nj) (tj_hex j) &&
          jres_sha_is (unmarshal_tx (mkGTx 0 [] [] 0) j) lsha &&
          jres_sha_is (node_unmarshal_tx new_tx nj) nsha &&
          jres_sha_is (node_unmarshal_tx new_tx (no_hex nj)) nfsha
      | _, _ => false
      end
  | CInto node bufs objs backing src result objs_after =>
      let h := mkHeap bufs objs in
      let r := if node
               then jbind (node_marshal_utxos src) (node_unmarshal_utxos_into h backing)
               else jbind (marshal_utxos src) (unmarshal_utxos_into h backing) in
      match r with
      | JOk (h', l) =>
          list_eqb utxo_j_eqb (map (fun a => utxo_fields (view h' a)) l) result &&
          list_eqb utxo_j_eqb (map (fun a => utxo_fields (view h' a)) (seq 0 (List.length objs))) objs_after
      | _ => false
      end
  end.

Definition mismatches := mismatches_with check.
