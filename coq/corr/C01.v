(** Correspondence cases for C01: the implementation's observed behaviour is compared with the
    model's executable definitions (the same ones the theorems of Properties/C01.v are about). *)
From Coq Require Import String List NArith.
From Coq Require Import Strings.Byte.
From GoBT Require Import lib.Bytes lib.Hex lib.Parse lib.VarInt lib.Sha256 model.Tx model.TxsInto model.TxText corr.Corr.
Import ListNotations.
Local Open Scope N_scope.

Inductive case :=
| CBuild (t : tx) (std_len ext_len : N) (txid_hex : string) (ext_sha : string)
| CParse (b : bytes) (ok : bool) (used : N) (std_sha ext_sha : string) (from_bytes_ok : bool)
| CList (b : bytes) (ok : bool) (used : N) (count : N) (all_ext_sha : string)
(* Txs.ReadFrom into a destination that held [held] transactions before: verdict, bytes consumed and the number of
   transactions it holds afterwards (model/TxsInto.v; the contents are compared with the fresh destination's on the
   Go side, and the fresh destination's with [read_txs] in the CList case of the same bytes) *)
| CListInto (held : N) (b : bytes) (ok : bool) (used : N) (count : N)
(* bt.NewTxFromString on a text (given as its bytes; model/TxText.v): verdict and, when accepted, the extended
   serialisation of the result.  The texts are hex of requests and of accepted transactions followed by material of
   every kind (hex digits, a second transaction, a dangling digit, characters that are not hex digits) *)
| CText (text : bytes) (ok : bool) (ext_sha : string).

(** long observations are compared through SHA-256 of the same canonical bytes on both sides *)
Definition sha_is (b : bytes) (h : string) : bool := String.eqb (hex_of (sha256 b)) h.

Definition check (c : case) : bool :=
  match c with
  | CBuild t std ext id es =>
      (lenN (tx_bytes false t) =? std) && (lenN (tx_bytes true t) =? ext) &&
      String.eqb (hex_of (txid t)) id && sha_is (tx_bytes true t) es
  | CParse b ok used std ext fb =>
      match read_tx b with
      | POk p n _ =>
          ok && (n =? used) && sha_is (tx_bytes false (p_tx p)) std &&
          sha_is (tx_bytes true (p_tx p)) ext &&
          Bool.eqb fb (n =? lenN b) &&
          (* the model's own format flag: a minimally encoded input re-serialises to itself *)
          (if p_min p then bytes_eqb (tx_bytes (p_ext p) (p_tx p)) (firstn (N.to_nat n) b) else true)
      | PErr n => negb ok && (n =? used) && negb fb
      | PFuel => false
      end
  | CList b ok used count all =>
      match read_txs b with
      | POk (l, _) n _ =>
          ok && (n =? used) && (N.of_nat (List.length l) =? count) &&
          sha_is (concat (map (fun p => tx_bytes true (p_tx p)) l)) all
      | PErr n => negb ok && (n =? used)
      | PFuel => false
      end
  | CListInto held b ok used count =>
      match read_txs_into (dst_of held) b with
      | IOk l n _ => ok && (n =? used) && (N.of_nat (List.length l) =? count)
      | IErr _ n => negb ok && (n =? used)
      | IFuel => false
      end
  | CText text ok ext =>
      match tx_from_string (string_of_list_byte text) with
      | ROk p => ok && sha_is (tx_bytes true (p_tx p)) ext
      | RErr => negb ok
      | RFuel => false
      end
  end.

Definition mismatches := mismatches_with check.
