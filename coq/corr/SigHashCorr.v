(** Correspondence cases shared by C02 and C03: what go-bt's CalcInputPreimage /
    CalcInputPreimageLegacy / CalcInputSignatureHash were observed to do is compared with the model
    (model/SigHash.v, the definitions the theorems are about); the node's own vectors are evaluated
    against the SPECIFICATION (spec/DigestSpec.v). *)
From Coq Require Import String List NArith Bool.
From Coq Require Import Strings.Byte.
From GoBT Require Import lib.Bytes lib.Hex lib.Parse lib.VarInt lib.Sha256 model.Tx
  spec.DigestSpec model.SigHash model.SigHashWire corr.Corr.
Import ListNotations.
Local Open Scope N_scope. Local Open Scope bool_scope.

(** one library call pair on input [c_idx] with hash type [c_ht]: the preimage function
    (class, length, SHA-256 of the preimage) and CalcInputSignatureHash (class, hash).
    class: 0 ok, 1 input missing, 2 previous txid missing, 3 previous script missing, 9 panic *)
Record call := mkCall {
  c_idx : N; c_ht : N;
  c_pre_cls : N; c_pre_len : N; c_pre_sha : string;
  c_hash_cls : N; c_hash : string }.

Inductive case :=
| CCalls (legacy : bool) (t : tx) (after_sha : string) (calls : list call)
| CVecForkid (raw script : bytes) (idx ht : N) (expected : string)
| CVecLegacy (raw script : bytes) (idx ht : N) (expected : string).

Definition cls_of (r : sres) : N :=
  match r with
  | SOk _ => 0
  | SErr ErrInputNoExist => 1
  | SErr ErrEmptyPreviousTxID => 2
  | SErr ErrEmptyPreviousTxScript => 3
  | SPanic => 9
  | SFatal => 10
  | SFuel => 11
  end.

Definition sha_is (b : bytes) (h : string) : bool := String.eqb (hex_of (sha256 b)) h.

(** the calls of a case are made one after another on the same transaction object, so the model
    threads its post-state *)
Definition check_call (legacy : bool) (t : tx) (c : call) : bool * tx :=
  let '(rp, t1) := if legacy then calc_input_preimage_legacy t (c_idx c) (c_ht c)
                   else calc_input_preimage t (c_idx c) (c_ht c) in
  let '(rh, t2) := calc_input_signature_hash t1 (c_idx c) (c_ht c) in
  let okp := (cls_of rp =? c_pre_cls c) &&
             match rp with
             | SOk p => (lenN p =? c_pre_len c) && sha_is p (c_pre_sha c)
             | _ => true
             end in
  let okh := (cls_of rh =? c_hash_cls c) &&
             match rh with
             | SOk h => String.eqb (hex_of h) (c_hash c)
             | _ => true
             end in
  (okp && okh, t2)%bool.

Fixpoint check_calls (legacy : bool) (t : tx) (cs : list call) : bool * tx :=
  match cs with
  | [] => (true, t)
  | c :: r => let '(ok, t') := check_call legacy t c in
              let '(ok2, t'') := check_calls legacy t' r in (ok && ok2, t'')%bool
  end.

Definition check (c : case) : bool :=
  match c with
  | CCalls legacy t after calls =>
      let '(ok, t') := check_calls legacy t calls in ok && sha_is (tx_bytes true t') after
  | CVecForkid raw script idx ht expected =>
      (* node vector: amount 0, hash printed in reversed (uint256 display) order *)
      match decode_wire raw with
      | Some tx => match forkid_sighash tx (N.to_nat idx) script 0 ht with
                   | Some h => String.eqb (hex_of (rev h)) expected
                   | None => false
                   end
      | None => false
      end
  | CVecLegacy raw script idx ht expected =>
      match decode_wire raw with
      | Some tx => String.eqb (hex_of (rev (legacy_sighash script tx (N.to_nat idx) ht))) expected
      | None => false
      end
  end.

Definition mismatches := mismatches_with check.
