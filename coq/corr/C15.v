(** Correspondence cases for C15: observed behaviour of go-bk's base58, the address constructors,
    ValidateAddress, NewAddressFromString, NewP2PKHFromAddress / PayToAddress, the P2PKH script
    constructors, PublicKeyHash / IsP2PKH / Addresses against the model's executable definitions. *)
From Coq Require Import String List NArith Bool.
From Coq Require Import Strings.Byte.
From GoBT Require Import model.Tx spec.FeeSpec model.Fees model.Change corr.FeeCorr.
From GoBT Require Import lib.Bytes lib.Hex lib.Str lib.Base58 model.Address model.AddressTx corr.Corr.
Import ListNotations.
Local Open Scope string_scope.

(** long strings are written by the harness as expressions: [srep u n] is u repeated n times *)
Fixpoint srep_nat (u : string) (n : nat) : string :=
  match n with O => EmptyString | S k => String.append u (srep_nat u k) end.
Definition srep (u : string) (n : N) : string := srep_nat u (N.to_nat n).

(** a call of one of the TRANSACTION METHODS that accept an address string, on a transaction in some state *)
Inductive txop :=
| OpPay (sats : N)          (* Tx.PayToAddress(s, sats) *)
| OpAdd (sats : N)          (* Tx.AddP2PKHOutputFromAddress(s, sats) *)
| OpChange (q : quote).     (* Tx.ChangeToAddress(s, q) *)

Inductive case :=
(* base58.Encode(b) = enc ; base58.Decode(enc) is covered by CB58Dec *)
| CB58Enc (b : bytes) (enc : string)
| CB58Dec (s : string) (dec : bytes)
(* NewAddressFromPublicKeyHash(h, mainnet): AddressString, PublicKeyHash *)
| CAddrHash (h : bytes) (mainnet : bool) (addr pkh_hex : string)
(* NewAddressFromPublicKey on a key whose compressed serialisation is k *)
| CAddrKey (k : bytes) (mainnet : bool) (addr pkh_hex : string)
(* NewAddressFromPublicKeyString(hex) *)
| CAddrKeyStr (k_hex : string) (mainnet : bool) (res : option (string * string))
(* one string through every acceptor: ValidateAddress verdict, NewAddressFromString's hash,
   NewP2PKHFromAddress's script, the script of the output PayToAddress appended *)
| CString (s : string) (validate_ok : bool) (from_string : option string)
          (script : option bytes) (pay : option bytes)
(* NewP2PKHFromPubKeyBytes(k) for any length of k; NewP2PKHFromPubKeyHash(h) for any h *)
| CScriptKey (k : bytes) (res : option bytes)
| CScriptHash (h : bytes) (script : bytes)
(* PublicKeyHash / IsP2PKH / Addresses on arbitrary script bytes *)
| CScript (s : bytes) (pkh : option bytes) (is_p2pkh_obs : bool) (addrs : option (list string))
(* one transaction method on the transaction [t] (as it was before the call: empty, inputs = outputs, inputs above /
   below the outputs, built by earlier calls of a history) with the string [s]: the verdict - accepted with / without an
   output appended, an error, a panic - and the outputs afterwards.  Which error is not compared (a call can have more
   than one reason to fail); that the call fails, and what it leaves behind, is. *)
| CTxOp (t : tx) (op : txop) (s : string) (res : obs bool) (outs_after : list output).

Definition opt_bytes_eq (r : res bytes) (o : option bytes) : bool :=
  match r, o with
  | Ok a, Some b => bytes_eqb a b
  | Err _, None => true
  | _, _ => false
  end.

Fixpoint strings_eqb (a b : list string) : bool :=
  match a, b with
  | [], [] => true
  | x :: a', y :: b' => String.eqb x y && strings_eqb a' b'
  | _, _ => false
  end.

Definition of_res (r : res unit) : outcome bool :=
  match r with Ok _ => FOk true | Err _ => FErr ErrBadAddress | Panic => FPanic end.

Definition run_txop (t : tx) (op : txop) (s : string) : outcome bool * tx :=
  match op with
  | OpPay sats => let '(r, t') := pay_to_address t s sats in (of_res r, t')
  | OpAdd sats => let '(r, t') := add_p2pkh_output_from_address t s sats in (of_res r, t')
  | OpChange q => change_to_address_str t q s
  end.

Definition verdict_match (m : outcome bool) (o : obs bool) : bool :=
  match m, o with
  | FOk a, OOk b => Bool.eqb a b
  | FErr _, OErr _ | FErr _, OErrOther => true
  | FPanic, OPanic => true
  | FFatal, OFatal => true
  | _, _ => false
  end.

Definition check (c : case) : bool :=
  match c with
  | CB58Enc b enc => String.eqb (string_of_bytes (b58_encode b)) enc
  | CB58Dec s dec => bytes_eqb (b58_decode (bytes_of_string s)) dec
  | CAddrHash h mainnet addr pkh =>
      let a := new_address_from_pkh h mainnet in
      String.eqb (a_string a) addr && String.eqb (a_pkh_hex a) pkh
  | CAddrKey k mainnet addr pkh =>
      let a := new_address_from_public_key k mainnet in
      String.eqb (a_string a) addr && String.eqb (a_pkh_hex a) pkh
  | CAddrKeyStr kh mainnet res =>
      match new_address_from_public_key_string kh mainnet, res with
      | Ok a, Some (addr, pkh) => String.eqb (a_string a) addr && String.eqb (a_pkh_hex a) pkh
      | Err _, None => true
      | _, _ => false
      end
  | CString s v from script pay =>
      Bool.eqb (validate_address s) v &&
      match new_address_from_string s, from with
      | Ok a, Some pkh => String.eqb (a_string a) s && String.eqb (a_pkh_hex a) pkh
      | Err _, None => true
      | _, _ => false
      end &&
      opt_bytes_eq (p2pkh_from_address s) script &&
      opt_bytes_eq (pay_to_address_script s) pay
  | CScriptKey k res => opt_bytes_eq (p2pkh_from_pubkey_bytes k) res
  | CScriptHash h script => bytes_eqb (p2pkh_from_pkh h) script
  | CScript s pkh isp addrs =>
      opt_bytes_eq (public_key_hash s) pkh && Bool.eqb (is_p2pkh s) isp &&
      match addresses s, addrs with
      | Ok l, Some l' => strings_eqb l l'
      | Err _, None => true
      | _, _ => false
      end
  | CTxOp t op s res outs =>
      let '(r, t') := run_txop t op s in
      verdict_match r res && list_eqb output_eqb (tx_outs t') outs
  end.

Definition mismatches := mismatches_with check.
