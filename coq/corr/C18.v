(** Correspondence cases for C18. What the run-time harness observed under the race detector is
    put through the model's own definitions:
    - CTable: the lock table re-extracted by the harness from the checkout it was built against,
      with the race detector's verdict for the FeeQuote/FeeQuotes workload: the checker must accept
      the table, and an accepted table must not have shown a race (well-locked => no race observed);
    - CHistory: one concurrent history: initial values, values written, values reads returned, per
      location key: every read must be the initial value or a written one ([observed_ok], the
      executable shape of [reads_from_writes]);
    - CGlobals: the package-level variable scan re-done by the harness + the detector's verdict
      for the concurrent Engine.Execute workload: [shares_nothing] and no race observed;
    - CEngine: verdicts of concurrent validation vs. sequential validation of the same jobs;
    - CReadOnly: the read-only-memory probe: [programs] executions of the engine with every script it is handed
      stored in pages the process may only read, [faults] of which wrote into such a script (undone or not): the
      confinement hypothesis "a validation only READS the scripts it is handed" (model/SharedScript.v: several
      transactions may name one script object), observed directly and without any schedule ([read_only_ok]);
    - CHistoryR: a history in which some calls FAILED (UnmarshalJSON of a document with an unknown fee type, of a
      cut-off document, UpdateMinerFees with an empty argument): [rejected] are the (location, value) pairs only such
      calls carried. Every read is initial or stored, as for CHistory, and no read returned a rejected value
      ([rejected_unseen], model/FailedWrites.v: a failed write stores nothing);
    - CFailPaths: the lock table and, next to it, the flags "a call may report failure after exactly these actions",
      both re-extracted by the harness from the checkout it was built against: no such path contains a write, calls
      inlined ([failed_calls_store_nothing_raw], the checker proofs/FailedWritesProofs.v is about). *)
From Coq Require Import String List NArith Bool.
From GoBT Require Import model.Locks spec.RaceSpec model.SharedScript model.FailedWrites corr.Corr.
Import ListNotations.
Local Open Scope N_scope.

Inductive case :=
| CTable (tbl : rawtable) (race_seen : bool)
| CHistory (init stored reads : list (string * N))
| CGlobals (gl : list rawglobal) (engine_fields : list string) (fresh : list (string * bool)) (race_seen : bool)
| CEngine (concurrent sequential : list bool)
| CReadOnly (programs faults : N)
| CHistoryR (init stored rejected reads : list (string * N))
| CFailPaths (tbl : rawtable) (fails : rawfails).

Fixpoint bools_eqb (a b : list bool) : bool :=
  match a, b with
  | [], [] => true
  | x :: r, y :: r' => Bool.eqb x y && bools_eqb r r'
  | _, _ => false
  end.

Definition check (c : case) : bool :=
  match c with
  | CTable tbl race => well_locked_raw tbl && negb race
  | CHistory init stored reads => observed_ok String.eqb N.eqb init stored reads
  | CGlobals gl ef fr race => shares_nothing gl ef fr && negb race
  | CEngine conc seq => bools_eqb conc seq
  | CReadOnly programs faults => read_only_ok programs faults
  | CHistoryR init stored rejected reads =>
      observed_ok String.eqb N.eqb init stored reads && rejected_unseen String.eqb N.eqb rejected reads
  | CFailPaths tbl fails => failed_calls_store_nothing_raw tbl fails
  end.

Definition mismatches := mismatches_with check.
