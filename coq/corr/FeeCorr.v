(** Shared by the correspondence checks of C10, C11, C12: what the Go harness can observe of a call
    (ok value / named error / other error / panic / process abort) and how it is compared with the model. *)
From Coq Require Import List NArith Bool.
From Coq Require Import Strings.Byte.
From GoBT Require Import lib.Bytes model.Tx spec.FeeSpec model.Fees.
Import ListNotations.
Local Open Scope N_scope.

Inductive obs (A : Type) := OOk (a : A) | OErr (e : err) | OErrOther | OPanic | OFatal.
Arguments OOk {A}. Arguments OErr {A}. Arguments OErrOther {A}. Arguments OPanic {A}. Arguments OFatal {A}.

Definition obs_match {A} (eqb : A -> A -> bool) (m : outcome A) (o : obs A) : bool :=
  match m, o with
  | FOk a, OOk b => eqb a b
  | FErr e, OErr e' => err_eqb e e'
  | FPanic, OPanic => true
  | FFatal, OFatal => true
  | _, _ => false
  end.

Definition n3_eqb (a b : N * N * N) : bool :=
  let '(a1, a2, a3) := a in let '(b1, b2, b3) := b in (a1 =? b1) && (a2 =? b2) && (a3 =? b3).
Definition size3 (s : txsize) : N * N * N := (sz_total s, sz_std s, sz_data s).
Definition fees3 (f : txfees) : N * N * N := (fee_total f, fee_std f, fee_data f).
Definition omap {A B} (f : A -> B) (x : outcome A) : outcome B :=
  match x with FOk a => FOk (f a) | FErr e => FErr e | FFatal => FFatal | FPanic => FPanic end.

Definition opt_bytes_eqb (a b : option bytes) : bool :=
  match a, b with Some x, Some y => bytes_eqb x y | None, None => true | _, _ => false end.
Definition input_eqb (a b : input) : bool :=
  bytes_eqb (in_txid a) (in_txid b) && (in_vout a =? in_vout b) && bytes_eqb (in_unlock a) (in_unlock b) &&
  (in_seq a =? in_seq b) && (in_sats a =? in_sats b) && opt_bytes_eqb (in_script a) (in_script b).
Definition output_eqb (a b : output) : bool :=
  (out_sats a =? out_sats b) && bytes_eqb (out_script a) (out_script b).
Fixpoint list_eqb {A} (eqb : A -> A -> bool) (a b : list A) : bool :=
  match a, b with
  | [], [] => true
  | x :: a', y :: b' => eqb x y && list_eqb eqb a' b'
  | _, _ => false
  end.
Definition tx_eqb (a b : tx) : bool :=
  (tx_version a =? tx_version b) && list_eqb input_eqb (tx_ins a) (tx_ins b) &&
  list_eqb output_eqb (tx_outs a) (tx_outs b) && (tx_lock a =? tx_lock b).

(** the hypotheses of the theorems, evaluated on a generated case *)
Definition hyps_ok (q : quote) (t : tx) (extra : N) : bool :=
  wf_txb t && negb (ambiguousb t) && no_overflow q t extra.
