(** Correspondence cases for the interpreter (C05, and reused by C07/C08/C19): a program, its flags and
    context, and what the implementation did (verdict, number of AfterStep snapshots, SHA-256 of the
    canonical serialisation of all snapshots). *)
From Coq Require Import String List NArith ZArith.
From Coq Require Import Strings.Byte.
From GoBT Require Import lib.Bytes lib.Hex lib.Sha256 model.ScriptNum model.Interp corr.Corr.
Import ListNotations.

Inductive obs := ObsOk | ObsErr | ObsPanic.

Record case := mkCase {
  k_unlock : bytes; k_lock : bytes; k_flags : N;
  k_has_tx : bool; k_has_prev : bool; k_tx_lock : Z; k_tx_version : Z; k_in_seq : Z;
  k_obs : obs; k_steps : N; k_trace_sha : string;
  k_node : N   (* node vector expectation: 0 none, 1 OK, 2 error *)
}.

Definition u32le (n : nat) : bytes := le_enc 4 (N.of_nat n).
Definition ser_stack (l : list bytes) : bytes :=
  u32le (length l) ++ concat (map (fun b => u32le (length b) ++ b) l).
Definition ser_snap (s : snapshot) : bytes := ser_stack (sn_ds s) ++ ser_stack (sn_as s).
Definition ser_trace (t : list snapshot) : bytes := concat (map ser_snap t).

Definition run_case (so : sigops) (k : case) : verdict * list snapshot :=
  engine_execute so (mkExecInput (k_unlock k) (k_lock k) (k_flags k) (k_has_tx k) (k_has_prev k)
                                 (k_tx_lock k) (k_tx_version k) (k_in_seq k)).

Definition check_with (so : sigops) (k : case) : bool :=
  let '(v, tr) := run_case so k in
  match v, k_obs k with
  | VOk, ObsOk | VErr, ObsErr | VPanic, ObsPanic =>
      (N.of_nat (length tr) =? k_steps k)%N && String.eqb (hex_of (sha256 (ser_trace tr))) (k_trace_sha k) &&
      (* independent oracle: the model agrees with what the node expects for its own vectors *)
      match k_node k, v with
      | 1%N, VOk | 2%N, VErr | 0%N, _ => true
      | _, _ => false
      end
  | _, _ => false
  end.

Definition check := check_with no_sigops.
Definition mismatches := mismatches_with check.
