(** Correspondence cases for C12: Tx.Fund of the implementation, driven by an instrumented supplier that
    replays a history, against model/Fund.v — verdict, recorded deficit arguments, number of calls, the
    inputs appended, outputs untouched, the fee predicate afterwards. *)
From Coq Require Import List NArith Bool.
From Coq Require Import Strings.Byte.
From GoBT Require Import lib.Bytes lib.Hex lib.VarInt model.Tx gen.Consts spec.FeeSpec model.Fees model.Fund corr.Corr corr.FeeCorr.
Import ListNotations.
Local Open Scope N_scope.

Inductive case :=
| CFund (t : tx) (q : quote) (hist : list response) (hyp : bool)
        (res : obs unit) (calls : list N) (ncalls : N)
        (new_ins : list input)          (* the inputs found after the ones the transaction started with *)
        (rest_same : bool)              (* previous inputs, outputs, version, locktime observed unchanged *)
        (tin_after : N) (enough_after : obs bool).

Definition check (c : case) : bool :=
  match c with
  | CFund t q hist hyp res calls ncalls new_ins rest_same tin en =>
      let r := fund t q hist in
      obs_match (fun _ _ => true) (f_res r) res &&
      list_eqb N.eqb (f_calls r) calls && (N.of_nat (f_consumed r) =? ncalls) &&
      list_eqb input_eqb (tx_ins (f_tx r)) (tx_ins t ++ new_ins) &&
      list_eqb output_eqb (tx_outs (f_tx r)) (tx_outs t) &&
      (tx_version (f_tx r) =? tx_version t) && (tx_lock (f_tx r) =? tx_lock t) && rest_same &&
      (total_in (f_tx r) =? tin) &&
      obs_match Bool.eqb (estimate_is_fee_paid_enough (f_tx r) q) en &&
      (if hyp then wf_txb t && negb (ambiguousb t) && forallb wf_responseb hist && no_overflow q (f_tx r) 0 else true)
  end.

Definition mismatches := mismatches_with check.
