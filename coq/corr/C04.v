(** Correspondence cases for C04: a transaction signed through the library's signing path
    (unlocker.Simple via FillInput / FillAllInputs), the signed input position, the hash type and the
    interpreter flags; the go-bk oracle answers the runs need (Signature.Verify of the input's
    signature under its key, per digest); and, for every single-field mutation the harness applied,
    what the implementation was observed to do: the preimage CalcInputPreimage /
    CalcInputPreimageLegacy returned for the mutant (through SHA-256) and whether the interpreter
    still accepted the signed input.

    Checked per case, with the very definitions the theorems of Properties/C04.v are about:
    - the model's preimage of the original and of every mutant ([apply_tx], model/TxMutate.v) is the
      observed one; model preimages are equal iff the observed ones are;
    - the table [committed] says "committed" exactly when the observed preimage changed and exactly
      when the interpreter stopped accepting; the harness' mutations are [effective] and the output
      lists duplicate-free (the hypotheses of the sensitivity theorems);
    - the interpreter model with the signature opcodes of model/CheckSig.v over the oracle table
      returns the observed verdict for every input of the signed transaction (accept) and for the
      signed input of every mutant; the encoding hypotheses of [signed_p2pkh_accepts] hold;
    - the SIGNING model (model/Sign.v: unlocker.Simple.UnlockingScript, FillInput, FillAllInputs) replayed with the
      very calls the harness made (entry point and requested SigHashFlags per input, 0 = default) on the
      transaction with its unlocking scripts erased, over a signer that answers with the signature go-bk made for
      the digest THE MODEL computes (looked up in the oracle table, where it must verify), yields the
      library-signed transaction byte for byte; per input the predicted hash-type byte (the defaulted type) and
      the script SHAPE (two pushes: len(sig)+1 bytes ending in that byte, then the 33-byte key) are what the
      library produced;
    - CALL PATHS ([k_ctxs]): the signed transaction - and its spent-value / spent-script mutants - handed to
      Engine.Execute in the other ways the options allow (locking script through the previous output, through
      WithScripts with a previous output that carries the value only, or both; unlocking script through the
      input, through WithScripts with an input that has none, or both; the checked input of the object recording
      nothing, what was signed, or another output; the other inputs with or without their recorded outputs):
      the model of the call (model/EngineCall.v: apply_opts of model/ExecOpts.v for the scripts, the signature
      opcodes on the object after thread.apply's bookkeeping) returns the observed verdict, and the verdict is
      the one the table asks for (accept on the signed transaction, reject iff committed on a mutant).
      (proofs/EngineCallProofs.v: on the model all these calls have the verdict of the canonical one, for every
      oracle, transaction and script - [call_verdict_path_independent].) *)
From Coq Require Import String List NArith ZArith Bool.
From Coq Require Import Strings.Byte.
From GoBT Require Import lib.Bytes lib.Hex lib.Sha256 lib.Ripemd160 model.Tx spec.DigestSpec spec.CommitSpec model.SigHash
  model.SigHashWire model.TxMutate model.ScriptNum model.Interp model.CheckSig model.Push model.Sign
  model.ExecOpts model.EngineCall proofs.SigHashProofs proofs.P2PKHProofs proofs.SignProofs proofs.EngineCallProofs corr.Corr.
Import ListNotations.
Local Open Scope N_scope. Local Open Scope bool_scope.

Record mut_obs := mkMut {
  mo_m : mutation;
  mo_pre_sha : string;     (* SHA-256 of the mutant's preimage as returned by the library *)
  mo_accept : bool         (* interpreter verdict on the signed input of the mutant *)
}.

(** one signed input: position, compressed public key, DER signature (without the hash-type byte), the SigHashFlags
    value the harness handed to the library (0 = left at the default) and the entry point it called:
    0 Tx.FillInput, 1 unlocker.Simple.UnlockingScript directly + Tx.InsertInputUnlockingScript, 2 Tx.FillAllInputs *)
Record signed_in := mkSigned { si_idx : N; si_pk : bytes; si_sig : bytes; si_req : N; si_path : N }.

(** one call of Engine.Execute on another path than WithTx(tx off the wire, idx, previous output with script and value) *)
Record ctx_obs := mkCtxObs {
  co_mut : option mutation;        (* None: on the signed transaction; Some m: on its mutant *)
  co_lock_via : N;                 (* 0 previous output only, 1 WithScripts only (previous output: value only), 2 both *)
  co_unlock_via : N;               (* 0 the input only, 1 WithScripts only (the input has no script), 2 both *)
  co_rec_script : option bytes;    (* what the checked input of the object records BEFORE the call *)
  co_rec_sats : N;
  co_others_wire : bool;           (* the other inputs record no previous output *)
  co_accept : bool
}.

Record case := mkCase {
  k_tx : tx;               (* the signed transaction; every input records its previous output *)
  k_idx : nat;             (* the input whose signature is put to the mutations *)
  k_ht : N; k_flags : N;
  k_pre_sha : string;      (* SHA-256 of the library's preimage for input k_idx *)
  k_signed : list signed_in;
  (* go-bk: (key, signature, digest) -> Signature.Verify *)
  k_ver : list (bytes * bytes * bytes * bool);
  k_muts : list mut_obs;
  k_ctxs : list ctx_obs
}.

Definition alg_of (ht : N) : digest_alg := if has_forkid ht then AlgForkid else AlgLegacy.

Definition model_preimage (t : tx) (i : nat) (ht : N) : sres :=
  if has_forkid ht then fst (calc_input_preimage t (N.of_nat i) ht)
  else fst (calc_input_preimage_legacy t (N.of_nat i) ht).

Definition sha_is (r : sres) (h : string) : bool :=
  match r with SOk p => String.eqb (hex_of (sha256 p)) h | _ => false end.
Definition sres_eqb (a b : sres) : bool :=
  match a, b with SOk x, SOk y => bytes_eqb x y | _, _ => false end.

(** ** the oracle: the table, and "parses" for keys / signatures (both were produced by go-bk) *)
Fixpoint find_ver (tbl : list (bytes * bytes * bytes * bool)) (pk sg h : bytes) : option bool :=
  match tbl with
  | [] => None
  | (p, s, d, r) :: rest => if bytes_eqb p pk && bytes_eqb s sg && bytes_eqb d h then Some r else find_ver rest pk sg h
  end.
Definition table_oracle (k : case) : sig_oracle :=
  mkOracle (fun _ => true) (fun _ _ => true) (fun pk h sg _ => find_ver (k_ver k) pk sg h).

(** the interpreter model on input [i] of [t], spending the output the input records *)
Definition run_model (orc : sig_oracle) (t : tx) (i : N) (flags : N) : verdict :=
  match nthN (tx_ins t) i with
  | None => VPanic
  | Some inp =>
      match in_script inp with
      | None => VPanic
      | Some lock =>
          fst (engine_execute (mk_sigops_loud orc (engine_tx t i (in_unlock inp) lock (in_sats inp)) i)
                 (mkExecInput (in_unlock inp) lock flags true true
                              (Z.of_N (tx_lock t)) (Z.of_N (tx_version t)) (Z.of_N (in_seq inp))))
      end
  end.
Definition verdict_is (v : verdict) (accepted : bool) : bool :=
  match v, accepted with VOk, true | VErr, false => true | _, _ => false end.

(** ** the hypotheses of the sensitivity theorems, as booleans *)
Definition effective_b (m : mutation) (c : sign_ctx) : bool :=
  let tx := sc_tx c in
  match m with
  | MVersion v => negb (v =? t_version tx)
  | MLocktime v => negb (v =? t_locktime tx)
  | MInHash j h => match nth_error (t_vin tx) j with Some i => negb (bytes_eqb h (op_hash (ti_prevout i))) | None => false end
  | MInVout j n => match nth_error (t_vin tx) j with Some i => negb (n =? op_n (ti_prevout i)) | None => false end
  | MInSequence j s => match nth_error (t_vin tx) j with Some i => negb (s =? ti_sequence i) | None => false end
  | MOutValue j v => match nth_error (t_vout tx) j with Some o => negb (v =? to_value o) | None => false end
  | MOutScript j s => match nth_error (t_vout tx) j with Some o => negb (bytes_eqb s (to_script o)) | None => false end
  | MOutInsert j _ => Nat.leb j (length (t_vout tx))
  | MOutRemove j => Nat.ltb j (length (t_vout tx))
  | MInInsert j _ => Nat.leb j (length (t_vin tx))
  | MInRemove j => Nat.ltb j (length (t_vin tx)) && negb (Nat.eqb j (sc_idx c))
  | MSpentValue v => negb (v =? sc_amount c)
  | MSpentScript s => negb (bytes_eqb s (sc_code c))
  end.
Definition out_eqb (a b : output) : bool := (out_sats a =? out_sats b) && bytes_eqb (out_script a) (out_script b).
Fixpoint nodup_b (l : list output) : bool :=
  match l with
  | [] => true
  | x :: r => negb (existsb (out_eqb x) r) && nodup_b r
  end.

(** the computable hypotheses of [signed_p2pkh_accepts] on a signed input: the template (the locking script
    the input records is  p2pkh_lock (hash160 pk)  plus nothing or the envelope around a push-only body within
    the element limit; the unlocking script is push(sig ++ [ht]) push(pk)), the sizes, the three encoding
    checks, and "legacy stripping removes nothing" *)
Definition template_ok (c : ctx) (lock pk : bytes) : bool :=
  bytes_eqb (firstn 25 lock) (p2pkh_lock (hash160 pk)) &&
  match skipn 25 lock with
  | [] => true
  | a :: b :: r =>
      match rev r with
      | e :: rbody =>
          let body := rev rbody in
          (b2n a =? 0) && (b2n b =? 99) && (b2n e =? 104) &&
          match parse_ops (length body) false body 1 with
          | Some bops => is_push_only bops && forallb (fun p => (lenZ (p_data p) <=? max_elem c)%Z) bops
          | None => false
          end
      | [] => false
      end
  | _ => false
  end.

Definition enc_ok (flags : N) (t : tx) (ht : N) (tested : nat) (s : signed_in) : bool :=
  match nthN (tx_ins t) (si_idx s) with
  | None => false
  | Some inp =>
      let c := mkCtx (normalise_flags flags) true (Z.of_N (tx_lock t)) (Z.of_N (tx_version t)) (Z.of_N (in_seq inp)) false in
      let full := si_sig s ++ [n2b ht] in
      match in_script inp with
      | None => false
      | Some lock =>
          (ht <? 256) && Nat.eqb (length (si_pk s)) 33 && Nat.leb (length full) 75 &&
          negb (Nat.eqb (length (si_sig s)) 0) &&
          (negb (has_flag c F_CLEANSTACK) || has_flag c F_BIP16) &&
          (lenZ lock <=? max_script_size c)%Z &&
          (template_ok c lock (si_pk s) ||
           (* inputs other than the one under test may carry the library's enriched OP_RETURN tail after the
              envelope (post-genesis only): outside the acceptance theorem's template, but still run through
              the interpreter model in [check] *)
           (after_genesis c && negb (N.of_nat tested =? si_idx s)%N &&
            bytes_eqb (firstn 25 lock) (p2pkh_lock (hash160 (si_pk s))))) &&
          check_hash_type c ht && match check_sig_enc c (si_sig s) with EncOk => true | _ => false end &&
          check_pubkey_enc c (si_pk s) &&
          ((has_flag c F_FORKID && flag_has ht sh_forkid) ||
           match parse_script false lock with
           | Some l => Nat.eqb (length (remove_by_data l full)) (length l)
           | None => false
           end) &&
          bytes_eqb (in_unlock inp) (p2pkh_unlock (si_sig s) ht (si_pk s))
      end
  end.

(** ** the signing path, replayed on the model *)

(** the key as the correspondence knows it: its public key, and for a digest the signature go-bk made - the
    table entry (key, signature, digest) that VERIFIES; a digest the library did not sign has no entry *)
Fixpoint find_sig (tbl : list (bytes * bytes * bytes * bool)) (pk h : bytes) : option bytes :=
  match tbl with
  | [] => None
  | (p, s, d, r) :: rest => if bytes_eqb p pk && bytes_eqb d h && r then Some s else find_sig rest pk h
  end.
Definition table_signer (k : case) (pk : bytes) : signer := mkSigner pk (fun h => find_sig (k_ver k) pk h).

Definition sg_bind {A B} (x : sign_res A) (f : A -> sign_res B) : sign_res B :=
  match x with SgOk a => f a | SgErr e => SgErr e | SgPanic => SgPanic | SgFatal => SgFatal | SgFuel => SgFuel end.

(** one call of the harness *)
Definition sign_step (k : case) (acc : sign_res tx) (s : signed_in) : sign_res tx :=
  sg_bind acc (fun t =>
    let sg := table_signer k (si_pk s) in
    if si_path s =? 0 then fill_input (Some sg) t (si_idx s) (si_req s)
    else sg_bind (unlocking_script sg t (si_idx s) (si_req s)) (fun u => insert_input_unlocking_script t (si_idx s) u)).

Definition opt_bytes_eqb (a b : option bytes) : bool :=
  match a, b with Some x, Some y => bytes_eqb x y | None, None => true | _, _ => false end.

(** the harness' UnlockerGetter: the key of the (first) signed input that spends this script *)
Definition key_of_case (k : case) (prev : option bytes) : option signer :=
  match find (fun s => match nthN (tx_ins (k_tx k)) (si_idx s) with
                       | Some inp => opt_bytes_eqb (in_script inp) prev | None => false end) (k_signed k) with
  | Some s => Some (table_signer k (si_pk s))
  | None => None
  end.

Definition model_signed (k : case) : sign_res tx :=
  let t0 := erase_unlocks (k_tx k) in
  if forallb (fun s => si_path s =? 2) (k_signed k)
  then fill_all_inputs (simple_getter (key_of_case k)) t0
  else fold_left (sign_step k) (k_signed k) (SgOk t0).

(** the predicted type byte and the shape of what the library stored in the input *)
Definition shape_ok (k : case) (s : signed_in) : bool :=
  let ht' := default_type (si_req s) in
  (ht' =? k_ht k) && (si_req s <? 256) && (si_path s <? 3) &&
  match nthN (tx_ins (k_tx k)) (si_idx s) with
  | None => false
  | Some inp =>
      let u := in_unlock inp in
      match decode_parts u with
      | DOk [full; pk] =>
          Nat.eqb (length full) (length (si_sig s) + 1) && Nat.eqb (length pk) 33 && bytes_eqb pk (si_pk s) &&
          bytes_eqb full (si_sig s ++ [n2b ht']) &&
          Nat.eqb (length u) (1 + length full + 1 + 33) &&          (* two DIRECT pushes *)
          match carried_hash_type u, carried_signature u with
          | Some b, Some sg => (b =? ht') && bytes_eqb sg (si_sig s)
          | _, _ => false
          end
      | _ => false
      end
  end.

Definition check_signing (k : case) : bool :=
  match model_signed k with
  | SgOk t => bytes_eqb (tx_bytes true t) (tx_bytes true (k_tx k)) &&
              Nat.eqb (length (tx_ins t)) (length (k_signed k))
  | _ => false
  end && forallb (shape_ok k) (k_signed k).

Definition check_mut (k : case) (orc : sig_oracle) (pre : sres) (mo : mut_obs) : bool :=
  let ctx := sign_ctx_of (k_tx k) (k_idx k) in
  let '(t', i') := apply_tx (mo_m mo) (k_tx k) (k_idx k) in
  let pre' := model_preimage t' i' (k_ht k) in
  let comm := committed_in (alg_of (k_ht k)) (k_ht k) ctx (mo_m mo) in
  sha_is pre' (mo_pre_sha mo) &&
  Bool.eqb (sres_eqb pre' pre) (String.eqb (mo_pre_sha mo) (k_pre_sha k)) &&
  Bool.eqb comm (negb (String.eqb (mo_pre_sha mo) (k_pre_sha k))) &&
  Bool.eqb comm (negb (mo_accept mo)) &&
  effective_b (mo_m mo) ctx && nodup_b (tx_outs t') &&
  verdict_is (run_model orc t' (N.of_nat i') (k_flags k)) (mo_accept mo).

(** ** call paths *)
Definition via_of (n : N) : via := if n =? 0 then ViaObject else if n =? 1 then ViaScripts else ViaBoth.

(** the call the harness made for input [i] of [t] (which records the spent output: script and value) *)
Definition call_of (t : tx) (i : N) (flags : N) (o : ctx_obs) : option engine_call :=
  match nthN (tx_ins t) i with
  | None => None
  | Some inp =>
      match in_script inp with
      | None => None
      | Some lock =>
          let t0 := if co_others_wire o
                    then mkTx (tx_version t) (mapi (fun j x => if j =? i then x else strip_input x) (tx_ins t)) (tx_outs t) (tx_lock t)
                    else t in
          Some (call_for t0 i lock (in_unlock inp) (in_sats inp) flags (via_of (co_lock_via o)) (via_of (co_unlock_via o))
                         (mkPrevOut (co_rec_script o) (co_rec_sats o)))
      end
  end.

Definition check_ctx (k : case) (orc : sig_oracle) (o : ctx_obs) : bool :=
  let '(t', i', expected) :=
    match co_mut o with
    | None => (k_tx k, k_idx k, true)
    | Some m => let '(t', i') := apply_tx m (k_tx k) (k_idx k) in
                (t', i', negb (committed_in (alg_of (k_ht k)) (k_ht k) (sign_ctx_of (k_tx k) (k_idx k)) m))
    end in
  (co_lock_via o <? 3) && (co_unlock_via o <? 3) &&
  Bool.eqb expected (co_accept o) &&
  match call_of t' (N.of_nat i') (k_flags k) o with
  | None => false
  | Some cl => verdict_is (call_verdict (mk_sigops_loud orc) cl) (co_accept o)
  end.

Definition check (k : case) : bool :=
  let orc := table_oracle k in
  let pre := model_preimage (k_tx k) (k_idx k) (k_ht k) in
  sha_is pre (k_pre_sha k) && nodup_b (tx_outs (k_tx k)) && check_signing k &&
  forallb (fun s => enc_ok (k_flags k) (k_tx k) (k_ht k) (k_idx k) s &&
                    verdict_is (run_model orc (k_tx k) (si_idx s) (k_flags k)) true) (k_signed k) &&
  forallb (check_mut k orc pre) (k_muts k) &&
  forallb (check_ctx k orc) (k_ctxs k).

Definition mismatches := mismatches_with check.
