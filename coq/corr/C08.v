(** Correspondence cases for C08: either an interpreter program (the case type of corr/C05.v: values of all
    stack items after every step), or a program together with the SHARING the Go interpreter showed while
    running it: after every step, for every item of both stacks, which backing array it lies in and where
    (arrays numbered in order of first appearance, the caller's two scripts first; see [canon_trace] in
    model/Heap.v).  The heap model must predict exactly that sharing. *)
From Coq Require Import String List NArith ZArith Bool.
From Coq Require Import Strings.Byte.
From GoBT Require Import lib.Bytes lib.Hex lib.Sha256 model.ScriptNum model.Interp model.Heap model.HeapViews corr.Corr corr.C05.
Import ListNotations.

Definition triple := (Z * Z * Z)%type.
Definition triple_eqb (a b : triple) : bool :=
  let '(a1, a2, a3) := a in let '(b1, b2, b3) := b in (a1 =? b1)%Z && (a2 =? b2)%Z && (a3 =? b3)%Z.
Fixpoint list_eqb {A} (eqb : A -> A -> bool) (a b : list A) : bool :=
  match a, b with
  | [], [] => true
  | x :: a', y :: b' => eqb x y && list_eqb eqb a' b'
  | _, _ => false
  end.
Definition snap_eqb (a b : list triple * list triple) : bool :=
  list_eqb triple_eqb (fst a) (fst b) && list_eqb triple_eqb (snd a) (snd b).

Inductive case :=
| KProg (k : C05.case)
| KLive (unlock lock : bytes) (flags : N) (ob : obs) (sharing : list (list triple * list triple))
(** the same with zero-length items reported where they lie (model/HeapViews.v): an item of length 0 that has
    capacity left is a view of a backing array too, and the harness says of which and where *)
| KLiveZ (unlock lock : bytes) (flags : N) (ob : obs) (sharing : list (list triple * list triple))
(** a run RESUMED from the frame a debugger was handed before step number [skip] (interpreter.WithState, over the same
    scripts): [k] carries the program and what the resumed run showed - verdict, number of steps, hash of its
    snapshots.  It must be the rest of the model's run of the whole program: same verdict, the model's snapshots
    without the first [skip].  (The frame's stacks are the caller's data: a resumed run that works in the caller's
    storage, or a frame that was written to by an earlier run resumed from it, shows other stacks.) *)
| KResume (k : C05.case) (skip : nat).

Definition live_input (unlock lock : bytes) (flags : N) : exec_input :=
  mkExecInput unlock lock flags false false 0 0 0.

Definition check (k : case) : bool :=
  match k with
  | KProg k => C05.check k
  | KLive u l f ob sh =>
      match h_engine_execute no_sigops (live_input u l f) with
      | HRes v sn _ =>
          match v, ob with
          | VOk, ObsOk | VErr, ObsErr | VPanic, ObsPanic => list_eqb snap_eqb (canon_trace u l sn) sh
          | _, _ => false
          end
      | HResStuck => false
      end
  | KLiveZ u l f ob sh =>
      match h_engine_execute no_sigops (live_input u l f) with
      | HRes v sn h =>
          match v, ob with
          | VOk, ObsOk | VErr, ObsErr | VPanic, ObsPanic => trace_meets (canon_trace_z h u l sn) sh
          | _, _ => false
          end
      | HResStuck => false
      end
  | KResume k skip =>
      let '(v, tr) := run_case no_sigops k in
      let rest := skipn skip tr in
      match v, k_obs k with
      | VOk, ObsOk | VErr, ObsErr | VPanic, ObsPanic =>
          (skip <=? length tr)%nat && (N.of_nat (length rest) =? k_steps k)%N &&
          String.eqb (hex_of (sha256 (ser_trace rest))) (k_trace_sha k)
      | _, _ => false
      end
  end.

Definition mismatches := mismatches_with check.
