(** Shared helpers for the correspondence checks: index the cases whose model verdict differs
    from what the implementation was observed to do. *)
From Coq Require Import String List NArith.
Import ListNotations.
Fixpoint mismatches_with {A} (chk : A -> bool) (l : list (N * A)) : list N :=
  match l with
  | [] => []
  | (i, c) :: r => if chk c then mismatches_with chk r else i :: mismatches_with chk r
  end.
