(** Correspondence cases for C13: what the Go implementation was observed to do on a script / item
    list / string, against the executable model definitions the theorems of Properties/C13.v are
    about.  Observations of one script are one canonical text ([obs_script]) produced identically by
    the harness (harness/cmd/c13 obsScript) and by the model. *)
From Coq Require Import String List NArith ZArith Bool Ascii.
From Coq Require Import Strings.Byte.
From GoBT Require Import lib.Bytes lib.Hex lib.Checked lib.Sha256 model.Push model.Parser model.Asm corr.Corr.
Import ListNotations.
Local Open Scope string_scope.

Definition dec_z (z : Z) : string :=
  match z with
  | Z0 => "0"
  | Zpos p => dec_of (Npos p)
  | Zneg p => "-" ++ dec_of (Npos p)
  end.

Fixpoint join (sep : string) (l : list string) : string :=
  match l with
  | [] => ""
  | [x] => x
  | x :: r => x ++ sep ++ join sep r
  end.

(** long byte strings / texts are abbreviated in the observation text: length, both ends, byte sum *)
Definition habbr (b : bytes) : string :=
  if Nat.leb (List.length b) 80 then hex_of b
  else "#" ++ dec_of (lenN b) ++ ":" ++ hex_of (firstn 8 b) ++ ".." ++ hex_of (skipn (List.length b - 8) b) ++ ":" ++
       dec_of (N.modulo (fold_left (fun a x => N.add a (b2n x)) b 0%N) 4294967296).
Fixpoint str_sum (s : string) (a : N) : N :=
  match s with EmptyString => a | String c r => str_sum r (N.add a (N_of_ascii c)) end.
Definition sabbr (s : string) : string :=
  let n := String.length s in
  if Nat.leb n 200 then s
  else "#" ++ dec_of (N.of_nat n) ++ ":" ++ substring 0 16 s ++ ".." ++ substring (n - 16) 16 s ++ ":" ++
       dec_of (N.modulo (str_sum s 0%N) 4294967296).

Definition verdict {A} (o : outcome A) (f : A -> string) : string :=
  match o with Ok a => "+" ++ f a | Err => "-" | Panic => "!" | Fuel => "?" end.

Definition obs_op (o : parsed_op) : string :=
  dec_of (p_op o) ++ "." ++ dec_z (p_len o) ++ "." ++ (if p_unf o then "u" else "n") ++ "." ++ habbr (p_data o).

Definition obs_decode (s : bytes) : string :=
  match decode_parts s with
  | DOk l => "+" ++ join "," (map habbr l)
  | DErr l => "-" ++ join "," (map habbr l)
  | DPanic => "!"
  | DFuel => "?"
  end.

(** D: DecodeParts  P: Parse  C: Parse with ErrorOnCheckSig  U: Unparse(Parse)  A: ToASM
    N: NewFromASM(ToASM)  H: String()  h: NewFromHexString(String())  J: json.Marshal
    j: json.Unmarshal(json.Marshal) *)
Definition obs_script (s : bytes) : string :=
  let p := parse false s in
  let a := to_asm s in
  "D" ++ obs_decode s ++
  ";P" ++ verdict p (fun ops => join "," (map obs_op ops)) ++
  ";C" ++ verdict (parse true s) (fun _ => "") ++
  ";U" ++ verdict (obind p unparse) habbr ++
  ";A" ++ verdict a sabbr ++
  ";N" ++ verdict (obind a new_from_asm) habbr ++
  ";H" ++ sabbr (script_string s) ++
  ";h" ++ verdict (new_from_hex (script_string s)) habbr ++
  ";J" ++ sabbr (marshal_json s) ++
  ";j" ++ verdict (unmarshal_json (marshal_json s)) habbr.

(** observation texts are compared through the first 8 bytes of their SHA-256 (a number literal is
    two orders of magnitude cheaper for Coq to read than the text itself); the harness keeps the
    text in cases.jsonl *)
Definition digest (t : string) : N := be_dec (firstn 8 (sha256 (list_byte_of_string t))).

(** length-prefixed concatenation, hashed on both sides *)
Definition frame (l : list bytes) : bytes := List.concat (map (fun p => (le_enc 4 (lenN p) ++ p)%list) l).

Inductive case :=
| CTiny (len : nat) (v : N) (obs : N)                   (* the script is [le_enc len v]; digest of the text *)
| CScript (s : bytes) (obs : N)
| CEnc (items : list bytes) (ok : bool) (enc_len : N) (enc_sha : string)
       (prefixes : list bytes) (mins : list N) (dec_ok : bool) (dec_sha : string)
| CHex (str : string) (ok : bool) (b : bytes) (jok : bool) (jb : bytes)
| CAsm (str : string) (ok : bool) (b : bytes).

Definition opt_prefix (p : bytes) : bytes := match push_data_prefix p with Some x => x | None => [] end.

Fixpoint list_eqb {A} (eqb : A -> A -> bool) (a b : list A) : bool :=
  match a, b with
  | [], [] => true
  | x :: a', y :: b' => eqb x y && list_eqb eqb a' b'
  | _, _ => false
  end.

Definition check (c : case) : bool :=
  match c with
  | CTiny len v obs => N.eqb (digest (obs_script (le_enc len v))) obs
  | CScript s obs => N.eqb (digest (obs_script s)) obs
  | CEnc items ok enc_len enc_sha prefixes mins dec_ok dec_sha =>
      list_eqb bytes_eqb (map opt_prefix items) prefixes &&
      list_eqb N.eqb (map min_push_size items) mins &&
      match encode_parts items with
      | None => negb ok
      | Some e =>
          ok && N.eqb (lenN e) enc_len && String.eqb (hex_of (sha256 e)) enc_sha &&
          match decode_parts e with
          | DOk l => dec_ok && String.eqb (hex_of (sha256 (frame l))) dec_sha
          | DErr l => negb dec_ok && String.eqb (hex_of (sha256 (frame l))) dec_sha
          | _ => false
          end
      end
  | CHex str ok b jok jb =>
      match new_from_hex str with Ok x => ok && bytes_eqb x b | Err => negb ok | _ => false end &&
      match unmarshal_json str with Ok x => jok && bytes_eqb x jb | Err => negb jok | _ => false end
  | CAsm str ok b =>
      match new_from_asm str with Ok x => ok && bytes_eqb x b | Err => negb ok | _ => false end
  end.

Definition mismatches := mismatches_with check.
