(** Correspondence cases for C10: Change / ChangeToAddress / ChangeToExistingOutput of the implementation
    against model/Change.v — verdict, outputs afterwards, totals, estimated size and fee predicate afterwards. *)
From Coq Require Import List NArith Bool.
From Coq Require Import Strings.Byte.
From GoBT Require Import lib.Bytes lib.Hex lib.VarInt model.Tx gen.Consts spec.FeeSpec model.Fees model.Change corr.Corr corr.FeeCorr.
Import ListNotations.
Local Open Scope N_scope.

Inductive dest :=
| DScript (s : bytes)                    (* Tx.Change(s, f) *)
| DAddress (decoded : option bytes)      (* Tx.ChangeToAddress(addr, f); what NewP2PKHFromAddress(addr) yields *)
| DExisting (idx : N).                   (* Tx.ChangeToExistingOutput(idx, f) *)

Inductive case :=
| CChange (t : tx) (q : quote) (d : dest) (hyp : bool)
          (res : obs bool)               (* ok: did the outputs change (= change was added) *)
          (outs_after : list output) (tin tout_after : N)
          (est_after : obs (N * N * N)) (enough_after : obs bool).

Definition run (t : tx) (q : quote) (d : dest) : outcome bool * tx :=
  match d with
  | DScript s => change_new t q s
  | DAddress a => change_to_address t q a
  | DExisting i => change_existing t q i
  end.

Definition extra_of (d : dest) : N :=
  match d with DScript s | DAddress (Some s) => 21 + lenN s | _ => 0 end.

Definition check (c : case) : bool :=
  match c with
  | CChange t q d hyp res outs tin tout est en =>
      let '(r, t') := run t q d in
      obs_match Bool.eqb r res &&
      list_eqb output_eqb (tx_outs t') outs &&
      list_eqb input_eqb (tx_ins t') (tx_ins t) && (tx_version t' =? tx_version t) && (tx_lock t' =? tx_lock t) &&
      (total_in t' =? tin) && (total_out t' =? tout) &&
      (* estimate_size_with_types t' and estimate_is_fee_paid_enough t' q, sharing the one Clone they both start with *)
      (let te := estimated_final_tx t' in
       obs_match n3_eqb (omap size3 (obind te (fun x => FOk (size_with_types x)))) est &&
       obs_match Bool.eqb (obind te (fun x => is_fee_paid_enough x q)) en) &&
      (if hyp then hyps_ok q t (extra_of d) else true)
  end.

Definition mismatches := mismatches_with check.
