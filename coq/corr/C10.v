(** Correspondence cases for C10: Change / ChangeToAddress / ChangeToExistingOutput of the implementation
    against model/Change.v — verdict, outputs afterwards, totals, estimated size and fee predicate afterwards,
    and what the caller's fee quote says after the call. *)
From Coq Require Import List NArith Bool.
From Coq Require Import Strings.Byte.
From GoBT Require Import lib.Bytes lib.Hex lib.VarInt model.Tx gen.Consts spec.FeeSpec model.Fees model.Change corr.Corr corr.FeeCorr
  proofs.ChangeDirect.
Import ListNotations.
Local Open Scope N_scope.

Inductive dest :=
| DScript (s : bytes)                    (* Tx.Change(s, f) *)
| DAddress (decoded : option bytes)      (* Tx.ChangeToAddress(addr, f); what NewP2PKHFromAddress(addr) yields *)
| DExisting (idx : N).                   (* Tx.ChangeToExistingOutput(idx, f) *)

(** [q] is the quote as it was handed in — for a call that is not the first one made with a quote object: as it was
    handed to the FIRST of them; [q_after] is what the object says after this call.  In the model a quote is a value and
    a change operation a function of it: the object must say [q] after every call, and every call made with it is
    the model's call with [q]. *)
Inductive case :=
| CChange (t : tx) (q : quote) (d : dest) (hyp : bool)
          (res : obs bool)               (* ok: did the outputs change (= change was added) *)
          (outs_after : list output) (tin tout_after : N)
          (est_after : obs (N * N * N)) (enough_after : obs bool)
          (q_after : quote)
(** the same observation of a transaction too large for the byte-level parser inside Coq (tens of thousands of
    outputs): evaluated without the serialise-and-reparse of Tx.Clone, see proofs/ChangeDirect.v *)
| CChangeBig (t : tx) (q : quote) (d : dest) (hyp : bool)
          (res : obs bool) (outs_after : list output) (tin tout_after : N)
          (est_after : obs (N * N * N)) (enough_after : obs bool) (q_after : quote).

Definition run (t : tx) (q : quote) (d : dest) : outcome bool * tx :=
  match d with
  | DScript s => change_new t q s
  | DAddress a => change_to_address t q a
  | DExisting i => change_existing t q i
  end.

Definition run_direct (t : tx) (q : quote) (d : dest) : outcome bool * tx :=
  match d with
  | DScript s => change_new_direct t q s
  | DAddress a => change_to_address_direct t q a
  | DExisting i => change_existing_direct t q i
  end.

Lemma run_direct_eq t q d : guard t = true -> run t q d = run_direct t q d.
Proof.
  intros G. destruct d; cbn [run run_direct].
  - apply change_new_direct_eq; exact G.
  - apply change_to_address_direct_eq; exact G.
  - apply change_existing_direct_eq; exact G.
Qed.

Definition extra_of (d : dest) : N :=
  match d with DScript s | DAddress (Some s) => 21 + lenN s | _ => 0 end.

Definition rate_eqb (a b : rate) : bool := (r_sat a =? r_sat b) && (r_bytes a =? r_bytes b).
Definition opt_rate_eqb (a b : option rate) : bool :=
  match a, b with Some x, Some y => rate_eqb x y | None, None => true | _, _ => false end.
Definition quote_eqb (a b : quote) : bool := opt_rate_eqb (q_std a) (q_std b) && opt_rate_eqb (q_data a) (q_data b).

(** what is compared once the call has been evaluated to [(r, t')] and [te] = estimatedFinalTx of [t'] *)
Definition compare (t : tx) (q : quote) (d : dest) (hyp : bool) (r : outcome bool) (t' : tx) (te : outcome tx)
    (res : obs bool) (outs : list output) (tin tout : N) (est : obs (N * N * N)) (en : obs bool) (qa : quote) : bool :=
  obs_match Bool.eqb r res &&
  list_eqb output_eqb (tx_outs t') outs &&
  list_eqb input_eqb (tx_ins t') (tx_ins t) && (tx_version t' =? tx_version t) && (tx_lock t' =? tx_lock t) &&
  (total_in t' =? tin) && (total_out t' =? tout) &&
  (* estimate_size_with_types t' and estimate_is_fee_paid_enough t' q, sharing the one Clone they both start with *)
  (obs_match n3_eqb (omap size3 (obind te (fun x => FOk (size_with_types x)))) est &&
   obs_match Bool.eqb (obind te (fun x => is_fee_paid_enough x q)) en) &&
  quote_eqb q qa &&
  (if hyp then hyps_ok q t (extra_of d) else true).

Definition check_plain t q d hyp res outs tin tout est en qa : bool :=
  let '(r, t') := run t q d in
  compare t q d hyp r t' (estimated_final_tx t') res outs tin tout est en qa.

Definition check_direct t q d hyp res outs tin tout est en qa : bool :=
  guard t &&
  (let '(r, t') := run_direct t q d in
   guard t' && compare t q d hyp r t' (estimated_final_tx_direct t') res outs tin tout est en qa).

(** a large case accepted by the clone-free evaluation is accepted by the ordinary one *)
Theorem check_direct_sound t q d hyp res outs tin tout est en qa :
  check_direct t q d hyp res outs tin tout est en qa = true ->
  check_plain t q d hyp res outs tin tout est en qa = true.
Proof.
  unfold check_direct, check_plain. intros H. apply andb_prop in H. destruct H as [G H].
  rewrite (run_direct_eq t q d G). destruct (run_direct t q d) as [r t'].
  apply andb_prop in H. destruct H as [G' H]. rewrite (est_direct_eq t' G'). exact H.
Qed.

Definition check (c : case) : bool :=
  match c with
  | CChange t q d hyp res outs tin tout est en qa => check_plain t q d hyp res outs tin tout est en qa
  | CChangeBig t q d hyp res outs tin tout est en qa => check_direct t q d hyp res outs tin tout est en qa
  end.

Definition mismatches := mismatches_with check.
