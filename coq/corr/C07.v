(** Correspondence cases for C07: either an interpreter program (the case type of corr/C05.v), or a full
    set of Engine.Execute arguments (model/ExecOpts.v) with what the implementation did on them: verdict,
    number of AfterStep snapshots and the SHA-256 of their canonical serialisation; or a HISTORY: the calls made one
    after the other on ONE Go engine (and one debugger object, option values passed again - c07_history.go), each with
    what the implementation did on that engine at that point, compared with model/EngineHistory.v [run_history]. *)
From Coq Require Import String List NArith ZArith.
From Coq Require Import Strings.Byte.
From GoBT Require Import lib.Bytes lib.Hex lib.Sha256 model.ScriptNum model.Interp model.ExecOpts model.EngineHistory corr.Corr corr.C05.
Import ListNotations.

(** one call of a history.  [full]: a snapshot-recording debugger was attached (verdict, steps and trace hash are
    compared); otherwise the verdict only.  [HSkip]: a call under a full transaction context that may reach a signature
    operation - not followed by the signature-free model (C06's subject); it is a call of the history all the same. *)
Inductive hcall :=
| HSkip
| HProg (full : bool) (k : C05.case)
| HOpts (full : bool) (o : exec_opts) (ob : obs) (steps : N) (trace_sha : string).

Inductive case :=
| KProg (k : C05.case)
| KOpts (o : exec_opts) (ob : obs) (steps : N) (trace_sha : string)
| KHist (calls : list hcall).

Definition agrees (full : bool) (r : verdict * list snapshot) (ob : obs) (steps : N) (sha : string) : bool :=
  let '(v, tr) := r in
  match v, ob with
  | VOk, ObsOk | VErr, ObsErr | VPanic, ObsPanic =>
      negb full || ((N.of_nat (length tr) =? steps)%N && String.eqb (hex_of (sha256 (ser_trace tr))) sha)
  | _, _ => false
  end.

Definition input_of_case (k : C05.case) : exec_input :=
  mkExecInput (k_unlock k) (k_lock k) (k_flags k) (k_has_tx k) (k_has_prev k) (k_tx_lock k) (k_tx_version k) (k_in_seq k).

(** the model call of a history entry; a skipped call is a call too (the model engine goes through it) *)
Definition call_of (h : hcall) : sigops * call :=
  match h with
  | HSkip => (no_sigops, CProg (mkExecInput [] [] 0 false false 0 0 0))
  | HProg _ k => (no_sigops, CProg (input_of_case k))
  | HOpts _ o _ _ _ => (no_sigops, COpts o)
  end.

Fixpoint agree_all (hs : list hcall) (rs : list (verdict * list snapshot)) : bool :=
  match hs, rs with
  | [], [] => true
  | h :: hs', r :: rs' =>
      match h with
      | HSkip => true
      | HProg full k => agrees full r (k_obs k) (k_steps k) (k_trace_sha k)
      | HOpts full _ ob steps sha => agrees full r ob steps sha
      end && agree_all hs' rs'
  | _, _ => false
  end.

Definition check_history (hs : list hcall) : bool :=
  agree_all hs (run_history new_engine (map call_of hs)).

Definition check (k : case) : bool :=
  match k with
  | KProg k => C05.check k
  | KOpts o ob steps sha =>
      let '(v, tr) := engine_execute_opts no_sigops o in
      match v, ob with
      | VOk, ObsOk | VErr, ObsErr | VPanic, ObsPanic =>
          (N.of_nat (length tr) =? steps)%N && String.eqb (hex_of (sha256 (ser_trace tr))) sha
      | _, _ => false
      end
  | KHist hs => check_history hs
  end.

Definition mismatches := mismatches_with check.
