(** Correspondence cases for C07: either an interpreter program (the case type of corr/C05.v), or a full
    set of Engine.Execute arguments (model/ExecOpts.v) with what the implementation did on them: verdict,
    number of AfterStep snapshots and the SHA-256 of their canonical serialisation. *)
From Coq Require Import String List NArith ZArith.
From Coq Require Import Strings.Byte.
From GoBT Require Import lib.Bytes lib.Hex lib.Sha256 model.ScriptNum model.Interp model.ExecOpts corr.Corr corr.C05.
Import ListNotations.

Inductive case :=
| KProg (k : C05.case)
| KOpts (o : exec_opts) (ob : obs) (steps : N) (trace_sha : string).

Definition check (k : case) : bool :=
  match k with
  | KProg k => C05.check k
  | KOpts o ob steps sha =>
      let '(v, tr) := engine_execute_opts no_sigops o in
      match v, ob with
      | VOk, ObsOk | VErr, ObsErr | VPanic, ObsPanic =>
          (N.of_nat (length tr) =? steps)%N && String.eqb (hex_of (sha256 (ser_trace tr))) sha
      | _, _ => false
      end
  end.

Definition mismatches := mismatches_with check.
