(** Correspondence for C03 (legacy signature hash): see corr/SigHashCorr.v. *)
From GoBT Require Export corr.SigHashCorr.
