(** Correspondence for C03 (legacy signature hash).

    The value-level cases (CCalls, CVecLegacy) are those of corr/SigHashCorr.v, shared with C02.  C03 has one more
    kind: [CHeap], the caller's transaction as an OBJECT GRAPH - a heap of script / input / output / transaction
    cells as in model/SigHeap.v, read off the *bt.Tx the harness built (one cell per distinct Go pointer), so that
    a *bscript.Script recorded on several inputs, one script object serving as previous script, unlocking script and
    locking script at once, or one *bt.Input standing at several positions of tx.Inputs is ONE cell reached through
    several pointers.  On such a case the pointer-level program [legacy_preimage_heap clone_deep] - the definition
    C03_heap_model_refines_value_model and C03_legacy_never_writes_callers_cells are about - is evaluated on the
    calls the harness made against the real CalcInputPreimageLegacy on that graph: outcome class, preimage length and
    SHA-256 must agree call by call, no cell of the caller's heap may differ afterwards, and the value the caller's
    pointer denotes must serialise to what the harness read back (ExtendedBytes) after the calls.

    The case type below re-declares the two shared constructors under the same names (the generated shards refer to
    constructors by name and import this file last), and maps them onto SigHashCorr's check unchanged. *)
From Coq Require Import String List NArith Bool.
From Coq Require Import Strings.Byte.
From GoBT Require Import lib.Bytes lib.Hex lib.Parse lib.VarInt lib.Sha256 model.Tx model.SigHash corr.Corr.
From GoBT Require Export corr.SigHashCorr model.SigHeap.
Import ListNotations.
Local Open Scope N_scope. Local Open Scope bool_scope.

(** ** equality of cells (decides "the caller's cells are what they were") *)
Definition onat_eqb (a b : option nat) : bool :=
  match a, b with Some x, Some y => Nat.eqb x y | None, None => true | _, _ => false end.
Fixpoint lnat_eqb (a b : list nat) : bool :=
  match a, b with
  | [], [] => true
  | x :: a', y :: b' => Nat.eqb x y && lnat_eqb a' b'
  | _, _ => false
  end.
Definition hcell_eqb (a b : hcell) : bool :=
  match a, b with
  | CScript x, CScript y => bytes_eqb x y
  | CInput x, CInput y =>
      bytes_eqb (ir_txid x) (ir_txid y) && (ir_sats x =? ir_sats y) && onat_eqb (ir_prev x) (ir_prev y) &&
      onat_eqb (ir_unlock x) (ir_unlock y) && (ir_vout x =? ir_vout y) && (ir_seq x =? ir_seq y)
  | COutput x, COutput y => (or_sats x =? or_sats y) && onat_eqb (or_lock x) (or_lock y)
  | CTx x, CTx y => lnat_eqb (tr_ins x) (tr_ins y) && lnat_eqb (tr_outs x) (tr_outs y) &&
                    (tr_ver x =? tr_ver y) && (tr_lock x =? tr_lock y)
  | _, _ => false
  end.
Fixpoint heap_prefix_eqb (h h' : heap) : bool :=      (* every cell of h is the cell at the same address of h' *)
  match h, h' with
  | [], _ => true
  | x :: r, y :: r' => hcell_eqb x y && heap_prefix_eqb r r'
  | _ :: _, [] => false
  end.

(** one CalcInputPreimageLegacy call on the graph.  The cells the call allocated (its clone, the blank scripts) are
    unreachable from the caller's pointer afterwards: the next call starts from the caller's cells again. *)
Definition check_heap_call (h : heap) (p : addr) (c : call) : bool :=
  let '(h', rp) := legacy_preimage_heap clone_deep h p (c_idx c) (c_ht c) in
  (cls_of rp =? c_pre_cls c) &&
  match rp with
  | SOk b => (lenN b =? c_pre_len c) && sha_is b (c_pre_sha c)
  | _ => true
  end &&
  heap_prefix_eqb h h'.

Inductive case :=
| CCalls (legacy : bool) (t : tx) (after_sha : string) (calls : list call)
| CVecForkid (raw script : bytes) (idx ht : N) (expected : string)
| CVecLegacy (raw script : bytes) (idx ht : N) (expected : string)
| CHeap (h : heap) (p : addr) (after_sha : string) (calls : list call).

Definition check (c : case) : bool :=
  match c with
  | CCalls legacy t after calls => SigHashCorr.check (SigHashCorr.CCalls legacy t after calls)
  | CVecForkid raw script idx ht expected => SigHashCorr.check (SigHashCorr.CVecForkid raw script idx ht expected)
  | CVecLegacy raw script idx ht expected => SigHashCorr.check (SigHashCorr.CVecLegacy raw script idx ht expected)
  | CHeap h p after calls =>
      forallb (check_heap_call h p) calls &&
      match abs_tx h p with
      | Some t => sha_is (tx_bytes true t) after
      | None => false            (* the graph the harness wrote down is not a transaction: a harness defect *)
      end
  end.

Definition mismatches := mismatches_with check.

(** the shared cases mean exactly what they mean for C02 *)
Lemma check_shared_calls legacy t after calls :
  check (CCalls legacy t after calls) = SigHashCorr.check (SigHashCorr.CCalls legacy t after calls).
Proof. reflexivity. Qed.
Lemma check_shared_vec raw script idx ht expected :
  check (CVecLegacy raw script idx ht expected) = SigHashCorr.check (SigHashCorr.CVecLegacy raw script idx ht expected).
Proof. reflexivity. Qed.
