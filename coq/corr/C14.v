(** Correspondence cases for C14: for one script, the verdict (value / error / panic) and the value
    of every inspection query as one canonical text, produced identically by the harness
    (harness/cmd/c14 observe) and by the model (model/Classify.v, model/Asm.v). *)
From Coq Require Import String List NArith ZArith Bool Ascii.
From Coq Require Import Strings.Byte.
From GoBT Require Import lib.Bytes lib.Hex lib.Checked lib.Sha256 model.Push model.Asm model.Classify corr.Corr corr.C13.
Import ListNotations.
Local Open Scope string_scope.

Definition type_name (t : stype) : string :=
  match t with
  | TEmpty => "empty" | TPubKeyHash => "pubkeyhash" | TPubKey => "pubkey" | TNullData => "nulldata"
  | TMultiSig => "multisig" | TInscription => "pubkeyhashinscription" | TNonStandard => "nonstandard"
  end.

Definition vbool (o : outcome bool) : string := verdict o (fun b => if b then "1" else "0").

(** T: ScriptType  k: IsP2PKH  p: IsP2PK  s: IsP2SH  d: IsData  m: IsMultiSigOut  i: IsP2PKHInscription
    H: PublicKeyHash  A: Addresses (hashes)  I: ParseInscription (prefix, data, content type)
    a: ToASM  N: node JSON of an output carrying the script (asm, reqSigs, type, and hex: the script itself) *)
Definition obs_inspect (s : bytes) : string :=
  "T" ++ verdict (script_type s) type_name ++
  ";k" ++ vbool (is_p2pkh s) ++ ";p" ++ vbool (is_p2pk s) ++ ";s" ++ vbool (is_p2sh s) ++
  ";d" ++ vbool (is_data s) ++ ";m" ++ vbool (is_multisig_out s) ++ ";i" ++ vbool (is_p2pkh_inscription s) ++
  ";H" ++ verdict (public_key_hash s) habbr ++
  ";A" ++ verdict (addresses s) (fun l => join "," (map habbr l)) ++
  ";I" ++ verdict (parse_inscription s) (fun x => habbr (i_prefix x) ++ "," ++ habbr (i_data x) ++ "," ++ habbr (i_content_type x)) ++
  ";a" ++ verdict (to_asm s) sabbr ++
  ";N" ++ verdict (node_output s) (fun x => sabbr (fst (fst x)) ++ "," ++ dec_of (snd (fst x)) ++ "," ++ type_name (snd x) ++ "," ++ habbr s).

Inductive case :=
| CTiny (len : nat) (v : N) (obs : N)                   (* the script is [le_enc len v]; digest of the text *)
| CScript (s : bytes) (obs : N).

Definition check (c : case) : bool :=
  match c with
  | CTiny len v obs => N.eqb (digest (obs_inspect (le_enc len v))) obs
  | CScript s obs => N.eqb (digest (obs_inspect s)) obs
  end.

Definition mismatches := mismatches_with check.
