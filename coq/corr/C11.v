(** Correspondence cases for C11: sizes, fees and fee predicates of the implementation against
    model/Fees.v; script classification; DER serialisation; library-signed transactions. *)
From Coq Require Import List NArith Bool.
From Coq Require Import Strings.Byte.
From GoBT Require Import lib.Bytes lib.Hex lib.VarInt model.Tx gen.Consts spec.FeeSpec model.Fees model.QuoteHeap corr.Corr corr.FeeCorr.
Import ListNotations.
Local Open Scope N_scope.

(** one library signature: input index, r, s, compressed public key, hash-type byte *)
Record sig_obs := mkSig { sg_idx : nat; sg_r : N; sg_s : N; sg_pk : bytes; sg_flag : byte }.

Inductive case :=
| CSize (t : tx) (q : quote) (hyp : bool)
        (sizes : N * N * N) (tin tout : N)
        (est_size : obs N) (est_sizes : obs (N * N * N))
        (enough est_enough : obs bool) (est_fees : obs (N * N * N))
| CClass (s : bytes) (data p2pkh inscription : bool)
| CDer (r s : N) (ser : bytes)
| CSigned (t : tx) (unlocks : list bytes) (sigs : list sig_obs) (est signed_size : N)
(** a history over the pool of FeeQuote objects (model/QuoteHeap.v) and, per [HFees] step, what the implementation
    answered for the quote asked: EstimateFeesPaid, IsFeePaidEnough, EstimateIsFeePaidEnough *)
| CHist (t : tx) (ops : list hop) (observed : list (obs (N * N * N) * obs bool * obs bool)).

Definition hist_obs_match (t : tx) (q : quote) (o : obs (N * N * N) * obs bool * obs bool) : bool :=
  let '(f, e, ee) := o in
  obs_match n3_eqb (omap fees3 (estimate_fees_paid t q)) f &&
  obs_match Bool.eqb (is_fee_paid_enough t q) e &&
  obs_match Bool.eqb (estimate_is_fee_paid_enough t q) ee.

Definition sig_ok (unlocks : list bytes) (g : sig_obs) : bool :=
  bytes_eqb (nth (sg_idx g) unlocks []) (p2pkh_unlocking (sg_pk g) (der (sg_r g) (sg_s g)) (sg_flag g)) &&
  (0 <? sg_r g) && (sg_r g <? 2 ^ 256) && (0 <? sg_s g) && (sg_s g <=? half_order) &&
  (lenN (sg_pk g) =? 33) && (lenN (der (sg_r g) (sg_s g)) <=? 71).

(** inputs that were unsigned in [t] must be among the recorded signatures; signed ones keep their script *)
Fixpoint sign_shape (k : nat) (ins : list input) (unlocks : list bytes) (sigs : list sig_obs) : bool :=
  match ins, unlocks with
  | [], [] => true
  | i :: r, u :: ur =>
      (if unsigned i then existsb (fun g => Nat.eqb (sg_idx g) k) sigs && (lenN u <=? 107)
       else bytes_eqb u (in_unlock i)) && sign_shape (S k) r ur sigs
  | _, _ => false
  end.

Definition check (c : case) : bool :=
  match c with
  | CSize t q hyp sizes tin tout es ess en een ef =>
      n3_eqb (size3 (size_with_types t)) sizes &&
      (total_in t =? tin) && (total_out t =? tout) &&
      obs_match N.eqb (estimate_size t) es &&
      obs_match n3_eqb (omap size3 (estimate_size_with_types t)) ess &&
      obs_match Bool.eqb (is_fee_paid_enough t q) en &&
      obs_match Bool.eqb (estimate_is_fee_paid_enough t q) een &&
      obs_match n3_eqb (omap fees3 (estimate_fees_paid t q)) ef &&
      (if hyp then hyps_ok q t 0 else true)
  | CClass s d p i =>
      Bool.eqb (is_data s) d && Bool.eqb (is_p2pkh s) p && Bool.eqb (is_p2pkh_inscription s) i
  | CDer r s ser => bytes_eqb (serialise r s) ser
  | CSigned t unlocks sigs est sz =>
      let signed := set_ins t (map (fun iu => with_unlock (fst iu) (snd iu)) (combine (tx_ins t) unlocks)) in
      forallb (sig_ok unlocks) sigs && sign_shape 0 (tx_ins t) unlocks sigs &&
      obs_match N.eqb (estimate_size t) (OOk est) && (tx_size signed =? sz) && (sz <=? est) &&
      wf_txb t && negb (ambiguousb t)
  | CHist t ops observed =>
      let vs := views empty_state ops in
      Nat.eqb (length vs) (length observed) &&
      forallb (fun p => hist_obs_match t (fst p) (snd p)) (combine vs observed)
  end.

Definition mismatches := mismatches_with check.
