(** Export: the Go source of Tx.CalcInputPreimage (signaturehash.go), as printed into gen/Funcs.v on every run, is the
    model function [calc_input_preimage] the theorems of C02 (and, through CalcInputSignatureHash / the signers, of C04,
    C06 and C20) are about (proofs/GenFuncs_Tx_CalcInputPreimage.v).  Go values are related to the model's records by the
    abstraction functions of proofs/GenFuncsTxTac.v ([tx_of_go]); the hypotheses are the ranges of the Go types plus what
    the Go code itself needs in order not to panic in its callees (no nil element in Inputs / Outputs, no output with a nil
    LockingScript).  The outcome: bytes, "an error is returned" (the printed [error] is a [bool]: the three sentinel
    errors are not distinguished here), or Go's panic.  Callees are the printed functions InputIdx, Input.PreviousTxID,
    PreviousOutHash, SequenceHash, OutputsHash, OutputCount, VarInt.Bytes; TRUSTED mappings used (lib/GoTx.v):
    ReverseBytes -> [rev], crypto.Sha256d of go-bk -> [sha256d].  Compiled only while gen/Funcs.status.json says the
    function is translated. *)
From Coq Require Import List ZArith NArith Bool.
From Coq Require Import Strings.Byte.
From GoBT Require Import lib.Bytes lib.GoSem lib.GoTx gen.Funcs proofs.GenFuncsTxTac proofs.GenFuncs_Tx_CalcInputPreimage.
From GoBT Require Import model.Tx model.SigHash.
Import ListNotations.
Local Open Scope Z_scope.

Definition calc_input_preimage_statement : Prop :=
  forall (ins : list go_Input) (outs : list go_Output) (ver lock : Z) (i ht : N),
  Forall go_input_ok ins -> len_ok ins -> Forall go_output_ok outs -> len_ok outs -> u32 ver -> u32 lock ->
  (i < 4294967296)%N -> (ht < 256)%N ->
  Tx_CalcInputPreimage (Z.of_N i) (Z.of_N ht) (map Some ins) (map Some outs) ver lock
  = sres_outcome (fst (calc_input_preimage (tx_of_go ins outs ver lock) i ht)).

(** every transaction, every uint32 input index (in range or not), all 256 hash-type bytes *)
Theorem C02_go_source_Tx_CalcInputPreimage_is_model : calc_input_preimage_statement.
Proof. exact Tx_CalcInputPreimage_is_model. Qed.
Print Assumptions C02_go_source_Tx_CalcInputPreimage_is_model.

Theorem C04_go_source_Tx_CalcInputPreimage_is_model : calc_input_preimage_statement.
Proof. exact Tx_CalcInputPreimage_is_model. Qed.
Print Assumptions C04_go_source_Tx_CalcInputPreimage_is_model.

Theorem C06_go_source_Tx_CalcInputPreimage_is_model : calc_input_preimage_statement.
Proof. exact Tx_CalcInputPreimage_is_model. Qed.
Print Assumptions C06_go_source_Tx_CalcInputPreimage_is_model.

Theorem C20_go_source_Tx_CalcInputPreimage_is_model : calc_input_preimage_statement.
Proof. exact Tx_CalcInputPreimage_is_model. Qed.
Print Assumptions C20_go_source_Tx_CalcInputPreimage_is_model.

(** the hypotheses are satisfiable and the statement is not vacuous: a one-input, one-output transaction, ALL|FORKID *)
Example calc_input_preimage_example :
  let g := mk_go_Input (repeat_byte 32 x11) 5000 (Some [x76; xa9]) None 1 4294967295 in
  let o := mk_go_Output 4000 (Some [x6a]) in
  exists b, Tx_CalcInputPreimage 0 65 [Some g] [Some o] 1 0 = Val (b, false) /\ length b = 159%nat.
Proof. eexists. split; [vm_compute; reflexivity | reflexivity]. Qed.
