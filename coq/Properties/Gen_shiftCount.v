(** Export: the Go source of shiftCount, as printed into gen/Funcs.v on every run, has the meaning the interpreter
    model gives it (proofs/GenFuncs_shiftCount.v).  Compiled only while gen/Funcs.status.json says the function is translated. *)
From Coq Require Import List ZArith NArith Bool.
From Coq Require Import Strings.Byte.
From GoBT Require Import lib.Bytes lib.GoSem lib.GoInterp gen.Funcs proofs.GenFuncsTac proofs.GenFuncsInterpTac proofs.GenFuncs_shiftCount.
From GoBT Require model.Interp model.ScriptNum.
Import ListNotations.
Local Open Scope Z_scope.

Theorem C05_go_source_shiftCount_is_model : forall (num : Z) (x : bytes), 0 <= num -> (lenN x <= 281474976710656)%N ->
  shiftCount num x = Val (let bits := 8 * Interp.lenZ x in if num <? bits then num else bits).
Proof. exact shiftCount_is_model. Qed.
Print Assumptions C05_go_source_shiftCount_is_model.
