(** Export: the Go source of isSmallIntOp, as printed into gen/Funcs.v on every run, is the model function the
    property theorems are about (proofs/GenFuncs_isSmallIntOp.v).  Compiled only while gen/Funcs.status.json says the
    function is translated. *)
From Coq Require Import List ZArith NArith Bool.
From Coq Require Import Strings.Byte.
From GoBT Require Import lib.Bytes lib.GoSem gen.Funcs proofs.GenFuncsTac proofs.GenFuncs_isSmallIntOp.
Local Open Scope Z_scope.

Theorem C14_go_source_isSmallIntOp_is_model :
  forall v : N, (v < 256)%N -> isSmallIntOp (Z.of_N v) = Val (GoBT.model.Classify.is_small_int_op v).
Proof. exact isSmallIntOp_is_model. Qed.
Print Assumptions C14_go_source_isSmallIntOp_is_model.
