(** Export: the Go source of Tx.toBytesHelper (tx.go), as printed into gen/Funcs.v on every run, is the model function the
    property theorems are about (proofs/GenFuncs_Tx_toBytesHelper.v).  Go values are related to the model's records by the
    abstraction functions of proofs/GenFuncsTxTac.v ([tx_of_go]: integers by [Z.to_N], a nil and an empty unlocking
    script are the same [in_unlock]); the hypotheses are the ranges of the Go types plus what the Go code itself
    needs in order not to panic: no nil element in Inputs / Outputs ([map Some]) and no output with a nil
    LockingScript ([go_output_ok]).  Compiled only while gen/Funcs.status.json says the function is translated. *)
From Coq Require Import List ZArith NArith Bool.
From Coq Require Import Strings.Byte.
From GoBT Require Import lib.Bytes lib.GoSem lib.GoTx gen.Funcs proofs.GenFuncsTxTac proofs.GenFuncs_Tx_toBytesHelper.
From GoBT Require Import model.Tx.
Import ListNotations.
Local Open Scope Z_scope.

(** the case the model covers: a nil lockingScript (Tx.Bytes, Tx.ExtendedBytes); any index *)
Theorem C01_go_source_Tx_toBytesHelper_is_model :
  forall (index : Z) (ext : bool) (ins : list go_Input) (outs : list go_Output) (ver lock : Z),
  Forall go_input_ok ins -> Forall go_output_ok outs -> u32 ver -> u32 lock -> len_ok ins -> len_ok outs ->
  Tx_toBytesHelper index None ext (map Some ins) (map Some outs) ver lock = Val (tx_bytes ext (tx_of_go ins outs ver lock)).
Proof. exact Tx_toBytesHelper_is_model. Qed.
Print Assumptions C01_go_source_Tx_toBytesHelper_is_model.

Theorem C11_go_source_Tx_toBytesHelper_is_model :
  forall (index : Z) (ext : bool) (ins : list go_Input) (outs : list go_Output) (ver lock : Z),
  Forall go_input_ok ins -> Forall go_output_ok outs -> u32 ver -> u32 lock -> len_ok ins -> len_ok outs ->
  Tx_toBytesHelper index None ext (map Some ins) (map Some outs) ver lock = Val (tx_bytes ext (tx_of_go ins outs ver lock)).
Proof. exact Tx_toBytesHelper_is_model. Qed.
Print Assumptions C11_go_source_Tx_toBytesHelper_is_model.

(** non-vacuity: a transaction with one input and one output satisfies the hypotheses, and the printed function
    runs on it *)
Example ex_in : go_Input := mk_go_Input (repeat_byte 32 x11) 5000 (Some [x51]) None 1 4294967295.
Example ex_out : go_Output := mk_go_Output 4000 (Some [x6a]).
Example ex_hyps : Forall go_input_ok [ex_in] /\ Forall go_output_ok [ex_out] /\ u32 1 /\ u32 0 /\ len_ok [ex_in] /\ len_ok [ex_out].
Proof. unfold go_input_ok, go_output_ok, u32, u64, len_ok. cbn. repeat split; try (repeat constructor; cbn; repeat split; (discriminate || reflexivity || (intro; discriminate))); try discriminate; try reflexivity. Qed.
