(** Export: the Go source of stack.PushBool, as printed into gen/Funcs.v on every run, has the meaning the interpreter
    model gives it (proofs/GenFuncs_stack_PushBool.v).  Compiled only while gen/Funcs.status.json says the function is translated. *)
From Coq Require Import List ZArith NArith Bool.
From Coq Require Import Strings.Byte.
From GoBT Require Import lib.Bytes lib.GoSem lib.GoInterp gen.Funcs proofs.GenFuncsTac proofs.GenFuncsInterpTac proofs.GenFuncs_stack_PushByteArray proofs.GenFuncs_fromBool proofs.GenFuncs_stack_PushBool.
From GoBT Require model.Interp model.ScriptNum.
Import ListNotations.
Local Open Scope Z_scope.

Theorem C05_go_source_stack_PushBool_is_model : forall (b : bool) (d : list bytes),
  stack_PushBool b (rev d) = Val (rev (ScriptNum.from_bool b :: d)).
Proof. exact stack_PushBool_spec. Qed.
Print Assumptions C05_go_source_stack_PushBool_is_model.

Theorem C08_go_source_stack_PushBool_is_model : forall (b : bool) (d : list bytes),
  stack_PushBool b (rev d) = Val (rev (ScriptNum.from_bool b :: d)).
Proof. exact stack_PushBool_spec. Qed.
Print Assumptions C08_go_source_stack_PushBool_is_model.
