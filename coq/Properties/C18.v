(** C18 — Thread-safe types are race-free and concurrent validation equals sequential.
    Only statements, [exact], and [Print Assumptions]. Model: model/Locks.v; spec: spec/RaceSpec.v;
    proofs: proofs/LocksProofs.v; tables regenerated from the Go source: gen/Locks.v, gen/Globals.v.

    PARTIAL with respect to the property text, in exactly this sense: the theorems quantify over
    every number of threads and every schedule of the interleaving machine of model/Locks.v
    (sequentially consistent steps, RW-mutex, non-atomic writes). What ties that machine to the Go
    code is (a) the translator's table of lock/unlock/read/write actions per method (re-extracted
    and re-checked on every run) and (b) for the script engine the syntactic scan of package-level
    variables plus the hand-written confinement abstraction "an Execute call reads package-level
    variables and reads/writes only memory it allocated or was given exclusively". The Go memory
    model, the runtime's mutex implementation, and the confinement abstraction itself are not
    proved; they are validated at run time under the race detector (harness/cmd/c18race).
    Deadlock freedom IS stated, of the same machine (proofs/LocksDeadlock.v): its RW-mutex has no
    writer preference (an RLock succeeds whenever no writer holds the mutex), so no fairness is
    involved and the statement is "in every reachable state in which some thread has work left,
    some thread can take a step". Go's sync.RWMutex blocks new readers behind a waiting writer; the
    only extra waiting that adds is a reader waiting, on a mutex it does not hold, for a writer that
    waits for readers of that same mutex - covered by the same order argument on paper (a thread
    that holds a FeeQuote mutex acquires nothing), and, since the last
    session, by theorems about a second machine WITH writer preference (model/LocksWP.v; the C18_wp_* statements at the end
    of this file). *)
From Coq Require Import List String Bool Arith PeanoNat.
From GoBT Require Import model.Locks spec.RaceSpec proofs.LocksProofs proofs.AuditD18 proofs.LocksDeadlock.
From GoBT Require Import model.SharedScript proofs.SharedScriptProofs.
From GoBT Require gen.Locks gen.Globals.
Import ListNotations.
Local Open Scope string_scope.
Local Open Scope list_scope.

(** the obligation that breaks when somebody removes a lock from fees.go: the GENERATED table passes
    the checker (every read under R or W, every write under W, balanced, no re-acquisition) *)
Theorem C18_table_is_well_locked : well_locked_raw gen.Locks.fee_methods = true.
Proof. vm_compute. reflexivity. Qed.
Print Assumptions C18_table_is_well_locked.

(** for all tables, thread counts, programs of method calls and schedules: a well-locked table
    never reaches a state with two threads positioned at conflicting accesses *)
Theorem C18_well_locked_race_free : forall tbl, well_locked tbl = true ->
  forall (mem0 : loc -> value) (P : tid -> list call), (forall t, forallb call_ok (P t) = true) ->
  forall s, reachable (init_state mem0 (call_progs tbl P)) s -> ~ racy s.
Proof. exact well_locked_race_free_proof. Qed.
Print Assumptions C18_well_locked_race_free.

(** every value any read returned is the location's initial value or one a write stored *)
Theorem C18_reads_see_writes : forall tbl, well_locked tbl = true ->
  forall (mem0 : loc -> value) (P : tid -> list call), (forall t, forallb call_ok (P t) = true) ->
  forall s, reachable (init_state mem0 (call_progs tbl P)) s -> reads_from_writes mem0 s.
Proof. exact reads_see_writes_proof. Qed.
Print Assumptions C18_reads_see_writes.

(** stronger (linearizability of each guarded variable): a read step returns the newest completed
    write, whatever arbitrary value [g] the schedule offers to racy accesses *)
Theorem C18_reads_see_newest_write : forall tbl, well_locked tbl = true ->
  forall (mem0 : loc -> value) (P : tid -> list call), (forall t, forallb call_ok (P t) = true) ->
  forall s, reachable (init_state mem0 (call_progs tbl P)) s ->
  forall t g s' o f rest, prog (thr s t) = GRead o f :: rest -> step s t g = Some s' ->
  log (thr s' t) = ((o, f), newest mem0 s (o, f)) :: log (thr s t).
Proof. exact reads_see_newest_proof. Qed.
Print Assumptions C18_reads_see_newest_write.

(** the two together, for fees.go as it is now *)
Theorem C18_fee_quotes_race_free : forall tbl, dec_table gen.Locks.fee_methods = Some tbl ->
  forall (mem0 : loc -> value) (P : tid -> list call), (forall t, forallb call_ok (P t) = true) ->
  forall s, reachable (init_state mem0 (call_progs tbl P)) s -> ~ racy s /\ reads_from_writes mem0 s.
Proof.
  intros tbl Hd mem0 P Hok s Hr.
  assert (Hwl : well_locked tbl = true).
  { pose proof C18_table_is_well_locked as H. unfold well_locked_raw in H. rewrite Hd in H. exact H. }
  split; [eapply well_locked_race_free_proof | eapply reads_see_writes_proof]; eauto.
Qed.
Print Assumptions C18_fee_quotes_race_free.

(** the script engine: no package-level variable of bscript/interpreter (+errs, scriptflag), bscript,
    sighash, bt is written after init, none escapes un-audited, the engine struct has no fields,
    Execute/createThread start from fresh allocations — on the GENERATED table *)
Theorem C18_engine_shares_nothing :
  shares_nothing gen.Globals.globals gen.Globals.engine_fields gen.Globals.fresh_allocations = true.
Proof. vm_compute. reflexivity. Qed.
Print Assumptions C18_engine_shares_nothing.

(** ... hence threads whose accesses are confined the way an Execute call's are (read package-level
    variables, read/write their own allocations; shared writes only to variables the scan found
    mutated — there are none) never race, and every thread that finishes has observed exactly
    the reads it observes when run alone: concurrent validation = sequential validation.
    (Close to holding by construction: under [shares_nothing] a [confined] thread writes only its own
    allocations and reads only those and never-written package-level variables, so non-interference
    follows from the definition of [confined]. That an Execute call IS confined - in particular that
    the transactions handed to concurrent calls are distinct objects: createThread/apply writes the
    previous output into tx.Inputs[i] and the signature opcodes clone the whole tx, so two calls on
    different inputs of the SAME transaction are not covered - is the hand-written abstraction,
    validated only by the run-time race harness. The conclusion is about the reads a call observes;
    that its verdict is a function of those reads is left implicit.) *)
Theorem C18_concurrent_equals_sequential : forall gl ef fr, shares_nothing gl ef fr = true ->
  forall (mem0 : loc -> value) (P : tid -> list mact),
  (forall t, confined (mutated_names gl) ef t (P t) = true) ->
  forall s, reachable (init_state mem0 P) s ->
  ~ racy s /\ forall t, prog (thr s t) = [] -> log (thr s t) = seq_log mem0 (P t) [].
Proof. exact concurrent_equals_sequential_proof. Qed.
Print Assumptions C18_concurrent_equals_sequential.

(** The confinement hypothesis cannot be dropped for writes that are UNDONE. Different transactions may name one
    script object (outputs with the same script, interned); an operand the interpreter pops is a slice of the
    script that pushed it. A validation that rearranges such an operand in place and puts the old bytes back
    ([restoring]) is indistinguishable from one that works on a copy as long as validations run one after the other
    (first statement: both orders give every validation the log it has alone and leave the script as it was), it
    is NOT confined (second), and beside it a validation that only READS the same script object can finish with a
    log different from the one it has alone (third: there is a reachable state; the rearranged bytes, or - read in
    the middle of the write - any value at all). The run-time side is the read-only-memory probe of the harness
    (corr case CReadOnly) and the rounds in which several transactions name one script object. *)
Theorem C18_write_and_restore_invisible_sequentially : forall k tmp orig g,
  let P := two (restoring k tmp orig) (reading k) in
  let m0 := fun _ : loc => orig in
  option_map (fun s => (log (thr s 0), log (thr s 1), cval (mem s (script_loc k))))
    (run (init_state m0 P) [(0,g);(0,g);(0,g);(0,g);(0,g);(1,g)])
    = Some (seq_log m0 (P 0) [], seq_log m0 (P 1) [], orig) /\
  option_map (fun s => (log (thr s 0), log (thr s 1), cval (mem s (script_loc k))))
    (run (init_state m0 P) [(1,g);(0,g);(0,g);(0,g);(0,g);(0,g)])
    = Some (seq_log m0 (P 0) [], seq_log m0 (P 1) [], orig).
Proof. exact restoring_invisible_sequentially. Qed.
Print Assumptions C18_write_and_restore_invisible_sequentially.

Theorem C18_write_into_shared_script_not_confined : forall G F t k tmp orig,
  existsb (String.eqb script_bytes) G = false -> confined G F t (restoring k tmp orig) = false.
Proof. exact restoring_not_confined. Qed.
Print Assumptions C18_write_into_shared_script_not_confined.

Theorem C18_write_and_restore_breaks_equality : forall k tmp orig, tmp <> orig ->
  let P := two (restoring k tmp orig) (reading k) in
  let m0 := fun _ : loc => orig in
  confined [] [] 1 (P 1) = true /\
  exists s, reachable (init_state m0 P) s /\ prog (thr s 1) = [] /\ log (thr s 1) <> seq_log m0 (P 1) [].
Proof. exact write_and_restore_breaks_equality. Qed.
Print Assumptions C18_write_and_restore_breaks_equality.

(** ... and read in the middle of the write, the other validation reads ANY value [g] *)
Theorem C18_write_and_restore_read_torn : forall k tmp orig g,
  let P := two (restoring k tmp orig) (reading k) in
  option_map (fun s => (prog (thr s 1), log (thr s 1)))
    (run (init_state (fun _ => orig) P) [(0,g);(1,g)])
    = Some ([], [(script_loc k, g)]).
Proof. exact restoring_observable_torn. Qed.
Print Assumptions C18_write_and_restore_read_torn.

(** SENSITIVITY of the one obligation that depends on fees.go (audit D), exhaustively on the GENERATED table:
    deleting any single RLock/Lock, or any single RUnlock/Unlock, from any path of any method makes
    the checker answer false *)
Theorem C18_every_lock_is_needed :
  forallb (fun t => negb (well_locked_raw t)) (mutate_table "acquire" gen.Locks.fee_methods) = true /\
  forallb (fun t => negb (well_locked_raw t)) (mutate_table "release" gen.Locks.fee_methods) = true /\
  (0 < List.length (mutate_table "acquire" gen.Locks.fee_methods))%nat /\
  List.length (mutate_table "acquire" gen.Locks.fee_methods) = List.length (mutate_table "release" gen.Locks.fee_methods).
Proof. exact every_lock_is_needed. Qed.
Print Assumptions C18_every_lock_is_needed.

(** ... and the table is not trivially well locked: every guarded field is read and written in it *)
Theorem C18_guarded_fields_all_accessed :
  forallb (fun gf => touches "read" (snd gf) gen.Locks.fee_methods && touches "write" (snd gf) gen.Locks.fee_methods)
          gen.Locks.guarded_fields = true /\ gen.Locks.guarded_fields <> [].
Proof. exact guarded_fields_all_accessed. Qed.
Print Assumptions C18_guarded_fields_all_accessed.

(** LOCK ORDER certificate: in every path of every method, calls inlined, a receiver's mutex is
    acquired only with nothing held, an element's only with at most the receiver's held, and nothing
    is acquired under an element's mutex *)
Theorem C18_fee_table_lock_ordered : lock_ordered fee_table = true /\ fee_table <> [].
Proof. exact fee_table_lock_ordered. Qed.
Print Assumptions C18_fee_table_lock_ordered.

(** DEADLOCK FREEDOM, for all tables, thread counts, programs of method calls and schedules: a table
    that passes the discipline checker and the lock-order checker never reaches a state in which
    some thread has work left and no thread can take a step *)
Theorem C18_well_locked_ordered_deadlock_free : forall tbl, well_locked tbl = true -> lock_ordered tbl = true ->
  forall (mem0 : loc -> value) (P : tid -> list call), (forall t, forallb call_ok (P t) = true) ->
  forall s, reachable (init_state mem0 (call_progs tbl P)) s -> ~ stuck s.
Proof. exact deadlock_free_proof. Qed.
Print Assumptions C18_well_locked_ordered_deadlock_free.

(** the same, positively (and constructively: the thread is found by following at most two
    "waits for the holder of" links from any thread with work left): in every reachable state in
    which some thread has work left, some thread can take a step *)
Theorem C18_well_locked_ordered_progress : forall tbl, well_locked tbl = true -> lock_ordered tbl = true ->
  forall (mem0 : loc -> value) (P : tid -> list call), (forall t, forallb call_ok (P t) = true) ->
  forall s, reachable (init_state mem0 (call_progs tbl P)) s ->
  (exists t, prog (thr s t) <> []) -> exists t s', step s t 0 = Some s'.
Proof. exact progress_proof. Qed.
Print Assumptions C18_well_locked_ordered_progress.

(** why: when a thread waits (is positioned at an acquire of [o0]) for a thread that itself waits
    (holds [o0], positioned at an acquire of [o1]), then [o0] is a container's mutex, the first
    thread holds nothing, [o1] is a FeeQuote's mutex, and whoever holds [o1] can step *)
Theorem C18_waiting_chains_are_short : forall tbl, well_locked tbl = true -> lock_ordered tbl = true ->
  forall (mem0 : loc -> value) (P : tid -> list call), (forall t, forallb call_ok (P t) = true) ->
  forall s, reachable (init_state mem0 (call_progs tbl P)) s ->
  forall t0 t1 o0 m0 r0 m0' o1 m1 r1,
    prog (thr s t0) = GAcq o0 m0 :: r0 -> In (o0, m0') (held (thr s t1)) ->
    prog (thr s t1) = GAcq o1 m1 :: r1 ->
    is_leaf o0 = false /\ is_leaf o1 = true /\ held (thr s t0) = [] /\
    forall t2 m1', In (o1, m1') (held (thr s t2)) -> exists s', step s t2 0 = Some s'.
Proof. exact waiting_chain_short_proof. Qed.
Print Assumptions C18_waiting_chains_are_short.

(** ... for fees.go as it is now: the GENERATED table passes both checkers, hence no deadlock and
    progress, whatever the threads call and however they are scheduled *)
Theorem C18_fee_quotes_deadlock_free : forall tbl, dec_table gen.Locks.fee_methods = Some tbl ->
  forall (mem0 : loc -> value) (P : tid -> list call), (forall t, forallb call_ok (P t) = true) ->
  forall s, reachable (init_state mem0 (call_progs tbl P)) s ->
  ~ stuck s /\ ((exists t, prog (thr s t) <> []) -> exists t s', step s t 0 = Some s').
Proof. exact (fee_quotes_deadlock_free_from C18_table_is_well_locked C18_fee_table_lock_ordered). Qed.
Print Assumptions C18_fee_quotes_deadlock_free.

(** schedules given as lists are reachable states (so the theorems cover every [run]) *)
Theorem C18_run_reachable : forall sched s s', run s sched = Some s' -> reachable s s'.
Proof. exact run_reachable. Qed.
Print Assumptions C18_run_reachable.

(* ------------------------------------------------------------------------------------------ *)
(** Non-vacuity and sensitivity *)

Definition the_table : list method :=
  match dec_table gen.Locks.fee_methods with Some t => t | None => [] end.

(** three threads on one FeeQuotes (object 0) holding FeeQuote 7: a writer through the
    container, a reader through the container, a direct reader; an interleaved schedule runs to
    completion and both readers see the written 42 / the initial 5 *)
Definition ex_P (t : tid) : list call :=
  match t with
  | 0 => [mkCall TFeeQuotes "UpdateMinerFees" 2 0 7 42]
  | 1 => [mkCall TFeeQuotes "Fee" 3 0 7 0]
  | 2 => [mkCall TFeeQuote "Fee" 1 7 0 0; mkCall TFeeQuote "MarshalJSON" 0 7 0 0]
  | _ => []
  end.
Definition ex_sched : list (tid * value) :=
  [(2,99);(2,99);(2,99);(0,99);(0,99);(0,99);(0,99);(0,99);(0,99);(2,99);(0,99);(1,99);(2,99);(1,99);(1,99);(1,99);(2,99);(1,99);(1,99)].
Example C18_model_runs :
  (forall t, forallb call_ok (ex_P t) = true) /\
  option_map (fun s => (log (thr s 1), log (thr s 2), prog (thr s 0), prog (thr s 1), prog (thr s 2)))
             (run (init_state (fun _ => 5) (call_progs the_table ex_P)) ex_sched)
  = Some ([((TFeeQuote, 7, "fees"), 42); ((TFeeQuotes, 0, "quotes"), 5)],
          [((TFeeQuote, 7, "fees"), 42); ((TFeeQuote, 7, "fees"), 5)], [], [], []).
Proof. split; [intros [|[|[|t]]]; reflexivity | vm_compute; reflexivity]. Qed.

(** the model does exhibit races: fees.go as it was before `fix: FeeQuote JSON marshalling holds the
    FeeQuote lock` (MarshalJSON reads fees without RLock) is rejected by the checker, reaches a racy
    state, and its read returns the schedule's arbitrary value 999 *)
Definition unlocked_marshal : rawtable :=
  [("FeeQuote", "AddQuote", [[("acquire","self","W"); ("write","self","fees"); ("release","self","W")]]);
   ("FeeQuote", "MarshalJSON", [[("read","self","fees")]])].
Definition um_table : list method := match dec_table unlocked_marshal with Some t => t | None => [] end.
Definition um_progs : tid -> list mact :=
  fun t => match t with
           | 0 => [GAcq (TFeeQuote, 0) MW; GWBegin (TFeeQuote, 0) "fees"; GWEnd (TFeeQuote, 0) "fees" 1; GRel (TFeeQuote, 0) MW]
           | 1 => [GRead (TFeeQuote, 0) "fees"]
           | _ => []
           end.
Example C18_unlocked_marshal_rejected_and_racy :
  well_locked_raw unlocked_marshal = false /\
  (exists s, reachable (init_state (fun _ => 5) um_progs) s /\ racy s) /\
  option_map (fun s => log (thr s 1)) (run (init_state (fun _ => 5) um_progs) [(0,0);(0,0);(1,999)])
  = Some [((TFeeQuote, 0, "fees"), 999)].
Proof.
  split; [vm_compute; reflexivity|]. split; [|vm_compute; reflexivity].
  destruct (run (init_state (fun _ => 5) um_progs) [(0,0)]) as [s|] eqn:E; [|vm_compute in E; discriminate].
  exists s. split; [eapply run_reachable; eauto|].
  exists 0, 1, ((TFeeQuote, 0), "fees"), true, false.
  vm_compute in E. inversion E; subst s; clear E.
  split; [discriminate|]. split; [|split; [|left; reflexivity]].
  - eexists; eexists; split; [vm_compute; reflexivity | reflexivity].
  - eexists; eexists; split; [vm_compute; reflexivity | reflexivity].
Qed.

(** the model does exhibit deadlocks, and the lock-order checker is what excludes them: a table whose
    method A locks receiver then element and whose method B locks element then receiver passes the
    discipline checker, fails the order checker, and two threads calling A and B on the same pair of
    objects reach (after one step each) a state where both have work left and nobody can step.
    (With read locks instead the same table does not deadlock in this machine: no writer preference.) *)
Definition ab_ba : rawtable :=
  [("FeeQuotes", "A", [[("acquire","self","W"); ("acquire","elem","W"); ("release","elem","W"); ("release","self","W")]]);
   ("FeeQuotes", "B", [[("acquire","elem","W"); ("acquire","self","W"); ("release","self","W"); ("release","elem","W")]])].
Definition ab_table : list method := match dec_table ab_ba with Some t => t | None => [] end.
Definition ab_P (t : tid) : list call :=
  match t with
  | 0 => [mkCall TFeeQuotes "A" 0 0 7 0]
  | 1 => [mkCall TFeeQuotes "B" 0 0 7 0]
  | _ => []
  end.
Example C18_opposite_orders_deadlock :
  well_locked_raw ab_ba = true /\ lock_ordered ab_table = false /\
  (forall t, forallb call_ok (ab_P t) = true) /\
  exists s, reachable (init_state (fun _ => 0) (call_progs ab_table ab_P)) s /\ stuck s.
Proof.
  split; [vm_compute; reflexivity|]. split; [vm_compute; reflexivity|].
  split; [intros [|[|t]]; reflexivity|].
  destruct (run (init_state (fun _ => 0) (call_progs ab_table ab_P)) [(0,0);(1,0)]) as [s|] eqn:E; [|vm_compute in E; discriminate].
  exists s. split; [eapply run_reachable; eauto|].
  vm_compute in E. inversion E; subst s; clear E.
  split; [exists 0; discriminate|].
  intros [|[|t]] g; reflexivity.
Qed.

(** the lock-order checker alone: a method that takes the receiver's mutex under the element's, or a
    second mutex of the same kind under the first, is rejected; the nested pattern of fees.go
    (receiver, then element through a call, released inside) is accepted *)
Definition lock_ordered_raw (r : rawtable) : bool :=
  match dec_table r with Some t => lock_ordered t | None => false end.
Example C18_order_checker_rejects :
  lock_ordered_raw [("FeeQuotes", "B", [[("acquire","elem","W"); ("acquire","self","W"); ("release","self","W"); ("release","elem","W")]])] = false /\
  lock_ordered_raw [("FeeQuotes", "B", [[("acquire","elem","R"); ("acquire","self","R"); ("release","self","R"); ("release","elem","R")]])] = false /\
  lock_ordered_raw [("FeeQuotes", "A", [[("acquire","self","R"); ("call","elem","B"); ("release","self","R")]]);
                    ("FeeQuote", "B", [[("acquire","self","R"); ("read","self","fees"); ("release","self","R")]])] = true /\
  lock_ordered_raw gen.Locks.fee_methods = true.
Proof. vm_compute. repeat split. Qed.

(** a method that calls a locking method of the same receiver while holding its mutex is rejected
    (sync.RWMutex is not re-entrant: self-deadlock), as is a read under no lock, a write under a
    read lock, a missing unlock, and unbounded recursion between methods *)
Example C18_checker_rejects :
  well_locked_raw [("FeeQuote", "A", [[("acquire","self","R"); ("call","self","B"); ("release","self","R")]]);
                   ("FeeQuote", "B", [[("acquire","self","R"); ("read","self","fees"); ("release","self","R")]])] = false /\
  well_locked_raw [("FeeQuote", "A", [[("acquire","self","R"); ("write","self","fees"); ("release","self","R")]])] = false /\
  well_locked_raw [("FeeQuote", "A", [[("acquire","self","W"); ("write","self","fees")]])] = false /\
  well_locked_raw [("FeeQuote", "A", [[("acquire","self","W"); ("write","self","fees"); ("release","self","R")]])] = false /\
  well_locked_raw [("FeeQuote", "A", [[("call","self","A")]])] = false /\
  well_locked_raw [("FeeQuotes", "A", [[("acquire","self","R"); ("read","elem","fees"); ("release","self","R")]])] = false /\
  well_locked_raw [("FeeQuotes", "A", [[("acquire","self","R"); ("read","self","quotes"); ("call","elem","B"); ("release","self","R")]]);
                   ("FeeQuote", "B", [[("acquire","self","R"); ("read","self","fees"); ("release","self","R")]])] = true.
Proof. vm_compute. repeat split. Qed.

(** a mutated package-level variable, an engine field, or an un-audited escape breaks [shares_nothing] *)
Example C18_shares_nothing_is_sensitive :
  shares_nothing [("interpreter", "cache", "map", true, false, "engine.go:50: element or field assigned through it")] [] [("x", true)] = false /\
  shares_nothing [("interpreter", "zero", "pointer", false, false, "")] ["cache"] [("x", true)] = false /\
  shares_nothing [("interpreter", "zero", "pointer", false, true, "number.go:1: escapes")] [] [("x", true)] = false /\
  shares_nothing [("interpreter", "zero", "pointer", false, false, "")] [] [("x", false)] = false /\
  shares_nothing [("interpreter", "zero", "pointer", false, false, "")] [] [("x", true)] = true.
Proof. vm_compute. repeat split. Qed.

(** confinement is satisfiable and the conclusion non-trivial: two "validations" with private state *)
Definition ex_E (t : tid) : list mact :=
  match t with
  | 0 => [GRead (TGlobal, 0) "interpreter.opcodeArray"; GWBegin (TPrivate, 0) "dstack"; GWEnd (TPrivate, 0) "dstack" 11; GRead (TPrivate, 0) "dstack"]
  | 1 => [GWBegin (TPrivate, 1) "dstack"; GWEnd (TPrivate, 1) "dstack" 22; GRead (TGlobal, 0) "interpreter.opcodeArray"; GRead (TPrivate, 1) "dstack"]
  | _ => []
  end.
Example C18_confined_satisfiable :
  (forall t, confined (mutated_names gen.Globals.globals) gen.Globals.engine_fields t (ex_E t) = true) /\
  option_map (fun s => (log (thr s 0), log (thr s 1)))
             (run (init_state (fun _ => 3) ex_E) [(1,9);(0,9);(0,9);(1,9);(1,9);(0,9);(1,9);(0,9)])
  = Some (seq_log (fun _ => 3) (ex_E 0) [], seq_log (fun _ => 3) (ex_E 1) []).
Proof. split; [intros [|[|t]]; vm_compute; reflexivity | vm_compute; reflexivity]. Qed.

(** State inventory (tie, translator part): every Go struct the model of this property represents has, in the
    source as it is NOW (gen/Structs.v, regenerated on every run), exactly the fields - names, types, order - the
    model was written against (model/StateInventory.v).  New state in these objects (a memoised digest, a cached
    document, a remembered operand) is state the theorems above do not speak about: this is the obligation that
    stops checking then. *)
From GoBT Require gen.Structs model.StateInventory.
Theorem C18_state_inventory :
  forall k, In k (StateInventory.group_of StateInventory.pC18) ->
  exists f, StateInventory.lookup_gen gen.Structs.structs k = Some f /\ StateInventory.lookup_model k = Some f.
Proof. apply StateInventory.inventory_ok_spec. vm_compute. reflexivity. Qed.
Print Assumptions C18_state_inventory.

(** Package-level state (tie, translator part): in the source as it is NOW (gen/Globals.v) no package-level variable of
    the packages this property's code lives in can change after initialisation or is handed out by reference - the
    model's functions are functions of their arguments only (model/StateInventory.v). *)
From GoBT Require gen.Globals.
Theorem C18_no_mutable_package_state :
  forall g, In g gen.Globals.globals -> In (StateInventory.rg_pkg g) (StateInventory.packages_of StateInventory.pC18) ->
  StateInventory.rg_mutated g = false /\ StateInventory.rg_escapes g = false.
Proof. apply StateInventory.pkg_state_ok_spec. vm_compute. reflexivity. Qed.
Print Assumptions C18_no_mutable_package_state.

(* ------------------------------------------------------------------------------------------ *)
(** WRITER PREFERENCE (closes the open item "writer preference of Go's RWMutex (not in the machine)").
    model/LocksWP.v is the machine above with Go's rule added: a thread's Lock() is split into ANNOUNCE
    (always enabled; the thread enters the mutex' pending set [pend]) and ACQUIRE (enabled when no reader and no
    writer holds); RLock() is enabled only when no writer holds AND no writer is pending; everything else is the
    old step. Not modelled: the order among several pending writers, the hand-over of the read lock at Unlock,
    fairness (see the header of model/LocksWP.v for why this is on the safe side). Proofs: proofs/LocksWPProofs.v.
    The statements are about [wreachable] / [wstep] / [wstuck]; [base w] is the state of the old machine. *)
From GoBT Require Import model.LocksWP proofs.LocksWPProofs.

(** the new machine only removes behaviours: a step is an announce (invisible in the old state) or the old step
    of the same thread; every reachable state lies over a reachable state of the old machine; every schedule,
    announces erased, is a schedule of the old machine *)
Theorem C18_wp_step_projects : forall w t g w', wstep w t g = Some w' ->
  base w' = base w \/ step (base w) t g = Some (base w').
Proof. exact wstep_projects. Qed.
Print Assumptions C18_wp_step_projects.

Theorem C18_wp_reachable_projects : forall w0 w, wreachable w0 w -> reachable (base w0) (base w).
Proof. exact wreachable_projects. Qed.
Print Assumptions C18_wp_reachable_projects.

Theorem C18_wp_run_projects : forall sched w w', wrun w sched = Some w' ->
  exists sched', run (base w) sched' = Some (base w') /\ (List.length sched' <= List.length sched)%nat.
Proof. exact wrun_projects. Qed.
Print Assumptions C18_wp_run_projects.

Theorem C18_wp_run_reachable : forall sched w w', wrun w sched = Some w' -> wreachable w w'.
Proof. exact wrun_wreachable. Qed.
Print Assumptions C18_wp_run_reachable.

(** SAFETY under writer preference, for every table accepted by [well_locked] *)
Theorem C18_wp_well_locked_race_free : forall tbl, well_locked tbl = true ->
  forall (mem0 : loc -> value) (P : tid -> list call), (forall t, forallb call_ok (P t) = true) ->
  forall w, wreachable (winit mem0 (call_progs tbl P)) w -> ~ racy (base w).
Proof. exact wp_well_locked_race_free_proof. Qed.
Print Assumptions C18_wp_well_locked_race_free.

Theorem C18_wp_reads_see_writes : forall tbl, well_locked tbl = true ->
  forall (mem0 : loc -> value) (P : tid -> list call), (forall t, forallb call_ok (P t) = true) ->
  forall w, wreachable (winit mem0 (call_progs tbl P)) w -> reads_from_writes mem0 (base w).
Proof. exact wp_reads_see_writes_proof. Qed.
Print Assumptions C18_wp_reads_see_writes.

Theorem C18_wp_reads_see_newest_write : forall tbl, well_locked tbl = true ->
  forall (mem0 : loc -> value) (P : tid -> list call), (forall t, forallb call_ok (P t) = true) ->
  forall w, wreachable (winit mem0 (call_progs tbl P)) w ->
  forall t g w' o f rest, prog (thr (base w) t) = GRead o f :: rest -> wstep w t g = Some w' ->
  log (thr (base w') t) = ((o, f), newest mem0 (base w) (o, f)) :: log (thr (base w) t).
Proof. exact wp_reads_see_newest_proof. Qed.
Print Assumptions C18_wp_reads_see_newest_write.

(** DEADLOCK FREEDOM under writer preference. It does not follow from the projection (the new machine has one
    more way of waiting) and is proved again. The EXISTING checkers suffice - no extra ordering condition: a
    thread that cannot step waits, directly or through a pending writer (which is positioned at its Lock of that
    mutex), for a thread that HOLDS the mutex, or that pending writer can acquire right now; holders are
    ordered as before (nothing is acquired under a FeeQuote's mutex). *)
Theorem C18_wp_well_locked_ordered_deadlock_free : forall tbl, well_locked tbl = true -> lock_ordered tbl = true ->
  forall (mem0 : loc -> value) (P : tid -> list call), (forall t, forallb call_ok (P t) = true) ->
  forall w, wreachable (winit mem0 (call_progs tbl P)) w -> ~ wstuck w.
Proof. exact wp_deadlock_free_proof. Qed.
Print Assumptions C18_wp_well_locked_ordered_deadlock_free.

(** positively: in every reachable state in which some thread has work left, some thread can take a step *)
Theorem C18_wp_well_locked_ordered_progress : forall tbl, well_locked tbl = true -> lock_ordered tbl = true ->
  forall (mem0 : loc -> value) (P : tid -> list call), (forall t, forallb call_ok (P t) = true) ->
  forall w, wreachable (winit mem0 (call_progs tbl P)) w ->
  (exists t, prog (thr (base w) t) <> []) -> exists t w', wstep w t 0 = Some w'.
Proof. exact wp_progress_proof. Qed.
Print Assumptions C18_wp_well_locked_ordered_progress.

(** the waiting writer preference adds, spelled out: a reader positioned at RLock of [o] while [tw] is pending
    on [o] cannot step; then [tw] can acquire right now, or [o] is held by another thread [t1] which can step
    or is acquiring a FeeQuote's mutex [o1] under the container's mutex [o], and every holder of [o1] can step *)
Theorem C18_wp_reader_behind_writer : forall tbl, well_locked tbl = true -> lock_ordered tbl = true ->
  forall (mem0 : loc -> value) (P : tid -> list call), (forall t, forallb call_ok (P t) = true) ->
  forall w, wreachable (winit mem0 (call_progs tbl P)) w ->
  forall t o rest tw, prog (thr (base w) t) = GAcq o MR :: rest -> In tw (pend w o) ->
    wstep w t 0 = None /\
    ((exists w', wstep w tw 0 = Some w') \/
     (exists t1 m1, In (o, m1) (held (thr (base w) t1)) /\ t1 <> t /\
        ((exists w', wstep w t1 0 = Some w') \/
         (exists o1 m r1, prog (thr (base w) t1) = GAcq o1 m :: r1 /\ is_leaf o = false /\ is_leaf o1 = true /\
            forall t2 m2, In (o1, m2) (held (thr (base w) t2)) -> exists w', wstep w t2 0 = Some w')))).
Proof. exact wp_reader_behind_writer_proof. Qed.
Print Assumptions C18_wp_reader_behind_writer.

(** a pending writer is positioned at its Lock() of that mutex, in every reachable state of any program *)
Theorem C18_wp_pending_is_at_lock : forall mem0 progs w, wreachable (winit mem0 progs) w ->
  forall o t, In t (pend w o) -> exists rest, prog (thr (base w) t) = GAcq o MW :: rest.
Proof. intros mem0 progs w Hr. exact (wreachable_PInv _ _ (winit_PInv mem0 progs) Hr). Qed.
Print Assumptions C18_wp_pending_is_at_lock.

(** ... for fees.go as it is now (the GENERATED table, the same two obligations as above) *)
Theorem C18_wp_fee_quotes_race_free : forall tbl, dec_table gen.Locks.fee_methods = Some tbl ->
  forall (mem0 : loc -> value) (P : tid -> list call), (forall t, forallb call_ok (P t) = true) ->
  forall w, wreachable (winit mem0 (call_progs tbl P)) w -> ~ racy (base w) /\ reads_from_writes mem0 (base w).
Proof. exact (wp_fee_quotes_race_free_from C18_table_is_well_locked). Qed.
Print Assumptions C18_wp_fee_quotes_race_free.

Theorem C18_wp_fee_quotes_deadlock_free : forall tbl, dec_table gen.Locks.fee_methods = Some tbl ->
  forall (mem0 : loc -> value) (P : tid -> list call), (forall t, forallb call_ok (P t) = true) ->
  forall w, wreachable (winit mem0 (call_progs tbl P)) w ->
  ~ wstuck w /\ ((exists t, prog (thr (base w) t) <> []) -> exists t w', wstep w t 0 = Some w').
Proof. exact (wp_fee_quotes_deadlock_free_from C18_table_is_well_locked C18_fee_table_lock_ordered). Qed.
Print Assumptions C18_wp_fee_quotes_deadlock_free.

(** WHY the rule "no acquire of a mutex already held" of [well_locked] is needed for READ locks: FeeQuote with
    Expired written as "RLock; Expiry(); RUnlock" (Expiry read-locks the same mutex) is rejected by the checker
    (and accepted with the nesting removed); run anyway, one thread in Expired and one in UpdateExpiry reach,
    WITH writer preference, a state where nobody can step: the reader holds, the writer has announced and waits
    for the reader, the reader's nested RLock is kept out by the pending writer. *)
Theorem C18_wp_recursive_rlock_deadlocks :
  well_locked_raw rr_raw = false /\ well_locked_raw rr_flat_raw = true /\
  (forall t, forallb call_ok (rr_P t) = true) /\
  exists w, wreachable (winit (fun _ => 0) (call_progs rr_table rr_P)) w /\ wstuck w /\
            prog (thr (base w) 0) = tl rr_p0 /\ prog (thr (base w) 1) = rr_p1 /\ pend w o7 = [1].
Proof. exact wp_recursive_rlock_deadlocks_proof. Qed.
Print Assumptions C18_wp_recursive_rlock_deadlocks.

(** WITHOUT writer preference the same two threads never get stuck (every reachable state, every schedule), and
    the schedule that is stuck above, its announce erased, runs to the end *)
Theorem C18_old_machine_recursive_rlock_progresses :
  (forall s, reachable (init_state (fun _ => 0) (call_progs rr_table rr_P)) s ->
     (exists t, prog (thr s t) <> []) -> exists t s', step s t 0 = Some s') /\
  (forall s, reachable (init_state (fun _ => 0) (call_progs rr_table rr_P)) s -> ~ stuck s) /\
  option_map (fun s => (prog (thr s 0), prog (thr s 1), log (thr s 0)))
    (run (init_state (fun _ => 0) (call_progs rr_table rr_P)) [(0,0);(0,0);(0,0);(0,0);(0,0);(1,0);(1,0);(1,0);(1,0)])
  = Some ([], [], [((o7, "expiryTime"), 0)]).
Proof. exact old_machine_recursive_rlock_progresses_proof. Qed.
Print Assumptions C18_old_machine_recursive_rlock_progresses.

(** Non-vacuity of the writer-preference theorems, on the GENERATED table: the hypotheses hold of it
    ([C18_table_is_well_locked], [C18_fee_table_lock_ordered], [dec_table] answers [Some]); four threads run to
    completion through two announce steps with the reads 5 before / 42 after the write; and the machine does
    differ from the old one on this table: after "thread 1 RLocks the container, thread 0 announces its Lock"
    thread 3's RLock of the container cannot step here while it can in the old machine *)
Example C18_wp_model_runs :
  (forall t, forallb call_ok (wp_P t) = true) /\
  option_map (fun w => (wstep w 3 0, match step (base w) 3 0 with Some _ => true | None => false end,
                        pend w (TFeeQuotes, 0)))
    (wrun (winit (fun _ => 5) (call_progs fee_table wp_P)) [(1,99);(0,99)])
  = Some (None, true, [0]) /\
  option_map (fun w => (wstep w 0 0, pend w (TFeeQuote, 7)))
    (wrun (winit (fun _ => 5) (call_progs fee_table wp_P)) (firstn 11 wp_sched))
  = Some (None, [0]) /\
  option_map (fun w => (map (fun t => (prog (thr (base w) t), log (thr (base w) t))) [0;1;2;3],
                        pend w (TFeeQuotes, 0), pend w (TFeeQuote, 7)))
    (wrun (winit (fun _ => 5) (call_progs fee_table wp_P)) wp_sched)
  = Some ([([], [((TFeeQuotes, 0, "quotes"), 5)]);
           ([], [((TFeeQuote, 7, "fees"), 5); ((TFeeQuotes, 0, "quotes"), 5)]);
           ([], [((TFeeQuote, 7, "fees"), 42); ((TFeeQuote, 7, "fees"), 5)]);
           ([], [((TFeeQuote, 7, "fees"), 42); ((TFeeQuotes, 0, "quotes"), 5)])], [], []).
Proof. exact wp_model_runs_proof. Qed.

Example C18_wp_hypotheses_satisfiable :
  (exists tbl, dec_table gen.Locks.fee_methods = Some tbl /\ well_locked tbl = true /\ lock_ordered tbl = true /\ tbl <> []) /\
  well_locked_raw rr_raw = false /\ lock_ordered rr_table = false.
Proof.
  split; [|exact rr_rejected_by_both].
  exists fee_table. split; [reflexivity|]. split; [vm_compute; reflexivity|]. exact fee_table_lock_ordered.
Qed.

(* ------------------------------------------------------------------------------------------ *)
(** * Calls that fail store nothing (model/FailedWrites.v, proofs/FailedWritesProofs.v)

    "Every read returns a value that some write actually stored": a call that returns an error is not such a write.
    The translator prints, next to the lock table, which paths of a method may end in a return of a non-nil error
    (gen/Locks.v [fee_method_fails], re-extracted on every run). *)
From Coq Require Import NArith.
From GoBT Require Import model.FailedWrites proofs.FailedWritesProofs.

(** the obligation that breaks when validation and store are merged in fees.go (a path that has already written the
    guarded map and then returns an error): on the GENERATED tables no path on which a call may report failure
    contains a write, calls inlined *)
Theorem C18_fee_failed_calls_store_nothing :
  failed_calls_store_nothing_raw gen.Locks.fee_methods gen.Locks.fee_method_fails = true.
Proof. vm_compute. reflexivity. Qed.
Print Assumptions C18_fee_failed_calls_store_nothing.

(** for all tables the checker accepts and every call the flags mark as failing: the program the machine runs for
    that call has no write action at all *)
Theorem C18_failed_call_stores_nothing : forall tbl ft, failed_calls_store_nothing tbl ft = true ->
  forall c, call_fails tbl ft c = true -> stores_nothing (inst (flat_table tbl) c) = true.
Proof. exact failed_call_stores_nothing_proof. Qed.
Print Assumptions C18_failed_call_stores_nothing.

(** and while a thread is inside such a program ([p], what is left of the failing call, in front of the rest of its
    work), every step it takes - in any state, with any number of other threads in any positions - leaves every
    memory cell and every location's history of stored values exactly as they were, and leaves it inside a shorter
    write-free block: readers see what they would have seen had the call never been made *)
Theorem C18_failed_call_step_invisible : forall s t g s' p rest,
  prog (thr s t) = p ++ rest -> p <> [] -> stores_nothing p = true -> step s t g = Some s' ->
  (forall l, mem s' l = mem s l) /\ (forall l, written s' l = written s l) /\
  exists p', prog (thr s' t) = p' ++ rest /\ stores_nothing p' = true /\ List.length p' < List.length p.
Proof. exact failed_call_step_invisible_proof. Qed.
Print Assumptions C18_failed_call_step_invisible.

(** the shape the run-time histories are checked in (corr/C18.v [CHistoryR]): when what rejected calls carried is
    disjoint from what was stored, "every read is initial or stored" excludes reads of rejected values *)
Theorem C18_rejected_values_unseen : forall (init stored rejected reads : list (string * N)),
  (forall w, In w rejected -> ~ In w (init ++ stored)) ->
  observed_ok String.eqb N.eqb init stored reads = true -> rejected_unseen String.eqb N.eqb rejected reads = true.
Proof.
  exact (observed_ok_rejected_unseen string N String.eqb N.eqb
           (fun a b H => proj1 (String.eqb_eq a b) H) (fun a b H => proj1 (N.eqb_eq a b) H)
           String.eqb_refl N.eqb_refl).
Qed.
Print Assumptions C18_rejected_values_unseen.

(** Non-vacuity. On the generated tables: UnmarshalJSON's first path (the document does not parse / names an unknown
    fee type) and UpdateMinerFees' first two (empty argument, unknown miner) are flagged failing and run write-free
    programs; UnmarshalJSON's second path (flattened index 1) is not flagged and stores the call's value. *)
Definition fee_fails : failtable := match dec_fails gen.Locks.fee_method_fails with Some f => f | None => [] end.
Example C18_failing_calls_of_fees_go :
  failed_calls_store_nothing fee_table fee_fails = true /\
  call_fails fee_table fee_fails (mkCall TFeeQuote "UnmarshalJSON" 0 7 0 42) = true /\
  call_fails fee_table fee_fails (mkCall TFeeQuote "UnmarshalJSON" 1 7 0 42) = false /\
  call_fails fee_table fee_fails (mkCall TFeeQuotes "UpdateMinerFees" 1 0 7 42) = true /\
  inst (flat_table fee_table) (mkCall TFeeQuotes "UpdateMinerFees" 1 0 7 42)
  = [GAcq (TFeeQuotes, 0) MW; GRead (TFeeQuotes, 0) "quotes"; GRel (TFeeQuotes, 0) MW] /\
  stores_nothing (inst (flat_table fee_table) (mkCall TFeeQuote "UnmarshalJSON" 1 7 0 42)) = false.
Proof. vm_compute. repeat split; reflexivity. Qed.

(** The model does exhibit the fault: UnmarshalJSON with validation and store merged under the lock (the map is
    replaced, then an unknown fee type makes the call return an error) is a well-locked table - no race, the lock
    discipline has nothing to say - that this checker rejects; and in the machine the "failed" call has stored its
    value: a reader that runs after it reads 42, not the 5 that was there. *)
Definition merged_unmarshal : rawtable :=
  [("FeeQuote", "Fee", [[("acquire","self","R"); ("read","self","fees"); ("release","self","R")]]);
   ("FeeQuote", "UnmarshalJSON", [[];
      [("acquire","self","W"); ("write","self","fees"); ("release","self","W")];
      [("acquire","self","W"); ("write","self","fees"); ("write","self","fees"); ("release","self","W")]])].
Definition merged_fails : rawfails := [("FeeQuote", "Fee", [true]); ("FeeQuote", "UnmarshalJSON", [true; true; false])].
Definition merged_table : list method := match dec_table merged_unmarshal with Some t => t | None => [] end.
Definition merged_P : tid -> list call :=
  fun t => match t with
           | 0 => [mkCall TFeeQuote "UnmarshalJSON" 1 7 0 42]
           | 1 => [mkCall TFeeQuote "Fee" 0 7 0 0]
           | _ => []
           end.
Example C18_merged_validate_and_store_rejected :
  well_locked_raw merged_unmarshal = true /\
  failed_calls_store_nothing_raw merged_unmarshal merged_fails = false /\
  option_map (fun s => log (thr s 1))
    (run (init_state (fun _ => 5) (call_progs merged_table merged_P)) [(0,0);(0,0);(0,0);(0,0);(1,0);(1,0);(1,0)])
  = Some [((TFeeQuote, 7, "fees"), 42)].
Proof. vm_compute. repeat split; reflexivity. Qed.
