(** Export: the Go source of isP2PKHInscriptionHelper, as printed into gen/Funcs.v on every run, is the model function the
    property theorems are about (proofs/GenFuncs_isP2PKHInscriptionHelper.v).  Compiled only while gen/Funcs.status.json says the
    function is translated. Panic case included (the function indexes parts and bytes of parts). *)
From Coq Require Import List ZArith NArith Bool.
From Coq Require Import Strings.Byte.
From GoBT Require Import lib.Bytes lib.GoSem lib.GoTx gen.Funcs proofs.GenFuncsTac proofs.GenFuncs_isP2PKHInscriptionHelper.
Local Open Scope Z_scope.

Theorem C14_go_source_isP2PKHInscriptionHelper_is_model :
  forall parts : list bytes, to_outcome (isP2PKHInscriptionHelper parts) = GoBT.model.Classify.inscription_helper parts.
Proof. exact isP2PKHInscriptionHelper_is_model. Qed.
Print Assumptions C14_go_source_isP2PKHInscriptionHelper_is_model.

Theorem C20_go_source_isP2PKHInscriptionHelper_is_model :
  forall parts : list bytes, to_outcome (isP2PKHInscriptionHelper parts) = GoBT.model.Classify.inscription_helper parts.
Proof. exact isP2PKHInscriptionHelper_is_model. Qed.
Print Assumptions C20_go_source_isP2PKHInscriptionHelper_is_model.
