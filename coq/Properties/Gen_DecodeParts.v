(** Export: the Go source of DecodeParts, as printed into gen/Funcs.v on every run, is the model function the
    property theorems are about (proofs/GenFuncs_DecodeParts.v).  Compiled only while gen/Funcs.status.json says the
    function is translated.  No hypothesis; [of_dres] maps the model's result to the Go function's ([][]byte, error),
    a model panic to [Panic] and the model's fuel artefact to [NoFuel] -- both are unreachable
    ([PushProofs.decode_parts_total]), so the code as printed never panics and the fuel [S (len b)] of its
    [for len(b) > 0] loop suffices ([..._total]). *)
From Coq Require Import List ZArith NArith Bool.
From Coq Require Import Strings.Byte.
From GoBT Require Import lib.Bytes lib.GoSem gen.Funcs proofs.GenFuncsTac proofs.GenFuncs_DecodeParts.
Local Open Scope Z_scope.

Theorem C13_go_source_DecodeParts_is_model :
  forall b : bytes, DecodeParts b = of_dres (GoBT.model.Push.decode_parts b).
Proof. exact DecodeParts_is_model. Qed.
Print Assumptions C13_go_source_DecodeParts_is_model.

Theorem C13_go_source_DecodeParts_total :
  forall b : bytes, exists parts err, DecodeParts b = Val (parts, err).
Proof. exact DecodeParts_total. Qed.
Print Assumptions C13_go_source_DecodeParts_total.

(** C14: the classifiers of model/Classify.v inspect the parts of this [decode_parts] *)
Theorem C14_go_source_DecodeParts_is_model :
  forall b : bytes, DecodeParts b = of_dres (GoBT.model.Push.decode_parts b).
Proof. exact DecodeParts_is_model. Qed.
Print Assumptions C14_go_source_DecodeParts_is_model.

(** C16: the ASM rendering of the node JSON (model/Asm.v [to_asm]) walks the parts of this [decode_parts] *)
Theorem C16_go_source_DecodeParts_is_model :
  forall b : bytes, DecodeParts b = of_dres (GoBT.model.Push.decode_parts b).
Proof. exact DecodeParts_is_model. Qed.
Print Assumptions C16_go_source_DecodeParts_is_model.

(** C20: ParseInscription (model/Inscription.v) reads the parts of this [decode_parts] *)
Theorem C20_go_source_DecodeParts_is_model :
  forall b : bytes, DecodeParts b = of_dres (GoBT.model.Push.decode_parts b).
Proof. exact DecodeParts_is_model. Qed.
Print Assumptions C20_go_source_DecodeParts_is_model.
