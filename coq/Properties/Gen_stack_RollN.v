(** Export: the Go source of stack.RollN, as printed into gen/Funcs.v on every run, has the meaning the interpreter
    model gives it (proofs/GenFuncs_stack_RollN.v).  Compiled only while gen/Funcs.status.json says the function is translated. *)
From Coq Require Import List ZArith NArith Bool.
From Coq Require Import Strings.Byte.
From GoBT Require Import lib.Bytes lib.GoSem lib.GoInterp gen.Funcs proofs.GenFuncsTac proofs.GenFuncsInterpTac proofs.GenFuncs_stack_nipN proofs.GenFuncs_stack_PushByteArray proofs.GenFuncs_stack_RollN.
From GoBT Require model.Interp model.ScriptNum.
Import ListNotations.
Local Open Scope Z_scope.

Theorem C05_go_source_stack_RollN_is_model : forall (n : Z) (d : list bytes), Interp.lenZ d < 2147483648 -> in31 n ->
  st_view (stack_RollN n (rev d)) = Val (Interp.roll_n n d).
Proof. exact stack_RollN_spec. Qed.
Print Assumptions C05_go_source_stack_RollN_is_model.

Theorem C08_go_source_stack_RollN_is_model : forall (n : Z) (d : list bytes), Interp.lenZ d < 2147483648 -> in31 n ->
  st_view (stack_RollN n (rev d)) = Val (Interp.roll_n n d).
Proof. exact stack_RollN_spec. Qed.
Print Assumptions C08_go_source_stack_RollN_is_model.
