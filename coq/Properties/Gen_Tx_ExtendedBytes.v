(** Export: the Go source of Tx.ExtendedBytes (tx.go), as printed into gen/Funcs.v on every run, is the model function the
    property theorems are about (proofs/GenFuncs_Tx_ExtendedBytes.v).  Go values are related to the model's records by the
    abstraction functions of proofs/GenFuncsTxTac.v ([tx_of_go]: integers by [Z.to_N], a nil and an empty unlocking
    script are the same [in_unlock]); the hypotheses are the ranges of the Go types plus what the Go code itself
    needs in order not to panic: no nil element in Inputs / Outputs ([map Some]) and no output with a nil
    LockingScript ([go_output_ok]).  Compiled only while gen/Funcs.status.json says the function is translated. *)
From Coq Require Import List ZArith NArith Bool.
From Coq Require Import Strings.Byte.
From GoBT Require Import lib.Bytes lib.GoSem lib.GoTx gen.Funcs proofs.GenFuncsTxTac proofs.GenFuncs_Tx_ExtendedBytes.
From GoBT Require Import model.Tx.
Import ListNotations.
Local Open Scope Z_scope.

Theorem C01_go_source_Tx_ExtendedBytes_is_model :
  forall (ins : list go_Input) (outs : list go_Output) (ver lock : Z),
  Forall go_input_ok ins -> Forall go_output_ok outs -> u32 ver -> u32 lock -> len_ok ins -> len_ok outs ->
  Tx_ExtendedBytes (map Some ins) (map Some outs) ver lock = Val (tx_bytes true (tx_of_go ins outs ver lock)).
Proof. exact Tx_ExtendedBytes_is_model. Qed.
Print Assumptions C01_go_source_Tx_ExtendedBytes_is_model.

