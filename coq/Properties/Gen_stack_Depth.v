(** Export: the Go source of stack.Depth, as printed into gen/Funcs.v on every run, has the meaning the interpreter
    model gives it (proofs/GenFuncs_stack_Depth.v).  Compiled only while gen/Funcs.status.json says the function is translated. *)
From Coq Require Import List ZArith NArith Bool.
From Coq Require Import Strings.Byte.
From GoBT Require Import lib.Bytes lib.GoSem lib.GoInterp gen.Funcs proofs.GenFuncsTac proofs.GenFuncsInterpTac proofs.GenFuncs_stack_Depth.
From GoBT Require model.Interp model.ScriptNum.
Import ListNotations.
Local Open Scope Z_scope.

Theorem C05_go_source_stack_Depth_is_model : forall (d : list bytes), Interp.lenZ d < 2147483648 ->
  stack_Depth (rev d) = Val (Interp.lenZ d).
Proof. exact stack_Depth_spec. Qed.
Print Assumptions C05_go_source_stack_Depth_is_model.
