(** Export: the Go source of abstractVerify, as printed into gen/Funcs.v on every run, has the meaning the interpreter
    model gives it (proofs/GenFuncs_abstractVerify.v).  Compiled only while gen/Funcs.status.json says the function is translated. *)
From Coq Require Import List ZArith NArith Bool.
From Coq Require Import Strings.Byte.
From GoBT Require Import lib.Bytes lib.GoSem lib.GoInterp gen.Funcs proofs.GenFuncsTac proofs.GenFuncsInterpTac proofs.GenFuncs_abstractVerify.
From GoBT Require model.Interp model.ScriptNum.
Import ListNotations.
Local Open Scope Z_scope.

Theorem C05_go_source_abstractVerify_is_model : forall (code : Z) s, small (Interp.ds s) -> items_ok (Interp.ds s) ->
  h_view s (abstractVerify code (rev (Interp.ds s))) = Some (Interp.verify_top s).
Proof. exact abstractVerify_is_model. Qed.
Print Assumptions C05_go_source_abstractVerify_is_model.
