(** Export: the Go source of stack.PopInt, as printed into gen/Funcs.v on every run, has the meaning the interpreter
    model gives it (proofs/GenFuncs_stack_PopInt.v).  Compiled only while gen/Funcs.status.json says the function is translated. *)
From Coq Require Import List ZArith NArith Bool.
From Coq Require Import Strings.Byte.
From GoBT Require Import lib.Bytes lib.GoSem lib.GoInterp gen.Funcs proofs.GenFuncsTac proofs.GenFuncsInterpTac proofs.GenFuncs_stack_PopByteArray proofs.GenFuncs_stack_PopInt.
From GoBT Require model.Interp model.ScriptNum.
Import ListNotations.
Local Open Scope Z_scope.

Theorem C05_go_source_stack_PopInt_is_model : forall (mx : Z) (mn ag : bool) (d : list bytes), Interp.lenZ d < 2147483648 ->
  stack_PopInt mx mn ag (rev d) =
  Val (match d with [] => (rev [], (sn_nil, true)) | x :: r => (rev r, sn_make x mx mn ag) end).
Proof. exact stack_PopInt_spec. Qed.
Print Assumptions C05_go_source_stack_PopInt_is_model.
