(** C20 — Ordinals sale / bid flows yield valid transactions protecting seller and buyer; inscription round trip.
    Only statements, [exact], [Print Assumptions], and examples (non-vacuity).

    Specification: spec/OrdSpec.v (first-in-first-out satoshi numbering; what SINGLE|ANYONECANPAY and SINGLE
    commit to, as closed forms of the replay-protected digest of spec/DigestSpec.v).
    Models: model/Ord.v (ListOrdinalForSale, AcceptOrdinalSaleListing(2Dummies), MakeBidToBuy1SatOrdinal(2Dummies),
    AcceptBidToBuy1SatOrdinal(2Dummies), the Validates — transaction assembly and control flow, signing abstract),
    model/Inscription.v (Inscribe, InscribeSpecificOrdinal, rangeAbove, ParseInscription, isOpZeroPart), over the
    models of C01 (Tx, Clone), C02 (CalcInputPreimage), C10/C11 (Change, EstimateIsFeePaidEnough), C13 (push codec).
    Proofs: proofs/OrdProofs.v, proofs/OrdAcceptProofs.v, proofs/InscriptionProofs.v, proofs/RangeProofs.v.

    The property has five clauses:
    (1) every input of a completed transaction is accepted by the interpreter — PARTIAL here:
        [C20_listing_seller_input_accepted(_2d)] prove it for the one input whose acceptance is not a
        plain sign-then-verify, the seller's re-indexed SINGLE|ANYONECANPAY input (C04's acceptance theorem
        + [C20_seller_sig_survives]), relative to the ECDSA oracle.  The other inputs are signed by the flow
        itself over the transaction they end up in (C04 covers a library-signed P2PKH input); the statement
        for ALL inputs of ALL four flows (all_inputs_verify) is decided on every run by the correspondence:
        the real interpreter executes every input of every produced transaction.
        ADDED (proofs/OrdSignProofs.v): model/Ord.v's abstract FillInput is model/Sign.v's FillInput with an
        unlocker.Simple ([C20_fill_input_refines]); in the completed listing acceptance every buyer input's
        ALL|FORKID script is the unlocker's answer on the FINAL transaction ([C20_buyer_inputs_sign_final_tx(_2d)]),
        likewise the bidder's SINGLE|FORKID inputs in the bid and in the accepted bid
        ([C20_bidder_inputs_sign_bid_tx(_2d)], [C20_bidder_inputs_sign_final_tx(_2d)]) and the seller's
        input of a listing made by ListOrdinalForSale ([C20_seller_input_signs_final_tx]); hence signatures over
        the final digest ([C20_self_signed_is_signature_over_own_digest]) and interpreter acceptance
        ([C20_listing_buyer_input_accepted], C04_self_signed_input_accepted_forkid), relative to the oracle.
    (2) the seller's output stays at the committed index            — [C20_seller_output_fixed(_2d)];
    (3) the ordinal goes to the buyer under FIFO numbering          — [C20_ordinal_fifo_*];
    (4) the completed transaction pays the quoted fee                — [C20_flow_fee_enough_*] + [C20_estimate_to_final*],
        composed end to end, with hypotheses on the returned transaction only, in [C20_*_pays_fee]; NOTE the fee is
        relative to the input values RECORDED in the counter-party's transaction, which Validate never compares
        with the listed UTXO's value: [C20_listing_recorded_value_unchecked] (a finding);
    (5) Inscribe then ParseInscription is the identity              — [C20_inscription_roundtrip]. *)
From Coq Require Import List NArith ZArith Bool.
From Coq Require Import Strings.Byte.
From GoBT Require Import lib.Bytes lib.VarInt model.Tx gen.Consts spec.FeeSpec model.Fees model.Change
  spec.DigestSpec model.SigHash model.SigHashWire proofs.SigHashProofs proofs.FeesProofs
  spec.OrdSpec model.Ord proofs.OrdProofs proofs.AuditC20.
From GoBT Require model.Push model.Inscription proofs.InscriptionProofs proofs.RangeProofs spec.PushSpec.
From GoBT Require lib.Ripemd160 model.ScriptNum model.Interp model.CheckSig proofs.P2PKHProofs proofs.OrdAcceptProofs.
From GoBT Require model.Sign proofs.SignProofs proofs.OrdSignProofs.
Import ListNotations.
Local Open Scope N_scope. Local Open Scope bool_scope.

(** * What the seller's signature commits to *)

(** Under SIGHASH_SINGLE|ANYONECANPAY (any such 8-bit type; 0xc3 with FORKID) the specification's digest of
    input n is a function of: version, that input's outpoint, the script code, the spent value, that input's
    sequence number, the output at index n (if any), the locktime and the hash type. *)
Theorem C20_single_acp_depends_only : forall tx n sc amount ht,
  is_single ht = true -> anyone_can_pay ht = true ->
  forkid_preimage tx n sc amount ht =
  option_map (fun inp => single_acp_preimage (t_version tx) (ti_prevout inp) sc amount (ti_sequence inp)
                           (nth_error (t_vout tx) n) (t_locktime tx) ht)
             (nth_error (t_vin tx) n).
Proof. exact single_acp_depends_only. Qed.
Print Assumptions C20_single_acp_depends_only.

(** Re-indexing invariance, for ALL transactions: the signed input and its matching output may sit at any
    common index of any transaction with the same version and locktime. *)
Theorem C20_single_acp_reindex : forall tx1 n1 tx2 n2 i1 i2 sc amount ht,
  is_single ht = true -> anyone_can_pay ht = true ->
  t_version tx1 = t_version tx2 -> t_locktime tx1 = t_locktime tx2 ->
  nth_error (t_vin tx1) n1 = Some i1 -> nth_error (t_vin tx2) n2 = Some i2 ->
  ti_prevout i1 = ti_prevout i2 -> ti_sequence i1 = ti_sequence i2 ->
  nth_error (t_vout tx1) n1 = nth_error (t_vout tx2) n2 ->
  forkid_preimage tx1 n1 sc amount ht = forkid_preimage tx2 n2 sc amount ht.
Proof. exact single_acp_reindex. Qed.
Print Assumptions C20_single_acp_reindex.

(** ... transferred to the library through C02: CalcInputPreimage and (with FORKID) CalcInputSignatureHash
    return the same bytes for input i of L and input k of A, and they are the specification's digest of A. *)
Theorem C20_lib_single_acp_reindex : forall L A i k ht inpL inpA sc,
  is_single_acp ht -> i < two32 -> k < two32 ->
  N.of_nat (length (tx_outs L)) < two31 -> N.of_nat (length (tx_outs A)) < two31 ->
  nth_error (tx_ins L) (N.to_nat i) = Some inpL -> nth_error (tx_ins A) (N.to_nat k) = Some inpA ->
  same_prev inpL inpA -> in_txid inpL <> [] -> in_script inpL = Some sc ->
  tx_version L = tx_version A -> tx_lock L = tx_lock A ->
  nth_error (tx_outs L) (N.to_nat i) = nth_error (tx_outs A) (N.to_nat k) ->
  fst (calc_input_preimage L i ht) = fst (calc_input_preimage A k ht) /\
  (has_forkid ht = true ->
   fst (calc_input_signature_hash L i ht) = fst (calc_input_signature_hash A k ht)) /\
  exists p, fst (calc_input_preimage A k ht) = SOk p /\
            forkid_preimage (wire_tx A) (N.to_nat k) sc (in_sats inpA) ht = Some p.
Proof. exact lib_single_acp_reindex. Qed.
Print Assumptions C20_lib_single_acp_reindex.

(** the bidder's SINGLE (not ANYONECANPAY) signatures: every outpoint, and still only the matching output *)
Theorem C20_single_stable : forall tx1 tx2 n i1 i2 sc amount ht,
  is_single ht = true -> anyone_can_pay ht = false ->
  t_version tx1 = t_version tx2 -> t_locktime tx1 = t_locktime tx2 ->
  map ti_prevout (t_vin tx1) = map ti_prevout (t_vin tx2) ->
  nth_error (t_vin tx1) n = Some i1 -> nth_error (t_vin tx2) n = Some i2 -> ti_sequence i1 = ti_sequence i2 ->
  nth_error (t_vout tx1) n = nth_error (t_vout tx2) n ->
  forkid_preimage tx1 n sc amount ht = forkid_preimage tx2 n sc amount ht.
Proof. exact single_stable. Qed.
Print Assumptions C20_single_stable.

(** * Listing flows: for every signer (unlocker), listing, funding set, scripts and quote *)

(** seller_sig_survives: the listing [L] (version 1, locktime 0, as ListOrdinalForSale builds it — see
    [C20_list_ordinal_shape]) and whatever AcceptOrdinalSaleListing returns: same preimage, same signature
    hash, at input 0 resp. 1; hence the same signature verifies. *)
Theorem C20_seller_sig_survives : forall signer listed L us buyer dummy chg q A seller_in sc,
  accept_listing signer listed L us buyer dummy chg q = Done A ->
  tx_version L = 1 -> tx_lock L = 0 ->
  tx_ins L = [seller_in] -> in_txid seller_in <> [] -> in_script seller_in = Some sc ->
  fst (calc_input_preimage L 0 195) = fst (calc_input_preimage A 1 195) /\
  fst (calc_input_signature_hash L 0 195) = fst (calc_input_signature_hash A 1 195) /\
  exists p, fst (calc_input_preimage A 1 195) = SOk p /\
            forkid_preimage (wire_tx A) 1 sc (in_sats seller_in) 195 = Some p.
Proof. exact seller_sig_survives. Qed.
Print Assumptions C20_seller_sig_survives.

Theorem C20_seller_sig_survives_2d : forall signer listed L us buyer dummy chg q A seller_in sc,
  accept_listing_2d signer listed L us buyer dummy chg q = Done A ->
  tx_version L = 1 -> tx_lock L = 0 ->
  tx_ins L = [seller_in] -> in_txid seller_in <> [] -> in_script seller_in = Some sc ->
  fst (calc_input_preimage L 0 195) = fst (calc_input_preimage A 2 195) /\
  fst (calc_input_signature_hash L 0 195) = fst (calc_input_signature_hash A 2 195) /\
  exists p, fst (calc_input_preimage A 2 195) = SOk p /\
            forkid_preimage (wire_tx A) 2 sc (in_sats seller_in) 195 = Some p.
Proof. exact seller_sig_survives_2d. Qed.
Print Assumptions C20_seller_sig_survives_2d.

(** ListOrdinalForSale builds exactly such a listing, signing input 0 with 0xc3 *)
Theorem C20_list_ordinal_shape : forall signer ou so L, list_ordinal signer ou so = Done L ->
  exists u, signer (mkTx 1 [input_of ou] [so] 0) 0 SINGLE_ACP_FORKID = Some u /\
            L = mkTx 1 [with_unlock (input_of ou) u] [so] 0 /\ length (u_txid ou) = 32%nat.
Proof. exact list_ordinal_shape. Qed.
Print Assumptions C20_list_ordinal_shape.

(** seller_output_fixed: the seller's requested output and the seller's input sit at index 1 (resp. 2),
    unchanged; the accepted transaction has version 1, locktime 0 and three or four outputs *)
Theorem C20_seller_output_fixed : forall signer listed L us buyer dummy chg q A,
  accept_listing signer listed L us buyer dummy chg q = Done A ->
  exists seller_in seller_out, tx_ins L = [seller_in] /\ tx_outs L = [seller_out] /\
    nth_error (tx_outs A) 1 = Some seller_out /\ nth_error (tx_ins A) 1 = Some seller_in /\
    tx_version A = 1 /\ tx_lock A = 0 /\ (3 <= length (tx_outs A) <= 4)%nat.
Proof. exact seller_output_fixed. Qed.
Print Assumptions C20_seller_output_fixed.

Theorem C20_seller_output_fixed_2d : forall signer listed L us buyer dummy chg q A,
  accept_listing_2d signer listed L us buyer dummy chg q = Done A ->
  exists seller_in seller_out, tx_ins L = [seller_in] /\ tx_outs L = [seller_out] /\
    nth_error (tx_outs A) 2 = Some seller_out /\ nth_error (tx_ins A) 2 = Some seller_in /\
    tx_version A = 1 /\ tx_lock A = 0 /\ (3 <= length (tx_outs A) <= 4)%nat.
Proof. exact seller_output_fixed_2d. Qed.
Print Assumptions C20_seller_output_fixed_2d.

(** * First-in-first-out routing of the ordinal *)

(** the executable numbering is the specification's relation *)
Theorem C20_output_of_sat_lands : forall outs s k, output_of_sat outs s = Some k <-> lands_in outs s k.
Proof. exact output_of_sat_lands. Qed.
Print Assumptions C20_output_of_sat_lands.

(** AcceptOrdinalSaleListing: the flow's own precondition (a funding UTXO worth more than the price, moved
    to the front) is established by the flow; input values are uint64.  The ordinal's first satoshi lands
    in output 2, which pays 1 satoshi to the buyer's script. *)
Theorem C20_ordinal_fifo_listing : forall signer listed L us buyer dummy chg q A,
  accept_listing signer listed L us buyer dummy chg q = Done A ->
  Forall (fun i => in_sats i < two64) (tx_ins A) ->
  output_of_sat (map out_sats (tx_outs A)) (first_sat_of_input (map in_sats (tx_ins A)) 1) = Some 2%nat /\
  nth_error (tx_outs A) 2 = Some (mkOutput 1 buyer).
Proof. exact ordinal_fifo_listing. Qed.
Print Assumptions C20_ordinal_fifo_listing.

(** two dummies: precondition = the two dummy values together fit a uint64 (the flow adds them in uint64) *)
Theorem C20_ordinal_fifo_listing_2d : forall signer listed L us buyer dummy chg q A,
  accept_listing_2d signer listed L us buyer dummy chg q = Done A ->
  first_sat_of_input (map in_sats (tx_ins A)) 2 < two64 ->
  output_of_sat (map out_sats (tx_outs A)) (first_sat_of_input (map in_sats (tx_ins A)) 2) = Some 1%nat /\
  nth_error (tx_outs A) 1 = Some (mkOutput 1 buyer).
Proof. exact ordinal_fifo_listing_2d. Qed.
Print Assumptions C20_ordinal_fifo_listing_2d.

(** bid then accept (the partially signed transaction being the one MakeBid returned): the ordinal goes to the
    buyer's 1-satoshi output, and the output at the ordinal's index pays the bid to the seller's script *)
Theorem C20_ordinal_fifo_bid : forall bidder seller bid otx ov us buyer dummy chg q dprev dpay P ou eq ss A,
  make_bid bidder bid otx ov us buyer dummy chg q dprev dpay = Done P ->
  accept_bid seller ou bid eq P ss = Done A -> wf_tx P -> bid < two64 ->
  Forall (fun i => in_sats i < two64) (tx_ins A) ->
  output_of_sat (map out_sats (tx_outs A)) (first_sat_of_input (map in_sats (tx_ins A)) 1) = Some 2%nat /\
  nth_error (tx_outs A) 2 = Some (mkOutput 1 buyer) /\ nth_error (tx_outs A) 1 = Some (mkOutput bid ss).
Proof. exact ordinal_fifo_bid. Qed.
Print Assumptions C20_ordinal_fifo_bid.

Theorem C20_ordinal_fifo_bid_2d : forall bidder seller bid otx ov us buyer dummy chg q dprev dpay P prevs eq ss A,
  make_bid_2d bidder bid otx ov us buyer dummy chg q dprev dpay = Done P ->
  accept_bid_2d seller prevs bid eq P ss = Done A -> wf_tx P -> bid < two64 ->
  first_sat_of_input (map in_sats (tx_ins A)) 2 < two64 ->
  output_of_sat (map out_sats (tx_outs A)) (first_sat_of_input (map in_sats (tx_ins A)) 2) = Some 1%nat /\
  nth_error (tx_outs A) 1 = Some (mkOutput 1 buyer) /\ nth_error (tx_outs A) 2 = Some (mkOutput bid ss).
Proof. exact ordinal_fifo_bid_2d. Qed.
Print Assumptions C20_ordinal_fifo_bid_2d.

(** * Fee *)

(** "returned => fee predicate true": each flow returns a transaction [A] only after
    EstimateIsFeePaidEnough(quote) = true on a transaction [T] from which [A] differs only by unlocking
    scripts the signer then put on inputs that were unsigned in [T] *)
Theorem C20_flow_fee_enough_listing : forall signer listed L us buyer dummy chg q A,
  accept_listing signer listed L us buyer dummy chg q = Done A ->
  exists T, estimate_is_fee_paid_enough T q = FOk true /\
    tx_version A = tx_version T /\ tx_outs A = tx_outs T /\ tx_lock A = tx_lock T /\
    Forall2 same_prev (tx_ins T) (tx_ins A) /\ Forall2 (signed_by signer) (tx_ins T) (tx_ins A) /\
    nth_error (tx_ins A) 1 = nth_error (tx_ins T) 1 /\
    (forall k, k <> 1%nat -> forall i, nth_error (tx_ins T) k = Some i -> unsigned i = true).
Proof. exact flow_fee_enough_listing. Qed.
Print Assumptions C20_flow_fee_enough_listing.

Theorem C20_flow_fee_enough_listing_2d : forall signer listed L us buyer dummy chg q A,
  accept_listing_2d signer listed L us buyer dummy chg q = Done A ->
  exists T, estimate_is_fee_paid_enough T q = FOk true /\
    tx_version A = tx_version T /\ tx_outs A = tx_outs T /\ tx_lock A = tx_lock T /\
    Forall2 same_prev (tx_ins T) (tx_ins A) /\ Forall2 (signed_by signer) (tx_ins T) (tx_ins A) /\
    nth_error (tx_ins A) 2 = nth_error (tx_ins T) 2 /\
    (forall k, k <> 2%nat -> forall i, nth_error (tx_ins T) k = Some i -> unsigned i = true).
Proof. exact flow_fee_enough_listing_2d. Qed.
Print Assumptions C20_flow_fee_enough_listing_2d.

(** the bid flows as repaired (`fix: accepting a bid to buy an ordinal fails when the bid does not cover the
    fee of the signed transaction`): the quote is the accepting seller's ExpectedFQ *)
Theorem C20_flow_fee_enough_bid : forall bidder seller bid otx ov us buyer dummy chg q dprev dpay P ou eq ss A,
  make_bid bidder bid otx ov us buyer dummy chg q dprev dpay = Done P ->
  accept_bid seller ou bid eq P ss = Done A -> wf_tx P -> bid < two64 ->
  exists T, estimate_is_fee_paid_enough T eq = FOk true /\ tx_outs A = tx_outs T /\
    Forall2 (signed_by seller) (tx_ins T) (tx_ins A) /\
    (forall k i i', nth_error (tx_ins T) k = Some i -> nth_error (tx_ins A) k = Some i' -> unsigned i = true \/ i' = i).
Proof. exact flow_fee_enough_bid. Qed.
Print Assumptions C20_flow_fee_enough_bid.

Theorem C20_flow_fee_enough_bid_2d : forall bidder seller bid otx ov us buyer dummy chg q dprev dpay P prevs eq ss A,
  make_bid_2d bidder bid otx ov us buyer dummy chg q dprev dpay = Done P ->
  accept_bid_2d seller prevs bid eq P ss = Done A -> wf_tx P -> bid < two64 ->
  exists T, estimate_is_fee_paid_enough T eq = FOk true /\ tx_outs A = tx_outs T /\
    Forall2 (signed_by seller) (tx_ins T) (tx_ins A) /\
    (forall k i i', nth_error (tx_ins T) k = Some i -> nth_error (tx_ins A) k = Some i' -> unsigned i = true \/ i' = i).
Proof. exact flow_fee_enough_bid_2d. Qed.
Print Assumptions C20_flow_fee_enough_bid_2d.

(** ... and from there to the transaction that is broadcast: when the signer's scripts are no longer than the
    107-byte dummy (C11: every unlocker.Simple script is), [T] is well-formed and no uint64 product of the fee
    computation wraps, IsFeePaidEnough(quote) holds of the signed transaction itself, i.e. (C11_fee_enough_iff)
    inputs - outputs >= floor(std bytes * rate) + floor(data bytes * rate) of its final serialisation *)
Theorem C20_estimate_to_final_gen : forall signer T A q,
  estimate_is_fee_paid_enough T q = FOk true -> tx_outs A = tx_outs T ->
  Forall2 (signed_by signer) (tx_ins T) (tx_ins A) ->
  (forall k i i', nth_error (tx_ins T) k = Some i -> nth_error (tx_ins A) k = Some i' -> unsigned i = true \/ i' = i) ->
  signer_short signer -> wf_tx T -> ~ ambiguous T ->
  (forall te, estimated_final_tx T = FOk te -> fee_fits q te) ->
  is_fee_paid_enough A q = FOk true.
Proof. exact estimate_to_final_gen. Qed.
Print Assumptions C20_estimate_to_final_gen.

Theorem C20_estimate_to_final : forall signer T A q skip,
  estimate_is_fee_paid_enough T q = FOk true -> tx_outs A = tx_outs T ->
  Forall2 (signed_by signer) (tx_ins T) (tx_ins A) ->
  nth_error (tx_ins A) skip = nth_error (tx_ins T) skip ->
  (forall k, k <> skip -> forall i, nth_error (tx_ins T) k = Some i -> unsigned i = true) ->
  signer_short signer -> wf_tx T -> ~ ambiguous T ->
  (forall te, estimated_final_tx T = FOk te -> fee_fits q te) ->
  is_fee_paid_enough A q = FOk true.
Proof. exact estimate_to_final. Qed.
Print Assumptions C20_estimate_to_final.

(** clause 4 end to end, one theorem per flow, hypotheses on the RETURNED transaction [A] only: the signer's
    scripts are no longer than the 107-byte dummy, [A] is well-formed, and no uint64 product of the fee computation
    on [A] (with a dummy script per input) wraps.  Then IsFeePaidEnough(quote) holds of [A] itself. *)
Theorem C20_listing_pays_fee : forall signer listed L us buyer dummy chg q A,
  accept_listing signer listed L us buyer dummy chg q = Done A ->
  signer_short signer -> wf_tx A ->
  (forall sf df, q_std q = Some sf -> q_data q = Some df ->
     size_bound A 0 * r_sat sf + size_bound A 0 * r_sat df < two64) ->
  is_fee_paid_enough A q = FOk true.
Proof. exact listing_pays_fee. Qed.
Print Assumptions C20_listing_pays_fee.

Theorem C20_listing_2d_pays_fee : forall signer listed L us buyer dummy chg q A,
  accept_listing_2d signer listed L us buyer dummy chg q = Done A ->
  signer_short signer -> wf_tx A ->
  (forall sf df, q_std q = Some sf -> q_data q = Some df ->
     size_bound A 0 * r_sat sf + size_bound A 0 * r_sat df < two64) ->
  is_fee_paid_enough A q = FOk true.
Proof. exact listing_2d_pays_fee. Qed.
Print Assumptions C20_listing_2d_pays_fee.

Theorem C20_bid_pays_fee : forall bidder seller bid otx ov us buyer dummy chg q dprev dpay P ou eq ss A,
  make_bid bidder bid otx ov us buyer dummy chg q dprev dpay = Done P ->
  accept_bid seller ou bid eq P ss = Done A -> wf_tx P -> bid < two64 ->
  signer_short seller -> wf_tx A ->
  (forall sf df, q_std eq = Some sf -> q_data eq = Some df ->
     size_bound A 0 * r_sat sf + size_bound A 0 * r_sat df < two64) ->
  is_fee_paid_enough A eq = FOk true.
Proof. exact bid_pays_fee. Qed.
Print Assumptions C20_bid_pays_fee.

Theorem C20_bid_2d_pays_fee : forall bidder seller bid otx ov us buyer dummy chg q dprev dpay P prevs eq ss A,
  make_bid_2d bidder bid otx ov us buyer dummy chg q dprev dpay = Done P ->
  accept_bid_2d seller prevs bid eq P ss = Done A -> wf_tx P -> bid < two64 ->
  signer_short seller -> wf_tx A ->
  (forall sf df, q_std eq = Some sf -> q_data eq = Some df ->
     size_bound A 0 * r_sat sf + size_bound A 0 * r_sat df < two64) ->
  is_fee_paid_enough A eq = FOk true.
Proof. exact bid_2d_pays_fee. Qed.
Print Assumptions C20_bid_2d_pays_fee.

(** the generic bridge behind the four *)
Theorem C20_flow_pays_fee_gen : forall signer T A q,
  estimate_is_fee_paid_enough T q = FOk true ->
  tx_version A = tx_version T -> tx_outs A = tx_outs T -> tx_lock A = tx_lock T ->
  Forall2 same_prev (tx_ins T) (tx_ins A) -> Forall2 (signed_by signer) (tx_ins T) (tx_ins A) ->
  (forall k i i', nth_error (tx_ins T) k = Some i -> nth_error (tx_ins A) k = Some i' -> unsigned i = true \/ i' = i) ->
  tx_ins T <> [] ->
  signer_short signer -> wf_tx A ->
  (forall sf df, q_std q = Some sf -> q_data q = Some df ->
     size_bound A 0 * r_sat sf + size_bound A 0 * r_sat df < two64) ->
  is_fee_paid_enough A q = FOk true.
Proof. exact flow_pays_fee_gen. Qed.
Print Assumptions C20_flow_pays_fee_gen.

(** A FINDING about what "the fee" is: it is computed from the input values recorded in the counter-party's
    transaction.  Validate compares the listed UTXO's txid and index with the listing's input, never its value:
    a listing that records 1 000 000 satoshis for a 1-satoshi ordinal is accepted, the fee predicate holds on the
    recorded value, and with the real values the outputs exceed the inputs.  (So "the seller's input carries the
    listed UTXO's value" is FALSE of the flow; the model is faithful to ord/list.go here.) *)
Theorem C20_listing_recorded_value_unchecked :
  exists A seller_in,
    accept_listing cx_signer (Some cx_listed) cx_listing cx_funding (cx_p2pkh x04) (cx_p2pkh x05) (cx_p2pkh x06) cx_quote = Done A /\
    nth_error (tx_ins A) 1 = Some seller_in /\ in_sats seller_in <> u_sats cx_listed /\
    is_fee_paid_enough A cx_quote = FOk true /\
    1500 + u_sats cx_listed + 100 < total_out A.
Proof. exact listing_recorded_value_unchecked. Qed.
Print Assumptions C20_listing_recorded_value_unchecked.

(** * Seller protection in the bid flows, against ANY partially signed bid (not only one MakeBid produced):
    the accepted transaction pays the bid to the seller's script at index 1 (two dummies: 2); every other output,
    the version, the locktime and every input's outpoint and sequence number are the bidder's *)
Theorem C20_accept_bid_seller_paid : forall signer ou bid eq P ss A,
  accept_bid signer ou bid eq P ss = Done A -> wf_tx P -> bid < two64 ->
  nth_error (tx_outs A) 1 = Some (mkOutput bid ss) /\
  (forall j, j <> 1%nat -> nth_error (tx_outs A) j = nth_error (tx_outs P) j) /\
  length (tx_outs A) = length (tx_outs P) /\
  tx_version A = tx_version P /\ tx_lock A = tx_lock P /\
  map in_txid (tx_ins A) = map in_txid (tx_ins P) /\ map in_vout (tx_ins A) = map in_vout (tx_ins P) /\
  map in_seq (tx_ins A) = map in_seq (tx_ins P).
Proof. exact accept_bid_seller_paid. Qed.
Print Assumptions C20_accept_bid_seller_paid.

Theorem C20_accept_bid_2d_seller_paid : forall signer prevs bid eq P ss A,
  accept_bid_2d signer prevs bid eq P ss = Done A -> wf_tx P -> bid < two64 ->
  nth_error (tx_outs A) 2 = Some (mkOutput bid ss) /\
  (forall j, j <> 2%nat -> nth_error (tx_outs A) j = nth_error (tx_outs P) j) /\
  length (tx_outs A) = length (tx_outs P) /\
  tx_version A = tx_version P /\ tx_lock A = tx_lock P /\
  map in_txid (tx_ins A) = map in_txid (tx_ins P) /\ map in_vout (tx_ins A) = map in_vout (tx_ins P) /\
  map in_seq (tx_ins A) = map in_seq (tx_ins P).
Proof. exact accept_bid_2d_seller_paid. Qed.
Print Assumptions C20_accept_bid_2d_seller_paid.

(** ... and the bidder's SINGLE|FORKID signatures survive the seller's edits (clause 1, digest half, bid flows):
    for every input but the ordinal's, the specification's digest over the bid [P] and over the accepted
    transaction [A] is the same, whatever script code and value it is taken with *)
Theorem C20_bid_sigs_survive : forall signer ou bid eq P ss A j sc amount,
  accept_bid signer ou bid eq P ss = Done A -> wf_tx P -> bid < two64 -> j <> 1%nat ->
  forkid_preimage (wire_tx P) j sc amount SINGLE_FORKID = forkid_preimage (wire_tx A) j sc amount SINGLE_FORKID.
Proof. exact bid_sigs_survive. Qed.
Print Assumptions C20_bid_sigs_survive.

Theorem C20_bid_2d_sigs_survive : forall signer prevs bid eq P ss A j sc amount,
  accept_bid_2d signer prevs bid eq P ss = Done A -> wf_tx P -> bid < two64 -> j <> 2%nat ->
  forkid_preimage (wire_tx P) j sc amount SINGLE_FORKID = forkid_preimage (wire_tx A) j sc amount SINGLE_FORKID.
Proof. exact bid_2d_sigs_survive. Qed.
Print Assumptions C20_bid_2d_sigs_survive.

(** * The signing path of C04 under the flows (clause 1 for the buyer's / bidder's OWN inputs)

    [simple_signer key]: the abstract unlocker of model/Ord.v when the bt.Unlocker handed over for input j is an
    unlocker.Simple around the key [key j] (model/Sign.v [unlocking_script]); [flow_of_sign] keeps the transaction
    of a successful FillInput and turns every other outcome into [Fail ESign]. *)
Section SigningPath.
Import Sign SignProofs OrdSignProofs.

(** model/Ord.v's FillInput IS model/Sign.v's FillInput on every index inside the transaction (the flows pass no
    other: the loop reads tx.Inputs[j] first, the single calls follow a length check) *)
Theorem C20_fill_input_refines : forall key t j f, j < N.of_nat (length (tx_ins t)) ->
  Ord.fill_input (simple_signer key) t j f = flow_of_sign (Sign.fill_input (Some (key j)) t j f).
Proof. exact fill_input_refines. Qed.
Print Assumptions C20_fill_input_refines.

(** outside the transaction they differ (Go panics inside Simple.UnlockingScript; the abstract unlocker says "error") *)
Theorem C20_fill_input_out_of_range : forall key t j f, N.of_nat (length (tx_ins t)) <= j ->
  Sign.fill_input (Some (key j)) t j f = SgPanic /\ Ord.fill_input (simple_signer key) t j f = Fail ESign.
Proof. exact fill_input_out_of_range. Qed.
Print Assumptions C20_fill_input_out_of_range.

(** and [Fail ESign] hides no panic: with a FORKID type (all the flows use: 0 -> 0x41, 0x43, 0xc3) on an index
    inside the transaction and below 2^31, FillInput returns a transaction or an error *)
Theorem C20_sign_fill_input_forkid_outcomes : forall s t j f, j < N.of_nat (length (tx_ins t)) -> j < 2147483648 ->
  default_type f < 256 -> has_forkid (default_type f) = true ->
  (exists t', Sign.fill_input (Some s) t j f = SgOk t') \/ (exists e, Sign.fill_input (Some s) t j f = SgErr e).
Proof. exact sign_fill_input_forkid_outcomes. Qed.
Print Assumptions C20_sign_fill_input_forkid_outcomes.

(** the strengthened loop specification: [sign_loop t us i skip flags = Done t'] changes unlocking scripts only,
    and the input at the position of the p-th UTXO carries the script the unlocker returned for THAT index and
    the defaulted flags on a transaction [tm] differing from [t] (and [t']) in unlocking scripts only *)
Theorem C20_sign_loop_signs : forall signer skip flags us t i t', sign_loop signer t us i skip flags = Done t' ->
  erase_unlocks t' = erase_unlocks t /\
  (forall k, (k < N.to_nat (loop_pos skip i))%nat -> nth_error (tx_ins t') k = nth_error (tx_ins t) k) /\
  nth_error (tx_ins t') (N.to_nat skip) = nth_error (tx_ins t) (N.to_nat skip) /\
  forall p, (p < length us)%nat ->
    let j := loop_pos skip (i + N.of_nat p) in
    exists tm a u, erase_unlocks tm = erase_unlocks t /\ nth_error (tx_ins t) (N.to_nat j) = Some a /\
      signer tm j (ord_default flags) = Some u /\ nth_error (tx_ins t') (N.to_nat j) = Some (with_unlock a u).
Proof. exact sign_loop_signs. Qed.
Print Assumptions C20_sign_loop_signs.

(** AcceptOrdinalSaleListing: in the COMPLETED transaction [A], the unlocking script of every input other than the
    seller's (input 1) is exactly what unlocker.Simple around that input's key returns when run on [A] itself for
    that index with SigHashFlags 0 (= ALL|FORKID) - although it was made mid-loop, when later inputs were still
    unsigned: outputs are complete before the loop starts, later steps only add unlocking scripts, and the FORKID
    preimage does not read them (C02_forkid_ignores_unlocking_scripts) *)
Theorem C20_buyer_inputs_sign_final_tx : forall key listed L us buyer dummy chg q A,
  accept_listing (simple_signer key) listed L us buyer dummy chg q = Done A ->
  forall j inp, j <> 1%nat -> nth_error (tx_ins A) j = Some inp ->
    unlocking_script (key (N.of_nat j)) A (N.of_nat j) 0 = SgOk (in_unlock inp).
Proof. exact listing_buyer_inputs_sign_final_tx. Qed.
Print Assumptions C20_buyer_inputs_sign_final_tx.

(** AcceptOrdinalSaleListing2Dummies: the same, the seller's input being input 2 *)
Theorem C20_buyer_inputs_sign_final_tx_2d : forall key listed L us buyer dummy chg q A,
  accept_listing_2d (simple_signer key) listed L us buyer dummy chg q = Done A ->
  forall j inp, j <> 2%nat -> nth_error (tx_ins A) j = Some inp ->
    unlocking_script (key (N.of_nat j)) A (N.of_nat j) 0 = SgOk (in_unlock inp).
Proof. exact listing_2d_buyer_inputs_sign_final_tx. Qed.
Print Assumptions C20_buyer_inputs_sign_final_tx_2d.

(** with a go-bk-shaped key, "what unlocker.Simple returns on [A] itself" unfolds (C04_unlocking_script_is_p2pkh_unlock,
    C04_carried_type_is_digest_type) to: push(sig ++ [type]) push(key), [sig] the key's signature over
    CalcInputSignatureHash(A, j, type), [type] the defaulted type, which is also the byte opcodeCheckSig reads *)
Theorem C20_self_signed_is_signature_over_own_digest : forall s A j f inp, f < 256 -> signer_ok s ->
  unlocking_script s A j f = SgOk (in_unlock inp) ->
  exists sig h, fst (calc_input_signature_hash A j (default_type f)) = SOk h /\ sg_sign s h = Some sig /\
    in_unlock inp = P2PKHProofs.p2pkh_unlock sig (default_type f) (sg_pub s) /\
    carried_signature (in_unlock inp) = Some sig /\ carried_hash_type (in_unlock inp) = Some (default_type f).
Proof. exact self_signed_is_signature_over_own_digest. Qed.
Print Assumptions C20_self_signed_is_signature_over_own_digest.

(** MakeBidToBuy1SatOrdinal(2Dummies): in the bid [P] every input but the ordinal placeholder carries the
    unlocker's answer on [P] itself with SINGLE|FORKID (0x43).  (The flows use no ALL|ANYONECANPAY.) *)
Theorem C20_bidder_inputs_sign_bid_tx : forall key bid otx ov us buyer dummy chg q dprev dpay P,
  make_bid (simple_signer key) bid otx ov us buyer dummy chg q dprev dpay = Done P ->
  forall j inp, j <> 1%nat -> nth_error (tx_ins P) j = Some inp ->
    unlocking_script (key (N.of_nat j)) P (N.of_nat j) 67 = SgOk (in_unlock inp).
Proof. exact bid_bidder_inputs_sign_bid_tx. Qed.
Print Assumptions C20_bidder_inputs_sign_bid_tx.
Theorem C20_bidder_inputs_sign_bid_tx_2d : forall key bid otx ov us buyer dummy chg q dprev dpay P,
  make_bid_2d (simple_signer key) bid otx ov us buyer dummy chg q dprev dpay = Done P ->
  forall j inp, j <> 2%nat -> nth_error (tx_ins P) j = Some inp ->
    unlocking_script (key (N.of_nat j)) P (N.of_nat j) 67 = SgOk (in_unlock inp).
Proof. exact bid_2d_bidder_inputs_sign_bid_tx. Qed.
Print Assumptions C20_bidder_inputs_sign_bid_tx_2d.

(** ... and after AcceptBidToBuy1SatOrdinal(2Dummies) by ANY seller-side unlocker: in the COMPLETED transaction [A]
    every bidder input still carries the bidder's unlocker's answer on [A] itself - the library's SINGLE|FORKID
    signature hash of those inputs is unchanged by the acceptance (C20_bid_sigs_survive carried to
    CalcInputSignatureHash through C02).  Size hypotheses: fewer than 2^31 outputs, 2^32 inputs *)
Theorem C20_bidder_inputs_sign_final_tx : forall key seller bid otx ov us buyer dummy chg q dprev dpay P ou eq ss A,
  make_bid (simple_signer key) bid otx ov us buyer dummy chg q dprev dpay = Done P ->
  accept_bid seller ou bid eq P ss = Done A -> wf_tx P -> bid < two64 ->
  N.of_nat (length (tx_outs P)) < two31 -> N.of_nat (length (tx_ins P)) < two32 ->
  forall j inp, j <> 1%nat -> nth_error (tx_ins A) j = Some inp ->
    unlocking_script (key (N.of_nat j)) A (N.of_nat j) 67 = SgOk (in_unlock inp).
Proof. exact bid_bidder_inputs_sign_final_tx. Qed.
Print Assumptions C20_bidder_inputs_sign_final_tx.
Theorem C20_bidder_inputs_sign_final_tx_2d : forall key seller bid otx ov us buyer dummy chg q dprev dpay P prevs eq ss A,
  make_bid_2d (simple_signer key) bid otx ov us buyer dummy chg q dprev dpay = Done P ->
  accept_bid_2d seller prevs bid eq P ss = Done A -> wf_tx P -> bid < two64 ->
  N.of_nat (length (tx_outs P)) < two31 -> N.of_nat (length (tx_ins P)) < two32 ->
  forall j inp, j <> 2%nat -> nth_error (tx_ins A) j = Some inp ->
    unlocking_script (key (N.of_nat j)) A (N.of_nat j) 67 = SgOk (in_unlock inp).
Proof. exact bid_2d_bidder_inputs_sign_final_tx. Qed.
Print Assumptions C20_bidder_inputs_sign_final_tx_2d.

(** the remaining input of a listing acceptance: when the listing was made by ListOrdinalForSale with an
    unlocker.Simple around [sk], the seller's input (input 1 of [A]) carries what that unlocker returns on [A]
    itself at index 1 with SINGLE|ANYONECANPAY|FORKID (0xc3) - so EVERY input of [A] is covered *)
Theorem C20_seller_input_signs_final_tx : forall sk buyer_signer ou so listed L us buyer dummy chg q A,
  list_ordinal (simple_signer (fun _ => sk)) ou so = Done L ->
  accept_listing buyer_signer listed L us buyer dummy chg q = Done A ->
  exists seller_in, nth_error (tx_ins A) 1 = Some seller_in /\ tx_ins L = [seller_in] /\
    unlocking_script sk A 1 195 = SgOk (in_unlock seller_in).
Proof. exact listing_seller_input_signs_final_tx. Qed.
Print Assumptions C20_seller_input_signs_final_tx.
End SigningPath.

(** * Interpreter acceptance of the seller's re-indexed input (clause 1, partial — see the header) *)
Section Acceptance.
Import Ripemd160 ScriptNum Interp CheckSig P2PKHProofs.
Local Open Scope Z_scope.

Theorem C20_listing_seller_input_accepted_partial : forall signer (orc : sig_oracle) listed L us buyer dummy chg q A
    (seller_in : input) (flags : N) (sig pk body : bytes) (insc : bool) (bops : list pop) (h : bytes),
  let ht := 195%N in
  let full := sig ++ [n2b ht] in
  let unlock := p2pkh_unlock sig ht pk in
  let lock := p2pkh_lock (hash160 pk) ++ (if insc then inscription_suffix body else []) in
  let c := mkCtx (normalise_flags flags) true 0 1 (Z.of_N (in_seq seller_in)) false in
  accept_listing signer listed L us buyer dummy chg q = Done A ->
  tx_version L = 1%N -> tx_lock L = 0%N -> tx_ins L = [seller_in] -> wf_tx A -> in_script seller_in = Some lock ->
  length pk = 33%nat -> (length full <= 75)%nat ->
  (has_flag c F_MINIMALDATA = true -> sig <> []) ->
  (has_flag c F_CLEANSTACK = true -> has_flag c F_BIP16 = true) ->
  lenZ lock <= max_script_size c ->
  (insc = true -> parse_ops (length body) false body 1 = Some bops /\ is_push_only bops = true /\
                  Forall (fun p => lenZ (p_data p) <= max_elem c) bops) ->
  check_hash_type c ht = true -> check_sig_enc c sig = EncOk -> check_pubkey_enc c pk = true ->
  (has_flag c F_FORKID && flag_has ht sh_forkid = true \/
   forall l, parse_script false lock = Some l -> remove_by_data l full = l) ->
  (* the seller's signature verifies over the digest of the LISTING at input 0 *)
  fst (calc_input_signature_hash L 0 ht) = SOk h ->
  orc_parse_pub orc pk = true -> orc_parse_sig orc (uses_der_parser c) sig = true ->
  orc_verify orc pk h sig (uses_der_parser c) = Some true ->
  fst (engine_execute (mk_sigops orc (engine_tx A 1 unlock lock (in_sats seller_in)) 1)
         (mkExecInput unlock lock flags true true 0 1 (Z.of_N (in_seq seller_in)))) = VOk.
Proof. exact OrdAcceptProofs.listing_seller_input_accepted. Qed.
Print Assumptions C20_listing_seller_input_accepted_partial.

Theorem C20_listing_2d_seller_input_accepted_partial : forall signer (orc : sig_oracle) listed L us buyer dummy chg q A
    (seller_in : input) (flags : N) (sig pk body : bytes) (insc : bool) (bops : list pop) (h : bytes),
  let ht := 195%N in
  let full := sig ++ [n2b ht] in
  let unlock := p2pkh_unlock sig ht pk in
  let lock := p2pkh_lock (hash160 pk) ++ (if insc then inscription_suffix body else []) in
  let c := mkCtx (normalise_flags flags) true 0 1 (Z.of_N (in_seq seller_in)) false in
  accept_listing_2d signer listed L us buyer dummy chg q = Done A ->
  tx_version L = 1%N -> tx_lock L = 0%N -> tx_ins L = [seller_in] -> wf_tx A -> in_script seller_in = Some lock ->
  length pk = 33%nat -> (length full <= 75)%nat ->
  (has_flag c F_MINIMALDATA = true -> sig <> []) ->
  (has_flag c F_CLEANSTACK = true -> has_flag c F_BIP16 = true) ->
  lenZ lock <= max_script_size c ->
  (insc = true -> parse_ops (length body) false body 1 = Some bops /\ is_push_only bops = true /\
                  Forall (fun p => lenZ (p_data p) <= max_elem c) bops) ->
  check_hash_type c ht = true -> check_sig_enc c sig = EncOk -> check_pubkey_enc c pk = true ->
  (has_flag c F_FORKID && flag_has ht sh_forkid = true \/
   forall l, parse_script false lock = Some l -> remove_by_data l full = l) ->
  fst (calc_input_signature_hash L 0 ht) = SOk h ->
  orc_parse_pub orc pk = true -> orc_parse_sig orc (uses_der_parser c) sig = true ->
  orc_verify orc pk h sig (uses_der_parser c) = Some true ->
  fst (engine_execute (mk_sigops orc (engine_tx A 2 unlock lock (in_sats seller_in)) 2)
         (mkExecInput unlock lock flags true true 0 1 (Z.of_N (in_seq seller_in)))) = VOk.
Proof. exact OrdAcceptProofs.listing_2d_seller_input_accepted. Qed.
Print Assumptions C20_listing_2d_seller_input_accepted_partial.
(** clause 1 for a buyer's input of a completed listing acceptance, end to end: the interpreter model run on the
    COMPLETED transaction accepts it ([C20_buyer_inputs_sign_final_tx] + C04_self_signed_input_accepted_forkid).
    Residual hypotheses: the UTXO's script pays to the key of its unlocker (P2PKH or P2PKH-inscription), the key is
    go-bk-shaped, FORKID in force, flag sanity, size, push-only envelope body, the oracle hypothesis for the digest
    of [A] *)
Theorem C20_listing_buyer_input_accepted : forall (orc : sig_oracle) key listed L us buyer dummy chg q (A : tx)
    (j : nat) (inp : input) (flags : N) (body : bytes) (insc : bool) (bops : list pop),
  let s := key (N.of_nat j) in
  let pk := Sign.sg_pub s in
  let lock := (p2pkh_lock (hash160 pk) ++ (if insc then inscription_suffix body else []))%list in
  let c := mkCtx (normalise_flags flags) true (Z.of_N (tx_lock A)) (Z.of_N (tx_version A)) (Z.of_N (in_seq inp)) false in
  accept_listing (OrdSignProofs.simple_signer key) listed L us buyer dummy chg q = Done A ->
  j <> 1%nat -> nth_error (tx_ins A) j = Some inp ->
  wf_tx A -> (N.of_nat j + 1 < two32)%N -> in_script inp = Some lock -> SignProofs.signer_ok s ->
  has_flag c F_FORKID = true ->
  (has_flag c F_CLEANSTACK = true -> has_flag c F_BIP16 = true) ->
  lenZ lock <= max_script_size c ->
  (insc = true -> parse_ops (length body) false body 1 = Some bops /\ is_push_only bops = true /\
                  Forall (fun p => lenZ (p_data p) <= max_elem c) bops) ->
  (forall h, fst (calc_input_signature_hash A (N.of_nat j) 65) = SOk h -> SignProofs.oracle_accepts_signer orc c s h) ->
  fst (engine_execute (mk_sigops orc (engine_tx A (N.of_nat j) (in_unlock inp) lock (in_sats inp)) (N.of_nat j))
         (mkExecInput (in_unlock inp) lock flags true true (Z.of_N (tx_lock A)) (Z.of_N (tx_version A))
                      (Z.of_N (in_seq inp)))) = VOk.
Proof. exact OrdSignProofs.listing_buyer_input_accepted. Qed.
Print Assumptions C20_listing_buyer_input_accepted.
End Acceptance.

(** * Inscriptions *)
Section Inscriptions.
Import Push PushSpec Inscription InscriptionProofs RangeProofs.

(** inscription_roundtrip: for every 20-byte key hash, EVERY content type and EVERY payload shorter than 2^32
    bytes (empty ones included; every push-length boundary), with or without the enriched OP_RETURN tail:
    Inscribe builds a script and ParseInscription returns content type, data and the P2PKH prefix *)
Theorem C20_inscription_roundtrip : forall h20 ct data enriched, length h20 = 20%nat ->
  lenN ct < 4294967296 -> lenN data < 4294967296 -> enriched_ok enriched ->
  exists s, inscribe_script (p2pkh_script h20) ct data enriched = Some s /\
            parse_inscription s = PIOk ct data (p2pkh_script h20).
Proof. exact inscription_roundtrip. Qed.
Print Assumptions C20_inscription_roundtrip.

(** whatever ParseInscription reports as the locking-script prefix is the first 25 bytes of the script and those
    are the P2PKH template (a prefix that only decodes to the same parts is refused, not returned a byte short) *)
Theorem C20_parsed_prefix_is_the_p2pkh_script : forall s ct d pre,
  parse_inscription s = PIOk ct d pre -> pre = firstn 25 s /\ Fees.is_p2pkh pre = true.
Proof. exact parse_inscription_prefix. Qed.
Print Assumptions C20_parsed_prefix_is_the_p2pkh_script.

(** beyond that length Inscribe returns the push error instead of a script *)
Theorem C20_inscribe_too_big : forall prefix ct data enriched,
  4294967296 <= lenN ct \/ 4294967296 <= lenN data -> inscribe_script prefix ct data enriched = None.
Proof. exact inscribe_script_too_big. Qed.
Print Assumptions C20_inscribe_too_big.

(** isOpZeroPart on every script DecodeParts accepts: in range, and true exactly for the opcode OP_0 *)
Theorem C20_decode_ok_toks : forall b ps, decode_parts b = DOk ps ->
  exists ts, Forall tok_ok ts /\ b = toks_bytes ts /\ ps = map tok_part ts.
Proof. exact decode_ok_toks. Qed.
Print Assumptions C20_decode_ok_toks.
Theorem C20_is_op_zero_part_toks : forall ts n t, Forall tok_ok ts -> nth_error ts n = Some t ->
  is_op_zero_part (toks_bytes ts) (map tok_part ts) n = Some (tok_is_op0 t).
Proof. exact is_op_zero_part_toks. Qed.
Print Assumptions C20_is_op_zero_part_toks.

(** ParseInscription never indexes out of range, whatever the script *)
Theorem C20_parse_inscription_total : forall s, parse_inscription s <> PIPanic.
Proof. exact parse_inscription_total. Qed.
Print Assumptions C20_parse_inscription_total.

(** range_above: rangeAbove returns the first-in-first-out number of satoshi [sat] of input [idx] *)
Theorem C20_range_above_spec : forall is idx sat,
  N.of_nat (length is) < two32 -> idx <= N.of_nat (length is) ->
  Forall (fun x => in_sats x <> 0) (firstn (N.to_nat idx) is) ->
  first_sat_of_input (map in_sats is) (N.to_nat idx) + sat < two64 ->
  range_above is idx sat = RaOk (first_sat_of_input (map in_sats is) (N.to_nat idx) + sat).
Proof. exact range_above_spec. Qed.
Print Assumptions C20_range_above_spec.

(** InscribeSpecificOrdinal: [amount to the extra script; 1-satoshi inscription]; the chosen satoshi of the
    chosen input is the one the inscription output receives, and that output parses back *)
Theorem C20_inscribe_specific_fifo : forall t h20 ct data enriched idx sat extra x,
  tx_outs t = [] -> N.of_nat (length (tx_ins t)) < two32 ->
  nth_error (tx_ins t) (N.to_nat idx) = Some x -> sat < in_sats x ->
  Forall (fun y => in_sats y <> 0) (firstn (N.to_nat idx) (tx_ins t)) ->
  first_sat_of_input (map in_sats (tx_ins t)) (N.to_nat idx) + sat < two64 ->
  length h20 = 20%nat -> lenN ct < 4294967296 -> lenN data < 4294967296 -> enriched_ok enriched ->
  let s := first_sat_of_input (map in_sats (tx_ins t)) (N.to_nat idx) + sat in
  exists script t',
    inscribe_specific_ordinal t (p2pkh_script h20) ct data enriched idx sat extra = RaOk t' /\
    tx_outs t' = [mkOutput s extra; mkOutput 1 script] /\ tx_ins t' = tx_ins t /\
    parse_inscription script = PIOk ct data (p2pkh_script h20) /\
    output_of_sat (map out_sats (tx_outs t')) s = Some 1%nat.
Proof. exact inscribe_specific_fifo. Qed.
Print Assumptions C20_inscribe_specific_fifo.

(** non-vacuity: the empty inscription (empty content type, empty payload) and a PUSHDATA1-boundary payload *)
Example C20_roundtrip_examples :
  let h := repeat_byte 20 x11 in
  (match inscribe_script (p2pkh_script h) [] [] None with
   | Some s => match parse_inscription s with PIOk [] [] p => bytes_eqb p (p2pkh_script h) | _ => false end
   | None => false end) &&
  (match inscribe_script (p2pkh_script h) [x61] (repeat_byte 76 x00) (Some [[x01]; []]) with
   | Some s => match parse_inscription s with
               | PIOk [c] d p => byte_eqb c x61 && bytes_eqb d (repeat_byte 76 x00) && (lenN s =? 25 + 2 + 4 + 1 + 2 + 1 + 78 + 1 + 1 + 2 + 1)
               | _ => false end
   | None => false end) = true.
Proof. vm_compute. reflexivity. Qed.

Example C20_range_example :
  let ins := [mkInput [] 0 [] 0 2 None; mkInput [] 0 [] 0 1 None; mkInput [] 0 [] 0 3 None] in
  range_above ins 2 1 = RaOk 4 /\ output_of_sat [4; 1] 4 = Some 1%nat /\ range_above ins 4 0 = RaErr RaNoExist.
Proof. repeat split. Qed.
End Inscriptions.

(** * Non-vacuity of the flow theorems: a listing, its acceptance (standard and two dummies), a bid and its
    acceptance, by evaluation of the model with a signer that returns a 107-byte script *)
Fixpoint list_n_eqb (a b : list N) : bool :=
  match a, b with
  | [], [] => true
  | x :: a', y :: b' => (x =? y) && list_n_eqb a' b'
  | _, _ => false
  end.
Definition ex_p2pkh (b : byte) : bytes := [x76; xa9; x14] ++ repeat_byte 20 b ++ [x88; xac].
Definition ex_signer : tx -> N -> N -> option bytes := fun _ _ _ => Some (repeat_byte 107 x01).
Definition ex_quote : quote := mkQuote (Some (mkRate 50 1000)) (Some (mkRate 50 1000)).
Definition ex_ord : utxo := mkUtxo (repeat_byte 32 xaa) 0 (ex_p2pkh x01) 1.
Definition ex_funding : list utxo :=
  [mkUtxo (repeat_byte 32 xbb) 1 (ex_p2pkh x02) 100; mkUtxo (repeat_byte 32 xcc) 0 (ex_p2pkh x02) 1500].
Definition ex_listing : flow tx := list_ordinal ex_signer ex_ord (mkOutput 1000 (ex_p2pkh x03)).

Example C20_listing_flow_example :
  match ex_listing with
  | Done L =>
      (tx_version L =? 1) && (tx_lock L =? 0) &&
      match accept_listing ex_signer (Some ex_ord) L ex_funding (ex_p2pkh x04) (ex_p2pkh x05) (ex_p2pkh x06) ex_quote with
      | Done A =>
          (* the UTXO worth more than the price moved to the front; dummy 500, seller 1000, buyer 1, change 71; fee 29 *)
          list_n_eqb (map in_sats (tx_ins A)) [1500; 1; 100] && list_n_eqb (map out_sats (tx_outs A)) [500; 1000; 1; 71] &&
          match is_fee_paid_enough A ex_quote with FOk true => true | _ => false end
      | _ => false
      end &&
      (* underfunded: the estimate check turns it down *)
      match accept_listing ex_signer (Some ex_ord) L
              [mkUtxo (repeat_byte 32 xbb) 1 (ex_p2pkh x02) 20; mkUtxo (repeat_byte 32 xcc) 0 (ex_p2pkh x02) 1500]
              (ex_p2pkh x04) (ex_p2pkh x05) (ex_p2pkh x06) ex_quote with
      | Fail EInsufficientFees => true | _ => false end &&
      match accept_listing_2d ex_signer (Some ex_ord) L
              [mkUtxo (repeat_byte 32 xbb) 1 (ex_p2pkh x02) 10; mkUtxo (repeat_byte 32 xbb) 2 (ex_p2pkh x02) 10;
               mkUtxo (repeat_byte 32 xcc) 0 (ex_p2pkh x02) 1100]
              (ex_p2pkh x04) (ex_p2pkh x05) (ex_p2pkh x06) ex_quote with
      | Done A => list_n_eqb (map out_sats (tx_outs A)) [20; 1; 1000; 64]
      | _ => false end
  | _ => false
  end = true.
Proof. vm_compute. reflexivity. Qed.

Example C20_bid_flow_example :
  match make_bid ex_signer 1000 (repeat_byte 32 xaa) 0 ex_funding (ex_p2pkh x04) (ex_p2pkh x05) (ex_p2pkh x06)
          ex_quote (ex_p2pkh x07) (ex_p2pkh x08) with
  | Done P =>
      match accept_bid ex_signer ex_ord 1000 ex_quote P (ex_p2pkh x03) with
      | Done A => list_n_eqb (map in_sats (tx_ins A)) [1500; 1; 100] && list_n_eqb (map out_sats (tx_outs A)) [500; 1000; 1; 70]
      | _ => false end
  | _ => false end = true /\
  (* the window the repair closed: 23 satoshis pay for the bid without, but not with, the seller's signature *)
  match make_bid ex_signer 1000 (repeat_byte 32 xaa) 0
          [mkUtxo (repeat_byte 32 xbb) 1 (ex_p2pkh x02) 23; mkUtxo (repeat_byte 32 xcc) 0 (ex_p2pkh x02) 1500]
          (ex_p2pkh x04) (ex_p2pkh x05) (ex_p2pkh x06) ex_quote (ex_p2pkh x07) (ex_p2pkh x08) with
  | Done P => match accept_bid ex_signer ex_ord 1000 ex_quote P (ex_p2pkh x03) with Fail EInsufficientFees => true | _ => false end
  | _ => false end = true.
Proof. split; vm_compute; reflexivity. Qed.

Example C20_signer_short_example : signer_short ex_signer.
Proof. intros t j f u [= <-]. vm_compute. discriminate. Qed.

(** State inventory (tie, translator part): every Go struct the model of this property represents has, in the
    source as it is NOW (gen/Structs.v, regenerated on every run), exactly the fields - names, types, order - the
    model was written against (model/StateInventory.v).  New state in these objects (a memoised digest, a cached
    document, a remembered operand) is state the theorems above do not speak about: this is the obligation that
    stops checking then. *)
From GoBT Require gen.Structs model.StateInventory.
Theorem C20_state_inventory :
  forall k, In k (StateInventory.group_of StateInventory.pC20) ->
  exists f, StateInventory.lookup_gen gen.Structs.structs k = Some f /\ StateInventory.lookup_model k = Some f.
Proof. apply StateInventory.inventory_ok_spec. vm_compute. reflexivity. Qed.
Print Assumptions C20_state_inventory.

(** Package-level state (tie, translator part): in the source as it is NOW (gen/Globals.v) no package-level variable of
    the packages this property's code lives in can change after initialisation or is handed out by reference - the
    model's functions are functions of their arguments only (model/StateInventory.v). *)
From GoBT Require gen.Globals.
Theorem C20_no_mutable_package_state :
  forall g, In g gen.Globals.globals -> In (StateInventory.rg_pkg g) (StateInventory.packages_of StateInventory.pC20) ->
  StateInventory.rg_mutated g = false /\ StateInventory.rg_escapes g = false.
Proof. apply StateInventory.pkg_state_ok_spec. vm_compute. reflexivity. Qed.
Print Assumptions C20_no_mutable_package_state.

(** * Clause 1 for the LAST input: the seller's ordinal input of AcceptBidToBuy1SatOrdinal(2Dummies)
    (proofs/OrdSellerSign.v; DESIGN 12.8 listed it as open, [fill_input_final] being the lemma).

    The accept-bid flows end with one FillInput on the ordinal input (index 1, resp. 2; SigHashFlags 0 = ALL|FORKID;
    the seller's unlocker) and return.  For ANY partially signed bid [P] the flow accepts - not only bids made by
    MakeBidToBuy1SatOrdinal - the seller's input of the RETURNED transaction [A] carries what unlocker.Simple around
    the seller's key returns when run on [A] itself, and records the ordinal UTXO handed to the flow as its
    previous output *)
From GoBT Require proofs.OrdSellerSign proofs.InscribeAccept.
Section SellerOfAcceptedBid.
Import Sign SignProofs OrdSignProofs.

Theorem C20_seller_input_signs_accepted_bid_tx : forall key ou bid eq P ss A,
  accept_bid (simple_signer key) ou bid eq P ss = Done A -> wf_tx P -> bid < two64 ->
  exists seller_in, nth_error (tx_ins A) 1 = Some seller_in /\
    unlocking_script (key 1) A 1 0 = SgOk (in_unlock seller_in) /\
    in_script seller_in = Some (u_script ou) /\ in_sats seller_in = u_sats ou.
Proof. exact OrdSellerSign.accept_bid_seller_input_signs_final_tx. Qed.
Print Assumptions C20_seller_input_signs_accepted_bid_tx.
Theorem C20_seller_input_signs_accepted_bid_tx_2d : forall key prevs bid eq P ss A,
  accept_bid_2d (simple_signer key) prevs bid eq P ss = Done A -> wf_tx P -> bid < two64 ->
  exists seller_in ou, nth_error prevs 2 = Some ou /\ nth_error (tx_ins A) 2 = Some seller_in /\
    unlocking_script (key 2) A 2 0 = SgOk (in_unlock seller_in) /\
    in_script seller_in = Some (u_script ou) /\ in_sats seller_in = u_sats ou.
Proof. exact OrdSellerSign.accept_bid_2d_seller_input_signs_final_tx. Qed.
Print Assumptions C20_seller_input_signs_accepted_bid_tx_2d.

(** with a go-bk-shaped key: push(sig ++ [0x41]) push(key), [sig] the key's signature over
    CalcInputSignatureHash(A, k, ALL|FORKID) - the digest of the FINAL transaction *)
Theorem C20_seller_input_signed_over_accepted_bid_digest : forall key ou bid eq P ss A,
  accept_bid (simple_signer key) ou bid eq P ss = Done A -> wf_tx P -> bid < two64 -> signer_ok (key 1) ->
  exists seller_in sig h, nth_error (tx_ins A) 1 = Some seller_in /\
    fst (calc_input_signature_hash A 1 65) = SOk h /\ sg_sign (key 1) h = Some sig /\
    in_unlock seller_in = P2PKHProofs.p2pkh_unlock sig 65 (sg_pub (key 1)) /\
    carried_signature (in_unlock seller_in) = Some sig /\ carried_hash_type (in_unlock seller_in) = Some 65.
Proof. exact OrdSellerSign.accept_bid_seller_input_signed_over_final_digest. Qed.
Print Assumptions C20_seller_input_signed_over_accepted_bid_digest.
Theorem C20_seller_input_signed_over_accepted_bid_digest_2d : forall key prevs bid eq P ss A,
  accept_bid_2d (simple_signer key) prevs bid eq P ss = Done A -> wf_tx P -> bid < two64 -> signer_ok (key 2) ->
  exists seller_in sig h, nth_error (tx_ins A) 2 = Some seller_in /\
    fst (calc_input_signature_hash A 2 65) = SOk h /\ sg_sign (key 2) h = Some sig /\
    in_unlock seller_in = P2PKHProofs.p2pkh_unlock sig 65 (sg_pub (key 2)) /\
    carried_signature (in_unlock seller_in) = Some sig /\ carried_hash_type (in_unlock seller_in) = Some 65.
Proof. exact OrdSellerSign.accept_bid_2d_seller_input_signed_over_final_digest. Qed.
Print Assumptions C20_seller_input_signed_over_accepted_bid_digest_2d.

(** EVERY input of an accepted bid is the answer of its owner's unlocker on the returned transaction: the bidder's
    (SINGLE|FORKID, made on the bid, surviving the acceptance) and the seller's (ALL|FORKID) *)
Theorem C20_accepted_bid_every_input_signs_final_tx : forall kb ks bid otx ov us buyer dummy chg q dprev dpay P ou eq ss A,
  make_bid (simple_signer kb) bid otx ov us buyer dummy chg q dprev dpay = Done P ->
  accept_bid (simple_signer ks) ou bid eq P ss = Done A -> wf_tx P -> bid < two64 ->
  N.of_nat (length (tx_outs P)) < two31 -> N.of_nat (length (tx_ins P)) < two32 ->
  forall j inp, nth_error (tx_ins A) j = Some inp ->
    unlocking_script (if Nat.eqb j 1 then ks 1 else kb (N.of_nat j)) A (N.of_nat j) (if Nat.eqb j 1 then 0 else 67) =
    SgOk (in_unlock inp).
Proof. exact OrdSellerSign.bid_every_input_signs_final_tx. Qed.
Print Assumptions C20_accepted_bid_every_input_signs_final_tx.
Theorem C20_accepted_bid_every_input_signs_final_tx_2d : forall kb ks bid otx ov us buyer dummy chg q dprev dpay P prevs eq ss A,
  make_bid_2d (simple_signer kb) bid otx ov us buyer dummy chg q dprev dpay = Done P ->
  accept_bid_2d (simple_signer ks) prevs bid eq P ss = Done A -> wf_tx P -> bid < two64 ->
  N.of_nat (length (tx_outs P)) < two31 -> N.of_nat (length (tx_ins P)) < two32 ->
  forall j inp, nth_error (tx_ins A) j = Some inp ->
    unlocking_script (if Nat.eqb j 2 then ks 2 else kb (N.of_nat j)) A (N.of_nat j) (if Nat.eqb j 2 then 0 else 67) =
    SgOk (in_unlock inp).
Proof. exact OrdSellerSign.bid_2d_every_input_signs_final_tx. Qed.
Print Assumptions C20_accepted_bid_every_input_signs_final_tx_2d.
End SellerOfAcceptedBid.

(** ... and the interpreter model run on the returned transaction accepts it (C04_self_signed_input_accepted_forkid),
    relative to the ECDSA oracle.  Residual hypotheses as in [C20_listing_buyer_input_accepted]: the ordinal UTXO pays
    to the seller's key (P2PKH, or P2PKH + inscription envelope), the key is go-bk-shaped, FORKID in force, flag
    sanity, size, push-only envelope body, the oracle hypothesis for the digest of [A] *)
Section SellerOfAcceptedBidAccepted.
Import Ripemd160 ScriptNum Interp CheckSig P2PKHProofs.
Local Open Scope Z_scope.

Theorem C20_accepted_bid_seller_input_accepted : forall (orc : sig_oracle) key ou bid eq P ss (A : tx)
    (flags : N) (body : bytes) (insc : bool) (bops : list pop),
  let s := key 1%N in
  let pk := Sign.sg_pub s in
  let lock := (p2pkh_lock (hash160 pk) ++ (if insc then inscription_suffix body else []))%list in
  accept_bid (OrdSignProofs.simple_signer key) ou bid eq P ss = Done A -> wf_tx P -> (bid < two64)%N ->
  wf_tx A -> u_script ou = lock -> SignProofs.signer_ok s ->
  exists seller_in, nth_error (tx_ins A) 1 = Some seller_in /\ in_script seller_in = Some lock /\
    in_sats seller_in = u_sats ou /\
    let c := mkCtx (normalise_flags flags) true (Z.of_N (tx_lock A)) (Z.of_N (tx_version A)) (Z.of_N (in_seq seller_in)) false in
    (has_flag c F_FORKID = true ->
     (has_flag c F_CLEANSTACK = true -> has_flag c F_BIP16 = true) ->
     lenZ lock <= max_script_size c ->
     (insc = true -> parse_ops (length body) false body 1 = Some bops /\ is_push_only bops = true /\
                     Forall (fun p => lenZ (p_data p) <= max_elem c) bops) ->
     (forall h, fst (calc_input_signature_hash A 1 65) = SOk h -> SignProofs.oracle_accepts_signer orc c s h) ->
     fst (engine_execute (mk_sigops orc (engine_tx A 1 (in_unlock seller_in) lock (in_sats seller_in)) 1)
            (mkExecInput (in_unlock seller_in) lock flags true true (Z.of_N (tx_lock A)) (Z.of_N (tx_version A))
                         (Z.of_N (in_seq seller_in)))) = VOk).
Proof. exact OrdSellerSign.accept_bid_seller_input_accepted. Qed.
Print Assumptions C20_accepted_bid_seller_input_accepted.

Theorem C20_accepted_bid_seller_input_accepted_2d : forall (orc : sig_oracle) key prevs bid eq P ss (A : tx)
    (flags : N) (body : bytes) (insc : bool) (bops : list pop),
  let s := key 2%N in
  let pk := Sign.sg_pub s in
  let lock := (p2pkh_lock (hash160 pk) ++ (if insc then inscription_suffix body else []))%list in
  accept_bid_2d (OrdSignProofs.simple_signer key) prevs bid eq P ss = Done A -> wf_tx P -> (bid < two64)%N ->
  wf_tx A -> (forall ou, nth_error prevs 2 = Some ou -> u_script ou = lock) -> SignProofs.signer_ok s ->
  exists seller_in ou, nth_error prevs 2 = Some ou /\ nth_error (tx_ins A) 2 = Some seller_in /\
    in_script seller_in = Some lock /\ in_sats seller_in = u_sats ou /\
    let c := mkCtx (normalise_flags flags) true (Z.of_N (tx_lock A)) (Z.of_N (tx_version A)) (Z.of_N (in_seq seller_in)) false in
    (has_flag c F_FORKID = true ->
     (has_flag c F_CLEANSTACK = true -> has_flag c F_BIP16 = true) ->
     lenZ lock <= max_script_size c ->
     (insc = true -> parse_ops (length body) false body 1 = Some bops /\ is_push_only bops = true /\
                     Forall (fun p => lenZ (p_data p) <= max_elem c) bops) ->
     (forall h, fst (calc_input_signature_hash A 2 65) = SOk h -> SignProofs.oracle_accepts_signer orc c s h) ->
     fst (engine_execute (mk_sigops orc (engine_tx A 2 (in_unlock seller_in) lock (in_sats seller_in)) 2)
            (mkExecInput (in_unlock seller_in) lock flags true true (Z.of_N (tx_lock A)) (Z.of_N (tx_version A))
                         (Z.of_N (in_seq seller_in)))) = VOk).
Proof. exact OrdSellerSign.accept_bid_2d_seller_input_accepted. Qed.
Print Assumptions C20_accepted_bid_seller_input_accepted_2d.

(** the ordinal as Tx.Inscribe made it for the seller's key - envelope, with or without OP_RETURN data: after
    Genesis nothing is assumed about content type, payload or OP_RETURN items (C04_self_signed_inscribed_input_accepted) *)
Theorem C20_accepted_bid_seller_inscribed_input_accepted : forall (orc : sig_oracle) key ou bid eq P ss (A : tx)
    (flags : N) (ct data : bytes) (enriched : option (list bytes)),
  let s := key 1%N in
  let pk := Sign.sg_pub s in
  accept_bid (OrdSignProofs.simple_signer key) ou bid eq P ss = Done A -> wf_tx P -> (bid < two64)%N ->
  wf_tx A -> Inscription.inscribe_script (p2pkh_lock (hash160 pk)) ct data enriched = Some (u_script ou) ->
  SignProofs.signer_ok s ->
  exists seller_in, nth_error (tx_ins A) 1 = Some seller_in /\ in_script seller_in = Some (u_script ou) /\
    in_sats seller_in = u_sats ou /\
    let c := mkCtx (normalise_flags flags) true (Z.of_N (tx_lock A)) (Z.of_N (tx_version A)) (Z.of_N (in_seq seller_in)) false in
    (has_flag c F_FORKID = true -> after_genesis c = true ->
     (has_flag c F_CLEANSTACK = true -> has_flag c F_BIP16 = true) ->
     lenZ (u_script ou) <= max_script_size c ->
     (forall h, fst (calc_input_signature_hash A 1 65) = SOk h -> SignProofs.oracle_accepts_signer orc c s h) ->
     fst (engine_execute (mk_sigops orc (engine_tx A 1 (in_unlock seller_in) (u_script ou) (in_sats seller_in)) 1)
            (mkExecInput (in_unlock seller_in) (u_script ou) flags true true (Z.of_N (tx_lock A)) (Z.of_N (tx_version A))
                         (Z.of_N (in_seq seller_in)))) = VOk).
Proof. exact OrdSellerSign.accept_bid_seller_inscribed_input_accepted. Qed.
Print Assumptions C20_accepted_bid_seller_inscribed_input_accepted.
Theorem C20_accepted_bid_seller_inscribed_input_accepted_2d : forall (orc : sig_oracle) key prevs bid eq P ss (A : tx)
    (flags : N) (ct data : bytes) (enriched : option (list bytes)),
  let s := key 2%N in
  let pk := Sign.sg_pub s in
  accept_bid_2d (OrdSignProofs.simple_signer key) prevs bid eq P ss = Done A -> wf_tx P -> (bid < two64)%N ->
  wf_tx A ->
  (forall ou, nth_error prevs 2 = Some ou ->
     Inscription.inscribe_script (p2pkh_lock (hash160 pk)) ct data enriched = Some (u_script ou)) ->
  SignProofs.signer_ok s ->
  exists seller_in ou, nth_error prevs 2 = Some ou /\ nth_error (tx_ins A) 2 = Some seller_in /\
    in_script seller_in = Some (u_script ou) /\ in_sats seller_in = u_sats ou /\
    let c := mkCtx (normalise_flags flags) true (Z.of_N (tx_lock A)) (Z.of_N (tx_version A)) (Z.of_N (in_seq seller_in)) false in
    (has_flag c F_FORKID = true -> after_genesis c = true ->
     (has_flag c F_CLEANSTACK = true -> has_flag c F_BIP16 = true) ->
     lenZ (u_script ou) <= max_script_size c ->
     (forall h, fst (calc_input_signature_hash A 2 65) = SOk h -> SignProofs.oracle_accepts_signer orc c s h) ->
     fst (engine_execute (mk_sigops orc (engine_tx A 2 (in_unlock seller_in) (u_script ou) (in_sats seller_in)) 2)
            (mkExecInput (in_unlock seller_in) (u_script ou) flags true true (Z.of_N (tx_lock A)) (Z.of_N (tx_version A))
                         (Z.of_N (in_seq seller_in)))) = VOk).
Proof. exact OrdSellerSign.accept_bid_2d_seller_inscribed_input_accepted. Qed.
Print Assumptions C20_accepted_bid_seller_inscribed_input_accepted_2d.

(** non-vacuity: MakeBid then AcceptBid with unlocker.Simple around a fixed key, the ordinal UTXO paying to that key:
    both flows return, the transactions are well formed, the seller's input (1) of the result carries the unlocker's
    answer on the result, records the ordinal UTXO's script, and the interpreter model accepts it *)
Example C20_accepted_bid_seller_example :
  exists P A si,
    make_bid (OrdSignProofs.simple_signer OrdSellerSign.ex_key) 1000 (repeat_byte 32 xaa) 0 OrdSellerSign.ex_funding
      (OrdSellerSign.ex_p2pkh x04) (OrdSellerSign.ex_p2pkh x05) (OrdSellerSign.ex_p2pkh x06)
      OrdSellerSign.ex_quote (OrdSellerSign.ex_p2pkh x07) (OrdSellerSign.ex_p2pkh x08) = Done P /\
    accept_bid (OrdSignProofs.simple_signer OrdSellerSign.ex_key) OrdSellerSign.ex_ord_utxo 1000 OrdSellerSign.ex_quote P
      (OrdSellerSign.ex_p2pkh x03) = Done A /\
    wf_tx P /\ wf_tx A /\ nth_error (tx_ins A) 1 = Some si /\
    Sign.unlocking_script SignProofs.ex_signer A 1 0 = Sign.SgOk (in_unlock si) /\
    in_script si = Some (p2pkh_lock (hash160 ex_pk)) /\
    fst (engine_execute (mk_sigops ex_orc (engine_tx A 1 (in_unlock si) (p2pkh_lock (hash160 ex_pk)) (in_sats si)) 1)
           (mkExecInput (in_unlock si) (p2pkh_lock (hash160 ex_pk)) FLAGS_FORKID_GENESIS true true
                        (Z.of_N (tx_lock A)) (Z.of_N (tx_version A)) (Z.of_N (in_seq si)))) = VOk.
Proof. exact OrdSellerSign.accept_bid_seller_example. Qed.
End SellerOfAcceptedBidAccepted.

(** * Inscribe on its argument object: nil and empty say the same thing (round 8)

    Go lets every field of InscriptionArgs be absent in more than one way: Data nil or an empty slice, EnrichedArgs
    nil, OpReturnData nil or an empty list, an element of it nil.  model/InscriptionArgs.v is Inscribe over the
    argument object with those distinctions kept ([None] = nil), in the shape of EncodeParts' loop; the
    correspondence hands it the arguments with nil-ness as Go was given them (case CInscribeArgs of corr/C20.v). *)
From GoBT Require model.InscriptionArgs proofs.InscriptionArgsProofs.
Section InscribeArgumentObject.
Import Push Inscription InscriptionProofs InscriptionArgs.

(** the round trip for every way of writing "no data" / "no tail": for every 20-byte key hash, every content type,
    every Data (nil included) and every EnrichedArgs (nil pointer, nil list, list with nil elements) within the push
    limit, Inscribe builds a script and ParseInscription returns content type, the data (no bytes for nil) and the
    P2PKH prefix *)
Theorem C20_inscription_roundtrip_args : forall h20 ct (data : go_slice) (e : go_enriched),
  length h20 = 20%nat -> lenN ct < 4294967296 -> lenN (slice_bytes data) < 4294967296 ->
  enriched_ok (norm_enriched e) ->
  exists s, inscribe_args_script (mkInscArgs (p2pkh_script h20) data ct e) = Some s /\
            parse_inscription s = PIOk ct (slice_bytes data) (p2pkh_script h20).
Proof. exact InscriptionArgsProofs.inscription_roundtrip_args. Qed.
Print Assumptions C20_inscription_roundtrip_args.

(** the argument-object model is the byte-string model on the normalised arguments (so every theorem above about
    [inscribe_script] speaks about every argument object) *)
Theorem C20_inscribe_args_is_inscribe_script : forall a,
  inscribe_args_script a =
  inscribe_script (ia_prefix a) (ia_ct a) (slice_bytes (ia_data a)) (norm_enriched (ia_enriched a)).
Proof. exact InscriptionArgsProofs.inscribe_args_script_norm. Qed.
Print Assumptions C20_inscribe_args_is_inscribe_script.

(** a nil OP_RETURN part is pushed like an empty one (OP_0), wherever it stands in the list *)
Theorem C20_inscribe_nil_part_is_empty_part : forall prefix data ct pre post,
  inscribe_args_script (mkInscArgs prefix data ct (Some (Some (pre ++ None :: post)))) =
  inscribe_args_script (mkInscArgs prefix data ct (Some (Some (pre ++ Some [] :: post)))).
Proof. exact InscriptionArgsProofs.inscribe_nil_part_is_empty_part. Qed.
Print Assumptions C20_inscribe_nil_part_is_empty_part.

(** non-vacuity: Data left unset, OpReturnData = [nil; "B"]: a 50-byte script ending 6a 00 01 42 that parses back
    to the content type, no data and the prefix *)
Example C20_roundtrip_nil_data_example :
  let ct := [x74; x65; x78; x74; x2f; x70; x6c; x61; x69; x6e] in
  exists s, inscribe_args_script (mkInscArgs (p2pkh_script (repeat x11 20)) None ct (Some (Some [None; Some [x42]]))) = Some s /\
            parse_inscription s = PIOk ct [] (p2pkh_script (repeat x11 20)) /\
            lenN s = 25 + 7 + 11 + 1 + 1 + 1 + 1 + 1 + 2.
Proof. exact InscriptionArgsProofs.roundtrip_nil_data_example. Qed.
End InscribeArgumentObject.
