(** C02 — FORKID signature hash equals the BSV replay-protected digest for every hash type.
    Only statements, [exact], and [Print Assumptions].
    Model: model/SigHash.v (code-shaped).  Specification: spec/DigestSpec.v (written from
    replay-protected-sighash.md, validated against the node's sighash_bip143.json vectors on every
    run).  [wire_tx] (model/SigHashWire.v) is the node's wire view of a go-bt transaction.
    Proofs: proofs/SigHashProofs.v. *)
From Coq Require Import List NArith Bool.
From Coq Require Import Strings.Byte.
From GoBT Require Import lib.Bytes lib.VarInt lib.Sha256 model.Tx spec.DigestSpec model.SigHash
  model.SigHashWire proofs.SigHashProofs proofs.AuditASigHash model.SigHeap proofs.SigHeapProofs.
Import ListNotations.
Local Open Scope N_scope. Local Open Scope bool_scope.

(** For every transaction, every input index that exists and every 8-bit hash type (in particular
    the 128 with bit 0x40, including the undefined base types 0 and 4..31 and SINGLE without a
    matching output): when the input has a previous txid and a previous script, CalcInputPreimage
    returns exactly the ten-field preimage of the specification, with the input's recorded
    previous script as script code and its recorded previous value as amount.
    (i < 2^32: the Go parameter is a uint32; fewer than 2^31 outputs: int32(inputNumber) in the Go
    code must not wrap — such a transaction would exceed 19 GB.) *)
Theorem C02_forkid_preimage_is_spec : forall t i ht inp sc,
  ht < 256 -> i < two32 -> N.of_nat (length (tx_outs t)) < two31 ->
  nth_error (tx_ins t) (N.to_nat i) = Some inp -> in_txid inp <> [] -> in_script inp = Some sc ->
  option_map SOk (forkid_preimage (wire_tx t) (N.to_nat i) sc (in_sats inp) ht)
  = Some (fst (calc_input_preimage t i ht)).
Proof. exact forkid_preimage_is_spec. Qed.
Print Assumptions C02_forkid_preimage_is_spec.

(** a missing input, previous txid or previous script is reported as (that) error, in this order *)
Theorem C02_forkid_missing_input : forall t i ht, N.of_nat (length (tx_ins t)) <= i ->
  fst (calc_input_preimage t i ht) = SErr ErrInputNoExist.
Proof. exact forkid_missing_input. Qed.
Print Assumptions C02_forkid_missing_input.
Theorem C02_forkid_missing_txid : forall t i ht inp,
  nth_error (tx_ins t) (N.to_nat i) = Some inp -> in_txid inp = [] ->
  fst (calc_input_preimage t i ht) = SErr ErrEmptyPreviousTxID.
Proof. exact forkid_missing_txid. Qed.
Print Assumptions C02_forkid_missing_txid.
Theorem C02_forkid_missing_script : forall t i ht inp,
  nth_error (tx_ins t) (N.to_nat i) = Some inp -> in_txid inp <> [] -> in_script inp = None ->
  fst (calc_input_preimage t i ht) = SErr ErrEmptyPreviousTxScript.
Proof. exact forkid_missing_script. Qed.
Print Assumptions C02_forkid_missing_script.

(** CalcInputSignatureHash with a FORKID type: the double SHA-256 of that preimage (the legacy
    "hash of 1" short-circuit can never fire on it); errors are passed through unchanged *)
Theorem C02_forkid_hash_is_sha256d : forall t i ht, ht < 256 -> has_forkid ht = true ->
  fst (calc_input_signature_hash t i ht) =
  match fst (calc_input_preimage t i ht) with
  | SOk p => SOk (sha256 (sha256 p))
  | other => other
  end.
Proof. exact forkid_hash_is_sha256d. Qed.
Print Assumptions C02_forkid_hash_is_sha256d.

(** ... hence equals the specification's signature hash *)
Theorem C02_forkid_sighash_is_spec : forall t i ht inp sc,
  ht < 256 -> has_forkid ht = true -> i < two32 -> N.of_nat (length (tx_outs t)) < two31 ->
  nth_error (tx_ins t) (N.to_nat i) = Some inp -> in_txid inp <> [] -> in_script inp = Some sc ->
  option_map SOk (forkid_sighash (wire_tx t) (N.to_nat i) sc (in_sats inp) ht)
  = Some (fst (calc_input_signature_hash t i ht)).
Proof. exact forkid_sighash_is_spec. Qed.
Print Assumptions C02_forkid_sighash_is_spec.

(** computing the preimage / the hash leaves the transaction unchanged.
    At the VALUE level (the next two statements) this holds by construction: every branch returns the transaction
    it was given and values are immutable; they are kept because the correspondence compares this component with
    the caller's real object before and after every call (and re-hashes after in-place edits: no stale memo).
    The pointer-level statement - on a machine with stores, CalcInputPreimage performs none - is
    C02_forkid_never_writes_callers_cells below (model/SigHeap.v); the function that DOES store into a clone,
    and for which the statement can fail, is the legacy one: Properties/C03.v. *)
Theorem C02_forkid_leaves_tx_unchanged : forall t i ht, snd (calc_input_preimage t i ht) = t.
Proof. exact forkid_leaves_tx_unchanged. Qed.
Print Assumptions C02_forkid_leaves_tx_unchanged.
Theorem C02_sighash_leaves_tx_unchanged : forall t i ht, has_forkid ht = true -> ht < 256 ->
  snd (calc_input_signature_hash t i ht) = t.
Proof. exact sighash_leaves_tx_unchanged_forkid. Qed.
Print Assumptions C02_sighash_leaves_tx_unchanged.

(** POINTER LEVEL (model/SigHeap.v).  CalcInputPreimage holds no clone and contains no store: on the heap
    machine it is transcribed with its reads only, so whatever the heap, pointer, index and hash type, every cell
    that existed before the call is unchanged - trivially, but as a statement about a machine on which the legacy
    function with a shallow clone does change cells (C03_shallow_clone_would_write) - and what it returns is the
    value-level model's answer on the transaction the pointer denotes. *)
Theorem C02_forkid_never_writes_callers_cells : forall h p i ht h' r,
  forkid_preimage_heap h p i ht = (h', r) ->
  forall a, (a < heap_size h)%nat -> cell h' a = cell h a.
Proof. exact forkid_frame. Qed.
Print Assumptions C02_forkid_never_writes_callers_cells.
Theorem C02_forkid_heap_model_refines_value_model : forall h p t i ht, abs_tx h p = Some t ->
  snd (forkid_preimage_heap h p i ht) = fst (calc_input_preimage t i ht).
Proof. exact forkid_heap_refines. Qed.
Print Assumptions C02_forkid_heap_model_refines_value_model.

(** one statement of totality: on every transaction, every uint32 index and every 8-bit type the function answers
    with a preimage or with one of the three errors - never with the panic outcomes of the model (index out of
    range, nil dereference) *)
Theorem C02_forkid_preimage_total : forall t i ht, ht < 256 -> i < two32 ->
  N.of_nat (length (tx_outs t)) < two31 -> answers_s (fst (calc_input_preimage t i ht)).
Proof. exact forkid_preimage_total. Qed.
Print Assumptions C02_forkid_preimage_total.

(** the FORKID preimage reads no unlocking script: two transactions that differ only in unlocking scripts (of
    the signed input or of any other) give the same preimage - no hypothesis at all.  This is what lets
    FillAllInputs sign input 0 before input 1 has its script and have it verified afterwards. *)
Theorem C02_forkid_ignores_unlocking_scripts : forall t1 t2 i ht,
  erase_unlocks t1 = erase_unlocks t2 ->
  fst (calc_input_preimage t1 i ht) = fst (calc_input_preimage t2 i ht).
Proof. exact forkid_ignores_unlocking_scripts. Qed.
Print Assumptions C02_forkid_ignores_unlocking_scripts.

(** sanity of the specification: 156 bytes of fixed-width fields + CompactSize-prefixed script code *)
Theorem C02_preimage_length : forall tx nIn inp sc amount ht p,
  nth_error (t_vin tx) nIn = Some inp -> length (op_hash (ti_prevout inp)) = 32%nat ->
  forkid_preimage tx nIn sc amount ht = Some p ->
  lenN p = 156 + varint_len (lenN sc) + lenN sc.
Proof. exact forkid_preimage_length. Qed.
Print Assumptions C02_preimage_length.

(** the three zeroing rules as a table over (base type, ANYONECANPAY), for all 256 8-bit types *)
Theorem C02_zeroing_rules : forall ht, ht < 256 ->
  commits_to_all_prevouts ht = negb (128 <=? ht) /\
  commits_to_all_sequences ht = negb (128 <=? ht) && negb (ht mod 32 =? 2) && negb (ht mod 32 =? 3).
Proof. exact zeroing_rules_table. Qed.
Print Assumptions C02_zeroing_rules.

(** non-vacuity: a 2-in/1-out transaction meets the hypotheses for ALL|FORKID on input 0 and for
    SINGLE|FORKID|ANYONECANPAY on input 1 (no matching output); the preimages are the expected length *)
Definition ex_tx : tx :=
  mkTx 1 [mkInput (repeat_byte 32 xab) 3 [x51] 4294967295 5000 (Some [x76; xa9; x88; xac]);
          mkInput (repeat_byte 32 xcd) 0 [] 7 1 (Some [])]
         [mkOutput 1000 [x6a]] 0.
Example C02_hypotheses_satisfiable :
  exists inp sc, nth_error (tx_ins ex_tx) (N.to_nat 0) = Some inp /\ in_txid inp <> [] /\ in_script inp = Some sc /\
                 N.of_nat (length (tx_outs ex_tx)) < two31 /\ has_forkid 65 = true.
Proof. eexists; eexists. repeat split; [discriminate]. Qed.
Example C02_example_all_forkid :
  match fst (calc_input_preimage ex_tx 0 65) with SOk p => lenN p =? 161 | _ => false end = true.
Proof. vm_compute. reflexivity. Qed.
Example C02_example_single_without_output :
  match fst (calc_input_preimage ex_tx 1 195), forkid_preimage (wire_tx ex_tx) 1 [] 1 195 with
  | SOk p, Some q => bytes_eqb p q && bytes_eqb (firstn 32 (skipn 117 p)) uint256_zero
  | _, _ => false
  end = true.
Proof. vm_compute. reflexivity. Qed.
Example C02_example_errors :
  fst (calc_input_signature_hash ex_tx 2 65) = SErr ErrInputNoExist.
Proof. vm_compute. reflexivity. Qed.

(** the hash-type constants of the model are those of sighash/flag.go (coq/gen/MiscConsts.v is regenerated from
    the Go source on every run) *)
From Coq Require Import String ZArith.
From GoBT Require Import gen.MiscConsts proofs.InterpConstsProofs proofs.MiscConstsProofs.
Local Open Scope string_scope.
Theorem C02_sighash_constants_match :
  lookup sighash_consts "All" = Some (Z.of_N sh_all) /\
  lookup sighash_consts "None" = Some (Z.of_N sh_none) /\
  lookup sighash_consts "Single" = Some (Z.of_N sh_single) /\
  lookup sighash_consts "AnyOneCanPay" = Some (Z.of_N sh_anyonecanpay) /\
  lookup sighash_consts "ForkID" = Some (Z.of_N sh_forkid) /\
  lookup sighash_consts "Mask" = Some (Z.of_N sh_mask).
Proof. destruct sighash_consts_match as (H1 & H2 & H3 & H4 & H5 & H6 & _). repeat split; assumption. Qed.
Print Assumptions C02_sighash_constants_match.

(** State inventory (tie, translator part): every Go struct the model of this property represents has, in the
    source as it is NOW (gen/Structs.v, regenerated on every run), exactly the fields - names, types, order - the
    model was written against (model/StateInventory.v).  New state in these objects (a memoised digest, a cached
    document, a remembered operand) is state the theorems above do not speak about: this is the obligation that
    stops checking then. *)
From GoBT Require gen.Structs model.StateInventory.
Theorem C02_state_inventory :
  forall k, In k (StateInventory.group_of StateInventory.pC02) ->
  exists f, StateInventory.lookup_gen gen.Structs.structs k = Some f /\ StateInventory.lookup_model k = Some f.
Proof. apply StateInventory.inventory_ok_spec. vm_compute. reflexivity. Qed.
Print Assumptions C02_state_inventory.

(** Package-level state (tie, translator part): in the source as it is NOW (gen/Globals.v) no package-level variable of
    the packages this property's code lives in can change after initialisation or is handed out by reference - the
    model's functions are functions of their arguments only (model/StateInventory.v). *)
From GoBT Require gen.Globals.
Theorem C02_no_mutable_package_state :
  forall g, In g gen.Globals.globals -> In (StateInventory.rg_pkg g) (StateInventory.packages_of StateInventory.pC02) ->
  StateInventory.rg_mutated g = false /\ StateInventory.rg_escapes g = false.
Proof. apply StateInventory.pkg_state_ok_spec. vm_compute. reflexivity. Qed.
Print Assumptions C02_no_mutable_package_state.

(** CONCURRENCY (model/SigConc.v, proofs/SigConcProofs.v).  The theorems above are about a function; the Go
    methods are loops  buf := make([]byte, 0); for ... { buf = append(buf, ...) }; return Sha256d(buf).  On a
    machine where any number of such loops run interleaved, statement by statement, under ANY schedule and from any
    initial memory: when every loop appends into an array of its own, a loop that returns returns the hash of ITS
    transaction - hashPrevouts, hashSequence, hashOutputs are previous_out_hash / sequence_hash / outputs_hash of
    the value-level model, whatever else the process computes.  The hypothesis (arrays pairwise distinct) is what
    C02_no_mutable_package_state establishes about the source: no package-level buffer.  It is needed:
    C02_shared_hash_buffer_would_interfere gives two transactions and a schedule for which one shared array
    (buf := hashBuf[:0]) makes a loop return the OTHER transaction's hashPrevouts.  The Go harness runs the real
    methods from 8 goroutines (own transactions / one shared transaction) on every run. *)
From GoBT Require Import model.SigConc proofs.SigConcProofs.
Theorem C02_concurrent_hashes_independent : forall (txs : list (nat * tx)) sched s0, NoDup (map fst txs) ->
  forall k a t,  nth_error txs k = Some (a, t) ->
  (forall th r, nth_error (snd (run sched (s0, start (map (fun at_ => (fst at_, prevout_chunks (snd at_))) txs)))) k = Some th ->
                th_res th = Some r -> r = previous_out_hash t) /\
  (forall th r, nth_error (snd (run sched (s0, start (map (fun at_ => (fst at_, sequence_chunks (snd at_))) txs)))) k = Some th ->
                th_res th = Some r -> r = sequence_hash t) /\
  (forall th r, nth_error (snd (run sched (s0, start (map (fun at_ => (fst at_, outputs_chunks (snd at_))) txs)))) k = Some th ->
                th_res th = Some r -> Some r = outputs_hash t (-1)%Z).
Proof. exact conc_hashes_independent. Qed.
Print Assumptions C02_concurrent_hashes_independent.
Theorem C02_shared_hash_buffer_would_interfere : exists t1 t2 sched r,
  map th_res (snd (run sched (fun _ => [], start [(0%nat, prevout_chunks t1); (0%nat, prevout_chunks t2)])))
    = [Some r; Some (previous_out_hash t2)] /\
  r <> previous_out_hash t1 /\ r = previous_out_hash t2.
Proof. exact conc_shared_interferes. Qed.
Print Assumptions C02_shared_hash_buffer_would_interfere.
(** non-vacuity: under a round-robin schedule two loops on two arrays both finish, with their own hashes *)
Example C02_example_concurrent_private :
  map th_res (snd (run round_robin (fun _ => [], start [(0%nat, prevout_chunks ctx1); (1%nat, prevout_chunks ctx2)])))
  = [Some (previous_out_hash ctx1); Some (previous_out_hash ctx2)].
Proof. exact conc_private_example. Qed.

(** REFUSED SETTER / BUILDER CALLS (model/SigBuild.v, proofs/SigBuildProofs.v).  "Every transaction" is, for a
    caller, what its successful calls made: a call that returns an error has not happened.  The model of
    Input.PreviousTxIDAdd / PreviousTxIDAddStr / Tx.From / Tx.FromUTXOs is in the order of the Go code (validate,
    then assign); the other builders enter by their contract (an error: nothing).  [step_op t o failed] is the
    transaction after call [o] whose verdict was [failed]; [head_refused o] excludes the one call that the code
    completes partly before failing (FromUTXOs with a refused UTXO behind an accepted one).  The Go harness walks
    one long-lived object and its own record through histories of such calls and compares all digests on every run
    (corr/C02.v CHist: the model decides the verdicts itself). *)
From GoBT Require Import model.SigBuild proofs.SigBuildProofs.
Theorem C02_refused_call_leaves_transaction : forall t o t',
  head_refused o -> step_op t o true = Some t' -> t' = t.
Proof. exact refused_call_leaves_transaction. Qed.
Print Assumptions C02_refused_call_leaves_transaction.
Theorem C02_refused_call_keeps_every_digest : forall t o t' i ht,
  head_refused o -> step_op t o true = Some t' ->
  calc_input_preimage t' i ht = calc_input_preimage t i ht /\
  calc_input_signature_hash t' i ht = calc_input_signature_hash t i ht.
Proof. exact refused_call_keeps_every_digest. Qed.
Print Assumptions C02_refused_call_keeps_every_digest.
(** an input that never had a previous txid still has none after a refused PreviousTxIDAdd / PreviousTxIDAddStr:
    preimage and signature hash keep reporting ErrEmptyPreviousTxID *)
Theorem C02_refused_txid_is_still_missing : forall t j o t' inp ht,
  (exists id, o = OTxidAdd j id) \/ (exists s, o = OTxidAddStr j s) ->
  input_idx t j = Some inp -> in_txid inp = [] ->
  step_op t o true = Some t' ->
  fst (calc_input_preimage t' j ht) = SErr ErrEmptyPreviousTxID /\
  fst (calc_input_signature_hash t' j ht) = SErr ErrEmptyPreviousTxID.
Proof. exact refused_txid_is_still_missing. Qed.
Print Assumptions C02_refused_txid_is_still_missing.
(** an accepted previous txid has 32 bytes and is recorded on that input, nothing else changes *)
Theorem C02_accepted_txid_is_recorded : forall t j id t' i,
  nthN (tx_ins t) j = Some i ->
  step_op t (OTxidAdd j id) false = Some t' ->
  nthN (tx_ins t') j = Some (set_txid i id) /\ List.length id = 32%nat /\
  tx_version t' = tx_version t /\ tx_outs t' = tx_outs t /\ tx_lock t' = tx_lock t.
Proof. exact accepted_txid_is_recorded. Qed.
Print Assumptions C02_accepted_txid_is_recorded.
(** non-vacuity: a 31-byte txid and the string "abcd" are refused (the hypothesis [step_op … true = Some _] holds),
    a 32-byte one is accepted; From with a script that is not hex is refused *)
Example C02_example_refused_calls :
  let t := mkTx 1 [mkInput [] 3 [] 7 1000 (Some [x51])] [mkOutput 900 [x51]] 0 in
  step_op t (OTxidAdd 0 (repeat_byte 31 x00)) true = Some t /\
  step_op t (OTxidAddStr 0 "abcd") true = Some t /\
  step_op t (OFrom "00" 0 "5" 1) true = Some t /\
  step_op t (OTxidAdd 0 (repeat_byte 32 xaa)) false
    = Some (mkTx 1 [mkInput (repeat_byte 32 xaa) 3 [] 7 1000 (Some [x51])] [mkOutput 900 [x51]] 0) /\
  step_op t (OTxidAdd 0 (repeat_byte 32 xaa)) true = None.
Proof. vm_compute. repeat split. Qed.
