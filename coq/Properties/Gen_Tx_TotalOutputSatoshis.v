(** Export: the Go source of Tx.TotalOutputSatoshis (txoutput.go), as printed into gen/Funcs.v on every run, is the model function the
    property theorems are about (proofs/GenFuncs_Tx_TotalOutputSatoshis.v).  Go values are related to the model's records by the
    abstraction functions of proofs/GenFuncsTxTac.v ([tx_of_go]) and proofs/GenFuncs_Tx_feesPaid.v ([quote_of_go],
    [size_of_go]); the hypotheses are the ranges of the Go types plus what the Go code itself needs in order not to
    panic (no nil element in Outputs; the LockingScript is not read).  Compiled only while gen/Funcs.status.json says the function is translated. *)
From Coq Require Import List ZArith NArith Bool.
From Coq Require Import Strings.Byte.
From GoBT Require Import lib.Bytes lib.GoSem lib.GoTx gen.Funcs proofs.GenFuncsTxTac proofs.GenFuncs_Tx_TotalOutputSatoshis.
From GoBT Require Import model.Tx model.Fees.
Import ListNotations.
Local Open Scope Z_scope.

(** the uint64 accumulator wraps in the code and in the model alike: no bound on the sum is assumed *)
Theorem C11_go_source_Tx_TotalOutputSatoshis_is_model :
  forall (ins : list go_Input) (outs : list go_Output) (ver lock : Z), Forall go_sats_ok outs -> len_ok outs ->
  Tx_TotalOutputSatoshis (map Some outs) = Val (Z.of_N (total_out (tx_of_go ins outs ver lock))).
Proof. exact Tx_TotalOutputSatoshis_is_model. Qed.
Print Assumptions C11_go_source_Tx_TotalOutputSatoshis_is_model.

Theorem C10_go_source_Tx_TotalOutputSatoshis_is_model :
  forall (ins : list go_Input) (outs : list go_Output) (ver lock : Z), Forall go_sats_ok outs -> len_ok outs ->
  Tx_TotalOutputSatoshis (map Some outs) = Val (Z.of_N (total_out (tx_of_go ins outs ver lock))).
Proof. exact Tx_TotalOutputSatoshis_is_model. Qed.
Print Assumptions C10_go_source_Tx_TotalOutputSatoshis_is_model.

Theorem C12_go_source_Tx_TotalOutputSatoshis_is_model :
  forall (ins : list go_Input) (outs : list go_Output) (ver lock : Z), Forall go_sats_ok outs -> len_ok outs ->
  Tx_TotalOutputSatoshis (map Some outs) = Val (Z.of_N (total_out (tx_of_go ins outs ver lock))).
Proof. exact Tx_TotalOutputSatoshis_is_model. Qed.
Print Assumptions C12_go_source_Tx_TotalOutputSatoshis_is_model.

