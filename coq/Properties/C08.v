(** C08 — Execution has no side effects on caller data and stack items never alias.
    In the model (model/Interp.v) stack items are immutable values and the scripts / transaction are
    inputs that [engine_execute] does not return, so "the caller's bytes are unchanged" is decided by the
    correspondence harness (byte-for-byte comparison of the caller-held buffers before/after) — the
    model cannot express a write through a shared backing array.  What the model carries, for all
    stacks and all operands, is the frame property of every handler. *)
From Coq Require Import List NArith ZArith.
From Coq Require Import Strings.Byte.
From GoBT Require Import lib.Bytes model.ScriptNum model.Interp proofs.InterpTotal proofs.InterpFrame.
Import ListNotations.

(** every non-signature opcode other than OP_ROLL touches only the top [arity] items of the data stack:
    below some new items, everything that was under those items is still there, unchanged; the alt stack
    is untouched unless the opcode is OP_TOALTSTACK / OP_FROMALTSTACK *)
Theorem C08_handler_frame : forall so c p idx s s',
  p_real p = true -> is_sigop (p_val p) = false -> (p_val p =? OP_ROLL)%N = false ->
  exec_handler so c p idx s = OOk s' ->
  frame_rel (arity (p_val p)) (ds s) (ds s') /\
  ((p_val p =? OP_TOALTSTACK)%N = false -> (p_val p =? OP_FROMALTSTACK)%N = false -> als s' = als s).
Proof. exact handler_frame. Qed.
Print Assumptions C08_handler_frame.

(** the same for a whole step, including opcodes skipped in a non-executing branch *)
Theorem C08_step_frame : forall so c p idx s s',
  p_real p = true -> is_sigop (p_val p) = false -> (p_val p =? OP_ROLL)%N = false ->
  execute_opcode so c p idx s = OOk s' ->
  frame_rel (arity (p_val p)) (ds s) (ds s') /\
  ((p_val p =? OP_TOALTSTACK)%N = false -> (p_val p =? OP_FROMALTSTACK)%N = false -> als s' = als s).
Proof. exact step_frame. Qed.
Print Assumptions C08_step_frame.

(** OP_ROLL moves exactly one item to the top *)
Theorem C08_roll_frame : forall so c p idx s s',
  p_real p = true -> p_val p = OP_ROLL -> exec_handler so c p idx s = OOk s' ->
  exists nb a x rest, ds s = nb :: a ++ x :: rest /\ ds s' = x :: a ++ rest /\ als s' = als s.
Proof. exact roll_frame. Qed.
Print Assumptions C08_roll_frame.

(** the alt-stack opcodes move exactly one item between the stacks *)
Theorem C08_altstack_frame : forall so c p idx s s',
  p_real p = true -> exec_handler so c p idx s = OOk s' ->
  (p_val p = OP_TOALTSTACK -> exists t, ds s = t :: ds s' /\ als s' = t :: als s) /\
  (p_val p = OP_FROMALTSTACK -> exists t, als s = t :: als s' /\ ds s' = t :: ds s).
Proof. exact altstack_frame. Qed.
Print Assumptions C08_altstack_frame.

(** the frame relation is what it says: monotone in the number of touched items *)
Theorem C08_frame_rel_mono : forall k k' d d', (k <= k')%nat -> frame_rel k d d' -> frame_rel k' d d'.
Proof. exact frame_rel_mono. Qed.
Print Assumptions C08_frame_rel_mono.

(** non-vacuity: a duplicate survives the transformation of its twin (the confirmed pre-repair defect:
    01 DUP 1 LSHIFT left 02 below) *)
Example C08_twin_survives :
  snd (engine_execute no_sigops (mkExecInput [] [x51; x76; x51; x98; x75; x51; x87] 16384 false false 0 0 0))
  = [mkSnap [[x01]] []; mkSnap [[x01]; [x01]] []; mkSnap [[x01]; [x01]; [x01]] []; mkSnap [[x01]; [x02]] [];
     mkSnap [[x01]] []; mkSnap [[x01]; [x01]] []; mkSnap [[x01]] []].
Proof. vm_compute. reflexivity. Qed.
