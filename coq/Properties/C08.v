(** C08 — Execution has no side effects on caller data and stack items never alias.
    In the model (model/Interp.v) stack items are immutable values and the scripts / transaction are
    inputs that [engine_execute] does not return, so "the caller's bytes are unchanged" is decided by the
    correspondence harness (byte-for-byte comparison of the caller-held buffers before/after).  What the
    value model carries, for all stacks and all operands, is the frame property of every handler (first part
    of this file); sharing — items as slices of backing arrays, the caller's scripts among them — is the
    subject of model/Heap.v and of the second part. *)
From Coq Require Import List NArith ZArith.
From Coq Require Import Strings.Byte.
From GoBT Require Import lib.Bytes model.ScriptNum model.Interp model.Heap proofs.InterpTotal proofs.InterpFrame proofs.HeapRefine proofs.HeapProgress.
Import ListNotations.

(** every non-signature opcode other than OP_ROLL touches only the top [arity] items of the data stack:
    below some new items, everything that was under those items is still there, unchanged; the alt stack
    is untouched unless the opcode is OP_TOALTSTACK / OP_FROMALTSTACK *)
Theorem C08_handler_frame : forall so c p idx s s',
  p_real p = true -> is_sigop (p_val p) = false -> (p_val p =? OP_ROLL)%N = false ->
  exec_handler so c p idx s = OOk s' ->
  frame_rel (arity (p_val p)) (ds s) (ds s') /\
  ((p_val p =? OP_TOALTSTACK)%N = false -> (p_val p =? OP_FROMALTSTACK)%N = false -> als s' = als s).
Proof. exact handler_frame. Qed.
Print Assumptions C08_handler_frame.

(** the same for a whole step, including opcodes skipped in a non-executing branch *)
Theorem C08_step_frame : forall so c p idx s s',
  p_real p = true -> is_sigop (p_val p) = false -> (p_val p =? OP_ROLL)%N = false ->
  execute_opcode so c p idx s = OOk s' ->
  frame_rel (arity (p_val p)) (ds s) (ds s') /\
  ((p_val p =? OP_TOALTSTACK)%N = false -> (p_val p =? OP_FROMALTSTACK)%N = false -> als s' = als s).
Proof. exact step_frame. Qed.
Print Assumptions C08_step_frame.

(** OP_ROLL moves exactly one item to the top *)
Theorem C08_roll_frame : forall so c p idx s s',
  p_real p = true -> p_val p = OP_ROLL -> exec_handler so c p idx s = OOk s' ->
  exists nb a x rest, ds s = nb :: a ++ x :: rest /\ ds s' = x :: a ++ rest /\ als s' = als s.
Proof. exact roll_frame. Qed.
Print Assumptions C08_roll_frame.

(** the alt-stack opcodes move exactly one item between the stacks *)
Theorem C08_altstack_frame : forall so c p idx s s',
  p_real p = true -> exec_handler so c p idx s = OOk s' ->
  (p_val p = OP_TOALTSTACK -> exists t, ds s = t :: ds s' /\ als s' = t :: als s) /\
  (p_val p = OP_FROMALTSTACK -> exists t, als s = t :: als s' /\ ds s' = t :: ds s).
Proof. exact altstack_frame. Qed.
Print Assumptions C08_altstack_frame.

(** the frame relation is what it says: monotone in the number of touched items *)
Theorem C08_frame_rel_mono : forall k k' d d', (k <= k')%nat -> frame_rel k d d' -> frame_rel k' d d'.
Proof. exact frame_rel_mono. Qed.
Print Assumptions C08_frame_rel_mono.

(** * The sharing model (model/Heap.v): stack items are slices of backing arrays, as Go holds them.
    The statements below are about the machine that moves, duplicates and cuts SLICES (DUP, OVER, PICK, TUCK share
    storage; a data push is a view of the caller's script; OP_SPLIT pushes two views of its operand; OP_BIN2NUM
    may push its operand itself) and allocates a new array for every computed result. *)

(** no opcode ever writes to an array that exists: the heap after a step is the heap before it plus new arrays.
    (Holds by construction of model/Heap.v: [rebuild] has no write operation, only [alloc], which appends -- this is the
    modelling ASSUMPTION "every Go handler allocates its result", not a consequence of a model of handlers that could
    write in place; that the Go handlers behave so is carried by the address-comparison correspondence, corr/C08.v.
    What the theorems below add is that the assumed sharing pattern is CONSISTENT with the value semantics.) *)
Theorem C08_no_opcode_writes_to_existing_storage : forall c sc off p s d' hs hs',
  rebuild c sc off p s d' hs = Some hs' -> extends (h_heap hs) (h_heap hs').
Proof. exact rebuild_extends. Qed.
Print Assumptions C08_no_opcode_writes_to_existing_storage.

(** C08, both sentences, for every pair of scripts, flag word and context: whenever the sharing machine follows the
    value machine to the end ([HRes]), the verdict is the value machine's; the slices of EVERY snapshot, read in the
    FINAL heap, give exactly the value machine's snapshot of that step — so no item's bytes ever change after it was
    pushed, whatever was later done to items that share its storage; and arrays 0 and 1 of the heap, the caller's
    unlocking and locking script buffers, hold at the end what they held at the start *)
Theorem C08_sharing_machine_refines_value_machine : forall so i v sn h,
  h_engine_execute so i = HRes v sn h ->
  engine_execute so i = (v, map (abs_snap h) sn) /\
  nth 0 h [] = ei_unlock i /\ nth 1 h [] = ei_lock i.
Proof. exact h_engine_execute_refines. Qed.
Print Assumptions C08_sharing_machine_refines_value_machine.

(** the same, item by item: what the k-th snapshot's slices read at the very end is what the value machine had then *)
Theorem C08_item_never_changes : forall so i v sn h k d a,
  h_engine_execute so i = HRes v sn h -> nth_error sn k = Some (d, a) ->
  exists s, nth_error (snd (engine_execute so i)) k = Some s /\ map (rd h) d = sn_ds s /\ map (rd h) a = sn_as s.
Proof. exact item_never_changes. Qed.
Print Assumptions C08_item_never_changes.

(** every slice of every snapshot lies inside its array *)
Theorem C08_slices_in_bounds : forall so i v sn h,
  h_engine_execute so i = HRes v sn h -> Forall (fun x => all_in h (fst x) /\ all_in h (snd x)) sn.
Proof. exact h_engine_execute_in_bounds. Qed.
Print Assumptions C08_slices_in_bounds.

(** ... and the sharing machine does follow: on a non-signature opcode it is never stuck, i.e. moving / duplicating /
    cutting slices and allocating results as the Go handlers do reads back exactly the value machine's stacks
    (naturality of the stack primitives in the item type, the frame property of the other handlers, OP_SPLIT and
    OP_BIN2NUM by computation).  The hypothesis on data pushes says that the parsed opcode's data is the bytes at its
    place in the script buffer, which is how the parser cuts it. *)
Theorem C08_sharing_machine_never_stuck : forall so c sc off p idx s hs,
  is_sigop (p_val p) = false ->
  reads hs (ds s) (als s) = true -> in_bounds (h_heap hs) sc = true ->
  ((p_val p <=? OP_PUSHDATA4)%N = true -> (0 <? p_val p)%N = true ->
   rd (h_heap hs) (sub sc (off + data_off p) (length (p_data p))) = p_data p /\
   in_bounds (h_heap hs) (sub sc (off + data_off p) (length (p_data p))) = true) ->
  (1 <= length (h_heap hs))%nat ->
  h_step so c sc off p idx s hs <> HStuck.
Proof. exact h_step_not_stuck. Qed.
Print Assumptions C08_sharing_machine_never_stuck.

(** the parser cuts every data push out of the script at the place the sharing machine looks for it *)
Theorem C08_push_data_is_a_view_of_the_script : forall eoc bs ops,
  parse_script eoc bs = Some ops -> pushes_ok bs 0 ops.
Proof. exact parse_script_pushes_ok. Qed.
Print Assumptions C08_push_data_is_a_view_of_the_script.

(** ... so, for WHOLE executions: without a transaction context (no signature opcode gets past the parser then) the
    sharing machine always reaches the end, whatever the scripts and flags, P2SH included — and with the refinement
    above this is C08 outright for every such input: the value machine's verdict and snapshots are those of a machine
    that shares storage exactly as the Go code does and never writes to an array that exists, and the caller's two
    script buffers are untouched *)
Theorem C08_sharing_and_value_machines_agree_without_tx : forall so i,
  ei_has_tx i = false \/ ei_has_prevout i = false ->
  exists v sn h, h_engine_execute so i = HRes v sn h /\
                 engine_execute so i = (v, map (abs_snap h) sn) /\
                 nth 0 h [] = ei_unlock i /\ nth 1 h [] = ei_lock i.
Proof. exact sharing_machine_total_refinement_no_tx. Qed.
Print Assumptions C08_sharing_and_value_machines_agree_without_tx.

(** ... and with a transaction context, for scripts (and, in P2SH mode, a redeem script) without signature opcodes;
    the hypotheses are needed: a signature-opcode oracle that shrinks the stack arbitrarily does get the machine stuck *)
Theorem C08_sharing_and_value_machines_agree : forall so i,
  no_sigops_in (ei_unlock i) = true -> no_sigops_in (ei_lock i) = true ->
  (engine_p2sh i = true -> redeem_sigop_free i = true) ->
  exists v sn h, h_engine_execute so i = HRes v sn h /\
                 engine_execute so i = (v, map (abs_snap h) sn) /\
                 nth 0 h [] = ei_unlock i /\ nth 1 h [] = ei_lock i.
Proof. exact sharing_machine_total_refinement. Qed.
Print Assumptions C08_sharing_and_value_machines_agree.

(** * Audit B additions (proofs/AuditB_C08.v, proofs/AuditB_C08Heap.v) *)
From GoBT Require Import model.Tx model.SigHash model.CheckSig proofs.CheckSigProofs proofs.SigOpProofs
  proofs.AuditB_C08 proofs.AuditB_C08Heap.

(** ** the sharing machine WITH signature opcodes.  [sigops_framed]: a signature operation leaves a suffix of the data
    stack, pushes at most one (new) result, leaves the alt stack alone and never returns early.  The operations of
    model/CheckSig.v satisfy it for every oracle, transaction and input index (no well-formedness needed) ... *)
Theorem C08_signature_opcodes_framed : forall orc t i, sigops_framed (mk_sigops orc t i).
Proof. exact mk_sigops_framed. Qed.
Print Assumptions C08_signature_opcodes_framed.

(** ... under it the sharing machine is never stuck on ANY opcode ... *)
Theorem C08_sharing_machine_never_stuck_with_signatures : forall so c sc off p idx s hs,
  sigops_framed so ->
  reads hs (ds s) (als s) = true -> in_bounds (h_heap hs) sc = true ->
  ((p_val p <=? OP_PUSHDATA4)%N = true -> (0 <? p_val p)%N = true ->
   rd (h_heap hs) (sub sc (off + data_off p) (length (p_data p))) = p_data p /\
   in_bounds (h_heap hs) (sub sc (off + data_off p) (length (p_data p))) = true) ->
  (1 <= length (h_heap hs))%nat ->
  h_step so c sc off p idx s hs <> HStuck.
Proof. exact h_step_not_stuck_framed. Qed.
Print Assumptions C08_sharing_machine_never_stuck_with_signatures.

(** ... and so, for EVERY input -- any scripts, any flags, with a transaction context, P2SH included, pay-to-public-key-hash
    spends among them -- the sharing machine reaches the end, its verdict and snapshots are the value machine's, and the
    caller's two script buffers hold at the end what they held at the start.  This removes the hypotheses of
    [C08_sharing_and_value_machines_agree(_without_tx)] *)
Theorem C08_sharing_and_value_machines_agree_framed : forall so i, sigops_framed so ->
  exists v sn h, h_engine_execute so i = HRes v sn h /\
                 engine_execute so i = (v, map (abs_snap h) sn) /\
                 nth 0 h [] = ei_unlock i /\ nth 1 h [] = ei_lock i.
Proof. exact sharing_machine_total_refinement_framed. Qed.
Print Assumptions C08_sharing_and_value_machines_agree_framed.
Theorem C08_sharing_and_value_machines_agree_with_signatures : forall orc t n i,
  exists v sn h, h_engine_execute (mk_sigops orc t n) i = HRes v sn h /\
                 engine_execute (mk_sigops orc t n) i = (v, map (abs_snap h) sn) /\
                 nth 0 h [] = ei_unlock i /\ nth 1 h [] = ei_lock i.
Proof. exact sharing_machine_total_refinement_signatures. Qed.
Print Assumptions C08_sharing_and_value_machines_agree_with_signatures.

(** <sig> <key> DUP | SWAP DROP CHECKSIG with a transaction context: the machine is not stuck, the key and its duplicate
    are views of the unlocking script, the result of OP_CHECKSIG is a new array *)
Example C08_sharing_example_checksig :
  match h_engine_execute (mk_sigops any_oracle ex_tx 1)
          (mkExecInput [x02; x30; x01; x01; x02; x76] [x7c; x75; xac] 0 true true 0 1 0) with
  | HRes v sn h =>
      v = VOk /\ nth_error sn 2 = Some ([mkSl 0 1 2; mkSl 0 4 1; mkSl 0 4 1], []) /\
      last sn ([], []) = ([mkSl 2 0 1], []) /\ nth 0 h [] = [x02; x30; x01; x01; x02; x76]
  | HResStuck => False
  end.
Proof. vm_compute. repeat split; reflexivity. Qed.

(** ** the transaction.  What thread.apply does to the transaction the caller passed ([record_prevout], thread.go: the
    previous output's script and value are stored on the checked input): the serialisation (hence the txid) is
    unchanged, every other input is untouched, and the checked input changes in those two fields only.  Signature
    checks work on [clone t] (model/CheckSig.sighash_for), so nothing else reaches the caller's transaction.
    (Statements about the recording function; the interpreter model does not carry the transaction through a run.) *)
Theorem C08_record_prevout_keeps_serialisation : forall t i lock sats,
  tx_bytes false (record_prevout t i lock sats) = tx_bytes false t.
Proof. exact record_prevout_keeps_serialisation. Qed.
Print Assumptions C08_record_prevout_keeps_serialisation.
Theorem C08_record_prevout_touches_one_input : forall t i lock sats j x,
  nth_error (tx_ins t) (N.to_nat j) = Some x -> j <> i ->
  nth_error (tx_ins (record_prevout t i lock sats)) (N.to_nat j) = Some x.
Proof. exact record_prevout_touches_one_input. Qed.
Print Assumptions C08_record_prevout_touches_one_input.
Theorem C08_record_prevout_on_the_input : forall t i lock sats x,
  nth_error (tx_ins t) (N.to_nat i) = Some x ->
  nth_error (tx_ins (record_prevout t i lock sats)) (N.to_nat i) =
  Some (mkInput (in_txid x) (in_vout x) (in_unlock x) (in_seq x) sats (Some lock)).
Proof. exact record_prevout_on_the_input. Qed.
Print Assumptions C08_record_prevout_on_the_input.
(** the engine's transaction used by C04 / C20 ([engine_tx]) is that recording *)
Theorem C08_engine_tx_is_record_prevout : forall t i x lock sats,
  nth_error (tx_ins t) (N.to_nat i) = Some x ->
  engine_tx t i (in_unlock x) lock sats = record_prevout t i lock sats.
Proof. exact engine_tx_is_record_prevout. Qed.
Print Assumptions C08_engine_tx_is_record_prevout.

(** ** [frame_rel k d d'] of the frame theorems above says exactly: what lay under the top k items of d is a suffix of d' *)
Theorem C08_frame_rel_is_suffix : forall k d d', frame_rel k d d' <-> exists new, d' = new ++ skipn k d.
Proof. exact frame_rel_iff. Qed.
Print Assumptions C08_frame_rel_is_suffix.

(** non-vacuity of the sharing statements: DUP / SPLIT / CAT / alt-stack traffic on a value pushed from the unlocking
    script runs to the end ([HRes], not stuck), the duplicate and the two halves of the split are views of the
    caller's unlocking script (array 0), and the concatenation is a new array *)
Example C08_sharing_example :
  match h_engine_execute no_sigops
          (mkExecInput [x02; x01; x80; x76] [x76; x81; x75; x51; x7f; x7e; x7c; x6b; x6c; x82] 16384 false false 0 0 0) with
  | HRes v sn h =>
      v = VOk /\ length sn = 12%nat /\
      nth_error sn 1 = Some ([mkSl 0 1 2; mkSl 0 1 2], []) /\                          (* DUP: two views of the script *)
      nth_error sn 6 = Some ([mkSl 0 1 2; mkSl 0 1 1; mkSl 0 2 1], []) /\               (* SPLIT: two views *)
      nth_error sn 7 = Some ([mkSl 0 1 2; mkSl 4 0 2], []) /\                           (* CAT: a new array *)
      nth 0 h [] = [x02; x01; x80; x76]
  | HResStuck => False
  end.
Proof. vm_compute. repeat split; reflexivity. Qed.

(** non-vacuity: a duplicate survives the transformation of its twin (the confirmed pre-repair defect:
    01 DUP 1 LSHIFT left 02 below) *)
Example C08_twin_survives :
  snd (engine_execute no_sigops (mkExecInput [] [x51; x76; x51; x98; x75; x51; x87] 16384 false false 0 0 0))
  = [mkSnap [[x01]] []; mkSnap [[x01]; [x01]] []; mkSnap [[x01]; [x01]; [x01]] []; mkSnap [[x01]; [x02]] [];
     mkSnap [[x01]] []; mkSnap [[x01]; [x01]] []; mkSnap [[x01]] []].
Proof. vm_compute. reflexivity. Qed.

(** ** zero-length views (model/HeapViews.v).  An item of length 0 is still a slice: the left half of a split at 0,
    the right half of a split at the end, an OP_PUSHDATA1/2/4 of length 0 have an address and the capacity of what
    lies behind them, and a handler that appends to such an operand writes into the sibling item or the caller's
    script.  The sharing machine carries them as (array, offset, 0); the refined observable [canon_trace_z] shows
    them to the correspondence (the harness locates zero-length items that have capacity left).  It refines the
    observable of model/Heap.v: same numbering of the arrays, and with the zero-length entries erased it IS
    [canon_trace] - for every heap and every list of snapshots. *)
From GoBT Require model.HeapViews proofs.HeapViewsProofs.
Theorem C08_zero_length_views_refine_the_sharing_observable : forall h ub lb sn,
  map HeapViewsProofs.erase_snap (HeapViews.canon_trace_z h ub lb sn) = canon_trace ub lb sn.
Proof. exact HeapViewsProofs.canon_trace_z_refines. Qed.
Print Assumptions C08_zero_length_views_refine_the_sharing_observable.

(** a zero-length view that starts strictly inside an array seen before is expected in exactly that array at
    exactly that offset: no other report of the harness is accepted *)
Theorem C08_zero_length_view_inside_an_array_is_located : forall h tbl x k base o,
  sl_len x = 0%nat -> HeapViews.is_nil_slice x = false -> lookup tbl (sl_arr x) 1 = Some (k, base) ->
  (sl_off x < length (nth (sl_arr x) h []))%nat ->
  HeapViews.meets (snd (HeapViews.canon1z h tbl x)) o = true ->
  o = (Z.of_nat k, (Z.of_nat (sl_off x) - Z.of_nat base)%Z, 0%Z).
Proof.
  intros h tbl x k base o Hl Hn Hk Hin Hm.
  rewrite (HeapViewsProofs.canon1z_inside_is_exact h tbl x k base Hl Hn Hk Hin) in Hm.
  exact (HeapViewsProofs.meets_exact _ _ Hm).
Qed.
Print Assumptions C08_zero_length_view_inside_an_array_is_located.

(** x 0 SPLIT SWAP 2 NUM2BIN, x = 1234 pushed by the locking script: the left half of the split is a zero-length
    view of the locking script at x's own offset (array 1, offset 1: exactly one report accepted), the right half
    is x; OP_NUM2BIN's result 0000 is a NEW array (array 3 of the heap; array 2 is the number 2 pushed by OP_2), x still reads 1234 in the final heap and
    the caller's locking script is what it was *)
Example C08_empty_view_example :
  match h_engine_execute no_sigops
          (mkExecInput [] [x02; x12; x34; x00; x7f; x7c; x52; x80; x75; x75; x51] 16384 false false 0 0 0) with
  | HRes v sn h =>
      v = VOk /\
      nth_error sn 2 = Some ([mkSl 1 1 0; mkSl 1 1 2], []) /\                          (* SPLIT: c[:0], c[0:] *)
      nth_error sn 5 = Some ([mkSl 1 1 2; mkSl 3 0 2], []) /\                          (* NUM2BIN: a new array *)
      nth_error (HeapViews.canon_trace_z h [] [x02; x12; x34; x00; x7f; x7c; x52; x80; x75; x75; x51] sn) 2
        = Some ([((1, 1, 0), (1, 1, 0)); ((1, 1, 2), (1, 1, 2))]%Z, []) /\
      rd h (mkSl 1 1 2) = [x12; x34] /\ rd h (mkSl 3 0 2) = [x00; x00] /\
      nth 1 h [] = [x02; x12; x34; x00; x7f; x7c; x52; x80; x75; x75; x51]
  | HResStuck => False
  end.
Proof. vm_compute. repeat split; reflexivity. Qed.

(** State inventory (tie, translator part): every Go struct the model of this property represents has, in the
    source as it is NOW (gen/Structs.v, regenerated on every run), exactly the fields - names, types, order - the
    model was written against (model/StateInventory.v).  New state in these objects (a memoised digest, a cached
    document, a remembered operand) is state the theorems above do not speak about: this is the obligation that
    stops checking then. *)
From GoBT Require gen.Structs model.StateInventory.
Theorem C08_state_inventory :
  forall k, In k (StateInventory.group_of StateInventory.pC08) ->
  exists f, StateInventory.lookup_gen gen.Structs.structs k = Some f /\ StateInventory.lookup_model k = Some f.
Proof. apply StateInventory.inventory_ok_spec. vm_compute. reflexivity. Qed.
Print Assumptions C08_state_inventory.

(** Package-level state (tie, translator part): in the source as it is NOW (gen/Globals.v) no package-level variable of
    the packages this property's code lives in can change after initialisation or is handed out by reference - the
    model's functions are functions of their arguments only (model/StateInventory.v). *)
From GoBT Require gen.Globals.
Theorem C08_no_mutable_package_state :
  forall g, In g gen.Globals.globals -> In (StateInventory.rg_pkg g) (StateInventory.packages_of StateInventory.pC08) ->
  StateInventory.rg_mutated g = false /\ StateInventory.rg_escapes g = false.
Proof. apply StateInventory.pkg_state_ok_spec. vm_compute. reflexivity. Qed.
Print Assumptions C08_no_mutable_package_state.

(** ** Caller-owned data handed over through interpreter.WithState: the frames a debugger keeps (round 8).
    model/StackCells.v: the storage of a stack itself - [stk], a Go slice of item headers - with the only two functions
    of the package that write it (PushByteArray: append; nipN: reslice / new array / move inside the array).
    thread.SetState builds the running stacks by pushing the frame's items one by one onto new stacks.  For EVERY memory,
    frame, item type, growth policy of append and sequence of stack operations of the resumed run: the array of the
    caller's frame, hence the frame, reads afterwards as before ... *)
From GoBT Require model.StackCells proofs.StackCellsProofs.
Theorem C08_resumed_stack_never_writes_the_callers_frame :
  forall (A : Type) (dflt : A) (grow : nat -> nat) (m : StackCells.mem A) frame ops,
  (StackCells.s_arr frame < length m)%nat ->
  let '(m1, s1) := StackCells.set_state_push A dflt grow m (StackCells.view A m frame) in
  let '(m2, _) := StackCells.run A dflt grow ops m1 s1 in
  StackCells.arr_of A m2 (StackCells.s_arr frame) = StackCells.arr_of A m (StackCells.s_arr frame) /\
  StackCells.view A m2 frame = StackCells.view A m frame.
Proof. exact StackCellsProofs.resumed_stack_never_writes_the_frame. Qed.
Print Assumptions C08_resumed_stack_never_writes_the_callers_frame.

(** ... more generally no array other than the one the stack is a view of is ever written, and the stack never becomes
    a view of an array that existed ... *)
Theorem C08_stack_writes_only_its_own_array :
  forall (A : Type) (dflt : A) (grow : nat -> nat) ops (m : StackCells.mem A) s a,
  (a < length m)%nat -> StackCells.s_arr s <> a ->
  nth a (fst (StackCells.run A dflt grow ops m s)) [] = nth a m [] /\
  StackCells.s_arr (snd (StackCells.run A dflt grow ops m s)) <> a /\
  (length m <= length (fst (StackCells.run A dflt grow ops m s)))%nat.
Proof. exact StackCellsProofs.run_untouched. Qed.
Print Assumptions C08_stack_writes_only_its_own_array.

(** ... the cell-level functions mean on the items what stack.go says (push at the end; take out the item idx below
    the top; an invalid index changes nothing), and the resumed stack holds exactly the frame's items *)
Theorem C08_stack_cells_refine_the_item_lists :
  forall (A : Type) (dflt : A) (grow : nat -> nat) ops (m : StackCells.mem A) s, StackCells.wf A m s ->
  StackCells.wf A (fst (StackCells.run A dflt grow ops m s)) (snd (StackCells.run A dflt grow ops m s)) /\
  StackCells.view A (fst (StackCells.run A dflt grow ops m s)) (snd (StackCells.run A dflt grow ops m s)) =
  fold_left (StackCells.pure_op A) ops (StackCells.view A m s).
Proof. exact StackCellsProofs.run_view. Qed.
Print Assumptions C08_stack_cells_refine_the_item_lists.
Theorem C08_resumed_stack_holds_the_frames_items :
  forall (A : Type) (dflt : A) (grow : nat -> nat) (m : StackCells.mem A) items,
  let '(m1, s1) := StackCells.set_state_push A dflt grow m items in
  StackCells.wf A m1 s1 /\ StackCells.view A m1 s1 = items.
Proof. exact StackCellsProofs.set_state_push_view. Qed.
Print Assumptions C08_resumed_stack_holds_the_frames_items.

(** non-vacuity, and what the statement excludes: the same two operations (an item out of the middle, a push) on a stack
    that ADOPTED the caller's slice overwrite the frame; on the stack built by pushing they do not *)
Example C08_adopted_frame_is_overwritten :
  let m := [[1; 2; 3; 4]]%nat in
  let frame := StackCells.mkS 0 4 4 in
  let '(m0, s0) := StackCells.set_state_adopt nat m frame in
  let '(m1, _) := StackCells.run nat 0%nat (fun c => 2 * c)%nat [StackCells.SNip nat 1; StackCells.SPush nat 9%nat] m0 s0 in
  StackCells.view nat m1 frame = [1; 2; 4; 9]%nat /\ StackCells.view nat m frame = [1; 2; 3; 4]%nat.
Proof. exact StackCellsProofs.adopted_frame_is_overwritten. Qed.
Example C08_pushed_frame_is_kept :
  let m := [[1; 2; 3; 4]]%nat in
  let frame := StackCells.mkS 0 4 4 in
  let '(m0, s0) := StackCells.set_state_push nat 0%nat (fun c => 2 * c)%nat m (StackCells.view nat m frame) in
  let '(m1, s1) := StackCells.run nat 0%nat (fun c => 2 * c)%nat [StackCells.SNip nat 1; StackCells.SPush nat 9%nat] m0 s0 in
  StackCells.view nat m1 frame = [1; 2; 3; 4]%nat /\ StackCells.view nat m1 s1 = [1; 2; 4; 9]%nat.
Proof. exact StackCellsProofs.pushed_frame_is_kept. Qed.

(** the frame itself (tie, translator part): interpreter.State has, in the source as it is NOW, exactly the fields the
    harness compares before and after a resumed run (c08_owned.go frameLines) *)
Module C08FrameKey. Import Coq.Strings.String. Definition C08_frame_struct : string := "interpreter.State"%string. End C08FrameKey.
Import C08FrameKey.
Theorem C08_frame_inventory :
  exists f, StateInventory.lookup_gen gen.Structs.structs C08_frame_struct = Some f /\
            StateInventory.lookup_model C08_frame_struct = Some f /\ length f = 13%nat.
Proof. eexists. repeat split; vm_compute; reflexivity. Qed.
Print Assumptions C08_frame_inventory.

(** ** The caller's transaction as a graph of objects (round 8).  model/TxPointers.v: script objects, input structs and
    output structs in three heaps, a transaction = lists of pointers; Tx.Clone makes new structs and new unlocking /
    locking script objects but COPIES THE POINTERS of the previous-output scripts held by the inputs.  The path of a
    signature check of the original digest - clone, script code on the clone's checked input, clone again, the other
    inputs' scripts replaced by NEW empty objects, sequence numbers / outputs of the clone rewritten (NONE, SINGLE) -
    writes no object that existed: for every heap, transaction, input index, script code and base hash type the
    caller's graph reads afterwards as before. *)
From GoBT Require model.TxPointers proofs.TxPointersProofs.
Theorem C08_original_digest_keeps_the_callers_transaction_graph : forall h t idx code bt,
  TxPointers.keeps h (fst (TxPointers.checksig_digest h t idx code bt)).
Proof. exact TxPointersProofs.checksig_digest_keeps_the_callers_graph. Qed.
Print Assumptions C08_original_digest_keeps_the_callers_transaction_graph.
Theorem C08_original_digest_keeps_every_script_object : forall h t idx code bt a,
  (a < length (TxPointers.h_scripts h))%nat ->
  nth a (TxPointers.h_scripts (fst (TxPointers.checksig_digest h t idx code bt))) [] = nth a (TxPointers.h_scripts h) [].
Proof. exact TxPointersProofs.checksig_digest_keeps_every_script. Qed.
Print Assumptions C08_original_digest_keeps_every_script_object.
Theorem C08_legacy_preimage_keeps_the_callers_transaction_graph : forall h t idx bt,
  TxPointers.keeps h (fst (TxPointers.legacy_prepare h t idx bt)).
Proof. exact TxPointersProofs.legacy_prepare_keeps_the_callers_graph. Qed.
Print Assumptions C08_legacy_preimage_keeps_the_callers_transaction_graph.
(** what the statement excludes: emptying the other inputs' scripts THROUGH the pointers the clone holds empties the
    script object the caller's first input holds; the modelled path leaves it *)
Example C08_blanking_through_the_pointer_reaches_the_callers_script :
  let h := TxPointers.mkHeap [[x51; x52]; [x75]; [x51]; [x51]]
                  [TxPointers.mkPin ([], 0%N) (Some 0%nat) 0%N 500%N (Some 1%nat); TxPointers.mkPin ([], 1%N) (Some 2%nat) 0%N 0%N None]
                  [TxPointers.mkPout 1%N (Some 3%nat)] in
  let t := TxPointers.mkPtx [0; 1]%nat [0%nat] in
  let '(h1, c) := TxPointers.clone h t in
  nth 1 (TxPointers.h_scripts (TxPointers.blank_through_pointer h1 (TxPointers.pt_ins c) 0 1)) [] = [] /\
  nth 1 (TxPointers.h_scripts h) [] = [x75] /\
  nth 1 (TxPointers.h_scripts (fst (TxPointers.checksig_digest h t 1 [xac] TxPointers.BAll))) [] = [x75].
Proof. exact TxPointersProofs.blanking_through_the_pointer_reaches_the_callers_script. Qed.
