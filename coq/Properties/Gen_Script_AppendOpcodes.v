(** Export: the Go source of Script.AppendOpcodes, as printed into gen/Funcs.v on every run, is the model function the
    property theorems are about (proofs/GenFuncs_Script_AppendOpcodes.v).  Compiled only while gen/Funcs.status.json says the
    function is translated.  The receiver's target [*s] is state: a parameter and, with the error, the result.  The lookup opCodeValues[o] only feeds the error message and is not printed. *)
From Coq Require Import List ZArith NArith Bool.
From Coq Require Import Strings.Byte.
From GoBT Require Import lib.Bytes lib.GoSem gen.Funcs proofs.GenFuncsTac proofs.GenFuncs_Script_AppendPushDataArray proofs.GenFuncs_Script_AppendOpcodes.
Local Open Scope Z_scope.

Theorem C20_go_source_Script_AppendOpcodes_is_model :
  forall oo s : bytes, Script_AppendOpcodes oo s = Val (of_append s (GoBT.model.Inscription.append_opcodes s oo)).
Proof. exact Script_AppendOpcodes_is_model. Qed.
Print Assumptions C20_go_source_Script_AppendOpcodes_is_model.
