(** C09 - Decoding untrusted transaction bytes is total and resource-bounded.
    Only statements, [exact], and [Print Assumptions].
    Models: model/Tx.v (decoders, bytes consumed), model/Alloc.v (the same decoders with an allocation
    counter mirroring readBytes / append / the field buffers), model/Json.v (struct-level JSON halves).
    Proofs: proofs/TxProofs.v, proofs/AllocProofs.v, proofs/JsonProofs.v. *)
From Coq Require Import List NArith String.
From Coq Require Import Strings.Byte.
From GoBT Require Import lib.Bytes lib.Parse lib.VarInt model.Tx proofs.TxProofs
  model.Alloc proofs.AllocProofs model.Amount model.Json proofs.JsonProofs proofs.AuditAAlloc proofs.AuditAJson.
Import ListNotations.
Local Open Scope N_scope.

(** ** every binary entry point answers with a value or an error, for every byte string.
    Tx.ReadFrom / NewTxFromStream are [read_tx]; NewTxFromBytes is [tx_from_bytes];
    Txs.ReadFrom is [read_txs]; Input.ReadFrom / ReadFromExtended are [read_input false/true];
    Output.ReadFrom is [read_output].  These five are about termination under attacker-chosen counts up to
    2^64-1 ([answers]: not the fuel artefact of the count loops); the result type of model/Tx.v has no panic
    outcome.  "Without panicking" is the next group, about model/Alloc.v, whose result type has one. *)
Theorem C09_decode_total_tx : forall bs, answers (read_tx bs).
Proof. exact decode_total_tx. Qed.
Print Assumptions C09_decode_total_tx.
Theorem C09_decode_total_from_bytes : forall bs, tx_from_bytes bs <> RFuel.
Proof. exact decode_total_from_bytes. Qed.
Print Assumptions C09_decode_total_from_bytes.
Theorem C09_decode_total_txs : forall bs, answers (read_txs bs).
Proof. exact decode_total_txs. Qed.
Print Assumptions C09_decode_total_txs.
Theorem C09_decode_total_input : forall ext bs, answers (read_input ext bs).
Proof. exact decode_total_input. Qed.
Print Assumptions C09_decode_total_input.
Theorem C09_decode_total_output : forall bs, answers (read_output bs).
Proof. exact decode_total_output. Qed.
Print Assumptions C09_decode_total_output.

(** ** no panic.  model/Alloc.v is the same decoders with every partial operation of the Go code made explicit, each
    answering [APanic] when the Go runtime would panic: an allocation request ([make], [new], [append] growth) of
    2^47 bytes or more, a uint64 that is negative as an int used as a [make] length, a slice expression [b[lo:hi]]
    outside lo <= hi <= cap, an index expression (b[0], and the b[7] / b[3] / b[1] inside binary.*Endian.UintNN)
    outside the length.  For every input of at most 2^42 bytes (4 TiB), whatever its length and count fields say,
    no entry point panics.  (The bound is needed: readBytes sizes its next chunk by the bytes it has ALREADY read,
    so a script that really is 2^46 bytes long - an io.Reader can supply one - makes the model ask for more than
    2^47 bytes; see [C09_huge_script_panics].) *)
Theorem C09_no_panic_tx : forall bs, lenN bs <= input_limit -> a_read_tx bs <> APanic.
Proof. exact no_panic_tx. Qed.
Print Assumptions C09_no_panic_tx.
Theorem C09_no_panic_stream : forall bs, lenN bs <= input_limit -> a_tx_from_stream bs <> APanic.
Proof. exact no_panic_stream. Qed.
Print Assumptions C09_no_panic_stream.
Theorem C09_no_panic_txs : forall bs, lenN bs <= input_limit -> a_read_txs bs <> APanic.
Proof. exact no_panic_txs. Qed.
Print Assumptions C09_no_panic_txs.
Theorem C09_no_panic_input : forall bs, lenN bs <= input_limit -> a_read_input false bs <> APanic.
Proof. exact (no_panic_input false). Qed.
Print Assumptions C09_no_panic_input.
Theorem C09_no_panic_input_extended : forall bs, lenN bs <= input_limit -> a_read_input true bs <> APanic.
Proof. exact (no_panic_input true). Qed.
Print Assumptions C09_no_panic_input_extended.
Theorem C09_no_panic_output : forall bs, lenN bs <= input_limit -> a_read_output bs <> APanic.
Proof. exact no_panic_output. Qed.
Print Assumptions C09_no_panic_output.
(** VarInt.ReadFrom never panics, on any input *)
Theorem C09_no_panic_varint : forall bs, a_read_varint bs <> APanic.
Proof. exact no_panic_varint. Qed.
Print Assumptions C09_no_panic_varint.
(** together with termination: every entry point answers with a value or an error ([a_answers]: neither a panic
    nor the fuel artefact) *)
Theorem C09_decode_answers : forall bs, lenN bs <= input_limit ->
  a_answers (a_read_tx bs) /\ a_answers (a_tx_from_stream bs) /\ a_answers (a_read_txs bs) /\
  a_answers (a_read_input false bs) /\ a_answers (a_read_input true bs) /\ a_answers (a_read_output bs).
Proof. exact a_answers_all. Qed.
Print Assumptions C09_decode_answers.
(** the bound is needed.  readBytes on a length field of 2^46 or more (below 2^63) with that many bytes really there
    panics in the model: the chunk loop asks for twice what it has read plus 4096, which passes 2^47 on the way.  So
    does Output.ReadFrom on 8 bytes, ff, the length 2^46 and a script of 2^46 bytes (2^46 + 17 bytes of input).  This
    is the finding of this group: the decoders are panic-free on anything that fits in memory, not on an unbounded
    io.Reader. *)
Theorem C09_huge_script_panics : forall l bs, 2 ^ 46 <= l -> l < two63 -> l <= lenN bs -> a_read_bytes l bs = APanic.
Proof. exact huge_script_panics. Qed.
Print Assumptions C09_huge_script_panics.
Theorem C09_huge_output_panics : forall sats data : bytes, List.length sats = 8%nat -> lenN data = 2 ^ 46 ->
  a_read_output (sats ++ [xff] ++ le_enc 8 (2 ^ 46) ++ data)%list = APanic.
Proof. exact huge_output_panics. Qed.
Print Assumptions C09_huge_output_panics.
(** non-vacuity: the panic outcome is reachable in the model - a [make] of 2^47 bytes, a negative length, a slice
    bound above the capacity, an index at the length *)
Example C09_panic_reachable :
  a_request (2 ^ 47) (aret tt []) = APanic /\ a_int_of_u64 (2 ^ 63) (aret tt []) = APanic /\
  a_slice 0 5 4 (aret tt []) = APanic /\ a_index 1 1 (aret tt []) = APanic /\
  a_request (2 ^ 47 - 1) (aret tt []) <> APanic.
Proof. repeat split; vm_compute; try reflexivity; discriminate. Qed.

(** ** bytes reported as consumed never exceed the bytes supplied - on success AND on error *)
Theorem C09_consumed_le_supplied_tx : forall bs, consumed_le bs (read_tx bs).
Proof. exact consumed_le_tx. Qed.
Print Assumptions C09_consumed_le_supplied_tx.
Theorem C09_consumed_le_supplied_txs : forall bs, consumed_le bs (read_txs bs).
Proof. exact consumed_le_txs. Qed.
Print Assumptions C09_consumed_le_supplied_txs.
Theorem C09_consumed_le_supplied_input : forall ext bs, consumed_le bs (read_input ext bs).
Proof. exact consumed_le_input. Qed.
Print Assumptions C09_consumed_le_supplied_input.
Theorem C09_consumed_le_supplied_output : forall bs, consumed_le bs (read_output bs).
Proof. exact consumed_le_output. Qed.
Print Assumptions C09_consumed_le_supplied_output.
(** the repaired short varint read: an error reports 1 + the bytes that were there *)
Theorem C09_varint_short_read : forall bs n, read_varint bs = PErr n -> n <= lenN bs.
Proof. exact varint_short_read_count. Qed.
Print Assumptions C09_varint_short_read.
Example C09_short_varint_example :
  read_tx [x01; x00; x00; x00; xff; x00] = PErr 6 /\ read_txs [xff; xff; xff] = PErr 3.
Proof. split; vm_compute; reflexivity. Qed.

(** ** the allocation-counting decoders are the decoders above (counter erased), for inputs up to 2^42 bytes;
    for every input they are the decoders above or a panic ([ert r p]: r = APanic or erase r = p) *)
Theorem C09_alloc_model_is_decoder : forall bs, lenN bs <= input_limit ->
  erase (a_read_tx bs) = read_tx bs /\ erase (a_tx_from_stream bs) = read_tx bs /\
  erase (a_read_txs bs) = read_txs bs /\
  (forall ext, erase (a_read_input ext bs) = read_input ext bs) /\ erase (a_read_output bs) = read_output bs.
Proof.
  intros bs H. repeat split; intros;
    [exact (erase_read_tx bs H)|exact (erase_tx_from_stream bs H)|exact (erase_read_txs bs H)
    |exact (erase_read_input ext bs H)|exact (erase_read_output bs H)].
Qed.
Print Assumptions C09_alloc_model_is_decoder.
Theorem C09_alloc_model_is_decoder_or_panic : forall bs,
  ert (a_read_tx bs) (read_tx bs) /\ ert (a_tx_from_stream bs) (read_tx bs) /\
  ert (a_read_txs bs) (read_txs bs) /\
  (forall ext, ert (a_read_input ext bs) (read_input ext bs)) /\ ert (a_read_output bs) (read_output bs).
Proof.
  intros bs. repeat split; intros;
    [exact (ert_read_tx bs)|exact (ert_tx_from_stream bs)|exact (ert_read_txs bs)
    |exact (ert_read_input ext bs)|exact (ert_read_output bs)].
Qed.
Print Assumptions C09_alloc_model_is_decoder_or_panic.

(** ** memory: at most 32 bytes allocated per byte of input, plus 16 KiB - whatever the length
    and count fields claim ([alloc_bound len = 32 * len + 16384]).  ([alloc_of] of a panic is 0: these say nothing
    about a run that panicked; there is none up to 2^42 bytes, above.) *)
Theorem C09_alloc_linear_tx : forall bs, alloc_of (a_read_tx bs) <= alloc_bound (lenN bs).
Proof. exact alloc_linear_tx. Qed.
Print Assumptions C09_alloc_linear_tx.
Theorem C09_alloc_linear_stream : forall bs, alloc_of (a_tx_from_stream bs) <= alloc_bound (lenN bs).
Proof. exact alloc_linear_stream. Qed.
Print Assumptions C09_alloc_linear_stream.
Theorem C09_alloc_linear_txs : forall bs, alloc_of (a_read_txs bs) <= alloc_bound (lenN bs).
Proof. exact alloc_linear_txs. Qed.
Print Assumptions C09_alloc_linear_txs.
Theorem C09_alloc_linear_input : forall ext bs, alloc_of (a_read_input ext bs) <= alloc_bound (lenN bs).
Proof. exact alloc_linear_input. Qed.
Print Assumptions C09_alloc_linear_input.
Theorem C09_alloc_linear_output : forall bs, alloc_of (a_read_output bs) <= alloc_bound (lenN bs).
Proof. exact alloc_linear_output. Qed.
Print Assumptions C09_alloc_linear_output.
(** the same bound against the bytes CONSUMED, on success and on error ([alloc_vs_consumed]:
    allocated <= 32 * consumed + 16384, and not the fuel artefact): a small transaction at the head of a long
    stream or block costs little, whatever follows it.  Strictly stronger than the five theorems above (together
    with consumed <= supplied). *)
Theorem C09_alloc_linear_in_consumed_tx : forall bs, alloc_vs_consumed (a_read_tx bs).
Proof. exact alloc_consumed_tx. Qed.
Print Assumptions C09_alloc_linear_in_consumed_tx.
Theorem C09_alloc_linear_in_consumed_stream : forall bs, alloc_vs_consumed (a_tx_from_stream bs).
Proof. exact alloc_consumed_stream. Qed.
Print Assumptions C09_alloc_linear_in_consumed_stream.
Theorem C09_alloc_linear_in_consumed_txs : forall bs, alloc_vs_consumed (a_read_txs bs).
Proof. exact alloc_consumed_txs. Qed.
Print Assumptions C09_alloc_linear_in_consumed_txs.
Theorem C09_alloc_linear_in_consumed_input : forall ext bs, alloc_vs_consumed (a_read_input ext bs).
Proof. exact alloc_consumed_input. Qed.
Print Assumptions C09_alloc_linear_in_consumed_input.
Theorem C09_alloc_linear_in_consumed_output : forall bs, alloc_vs_consumed (a_read_output bs).
Proof. exact alloc_consumed_output. Qed.
Print Assumptions C09_alloc_linear_in_consumed_output.
(** ... and with the panic excluded ([alloc_vs_consumed_strict]: a value or an error, allocated <= 32 * consumed + 16384) *)
Theorem C09_alloc_linear_in_consumed_answers : forall bs, lenN bs <= input_limit ->
  alloc_vs_consumed_strict (a_read_tx bs) /\ alloc_vs_consumed_strict (a_tx_from_stream bs) /\
  alloc_vs_consumed_strict (a_read_txs bs) /\
  (forall ext, alloc_vs_consumed_strict (a_read_input ext bs)) /\ alloc_vs_consumed_strict (a_read_output bs).
Proof. exact alloc_consumed_answers. Qed.
Print Assumptions C09_alloc_linear_in_consumed_answers.
Example C09_small_tx_before_long_stream :
  let b := [x01;x00;x00;x00; x00; x00; x00;x00;x00;x00] ++ repeat_byte 3000 xaa in
  match a_tx_from_stream b with AOk _ n _ al => andb (n =? 10) (al <=? 32 * 10 + 16384) | _ => false end = true.
Proof. vm_compute. reflexivity. Qed.

(** so no request can reach makeslice's limit (2^48 on linux/amd64) for inputs below 2^42 bytes *)
Theorem C09_alloc_below_maxalloc : forall bs, lenN bs < 2 ^ 42 ->
  alloc_of (a_read_tx bs) < 2 ^ 48 /\ alloc_of (a_read_txs bs) < 2 ^ 48.
Proof. exact alloc_below_maxalloc. Qed.
Print Assumptions C09_alloc_below_maxalloc.

(** ** JSON: whatever document encoding/json accepted - optional objects absent or null, hex
    strings invalid, list elements null - the code after it returns a value or an error *)
Theorem C09_json_struct_decode_no_panic :
  (forall prev j, unmarshal_tx prev j <> JPanic) /\
  (forall j, unmarshal_input j <> JPanic) /\
  (forall j, unmarshal_output j <> JPanic) /\
  (forall prev j, unmarshal_utxo prev j <> JPanic) /\
  (forall prev j, node_unmarshal_tx prev j <> JPanic) /\
  (forall j, node_unmarshal_output j <> JPanic) /\
  (forall prev j, node_unmarshal_utxo prev j <> JPanic) /\
  (forall l, unmarshal_txs l <> JPanic) /\
  (forall l, unmarshal_utxos l <> JPanic) /\
  (forall l, node_unmarshal_txs l <> JPanic) /\
  (forall l, node_unmarshal_utxos l <> JPanic).
Proof. exact json_struct_decode_no_panic. Qed.
Print Assumptions C09_json_struct_decode_no_panic.

(** what the hex shortcut of the JSON decoders returns is a well-formed transaction object (every locking script
    set, Go field ranges): it can be marshalled again without a nil dereference (hypothesis of C16's marshal theorem) *)
Theorem C09_json_hex_result_wf : forall s g, tx_from_hex s = JOk g -> wf_gtx g.
Proof. exact tx_from_hex_wf. Qed.
Print Assumptions C09_json_hex_result_wf.

(** non-vacuity / sanity: a hostile length is an error after the bytes that were there, with a
    small allocation; the missing-scriptSig and null-element documents are errors, not panics *)
Example C09_hostile_length_example :
  let b := [x01;x00;x00;x00; x01] ++ repeat_byte 36 xaa ++ [xff; x00;x00;x00;x00;x00;x01;x00;x00; x51] in
  erase (a_read_tx b) = PErr 51 /\ alloc_of (a_read_tx b) <= 16384.
Proof. split; vm_compute; [reflexivity|discriminate]. Qed.
Example C09_json_missing_objects :
  to_input (Some (mkNI None "00" 0 1)) = JErr /\ to_input None = JErr /\
  to_output (Some (mkNO (of_sat 1) 0 None)) = JErr /\ to_output None = JErr.
Proof. repeat split; reflexivity. Qed.

(** State inventory (tie, translator part): every Go struct the model of this property represents has, in the
    source as it is NOW (gen/Structs.v, regenerated on every run), exactly the fields - names, types, order - the
    model was written against (model/StateInventory.v).  New state in these objects (a memoised digest, a cached
    document, a remembered operand) is state the theorems above do not speak about: this is the obligation that
    stops checking then. *)
From GoBT Require gen.Structs model.StateInventory.
Theorem C09_state_inventory :
  forall k, In k (StateInventory.group_of StateInventory.pC09) ->
  exists f, StateInventory.lookup_gen gen.Structs.structs k = Some f /\ StateInventory.lookup_model k = Some f.
Proof. apply StateInventory.inventory_ok_spec. vm_compute. reflexivity. Qed.
Print Assumptions C09_state_inventory.

(** Package-level state (tie, translator part): in the source as it is NOW (gen/Globals.v) no package-level variable of
    the packages this property's code lives in can change after initialisation or is handed out by reference - the
    model's functions are functions of their arguments only (model/StateInventory.v). *)
From GoBT Require gen.Globals.
Theorem C09_no_mutable_package_state :
  forall g, In g gen.Globals.globals -> In (StateInventory.rg_pkg g) (StateInventory.packages_of StateInventory.pC09) ->
  StateInventory.rg_mutated g = false /\ StateInventory.rg_escapes g = false.
Proof. apply StateInventory.pkg_state_ok_spec. vm_compute. reflexivity. Qed.
Print Assumptions C09_no_mutable_package_state.

(** ** the reader.  The decoders above are functions of a byte string; the Go entry points are handed an io.Reader.
    model/Reader.v: a reader is the list of answers its Read calls are going to give (chunks of any size, (0, nil)
    answers, io.EOF or another error at the end - together with the last bytes or after them); io.ReadFull is
    io.ReadAtLeast's loop over Read; a decoder that touches its reader through io.ReadFull only is a [Reader.prog].
    io.ReadFull returns the first n bytes of the reader's content, or all of it with io.EOF / io.ErrUnexpectedEOF /
    the reader's error when there are fewer, and leaves the rest; so such a decoder computes the same result, and
    consumes the same bytes, through every reader with the same content and final error as through the plain byte
    string - however the bytes are cut up, delayed or wrapped.  A decoder that looks at the reader's dynamic type (a
    fast path for *bytes.Reader, *io.LimitedReader, anything with Len()) is outside this model; that the Go decoders
    do not is the obligation [C09_reader_discipline] below. *)
From GoBT Require model.Reader proofs.ReaderProofs.
Theorem C09_read_full_spec : forall n r, ReaderProofs.ral_post n [] r (Reader.read_full n r).
Proof. exact ReaderProofs.read_full_spec. Qed.
Print Assumptions C09_read_full_spec.
Theorem C09_read_full_consumes_prefix : forall n r,
  Reader.content r = fst (fst (Reader.read_full n r)) ++ Reader.content (snd (Reader.read_full n r)).
Proof. exact ReaderProofs.read_full_consumes_prefix. Qed.
Print Assumptions C09_read_full_consumes_prefix.
Theorem C09_decoder_depends_on_content_only : forall A (p : Reader.prog A) r1 r2,
  Reader.content r1 = Reader.content r2 -> Reader.fin r1 = Reader.fin r2 ->
  fst (Reader.run p r1) = fst (Reader.run p r2) /\
  Reader.content (snd (Reader.run p r1)) = Reader.content (snd (Reader.run p r2)).
Proof. exact ReaderProofs.run_depends_on_content_only. Qed.
Print Assumptions C09_decoder_depends_on_content_only.
Theorem C09_decoder_as_on_plain_bytes : forall A (p : Reader.prog A) r,
  fst (Reader.run p r) = fst (Reader.run p (Reader.plain (Reader.content r) (Reader.fin r))).
Proof. exact ReaderProofs.run_as_on_plain_bytes. Qed.
Print Assumptions C09_decoder_as_on_plain_bytes.
Example C09_reader_model_non_vacuous :
  fst (Reader.run ReaderProofs.field_prog
         (Reader.mkReader [Reader.EStall; Reader.EData [x03]; Reader.EStall; Reader.EData [x0a; x0b]; Reader.EData [];
                           Reader.EData [x0c; x0d]] Reader.REOF true))
  = Some [x0a; x0b; x0c] /\
  fst (Reader.run ReaderProofs.field_prog (Reader.plain [x03; x0a; x0b; x0c; x0d] Reader.REOF)) = Some [x0a; x0b; x0c] /\
  fst (Reader.run ReaderProofs.field_prog (Reader.mkReader [Reader.EData [x03; x0a]; Reader.EData [x0b]] Reader.ROther false)) = None.
Proof. exact ReaderProofs.field_through_awkward_reader. Qed.

(** Reader discipline (tie, translator part): in the source as it is NOW (gen/ReaderUse.v: every occurrence of every
    io.Reader parameter in the library's packages) the decoders touch their reader only as the first argument of
    io.ReadFull, or hand it on as the reader argument of a function that is in the table too; the exported
    reader-based entry points are in the table.  A type assertion on the reader, a direct Read, a wrapper around it,
    a stored reader is an entry of kind "other": this is the obligation that stops checking then. *)
From GoBT Require gen.ReaderUse model.ReaderUse.
Theorem C09_reader_discipline :
  (forall u, In u gen.ReaderUse.reader_uses -> In (model.ReaderUse.ru_pkg u) (StateInventory.packages_of StateInventory.pC09) ->
     model.ReaderUse.ru_kind u = "readfull"%string \/ model.ReaderUse.ru_kind u = "unused"%string \/
     (model.ReaderUse.ru_kind u = "pass"%string /\
      exists v, In v gen.ReaderUse.reader_uses /\ model.ReaderUse.ru_pkg v = model.ReaderUse.ru_pkg u /\
                model.ReaderUse.bare (model.ReaderUse.ru_func v) = model.ReaderUse.ru_detail u)) /\
  (forall f, In f model.ReaderUse.entry_points ->
     exists u, In u gen.ReaderUse.reader_uses /\
               In (model.ReaderUse.ru_pkg u) (StateInventory.packages_of StateInventory.pC09) /\ model.ReaderUse.ru_func u = f).
Proof. apply model.ReaderUse.discipline_ok_spec. vm_compute. reflexivity. Qed.
Print Assumptions C09_reader_discipline.
