(** Export: the Go source of opcodeSplit, as printed into gen/Funcs.v on every run, has the meaning the interpreter
    model gives it (proofs/GenFuncs_opcodeSplit.v).  Compiled only while gen/Funcs.status.json says the function is translated. *)
From Coq Require Import List ZArith NArith Bool.
From Coq Require Import Strings.Byte.
From GoBT Require Import lib.Bytes lib.GoSem lib.GoInterp gen.Funcs proofs.GenFuncsTac proofs.GenFuncsInterpTac  proofs.GenFuncs_opcodeSplit.
From GoBT Require model.Interp model.ScriptNum.
Import ListNotations.
Local Open Scope Z_scope.

Theorem C05_go_source_opcodeSplit_is_model : forall so c p idx s, small (Interp.ds s) -> items_ok (Interp.ds s) -> Interp.p_real p = true -> Interp.p_val p = Interp.OP_SPLIT ->
  h_view s (opcodeSplit (Interp.max_numlen c) (Interp.has_flag c Interp.F_MINIMALDATA) (Interp.after_genesis c) (rev (Interp.ds s))) = Some (Interp.exec_handler so c p idx s).
Proof. exact opcodeSplit_is_model. Qed.
Print Assumptions C05_go_source_opcodeSplit_is_model.
