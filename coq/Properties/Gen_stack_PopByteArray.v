(** Export: the Go source of stack.PopByteArray, as printed into gen/Funcs.v on every run, has the meaning the interpreter
    model gives it (proofs/GenFuncs_stack_PopByteArray.v).  Compiled only while gen/Funcs.status.json says the function is translated. *)
From Coq Require Import List ZArith NArith Bool.
From Coq Require Import Strings.Byte.
From GoBT Require Import lib.Bytes lib.GoSem lib.GoInterp gen.Funcs proofs.GenFuncsTac proofs.GenFuncsInterpTac proofs.GenFuncs_stack_nipN proofs.GenFuncs_stack_PopByteArray.
From GoBT Require model.Interp model.ScriptNum.
Import ListNotations.
Local Open Scope Z_scope.

Theorem C05_go_source_stack_PopByteArray_is_model : forall (d : list bytes), Interp.lenZ d < 2147483648 ->
  stack_PopByteArray (rev d) = Val (go_st (pop_model d)).
Proof. exact stack_PopByteArray_spec. Qed.
Print Assumptions C05_go_source_stack_PopByteArray_is_model.

Theorem C08_go_source_stack_PopByteArray_is_model : forall (d : list bytes), Interp.lenZ d < 2147483648 ->
  stack_PopByteArray (rev d) = Val (go_st (pop_model d)).
Proof. exact stack_PopByteArray_spec. Qed.
Print Assumptions C08_go_source_stack_PopByteArray_is_model.
