(** Export: the Go source of opcodeXor, as printed into gen/Funcs.v on every run, has the meaning the interpreter
    model gives it (proofs/GenFuncs_opcodeXor.v).  Compiled only while gen/Funcs.status.json says the function is translated. *)
From Coq Require Import List ZArith NArith Bool.
From Coq Require Import Strings.Byte.
From GoBT Require Import lib.Bytes lib.GoSem lib.GoInterp gen.Funcs proofs.GenFuncsTac proofs.GenFuncsInterpTac proofs.GenFuncsBytesTac proofs.GenFuncs_opcodeXor.
From GoBT Require model.Interp model.ScriptNum.
Import ListNotations.
Local Open Scope Z_scope.

Theorem C05_go_source_opcodeXor_is_model : forall so c p idx s, small (Interp.ds s) -> items_alloc (Interp.ds s) -> Interp.p_real p = true -> Interp.p_val p = Interp.OP_XOR ->
  h_view s (opcodeXor (rev (Interp.ds s))) = Some (Interp.exec_handler so c p idx s).
Proof. exact opcodeXor_is_model. Qed.
Print Assumptions C05_go_source_opcodeXor_is_model.
