(** C01 — Transaction wire codec is lossless and canonical (standard, extended, stream).
    Only statements, [exact], and [Print Assumptions]. Model: model/Tx.v; proofs: proofs/TxProofs.v. *)
From Coq Require Import List NArith.
From Coq Require Import Strings.Byte.
From GoBT Require Import lib.Bytes lib.Parse lib.VarInt lib.Sha256 model.Tx proofs.TxProofs proofs.AuditATx proofs.TxLocal.
Import ListNotations.
Local Open Scope N_scope.

(** varints: 1/3/5/9-byte classes; Bytes, Length and ReadFrom agree *)
Theorem C01_varint_roundtrip : forall v rest, v < two64 ->
  read_varint (varint_bytes v ++ rest) = POk (v, true) (varint_len v) rest.
Proof. exact varint_roundtrip. Qed.
Print Assumptions C01_varint_roundtrip.

Theorem C01_varint_length : forall v, varint_len v = lenN (varint_bytes v).
Proof. exact varint_len_spec. Qed.
Print Assumptions C01_varint_length.

(** serialise-then-parse, standard format: all fields back (previous-output data is not carried),
    consumed exactly, whatever follows in the stream is left untouched *)
Theorem C01_std_roundtrip : forall t rest, wf_tx t -> ~ ambiguous t ->
  read_tx (tx_bytes false t ++ rest) = POk (mkParsed (strip_tx t) false true) (lenN (tx_bytes false t)) rest.
Proof. exact tx_std_roundtrip. Qed.
Print Assumptions C01_std_roundtrip.

(** extended format additionally preserves every input's previous value and script
    (a nil previous script comes back as the empty script: [norm_tx]) *)
Theorem C01_ext_roundtrip : forall t rest, wf_tx t ->
  read_tx (tx_bytes true t ++ rest) = POk (mkParsed (norm_tx t) true true) (lenN (tx_bytes true t)) rest.
Proof. exact tx_ext_roundtrip. Qed.
Print Assumptions C01_ext_roundtrip.

(** re-serialising what was parsed reproduces the bytes exactly.
    (On their own these two hold by construction of the model: [strip_tx] / [norm_tx] only change fields the
    respective serialisation does not read; the clause is their composition with the round trips above, and,
    for every ACCEPTED byte string, [C01_parse_serialise_parse] below.) *)
Theorem C01_reserialise_std : forall t, tx_bytes false (strip_tx t) = tx_bytes false t.
Proof. exact reserialise_std. Qed.
Print Assumptions C01_reserialise_std.
Theorem C01_reserialise_ext : forall t, tx_bytes true (norm_tx t) = tx_bytes true t.
Proof. exact reserialise_ext. Qed.
Print Assumptions C01_reserialise_ext.

(** NewTxFromBytes accepts a library-made serialisation (and rejects trailing bytes: [from_bytes_iff]) *)
Theorem C01_from_bytes_std : forall t, wf_tx t -> ~ ambiguous t ->
  tx_from_bytes (tx_bytes false t) = ROk (mkParsed (strip_tx t) false true).
Proof. exact from_bytes_roundtrip_std. Qed.
Print Assumptions C01_from_bytes_std.
Theorem C01_from_bytes_ext : forall t, wf_tx t ->
  tx_from_bytes (tx_bytes true t) = ROk (mkParsed (norm_tx t) true true).
Proof. exact from_bytes_roundtrip_ext. Qed.
Print Assumptions C01_from_bytes_ext.
Theorem C01_from_bytes_iff : forall bs p, tx_from_bytes bs = ROk p <-> read_tx bs = POk p (lenN bs) [].
Proof. exact from_bytes_iff. Qed.
Print Assumptions C01_from_bytes_iff.

(** any accepted byte string is consumed to exactly the end of the transaction *)
Theorem C01_consumed_exactly : forall bs p n rest,
  read_tx bs = POk p n rest -> exists pre, bs = pre ++ rest /\ n = lenN pre /\ n <= lenN bs.
Proof. exact parse_consumes_exactly. Qed.
Print Assumptions C01_consumed_exactly.

(** ... and, when its length prefixes are minimally encoded, re-serialises in the format it arrived in
    to the identical bytes *)
Theorem C01_parse_canonical : forall bs p n rest,
  read_tx bs = POk p n rest -> p_min p = true -> bs = tx_bytes (p_ext p) (p_tx p) ++ rest.
Proof. exact read_tx_canonical. Qed.
Print Assumptions C01_parse_canonical.

(** counted lists of transactions (block form), each in either format *)
Theorem C01_txs_roundtrip : forall l rest, Forall list_item_ok l -> N.of_nat (length l) < two64 ->
  exists n, read_txs (txs_bytes l ++ rest) = POk (map list_item_parsed l, true) n rest /\ n = lenN (txs_bytes l).
Proof. exact txs_roundtrip. Qed.
Print Assumptions C01_txs_roundtrip.

(** the decoder model never runs out of fuel (the fuel is a proof device, not a limit) *)
Theorem C01_decoder_total : forall bs, read_tx bs <> PFuel.
Proof. exact read_tx_never_out_of_fuel. Qed.
Print Assumptions C01_decoder_total.

(** Clone gives back an equal transaction *)
Theorem C01_clone : forall t, wf_tx t -> ~ ambiguous t -> clone t = ROk t.
Proof. exact clone_eq. Qed.
Print Assumptions C01_clone.

(** the transaction id is the byte-reversed double SHA-256 of the standard serialisation
    (holds by construction of the model: [txid] is defined this way; the clause - that the Go TxID/TxIDBytes
    compute this, on the object as it now is - is carried by the correspondence) *)
Theorem C01_txid_def : forall t, txid t = rev (sha256 (sha256 (tx_bytes false t))).
Proof. exact txid_def. Qed.
Print Assumptions C01_txid_def.

(** * what holds of EVERY byte string the decoder accepts (audit A) *)

(** whatever the decoder returns is a well-formed transaction (32-byte previous txids, Go field ranges, counts
    and script lengths below 2^64), so every theorem above that asks for [wf_tx] applies to parsed transactions *)
Theorem C01_parsed_is_wf : forall bs p n rest, read_tx bs = POk p n rest -> wf_tx (p_tx p).
Proof. exact read_tx_wf. Qed.
Print Assumptions C01_parsed_is_wf.

(** a result reported as standard format is never the excluded ambiguous shape *)
Theorem C01_parsed_std_not_ambiguous : forall bs p n rest,
  read_tx bs = POk p n rest -> p_ext p = false -> ~ ambiguous (p_tx p).
Proof. exact parsed_std_not_ambiguous. Qed.
Print Assumptions C01_parsed_std_not_ambiguous.

(** the flag [p_min] of [C01_parse_canonical] means exactly "the accepted bytes are their own re-serialisation
    in the format they arrived in": not stricter, not laxer *)
Theorem C01_canonical_iff : forall bs p n rest, read_tx bs = POk p n rest ->
  (p_min p = true <-> bs = tx_bytes (p_ext p) (p_tx p) ++ rest).
Proof. exact canonical_iff. Qed.
Print Assumptions C01_canonical_iff.

(** ... and for a single length prefix: the flag is true iff the prefix is the shortest encoding of its value *)
Theorem C01_varint_minimal_iff : forall bs v m n rest, read_varint bs = POk (v, m) n rest ->
  (m = true <-> bs = varint_bytes v ++ rest).
Proof. exact varint_minimal_iff. Qed.
Print Assumptions C01_varint_minimal_iff.

(** parse -> serialise -> parse: every accepted byte string, minimally encoded or not, re-serialises (in the
    format it arrived in) to bytes that parse back, consumed exactly and whatever follows them, to the same
    serialisable content, now flagged minimal *)
Theorem C01_parse_serialise_parse : forall bs p n rest, read_tx bs = POk p n rest -> forall rest',
  exists q, read_tx (tx_bytes (p_ext p) (p_tx p) ++ rest') = POk q (lenN (tx_bytes (p_ext p) (p_tx p))) rest' /\
            p_ext q = p_ext p /\ p_min q = true /\ tx_bytes (p_ext p) (p_tx q) = tx_bytes (p_ext p) (p_tx p).
Proof. exact parse_serialise_parse. Qed.
Print Assumptions C01_parse_serialise_parse.

(** block lists (Txs.ReadFrom): an accepted list is consumed to exactly its end ... *)
Theorem C01_txs_consumed_exactly : forall bs l m n rest,
  read_txs bs = POk (l, m) n rest -> exists pre, bs = pre ++ rest /\ n = lenN pre /\ n <= lenN bs.
Proof. exact read_txs_consumes_exactly. Qed.
Print Assumptions C01_txs_consumed_exactly.

(** ... and, when all its length prefixes (the count included) are minimal, re-serialises - every element in the
    format it arrived in - to the identical bytes *)
Theorem C01_txs_canonical : forall bs l n rest, read_txs bs = POk (l, true) n rest ->
  bs = txs_bytes (map parsed_item l) ++ rest /\ n = lenN (txs_bytes (map parsed_item l)).
Proof. exact read_txs_canonical. Qed.
Print Assumptions C01_txs_canonical.

(** * locality (audit A clause 4): the result does not depend on what follows the transaction *)

(** Tx.ReadFrom / NewTxFromStream (one function in the model): if a byte string is accepted, it splits into the
    bytes taken ([pre], exactly the reported count) and the remainder, and the SAME bytes followed by ANY other
    remainder (longer, shorter, empty) give the same transaction, the same format and minimality flags, the same
    count, and leave that other remainder.  No hypothesis on the encoding: minimal and non-minimal length
    prefixes, standard and extended format *)
Theorem C01_read_tx_local : forall bs p n rest, read_tx bs = POk p n rest ->
  exists pre, bs = pre ++ rest /\ n = lenN pre /\ forall rest', read_tx (pre ++ rest') = POk p n rest'.
Proof. exact read_tx_local_stmt. Qed.
Print Assumptions C01_read_tx_local.

(** stream reading: whatever is appended after an accepted input is handed back untouched after the old remainder *)
Theorem C01_read_tx_local_stream : forall bs p n rest suf, read_tx bs = POk p n rest ->
  read_tx (bs ++ suf) = POk p n (rest ++ suf).
Proof. exact read_tx_extend. Qed.
Print Assumptions C01_read_tx_local_stream.

(** the consumed prefix is itself a transaction: parsing exactly those bytes gives the same result, nothing left *)
Theorem C01_parse_prefix_is_transaction : forall bs p n rest, read_tx bs = POk p n rest ->
  exists pre, bs = pre ++ rest /\ n = lenN pre /\ read_tx pre = POk p n [].
Proof. exact parse_prefix_is_transaction. Qed.
Print Assumptions C01_parse_prefix_is_transaction.

(** the same in DESIGN section 5's words (parse (firstn n b) = Ok (t, n)); the remainder is the input without
    its first n bytes; and NewTxFromBytes accepts exactly those n bytes *)
Theorem C01_parse_firstn : forall bs p n rest, read_tx bs = POk p n rest ->
  read_tx (firstn (N.to_nat n) bs) = POk p n [] /\ rest = skipn (N.to_nat n) bs /\
  tx_from_bytes (firstn (N.to_nat n) bs) = ROk p.
Proof. exact parse_firstn. Qed.
Print Assumptions C01_parse_firstn.

(** counted lists (Txs.ReadFrom): the list, the flag, the count do not depend on what follows the list ... *)
Theorem C01_read_txs_local : forall bs l n rest, read_txs bs = POk l n rest ->
  exists pre, bs = pre ++ rest /\ n = lenN pre /\ forall rest', read_txs (pre ++ rest') = POk l n rest'.
Proof. exact read_txs_local_stmt. Qed.
Print Assumptions C01_read_txs_local.

(** ... the consumed prefix is itself a counted list ... *)
Theorem C01_txs_prefix_is_list : forall bs l n rest, read_txs bs = POk l n rest ->
  exists pre, bs = pre ++ rest /\ n = lenN pre /\ read_txs pre = POk l n [].
Proof. exact txs_prefix_is_list. Qed.
Print Assumptions C01_txs_prefix_is_list.

(** ... and the list decoder never runs out of fuel (as [C01_decoder_total] for one transaction) *)
Theorem C01_list_decoder_total : forall bs, read_txs bs <> PFuel.
Proof. exact read_txs_never_out_of_fuel. Qed.
Print Assumptions C01_list_decoder_total.

(** * failures.  The model has one error outcome, [PErr n] = "error after n bytes" (Go: the io error of a read that
    found too few bytes; the decoder has no other way to reject) *)

(** every failure is a short read: the decoder consumed ALL of its input before failing *)
Theorem C01_error_is_short_read : forall bs n, read_tx bs = PErr n -> n = lenN bs.
Proof. exact read_tx_error_is_short_stmt. Qed.
Print Assumptions C01_error_is_short_read.

(** a rejected input has no accepted beginning: every prefix of it, proper or not, is rejected as well *)
Theorem C01_rejected_prefix_closed : forall pre suf n,
  read_tx (pre ++ suf) = PErr n -> read_tx pre = PErr (lenN pre).
Proof. exact read_tx_prefix_fails. Qed.
Print Assumptions C01_rejected_prefix_closed.

(** no truncated transaction is accepted: if [q ++ s] are the bytes an accepted transaction occupies and [s] is
    not empty, then [q] alone is rejected (so the end of a transaction is determined by its bytes alone) *)
Theorem C01_truncated_rejected : forall q s rest p n,
  read_tx (q ++ s ++ rest) = POk p n rest -> s <> [] -> read_tx q = PErr (lenN q).
Proof. exact read_tx_truncated_fails. Qed.
Print Assumptions C01_truncated_rejected.

(** NewTxFromBytes rejects every proper prefix of a byte string it accepts *)
Theorem C01_from_bytes_truncated_rejected : forall q s p,
  tx_from_bytes (q ++ s) = ROk p -> s <> [] -> tx_from_bytes q = RErr.
Proof. exact from_bytes_truncated_fails. Qed.
Print Assumptions C01_from_bytes_truncated_rejected.

(** the same three for counted lists *)
Theorem C01_txs_error_is_short_read : forall bs n, read_txs bs = PErr n -> n = lenN bs.
Proof. exact read_txs_error_is_short_stmt. Qed.
Print Assumptions C01_txs_error_is_short_read.
Theorem C01_txs_rejected_prefix_closed : forall pre suf n,
  read_txs (pre ++ suf) = PErr n -> read_txs pre = PErr (lenN pre).
Proof. exact read_txs_prefix_fails. Qed.
Print Assumptions C01_txs_rejected_prefix_closed.
Theorem C01_txs_truncated_rejected : forall q s rest l n,
  read_txs (q ++ s ++ rest) = POk l n rest -> s <> [] -> read_txs q = PErr (lenN q).
Proof. exact read_txs_truncated_fails. Qed.
Print Assumptions C01_txs_truncated_rejected.

(** non-vacuity of the locality and truncation theorems on a NON-minimal, EXTENDED-format transaction
    (input count fd 01 00): accepted with remainder [99], with remainder [], and with 70 other bytes after it, always
    80 bytes and the same result; with its last byte missing it is rejected after all 79 bytes *)
Example C01_locality_instance :
  let pre := [x01;x00;x00;x00] ++ ext_marker ++ [xfd;x01;x00] ++ repeat_byte 32 xaa ++ [x00;x00;x00;x00] ++
             [x01;x51] ++ [xff;xff;xff;xff] ++ [x88;x13;x00;x00;x00;x00;x00;x00] ++ [x02;x76;xa9] ++ [x01] ++
             [x01;x00;x00;x00;x00;x00;x00;x00] ++ [x00] ++ [x00;x00;x00;x00] in
  match read_tx (pre ++ [x99]), read_tx pre, read_tx (pre ++ repeat_byte 70 xef) with
  | POk p n r, POk p' n' r', POk p'' n'' r'' =>
      (p_min p, p_ext p, n, r) = (false, true, 80, [x99]) /\ (p', n', r') = (p, 80, []) /\
      (p'', n'', r'') = (p, 80, repeat_byte 70 xef)
  | _, _, _ => False
  end /\ read_tx (removelast pre) = PErr 79.
Proof. vm_compute. repeat split; reflexivity. Qed.

(** non-vacuity: a byte string with a NON-minimal input count (fd 01 00) is accepted, flagged, consumed exactly *)
Example C01_nonminimal_accepted :
  let nm := [x01;x00;x00;x00] ++ [xfd;x01;x00] ++ repeat_byte 32 xaa ++ [x00;x00;x00;x00] ++ [x01;x51] ++
            [xff;xff;xff;xff] ++ [x01] ++ [x01;x00;x00;x00;x00;x00;x00;x00] ++ [x00] ++ [x00;x00;x00;x00] ++ [x99] in
  match read_tx nm with POk p n rest => (p_min p, p_ext p, n, rest) = (false, false, 63, [x99]) | _ => False end.
Proof. vm_compute. reflexivity. Qed.

(** non-vacuity: a 1-in/2-out transaction meets the hypotheses; the excluded shape really is ambiguous *)
Definition ex_tx : tx :=
  mkTx 1 [mkInput (repeat_byte 32 xab) 3 [x51; x52] 4294967295 5000 (Some [x76; xa9])]
         [mkOutput 1000 [x6a; x01; x00]; mkOutput 18446744073709551615 []] 4009754624.
Example C01_hypotheses_satisfiable : wf_tx ex_tx /\ ~ ambiguous ex_tx.
Proof.
  split.
  - unfold wf_tx, ex_tx; cbn. repeat split; try reflexivity;
      repeat constructor; unfold wf_script, lenN; cbn; reflexivity.
  - intros (H & _). discriminate H.
Qed.
Example C01_ambiguous_shape_is_ambiguous :
  let amb := mkTx 1 [] [] 4009754624 in
  ambiguous amb /\ read_tx (tx_bytes false amb) <> POk (mkParsed amb false true) (lenN (tx_bytes false amb)) [].
Proof. split; [repeat split|]; vm_compute; congruence. Qed.

(** Block-list parsing with the destination explicit (model/TxsInto.v, proofs/TxsIntoProofs.v): Txs.ReadFrom writes
    into a slice the caller supplies and may have used before.  What it holds after a successful read, the bytes
    consumed and the remainder are those of [read_txs] - the same for EVERY previous content of the destination. *)
From GoBT Require model.TxsInto proofs.TxsIntoProofs.
Theorem C01_txs_destination_irrelevant : forall d1 bs l n rest,
  TxsInto.read_txs_into d1 bs = TxsInto.IOk l n rest ->
  (forall d2, TxsInto.read_txs_into d2 bs = TxsInto.IOk l n rest) /\ exists m, read_txs bs = POk (l, m) n rest.
Proof. exact TxsIntoProofs.read_txs_into_destination_irrelevant. Qed.
Print Assumptions C01_txs_destination_irrelevant.
Theorem C01_txs_into_is_read_txs : forall bs l m n rest,
  read_txs bs = POk (l, m) n rest -> forall dst, TxsInto.read_txs_into dst bs = TxsInto.IOk l n rest.
Proof. exact TxsIntoProofs.read_txs_into_of_read_txs. Qed.
Print Assumptions C01_txs_into_is_read_txs.
Theorem C01_txs_into_total : forall dst bs, TxsInto.read_txs_into dst bs <> TxsInto.IFuel.
Proof. exact TxsIntoProofs.read_txs_into_never_out_of_fuel. Qed.
Print Assumptions C01_txs_into_total.
(** non-vacuity: the empty list read into a destination that holds two transactions leaves it empty *)
Example C01_empty_list_empties_the_destination :
  TxsInto.read_txs_into (TxsInto.dst_of 2) [x00; xaa] = TxsInto.IOk [] 1 [xaa].
Proof. vm_compute. reflexivity. Qed.

(** State inventory (tie, translator part): every Go struct the model of this property represents has, in the
    source as it is NOW (gen/Structs.v, regenerated on every run), exactly the fields - names, types, order - the
    model was written against (model/StateInventory.v).  New state in these objects (a memoised digest, a cached
    document, a remembered operand) is state the theorems above do not speak about: this is the obligation that
    stops checking then. *)
From GoBT Require gen.Structs model.StateInventory.
Theorem C01_state_inventory :
  forall k, In k (StateInventory.group_of StateInventory.pC01) ->
  exists f, StateInventory.lookup_gen gen.Structs.structs k = Some f /\ StateInventory.lookup_model k = Some f.
Proof. apply StateInventory.inventory_ok_spec. vm_compute. reflexivity. Qed.
Print Assumptions C01_state_inventory.

(** Package-level state (tie, translator part): in the source as it is NOW (gen/Globals.v) no package-level variable of
    the packages this property's code lives in can change after initialisation or is handed out by reference - the
    model's functions are functions of their arguments only (model/StateInventory.v). *)
From GoBT Require gen.Globals.
Theorem C01_no_mutable_package_state :
  forall g, In g gen.Globals.globals -> In (StateInventory.rg_pkg g) (StateInventory.packages_of StateInventory.pC01) ->
  StateInventory.rg_mutated g = false /\ StateInventory.rg_escapes g = false.
Proof. apply StateInventory.pkg_state_ok_spec. vm_compute. reflexivity. Qed.
Print Assumptions C01_no_mutable_package_state.

(** * text entry points (round 8): NewTxFromString, Tx.String and the JSON [hex] member (model/TxText.v)

    Every way of handing TEXT to the parser accepts exactly the hex text of bytes that are exactly one transaction -
    the acceptance rule of NewTxFromBytes on the decoded bytes, nothing weaker. *)
From Coq Require String.
From GoBT Require lib.Hex model.TxText proofs.TxTextProofs.
Theorem C01_from_string_iff : forall s p,
  TxText.tx_from_string s = ROk p <-> exists b, Hex.hexdecode s = Some b /\ read_tx b = POk p (lenN b) [].
Proof. exact TxTextProofs.from_string_iff. Qed.
Print Assumptions C01_from_string_iff.

(** nothing may follow the transaction in the text: an accepted text followed by ANY non-empty text (more hex digits,
    a second transaction, a dangling digit, characters that are not hex digits) is rejected *)
Theorem C01_from_string_trailing_rejected : forall s p suf,
  TxText.tx_from_string s = ROk p -> suf <> String.EmptyString ->
  TxText.tx_from_string (String.append s suf) = RErr.
Proof. exact TxTextProofs.from_string_trailing_rejected. Qed.
Print Assumptions C01_from_string_trailing_rejected.

(** Tx.String then NewTxFromString is the identity on the wire fields; likewise the hex text of the extended form *)
Theorem C01_from_string_roundtrip_std : forall t, wf_tx t -> ~ ambiguous t ->
  TxText.tx_from_string (TxText.tx_string t) = ROk (mkParsed (strip_tx t) false true).
Proof. exact TxTextProofs.from_string_roundtrip_std. Qed.
Print Assumptions C01_from_string_roundtrip_std.
Theorem C01_from_string_roundtrip_ext : forall t, wf_tx t ->
  TxText.tx_from_string (Hex.hex_of (tx_bytes true t)) = ROk (mkParsed (norm_tx t) true true).
Proof. exact TxTextProofs.from_string_roundtrip_ext. Qed.
Print Assumptions C01_from_string_roundtrip_ext.

(** an accepted text with minimal length prefixes decodes to the re-serialisation in the format it arrived in *)
Theorem C01_from_string_canonical : forall s p, TxText.tx_from_string s = ROk p -> p_min p = true ->
  Hex.hexdecode s = Some (tx_bytes (p_ext p) (p_tx p)).
Proof. exact TxTextProofs.from_string_canonical. Qed.
Print Assumptions C01_from_string_canonical.

Theorem C01_from_string_total : forall s, TxText.tx_from_string s <> RFuel.
Proof. exact TxTextProofs.from_string_total. Qed.
Print Assumptions C01_from_string_total.

(** non-vacuity: an accepted text, and the same text with one more character / one more byte / a second copy *)
Import Coq.Strings.String.
Example C01_from_string_accepts :
  TxText.tx_from_string "01000000000007000000"%string = ROk (mkParsed (mkTx 1 [] [] 7) false true).
Proof. vm_compute. reflexivity. Qed.
Example C01_from_string_rejects_what_follows :
  TxText.tx_from_string "010000000000070000000"%string = RErr /\ TxText.tx_from_string "0100000000000700000000"%string = RErr /\
  TxText.tx_from_string "01000000000007000000zz"%string = RErr /\
  TxText.tx_from_string "0100000000000700000001000000000007000000"%string = RErr.
Proof. vm_compute. repeat split. Qed.
