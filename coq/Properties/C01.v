(** C01 — Transaction wire codec is lossless and canonical (standard, extended, stream).
    Only statements, [exact], and [Print Assumptions]. Model: model/Tx.v; proofs: proofs/TxProofs.v. *)
From Coq Require Import List NArith.
From Coq Require Import Strings.Byte.
From GoBT Require Import lib.Bytes lib.Parse lib.VarInt lib.Sha256 model.Tx proofs.TxProofs.
Import ListNotations.
Local Open Scope N_scope.

(** varints: 1/3/5/9-byte classes; Bytes, Length and ReadFrom agree *)
Theorem C01_varint_roundtrip : forall v rest, v < two64 ->
  read_varint (varint_bytes v ++ rest) = POk (v, true) (varint_len v) rest.
Proof. exact varint_roundtrip. Qed.
Print Assumptions C01_varint_roundtrip.

Theorem C01_varint_length : forall v, varint_len v = lenN (varint_bytes v).
Proof. exact varint_len_spec. Qed.
Print Assumptions C01_varint_length.

(** serialise-then-parse, standard format: all fields back (previous-output data is not carried),
    consumed exactly, whatever follows in the stream is left untouched *)
Theorem C01_std_roundtrip : forall t rest, wf_tx t -> ~ ambiguous t ->
  read_tx (tx_bytes false t ++ rest) = POk (mkParsed (strip_tx t) false true) (lenN (tx_bytes false t)) rest.
Proof. exact tx_std_roundtrip. Qed.
Print Assumptions C01_std_roundtrip.

(** extended format additionally preserves every input's previous value and script
    (a nil previous script comes back as the empty script: [norm_tx]) *)
Theorem C01_ext_roundtrip : forall t rest, wf_tx t ->
  read_tx (tx_bytes true t ++ rest) = POk (mkParsed (norm_tx t) true true) (lenN (tx_bytes true t)) rest.
Proof. exact tx_ext_roundtrip. Qed.
Print Assumptions C01_ext_roundtrip.

(** re-serialising what was parsed reproduces the bytes exactly *)
Theorem C01_reserialise_std : forall t, tx_bytes false (strip_tx t) = tx_bytes false t.
Proof. exact reserialise_std. Qed.
Print Assumptions C01_reserialise_std.
Theorem C01_reserialise_ext : forall t, tx_bytes true (norm_tx t) = tx_bytes true t.
Proof. exact reserialise_ext. Qed.
Print Assumptions C01_reserialise_ext.

(** NewTxFromBytes accepts a library-made serialisation (and rejects trailing bytes: [from_bytes_iff]) *)
Theorem C01_from_bytes_std : forall t, wf_tx t -> ~ ambiguous t ->
  tx_from_bytes (tx_bytes false t) = ROk (mkParsed (strip_tx t) false true).
Proof. exact from_bytes_roundtrip_std. Qed.
Print Assumptions C01_from_bytes_std.
Theorem C01_from_bytes_ext : forall t, wf_tx t ->
  tx_from_bytes (tx_bytes true t) = ROk (mkParsed (norm_tx t) true true).
Proof. exact from_bytes_roundtrip_ext. Qed.
Print Assumptions C01_from_bytes_ext.
Theorem C01_from_bytes_iff : forall bs p, tx_from_bytes bs = ROk p <-> read_tx bs = POk p (lenN bs) [].
Proof. exact from_bytes_iff. Qed.
Print Assumptions C01_from_bytes_iff.

(** any accepted byte string is consumed to exactly the end of the transaction *)
Theorem C01_consumed_exactly : forall bs p n rest,
  read_tx bs = POk p n rest -> exists pre, bs = pre ++ rest /\ n = lenN pre /\ n <= lenN bs.
Proof. exact parse_consumes_exactly. Qed.
Print Assumptions C01_consumed_exactly.

(** ... and, when its length prefixes are minimally encoded, re-serialises in the format it arrived in
    to the identical bytes *)
Theorem C01_parse_canonical : forall bs p n rest,
  read_tx bs = POk p n rest -> p_min p = true -> bs = tx_bytes (p_ext p) (p_tx p) ++ rest.
Proof. exact read_tx_canonical. Qed.
Print Assumptions C01_parse_canonical.

(** counted lists of transactions (block form), each in either format *)
Theorem C01_txs_roundtrip : forall l rest, Forall list_item_ok l -> N.of_nat (length l) < two64 ->
  exists n, read_txs (txs_bytes l ++ rest) = POk (map list_item_parsed l, true) n rest /\ n = lenN (txs_bytes l).
Proof. exact txs_roundtrip. Qed.
Print Assumptions C01_txs_roundtrip.

(** the decoder model never runs out of fuel (the fuel is a proof device, not a limit) *)
Theorem C01_decoder_total : forall bs, read_tx bs <> PFuel.
Proof. exact read_tx_never_out_of_fuel. Qed.
Print Assumptions C01_decoder_total.

(** Clone gives back an equal transaction *)
Theorem C01_clone : forall t, wf_tx t -> ~ ambiguous t -> clone t = ROk t.
Proof. exact clone_eq. Qed.
Print Assumptions C01_clone.

(** the transaction id is the byte-reversed double SHA-256 of the standard serialisation *)
Theorem C01_txid_def : forall t, txid t = rev (sha256 (sha256 (tx_bytes false t))).
Proof. exact txid_def. Qed.
Print Assumptions C01_txid_def.

(** non-vacuity: a 1-in/2-out transaction meets the hypotheses; the excluded shape really is ambiguous *)
Definition ex_tx : tx :=
  mkTx 1 [mkInput (repeat_byte 32 xab) 3 [x51; x52] 4294967295 5000 (Some [x76; xa9])]
         [mkOutput 1000 [x6a; x01; x00]; mkOutput 18446744073709551615 []] 4009754624.
Example C01_hypotheses_satisfiable : wf_tx ex_tx /\ ~ ambiguous ex_tx.
Proof.
  split.
  - unfold wf_tx, ex_tx; cbn. repeat split; try reflexivity;
      repeat constructor; unfold wf_script, lenN; cbn; reflexivity.
  - intros (H & _). discriminate H.
Qed.
Example C01_ambiguous_shape_is_ambiguous :
  let amb := mkTx 1 [] [] 4009754624 in
  ambiguous amb /\ read_tx (tx_bytes false amb) <> POk (mkParsed amb false true) (lenN (tx_bytes false amb)) [].
Proof. split; [repeat split|]; vm_compute; congruence. Qed.
