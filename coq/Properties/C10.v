(** C10 — Change never creates value, never underpays the quoted fee, never burns change.
    Only statements, [exact], and [Print Assumptions]. Model: model/Change.v (+ model/Fees.v);
    spec: spec/FeeSpec.v; proofs: proofs/ChangeProofs.v. *)
From Coq Require Import List NArith ZArith Bool.
From Coq Require Import Strings.Byte.
From GoBT Require Import lib.Bytes lib.VarInt model.Tx gen.Consts spec.FeeSpec model.Fees model.Change
  proofs.FeesProofs proofs.ChangeProofs proofs.AuditC10.
Import ListNotations.
Local Open Scope N_scope.

(** every pre-existing output, the inputs, version and locktime are untouched whatever the verdict; at most
    one output carrying the destination script is appended, and only when change was added.
    (For the error results the "unchanged" half holds by construction of the model: [change_new] returns the
    transaction it was given on FErr / FFatal / FPanic; that Go's Tx.change mutates nothing before its final
    AddOutput is carried by the correspondence.) *)
Theorem C10_change_preserves_outputs : forall t q s r t',
  change_new t q s = (r, t') ->
  tx_version t' = tx_version t /\ tx_ins t' = tx_ins t /\ tx_lock t' = tx_lock t /\
  ((r <> FOk true /\ t' = t) \/ (r = FOk true /\ exists v, tx_outs t' = tx_outs t ++ [mkOutput v s])).
Proof. exact change_preserves_outputs. Qed.
Print Assumptions C10_change_preserves_outputs.

(** total outputs never exceed total inputs *)
Theorem C10_change_no_value_created : forall t q s has t', change_hyps q t s ->
  change_new t q s = (FOk has, t') -> total_out t' <= total_in t'.
Proof. exact change_no_value_created. Qed.
Print Assumptions C10_change_no_value_created.

(** if change was added, the fee left is at least the quoted fee for the transaction's estimated final size *)
Theorem C10_change_fee_lower : forall t q s t', change_hyps q t s ->
  change_new t q s = (FOk true, t') ->
  exists sf df sz', q_std q = Some sf /\ q_data q = Some df /\ estimate_size_with_types t' = FOk sz' /\
    quoted_fee sf df (sz_std sz') (sz_data sz') <= total_in t' - total_out t'.
Proof. exact change_fee_lower. Qed.
Print Assumptions C10_change_fee_lower.

(** ... and exceeds it by no more than the slack (fee for nine bytes plus nine satoshis) *)
Theorem C10_change_fee_upper : forall t q s t', change_hyps q t s ->
  change_new t q s = (FOk true, t') ->
  exists sf df sz', q_std q = Some sf /\ q_data q = Some df /\ estimate_size_with_types t' = FOk sz' /\
    total_in t' - total_out t' <= quoted_fee sf df (sz_std sz') (sz_data sz') + slack sf.
Proof. exact change_fee_upper. Qed.
Print Assumptions C10_change_fee_upper.

(** (with [C10_change_fee_exact] below the slack is never used: the repaired code overpays by nothing)
    stronger than both: the repaired code leaves exactly the quoted fee, and the change output is worth
    exactly what remained after it, which is above the dust limit *)
Theorem C10_change_fee_exact : forall t q s t', change_hyps q t s ->
  change_new t q s = (FOk true, t') ->
  exists sf df sz', q_std q = Some sf /\ q_data q = Some df /\
    estimate_size_with_types t' = FOk sz' /\
    let fee := quoted_fee sf df (sz_std sz') (sz_data sz') in
    tx_outs t' = tx_outs t ++ [mkOutput (avail t - fee) s] /\ dust_limit < avail t - fee /\
    total_in t' = total_in t /\ total_out t' = total_out t + (avail t - fee) /\
    total_out t' <= total_in t' /\ total_in t' - total_out t' = fee.
Proof. exact change_new_exact. Qed.
Print Assumptions C10_change_fee_exact.

(** no change is added exactly when what remains after the fee that a change output would require is at
    or below the dust limit; the transaction is then unchanged *)
Theorem C10_no_change_iff_dust : forall t q s has t', change_hyps q t s ->
  change_new t q s = (FOk has, t') ->
  exists sf df szc, q_std q = Some sf /\ q_data q = Some df /\
    estimate_size_with_types (add_output t (mkOutput 0 s)) = FOk szc /\
    (has = false <-> avail t <= quoted_fee sf df (sz_std szc) (sz_data szc) + dust) /\
    (has = false -> t' = t).
Proof. exact no_change_iff_dust. Qed.
Print Assumptions C10_no_change_iff_dust.

(** total outputs never exceed total inputs, stated over the mathematical (un-wrapped) sums of the amounts, not
    over the uint64 accumulators; the inputs' sum is untouched *)
Theorem C10_change_no_value_created_sums : forall t q s has t', change_hyps q t s ->
  change_new t q s = (FOk has, t') -> sum_out t' <= sum_in t' /\ sum_in t' = sum_in t.
Proof. exact change_no_value_created_sums. Qed.
Print Assumptions C10_change_no_value_created_sums.

(** when does Change succeed: a complete quote with positive byte denominators, every input carrying a
    supported previous script, outputs not above inputs - then the result is Ok (with or without change) *)
Theorem C10_change_succeeds : forall t q s sf df, wf_tx t -> ~ ambiguous t ->
  N.of_nat (length (tx_outs t)) + 1 < two64 ->
  q_std q = Some sf -> q_data q = Some df -> r_bytes sf <> 0 -> r_bytes df <> 0 ->
  Forall input_ok (tx_ins t) -> total_out t <= total_in t ->
  exists has t', change_new t q s = (FOk has, t').
Proof. exact change_new_succeeds. Qed.
Print Assumptions C10_change_succeeds.

(** outputs above inputs: ErrInsufficientInputs, transaction untouched *)
Theorem C10_change_insufficient_inputs : forall t q s, total_in t < total_out t ->
  change_new t q s = (FErr ErrInsufficientInputs, t).
Proof. exact change_new_insufficient. Qed.
Print Assumptions C10_change_insufficient_inputs.

(** after a Change that added change, EstimateIsFeePaidEnough(quote) is true of the result (the check the
    ordinals flows make right after Change) *)
Theorem C10_change_then_estimate_enough : forall t q s t', change_hyps q t s ->
  change_new t q s = (FOk true, t') -> estimate_is_fee_paid_enough t' q = FOk true.
Proof. exact change_then_estimate_enough. Qed.
Print Assumptions C10_change_then_estimate_enough.

(** Change is idempotent: once change has been added, a second Change to any script adds nothing and leaves
    the transaction as it is *)
Theorem C10_change_idempotent : forall t q s t' s2 has t'', change_hyps q t s ->
  change_new t q s = (FOk true, t') -> change_hyps q t' s2 ->
  change_new t' q s2 = (FOk has, t'') -> has = false /\ t'' = t'.
Proof. exact change_idempotent. Qed.
Print Assumptions C10_change_idempotent.

(** ChangeToAddress is Change with the script the address decodes to.
    (Holds by construction of the model: the statement unfolds [change_to_address]; the address-to-script step is
    the parameter [d], tied to bscript.NewP2PKHFromAddress by the correspondence and to C15, not proved here.) *)
Theorem C10_change_to_address : forall t q d,
  change_to_address t q d = match d with Some s => change_new t q s | None => (FErr ErrBadAddress, t) end.
Proof. exact change_to_address_spec. Qed.
Print Assumptions C10_change_to_address.

(** ChangeToExistingOutput: only the designated output's amount changes; same fee and dust statements *)
Theorem C10_existing_output_only_target_changes : forall t q idx has t',
  wf_tx t -> ~ ambiguous t -> no_overflow q t 0 = true ->
  change_existing t q idx = (FOk has, t') ->
  tx_version t' = tx_version t /\ tx_ins t' = tx_ins t /\ tx_lock t' = tx_lock t /\
  length (tx_outs t') = length (tx_outs t) /\ (has = true -> idx < N.of_nat (length (tx_outs t))) /\
  (forall j d, j <> N.to_nat idx -> nth j (tx_outs t') d = nth j (tx_outs t) d) /\
  map out_script (tx_outs t') = map out_script (tx_outs t) /\
  (has = false -> t' = t) /\
  exists sf df sz, q_std q = Some sf /\ q_data q = Some df /\
    estimate_size_with_types t = FOk sz /\ estimate_size_with_types t' = FOk sz /\
    let fee := quoted_fee sf df (sz_std sz) (sz_data sz) in
    (has = false <-> avail t <= fee + dust) /\
    (has = true ->
       out_sats (nth (N.to_nat idx) (tx_outs t') (mkOutput 0 [])) =
         out_sats (nth (N.to_nat idx) (tx_outs t) (mkOutput 0 [])) + (avail t - fee) /\
       total_in t' = total_in t /\ total_out t' <= total_in t' /\ total_in t' - total_out t' = fee).
Proof. exact existing_output_only_target_changes. Qed.
Print Assumptions C10_existing_output_only_target_changes.

(** the output-count varint grows by exactly what VarInt.UpperLimitInc reports *)
Theorem C10_varint_growth : forall n, n + 1 < two64 ->
  upper_limit_inc n <> (-1)%Z /\ varint_len (n + 1) = varint_len n + Z.to_N (upper_limit_inc n).
Proof. exact varint_growth. Qed.
Print Assumptions C10_varint_growth.

(** non-vacuity: 5 sat/byte, 253 existing outputs (the change output pushes the count varint from 3 bytes
    ... the count 252 -> 253 boundary is the next example), one unsigned P2PKH input: the hypotheses hold
    and change is added, leaving exactly the quoted fee *)
Definition ex_p2pkh : bytes := [x76; xa9; x14] ++ repeat_byte 20 x11 ++ [x88; xac].
Definition ex_tx (n : nat) (sats : N) : tx :=
  mkTx 1 [mkInput (repeat_byte 32 xab) 0 [] 4294967295 sats (Some ex_p2pkh)]
         (repeat (mkOutput 1000 ex_p2pkh) n) 0.
Definition ex_quote : quote := mkQuote (Some (mkRate 5 1)) (Some (mkRate 5 1)).

Definition hyps_b (n : nat) (sats : N) : bool :=
  wf_txb (ex_tx n sats) && negb (ambiguousb (ex_tx n sats)) && no_overflow ex_quote (ex_tx n sats) (21 + lenN ex_p2pkh).
Lemma ex_hyps n sats : hyps_b n sats = true -> change_hyps ex_quote (ex_tx n sats) ex_p2pkh.
Proof.
  unfold hyps_b. intros H. apply andb_prop in H. destruct H as [H NO]. apply andb_prop in H. destruct H as [W A].
  split; [apply wf_txb_sound; exact W|]. split; [apply ambiguousb_sound; destruct (ambiguousb _); [discriminate|reflexivity]|].
  split; [vm_compute; reflexivity|exact NO].
Qed.

(** what the examples observe of a Change call: verdict, number of outputs, value of the last output,
    fee left, estimated size afterwards *)
Definition observe (n : nat) (sats : N) :=
  let '(r, t') := change_new (ex_tx n sats) ex_quote ex_p2pkh in
  (r, length (tx_outs t'), out_sats (last (tx_outs t') (mkOutput 0 [])), total_in t' - total_out t',
   estimate_size_with_types t').

Example C10_hypotheses_satisfiable_253 :
  change_hyps ex_quote (ex_tx 253 400000) ex_p2pkh /\
  observe 253 400000 = (FOk true, 254%nat, 103020, 43980, FOk (mkSize 8796 8796 0)).
Proof. split; [apply ex_hyps|]; vm_compute; reflexivity. Qed.

(** the 252 -> 253 boundary (output-count varint grows from 1 to 3 bytes): the fee left is the 43 810
    satoshis quoted for the 8 762 bytes of the result (the code before the repair left 43 802) *)
Example C10_boundary_252 :
  change_hyps ex_quote (ex_tx 252 400000) ex_p2pkh /\
  observe 252 400000 = (FOk true, 253%nat, 104190, 43810, FOk (mkSize 8762 8762 0)).
Proof. split; [apply ex_hyps|]; vm_compute; reflexivity. Qed.

(** dust: with exactly fee + dust left no change is added and the transaction is returned as it was;
    one satoshi more and a 2-satoshi change output appears *)
Example C10_dust_boundary :
  change_new (ex_tx 1 (1000 + 1130 + 1)) ex_quote ex_p2pkh = (FOk false, ex_tx 1 (1000 + 1130 + 1)) /\
  observe 1 (1000 + 1130 + 2) = (FOk true, 2%nat, 2, 1130, FOk (mkSize 226 226 0)).
Proof. split; vm_compute; reflexivity. Qed.

(** the SECOND boundary of the output-count varint: the 65536th output makes the count five bytes long instead of
    three (and the outputs before and after it change nothing); Tx.change charges UpperLimitInc = 2 there, and the
    fee theorems above - stated for every transaction - cover it.  Transactions of that size cannot be pushed through
    the byte-level parser inside Coq (Tx.Clone), so the correspondence evaluates them with [change_direct]
    (proofs/ChangeDirect.v), which is the same function under two boolean guards evaluated on the case: *)
From GoBT Require Import proofs.ChangeDirect.
Theorem C10_count_varint_second_boundary : forall t o, N.of_nat (length (tx_outs t)) = 65535 ->
  tx_size (add_output t o) = tx_size t + lenN (output_bytes o) + 2.
Proof. exact tx_size_growth_at_65535. Qed.
Print Assumptions C10_count_varint_second_boundary.

Theorem C10_count_varint_beside_second_boundary : forall t o,
  N.of_nat (length (tx_outs t)) = 65534 \/ N.of_nat (length (tx_outs t)) = 65536 ->
  tx_size (add_output t o) = tx_size t + lenN (output_bytes o).
Proof. exact tx_size_no_growth_beside_65535. Qed.
Print Assumptions C10_count_varint_beside_second_boundary.

Theorem C10_change_direct_agrees : forall t q dest, guard t = true -> change t q dest = change_direct t q dest.
Proof. exact change_direct_eq. Qed.
Print Assumptions C10_change_direct_agrees.

(** State inventory (tie, translator part): every Go struct the model of this property represents has, in the
    source as it is NOW (gen/Structs.v, regenerated on every run), exactly the fields - names, types, order - the
    model was written against (model/StateInventory.v).  New state in these objects (a memoised digest, a cached
    document, a remembered operand) is state the theorems above do not speak about: this is the obligation that
    stops checking then. *)
From GoBT Require gen.Structs model.StateInventory.
Theorem C10_state_inventory :
  forall k, In k (StateInventory.group_of StateInventory.pC10) ->
  exists f, StateInventory.lookup_gen gen.Structs.structs k = Some f /\ StateInventory.lookup_model k = Some f.
Proof. apply StateInventory.inventory_ok_spec. vm_compute. reflexivity. Qed.
Print Assumptions C10_state_inventory.

(** Package-level state (tie, translator part): in the source as it is NOW (gen/Globals.v) no package-level variable of
    the packages this property's code lives in can change after initialisation or is handed out by reference - the
    model's functions are functions of their arguments only (model/StateInventory.v). *)
From GoBT Require gen.Globals.
Theorem C10_no_mutable_package_state :
  forall g, In g gen.Globals.globals -> In (StateInventory.rg_pkg g) (StateInventory.packages_of StateInventory.pC10) ->
  StateInventory.rg_mutated g = false /\ StateInventory.rg_escapes g = false.
Proof. apply StateInventory.pkg_state_ok_spec. vm_compute. reflexivity. Qed.
Print Assumptions C10_no_mutable_package_state.

(** Round 8 - WHICH outputs are data outputs.  The fee theorems above quote [sz_data] at the data rate and [sz_std] at
    the standard rate; these say what lands in which: a script is a data script exactly when it begins with OP_RETURN
    or OP_FALSE OP_RETURN - whatever follows (it need not parse as pushes), so a push of the byte 6a, OP_FALSE then
    anything else, OP_RETURN further on are not - and every data output contributes its whole script to the data
    bytes wherever it stands among the outputs and whatever it is worth (proofs/DataClassProofs.v). *)
From GoBT Require proofs.DataClassProofs.
Theorem C10_data_script_iff_marker : forall s,
  is_data s = true <-> ((exists t, s = x6a :: t) \/ (exists t, s = x00 :: x6a :: t)).
Proof. exact DataClassProofs.is_data_iff. Qed.
Print Assumptions C10_data_script_iff_marker.

Theorem C10_push_of_6a_is_not_data : forall t,
  is_data (x01 :: x6a :: t) = false /\ is_data (x00 :: x01 :: x6a :: t) = false.
Proof. exact DataClassProofs.push_of_6a_not_data. Qed.
Print Assumptions C10_push_of_6a_is_not_data.

Theorem C10_data_bytes_of_outputs : forall a o b,
  data_len (a ++ o :: b) = data_len (a ++ b) + (if is_data (out_script o) then lenN (out_script o) else 0).
Proof. exact DataClassProofs.data_len_insert. Qed.
Print Assumptions C10_data_bytes_of_outputs.

Theorem C10_size_split_is_data_len : forall t,
  sz_data (size_with_types t) = data_len (tx_outs t) /\ sz_std (size_with_types t) = tx_size t - data_len (tx_outs t).
Proof. exact DataClassProofs.size_with_types_data. Qed.
Print Assumptions C10_size_split_is_data_len.

(** non-vacuity: a data script whose tail is a push cut short (PUSHDATA2 announcing 65535 bytes, 2 follow), and a
    look-alike *)
Example C10_data_tail_example : is_data [x6a; x4d; xff; xff; x42; x42] = true /\ is_data [x01; x6a; x4d; xff; xff; x42] = false.
Proof. split; reflexivity. Qed.
