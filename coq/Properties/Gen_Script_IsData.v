(** Export: the Go source of Script.IsData, as printed into gen/Funcs.v on every run, is the model function the
    property theorems are about (proofs/GenFuncs_Script_IsData.v).  Compiled only while gen/Funcs.status.json says the
    function is translated. *)
From Coq Require Import List ZArith NArith Bool.
From Coq Require Import Strings.Byte.
From GoBT Require Import lib.Bytes lib.GoSem gen.Funcs proofs.GenFuncsTac proofs.GenFuncs_Script_IsData.
Local Open Scope Z_scope.

Theorem C14_go_source_Script_IsData_is_model :
  forall b : bytes, to_outcome (Script_IsData b) = GoBT.model.Classify.is_data b.
Proof. exact Script_IsData_is_model. Qed.
Print Assumptions C14_go_source_Script_IsData_is_model.

Theorem C11_go_source_Script_IsData_is_model :
  forall b : bytes, Script_IsData b = Val (GoBT.model.Fees.is_data b).
Proof. exact Script_IsData_is_fees_model. Qed.
Print Assumptions C11_go_source_Script_IsData_is_model.
