(** Export: the Go source of stack.NipN, as printed into gen/Funcs.v on every run, has the meaning the interpreter
    model gives it (proofs/GenFuncs_stack_NipN.v).  Compiled only while gen/Funcs.status.json says the function is translated. *)
From Coq Require Import List ZArith NArith Bool.
From Coq Require Import Strings.Byte.
From GoBT Require Import lib.Bytes lib.GoSem lib.GoInterp gen.Funcs proofs.GenFuncsTac proofs.GenFuncsInterpTac proofs.GenFuncs_stack_nipN proofs.GenFuncs_stack_NipN.
From GoBT Require model.Interp model.ScriptNum.
Import ListNotations.
Local Open Scope Z_scope.

Theorem C05_go_source_stack_NipN_is_model : forall (i : Z) (d : list bytes), Interp.lenZ d < 2147483648 -> in31 i ->
  stack_NipN i (rev d) = Val (rev (fst (nip_model i d)), snd (snd (nip_model i d))).
Proof. exact stack_NipN_spec. Qed.
Print Assumptions C05_go_source_stack_NipN_is_model.

Theorem C08_go_source_stack_NipN_is_model : forall (i : Z) (d : list bytes), Interp.lenZ d < 2147483648 -> in31 i ->
  stack_NipN i (rev d) = Val (rev (fst (nip_model i d)), snd (snd (nip_model i d))).
Proof. exact stack_NipN_spec. Qed.
Print Assumptions C08_go_source_stack_NipN_is_model.

Theorem C05_go_source_stack_NipN_is_model_1 : forall (d : list bytes), Interp.lenZ d < 2147483648 ->
  st_view (stack_NipN 1 (rev d)) = Val (match d with a :: _ :: r => Some (a :: r) | _ => None end).
Proof. exact stack_NipN_1. Qed.
Print Assumptions C05_go_source_stack_NipN_is_model_1.

Theorem C08_go_source_stack_NipN_is_model_1 : forall (d : list bytes), Interp.lenZ d < 2147483648 ->
  st_view (stack_NipN 1 (rev d)) = Val (match d with a :: _ :: r => Some (a :: r) | _ => None end).
Proof. exact stack_NipN_1. Qed.
Print Assumptions C08_go_source_stack_NipN_is_model_1.
