(** Export: the Go source of Tx.CalcInputSignatureHash and Tx.sigStrat (signaturehash.go), as printed into gen/Funcs.v on
    every run, is the model function [calc_input_signature_hash] the theorems of C02 / C03 (and, through the signers and
    the CHECKSIG handlers, of C04, C06 and C20) are about (proofs/GenFuncs_Tx_CalcInputSignatureHash.v): the selection of
    the algorithm on the ForkID bit, the error path, the SINGLE-bug constant that is not hashed, the double SHA-256.
    HYPOTHESES: the ranges of the Go types, no nil element in Inputs / Outputs and no output with a nil LockingScript
    (as for CalcInputPreimage), and [legacy_is_model]: Tx.CalcInputPreimageLegacy is NOT translated (it mutates a clone of
    the transaction; gen/Funcs.status.json has the reason), the printed definition takes it as a parameter, and the
    theorem assumes that parameter to be the model's [calc_input_preimage_legacy] on this transaction.  For hash types
    WITH the ForkID bit the hypothesis is not used (second theorem).  The printed [error] is a [bool].  TRUSTED
    mappings used: crypto.Sha256d of go-bk -> [sha256d], bytes.Equal -> [bytes_eqb], ReverseBytes -> [rev] (in the
    callee); the package variable defaultHex is read as its literal (the translator refuses the function if any code of
    package bt could write it).  Compiled only while gen/Funcs.status.json says the function is translated. *)
From Coq Require Import List ZArith NArith Bool Lia.
From Coq Require Import Strings.Byte.
From GoBT Require Import lib.Bytes lib.GoSem lib.GoTx gen.Funcs proofs.GenFuncsTxTac proofs.GenFuncs_Tx_CalcInputPreimage proofs.GenFuncs_Tx_CalcInputSignatureHash.
From GoBT Require Import model.Tx model.SigHash.
Import ListNotations.
Local Open Scope Z_scope.

Definition calc_input_signature_hash_statement : Prop :=
  forall (legacy : Z -> Z -> M (bytes * bool)) (ins : list go_Input) (outs : list go_Output) (ver lock : Z) (i ht : N),
  Forall go_input_ok ins -> len_ok ins -> Forall go_output_ok outs -> len_ok outs -> u32 ver -> u32 lock ->
  (i < 4294967296)%N -> (ht < 256)%N ->
  legacy_is_model legacy (tx_of_go ins outs ver lock) ->
  Tx_CalcInputSignatureHash (Z.of_N i) (Z.of_N ht) (map Some ins) (map Some outs) ver lock legacy
  = sres_outcome (fst (calc_input_signature_hash (tx_of_go ins outs ver lock) i ht)).

Theorem C02_go_source_Tx_CalcInputSignatureHash_is_model : calc_input_signature_hash_statement.
Proof. exact Tx_CalcInputSignatureHash_is_model. Qed.
Print Assumptions C02_go_source_Tx_CalcInputSignatureHash_is_model.

Theorem C03_go_source_Tx_CalcInputSignatureHash_is_model : calc_input_signature_hash_statement.
Proof. exact Tx_CalcInputSignatureHash_is_model. Qed.
Print Assumptions C03_go_source_Tx_CalcInputSignatureHash_is_model.

Theorem C04_go_source_Tx_CalcInputSignatureHash_is_model : calc_input_signature_hash_statement.
Proof. exact Tx_CalcInputSignatureHash_is_model. Qed.
Print Assumptions C04_go_source_Tx_CalcInputSignatureHash_is_model.

Theorem C06_go_source_Tx_CalcInputSignatureHash_is_model : calc_input_signature_hash_statement.
Proof. exact Tx_CalcInputSignatureHash_is_model. Qed.
Print Assumptions C06_go_source_Tx_CalcInputSignatureHash_is_model.

Theorem C20_go_source_Tx_CalcInputSignatureHash_is_model : calc_input_signature_hash_statement.
Proof. exact Tx_CalcInputSignatureHash_is_model. Qed.
Print Assumptions C20_go_source_Tx_CalcInputSignatureHash_is_model.

(** hash types with the ForkID bit (every type BSV signs with): whatever the legacy function is *)
Theorem C02_go_source_Tx_CalcInputSignatureHash_forkid_is_model :
  forall (legacy : Z -> Z -> M (bytes * bool)) (ins : list go_Input) (outs : list go_Output) (ver lock : Z) (i ht : N),
  Forall go_input_ok ins -> len_ok ins -> Forall go_output_ok outs -> len_ok outs -> u32 ver -> u32 lock ->
  (i < 4294967296)%N -> (ht < 256)%N -> flag_has ht sh_forkid = true ->
  Tx_CalcInputSignatureHash (Z.of_N i) (Z.of_N ht) (map Some ins) (map Some outs) ver lock legacy
  = sres_outcome (fst (calc_input_signature_hash (tx_of_go ins outs ver lock) i ht)).
Proof. exact Tx_CalcInputSignatureHash_forkid_is_model. Qed.
Print Assumptions C02_go_source_Tx_CalcInputSignatureHash_forkid_is_model.

(** the hypothesis about the legacy function is satisfiable: the model's function itself *)
Example legacy_is_model_example (t : tx) :
  legacy_is_model (fun i ht => sres_outcome (fst (calc_input_preimage_legacy t (Z.to_N i) (Z.to_N ht)))) t.
Proof. intros i ht _ _. rewrite !N2Z.id. reflexivity. Qed.
