(** Export: the Go source of Flag.Has, as printed into gen/Funcs.v on every run, is the model function the
    property theorems are about (proofs/GenFuncs_Flag_Has.v).  Compiled only while gen/Funcs.status.json says the
    function is translated. *)
From Coq Require Import List ZArith NArith Bool.
From Coq Require Import Strings.Byte.
From GoBT Require Import lib.Bytes lib.GoSem gen.Funcs proofs.GenFuncsTac proofs.GenFuncs_Flag_Has.
Local Open Scope Z_scope.

Theorem C02_go_source_Flag_Has_is_model :
  forall f shf : N, (f < 256)%N -> (shf < 256)%N -> Flag_Has (Z.of_N f) (Z.of_N shf) = Val (GoBT.model.SigHash.flag_has f shf).
Proof. exact Flag_Has_is_model. Qed.
Print Assumptions C02_go_source_Flag_Has_is_model.

Theorem C03_go_source_Flag_Has_is_model :
  forall f shf : N, (f < 256)%N -> (shf < 256)%N -> Flag_Has (Z.of_N f) (Z.of_N shf) = Val (GoBT.model.SigHash.flag_has f shf).
Proof. exact Flag_Has_is_model. Qed.
Print Assumptions C03_go_source_Flag_Has_is_model.
