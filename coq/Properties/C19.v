(** C19 — Debugging is non-intrusive: same verdict, ordered callbacks, isolated snapshots.

    Model: model/Debug.v — the interpreter model of C05/C07 (model/Interp.v) instrumented, clause by clause,
    with the lifecycle callbacks of interpreter.Debugger (thread.execute / Step / shiftScript / Engine.Execute);
    grammar: spec/LifecycleSpec.v; proofs: proofs/DebugProofs.v.

    Property text vs. what is proved here (all statements: every pair of scripts, every flag word, every
    context, no size bound):
    - "attaching a debugger never changes the verdict"                    C19_debugger_irrelevant (+ snapshots);
                                                                          for EVERY debugger object:
                                                                          C19_any_debugger_same_run (below)
    - "callbacks fire in the documented lifecycle order"                  C19_trace_grammar, C19_trace_in_grammar,
                                                                          C19_trace_ends_with_verdict
    - "consecutive step snapshots are consistent with the instruction
       executed between them"                                             C19_as_count_is_snapshots,
                                                                          C19_snapshots_chain (per script),
                                                                          C19_whole_run_snapshots_chain
    - "changing stack data inside a snapshot has no effect"               in the model a debugger only receives
      values, so this is [C19_debugger_irrelevant]; that the Go snapshots really are deep copies is a run-time
      fact about thread.State(), decided on every run by the harness's scribbling debugger (PARTIAL: not a
      theorem).  The error TEXT and the stack push/pop callbacks are compared on the Go side only. *)
From Coq Require Import List NArith ZArith.
From Coq Require Import Strings.Byte.
From GoBT Require Import lib.Bytes model.ScriptNum model.Interp model.Debug model.DebugStack spec.LifecycleSpec
  proofs.InterpTotal proofs.DebugProofs.
Import ListNotations.

(** the instrumented run (the one that fires callbacks) returns the verdict and the AfterStep snapshots of
    the plain run, whatever the signature operations.  (Holds by construction of model/Debug.v: [engine_execute_dbg]
    is a second transcription of [engine_execute] that also collects events, and there is no debugger object in the
    model; the theorem checks the two transcriptions against each other.  That attaching a Go debugger -- State() at
    every hook, copies handed to callbacks -- changes nothing is carried by the correspondence: every program runs
    without, with a recording and with a scribbling debugger.) *)
Theorem C19_debugger_irrelevant : forall so i, fst (engine_execute_dbg so i) = engine_execute so i.
Proof. exact debugger_irrelevant. Qed.
Print Assumptions C19_debugger_irrelevant.

Theorem C19_debugger_irrelevant_verdict : forall so i,
  verdict_of (engine_execute_dbg so i) = fst (engine_execute so i).
Proof. exact debugger_irrelevant_verdict. Qed.
Print Assumptions C19_debugger_irrelevant_verdict.

(** the callback trace is accepted by the lifecycle automaton — or is empty, which happens only when the
    arguments are rejected before a thread exists *)
Theorem C19_trace_grammar : forall i,
  events_of (engine_execute_dbg no_sigops i) = [] \/
  lifecycle_ok (events_of (engine_execute_dbg no_sigops i)) = true.
Proof. intros i. apply trace_grammar. exact no_sigops_ok. Qed.
Print Assumptions C19_trace_grammar.

Theorem C19_trace_grammar_with_signatures : forall so i, sigops_ok so ->
  events_of (engine_execute_dbg so i) = [] \/ lifecycle_ok (events_of (engine_execute_dbg so i)) = true.
Proof. exact trace_grammar. Qed.
Print Assumptions C19_trace_grammar_with_signatures.

Theorem C19_empty_trace_is_rejection : forall so i,
  events_of (engine_execute_dbg so i) = [] -> engine_execute_dbg so i = (VErr, [], []).
Proof. exact empty_trace_is_rejection. Qed.
Print Assumptions C19_empty_trace_is_rejection.

(** the automaton accepts exactly the sentences of the documented grammar (spec/LifecycleSpec.v) ... *)
Theorem C19_automaton_is_the_grammar : forall tr, lifecycle_ok tr = true <-> lifecycle tr.
Proof. exact lifecycle_ok_iff. Qed.
Print Assumptions C19_automaton_is_the_grammar.

(** ... so every trace is a sentence of the grammar *)
Theorem C19_trace_in_grammar : forall so i, sigops_ok so ->
  events_of (engine_execute_dbg so i) = [] \/ lifecycle (events_of (engine_execute_dbg so i)).
Proof. exact trace_in_grammar. Qed.
Print Assumptions C19_trace_in_grammar.

(** the last callback is AfterSuccess iff the verdict is success *)
Theorem C19_trace_ends_with_verdict : forall so i,
  last (events_of (engine_execute_dbg so i)) BE = EOK <-> verdict_of (engine_execute_dbg so i) = VOk.
Proof. exact trace_ends_with_verdict. Qed.
Print Assumptions C19_trace_ends_with_verdict.

(** one snapshot per AfterStep *)
Theorem C19_as_count_is_snapshots : forall so i,
  count_AS (events_of (engine_execute_dbg so i)) = length (snapshots_of (engine_execute_dbg so i)).
Proof. exact as_count_is_snapshots. Qed.
Print Assumptions C19_as_count_is_snapshots.

(** within a script the snapshots are those of the states produced by consecutive instructions: the state
    the k-th AfterStep snapshot is taken of is the state [execute_opcode] of step k+1 starts from.  (Per script only:
    the relation across a script change -- alt stack dropped, P2SH restore -- is not stated here.) *)
Theorem C19_snapshots_chain : forall so c ops idx s acc,
  exists l, steps so c ops idx s l /\
            snd (fst (run_ops_dbg so c ops idx s acc)) = rev (map snap l) ++ acc.
Proof. exact run_ops_dbg_snapshots_chain. Qed.
Print Assumptions C19_snapshots_chain.

(** non-vacuity: traces of each shape occur *)
Example C19_success :
  engine_execute_dbg no_sigops (mkExecInput [x51] [x51; x87] 0 false false 0 0 0) =
  (VOk, [mkSnap [[x01]] []; mkSnap [[x01]; [x01]] []; mkSnap [[x01]] []],
   [BE; BS; BO; AO; BC; AC; AS; BS; BO; AO; AS; BS; BO; AO; BC; AC; AS; AE; EOK]).
Proof. vm_compute. reflexivity. Qed.
Example C19_false_result :
  events_of (engine_execute_dbg no_sigops (mkExecInput [x51] [x00] 0 false false 0 0 0)) =
  [BE; BS; BO; AO; BC; AC; AS; BS; BO; AO; BC; AC; AS; AE; EER].
Proof. vm_compute. reflexivity. Qed.
Example C19_opcode_error :
  events_of (engine_execute_dbg no_sigops (mkExecInput [x51] [x75; x75] 0 false false 0 0 0)) =
  [BE; BS; BO; AO; BC; AC; AS; BS; BO; AO; AS; BS; BO; AE; EER].
Proof. vm_compute. reflexivity. Qed.
Example C19_unbalanced_conditional :
  events_of (engine_execute_dbg no_sigops (mkExecInput [x51] [x63] 0 false false 0 0 0)) =
  [BE; BS; BO; AO; BC; AC; AS; BS; BO; AO; AE; EER].
Proof. vm_compute. reflexivity. Qed.
Example C19_early_return :
  events_of (engine_execute_dbg no_sigops (mkExecInput [x51] [x6a] 16384 false false 0 0 0)) =
  [BE; BS; BO; AO; BC; AC; AS; BS; BO; BC; AC; AS; AE; EOK].
Proof. vm_compute. reflexivity. Qed.
Example C19_early_return_into_empty_script :
  events_of (engine_execute_dbg no_sigops (mkExecInput [x51; x6a] [] 16384 false false 0 0 0)) =
  [BE; BS; BO; AO; AS; BS; BO; BC; AC; AS; AE; EOK].
Proof. vm_compute. reflexivity. Qed.
Example C19_rejected :
  engine_execute_dbg no_sigops (mkExecInput [] [] 0 false false 0 0 0) = (VErr, [], []).
Proof. vm_compute. reflexivity. Qed.
(** the automaton is not trivially true *)
Example C19_automaton_rejects :
  lifecycle_ok [BE; BS; BO; AO; AE; EOK] = false /\ lifecycle_ok [BE; AE; EOK] = false /\
  lifecycle_ok [BE; BS; AS; AE; EOK] = false /\ lifecycle_ok [BE; BS; BO; AO; AS; AE] = false /\
  lifecycle_ok [BS; BO; AO; AS; AE; EOK] = false /\ lifecycle_ok [BE; BS; BO; AO; AS; AE; EOK; EER] = false.
Proof. vm_compute. repeat split. Qed.

(** ** Stack push/pop callbacks.  The observed complete callback sequence of every run is checked inside Coq
    against the automaton of model/DebugStack.v (pairs BeforeStackPush/AfterStackPush and
    BeforeStackPop/AfterStackPop; only while an opcode runs, between the opcode and the script change, in the
    final check, and after a script change only in a pre-Genesis pay-to-script-hash run).  Acceptance there
    implies that the lifecycle part is a sentence of the documented grammar ...  (These three statements are about the
    ACCEPTOR only: the interpreter model produces no stack events, so that the full trace of a run is accepted is
    decided on the observed Go traces, corr/C19.v.) *)
Theorem C19_full_trace_refines_lifecycle : forall p2sh tr,
  full_lifecycle_ok p2sh tr = true -> lifecycle (project tr).
Proof. intros p2sh tr H. apply lifecycle_ok_iff. exact (full_ok_project p2sh tr H). Qed.
Print Assumptions C19_full_trace_refines_lifecycle.

(** ... and outside pay-to-script-hash no stack callback may fall between a script change (or the end of a step)
    and the next opcode *)
Theorem C19_no_stack_callback_after_script_change : forall tr1 e tr2 q,
  frun false (QStart, MNormal) tr1 = Some (q, MNormal) ->
  (q = QACe \/ q = QACr \/ q = QBCe \/ q = QBCr \/ q = QLoop \/ q = QBS \/ q = QBE) ->
  (e = FPush \/ e = FPop \/ e = FPopFail) -> full_lifecycle_ok false (tr1 ++ e :: tr2) = false.
Proof. exact no_stack_callback_after_script_change. Qed.
Print Assumptions C19_no_stack_callback_after_script_change.

(** ... and once the alt stack is being dropped at the end of a script the step cannot fail any more: whatever can
    fail it (stack size, unbalanced conditional) is checked before the stacks are touched, so a debugger never sees
    stack callbacks of a step between its AfterExecuteOpcode and an error *)
Theorem C19_no_failure_after_end_of_script_cleanup : forall p2sh tr1 tr2,
  frun p2sh (QStart, MNormal) tr1 = Some (QAO, MNormal) ->
  full_lifecycle_ok p2sh (tr1 ++ FPop :: FL AE :: tr2) = false.
Proof. exact no_failure_after_end_of_script_cleanup. Qed.
Print Assumptions C19_no_failure_after_end_of_script_cleanup.

(** * Audit B additions (proofs/AuditB_C19.v): snapshot isolation in the sharing model (model/Heap.v).
    State() copies: [copy_items] allocates a new array for every item.  A debugger that overwrites what it was handed
    can change only arrays above the heap that existed ([scribbled]); every slice inside that heap -- every live stack
    item, the caller's scripts -- reads the same bytes afterwards.  (About the heap model; that thread.State() does copy
    every item is the run-time fact decided by the scribbling debugger of the harness.) *)
From GoBT Require Import model.Heap proofs.HeapRefine proofs.AuditB_C19.

Theorem C19_scribbling_is_isolated : forall from h h' x,
  scribbled from h h' -> in_bounds (firstn from h) x = true -> rd h' x = rd h x.
Proof. exact scribbling_is_isolated. Qed.
Print Assumptions C19_scribbling_is_isolated.

Theorem C19_snapshot_is_a_copy : forall l h h2 ys, copy_items h l = (h2, ys) -> all_in h l ->
  extends h h2 /\ map (rd h2) ys = map (rd h) l /\ Forall (fun y => (length h <= sl_arr y)%nat) ys.
Proof. exact copy_items_spec. Qed.
Print Assumptions C19_snapshot_is_a_copy.

Theorem C19_snapshot_scribbling_leaves_live_items : forall h live h2 ys h',
  all_in h live -> copy_items h live = (h2, ys) -> scribbled (length h) h2 h' ->
  map (rd h') live = map (rd h) live.
Proof. exact snapshot_scribbling_leaves_live_items. Qed.
Print Assumptions C19_snapshot_scribbling_leaves_live_items.

(** a snapshot of two views of one array, then the copies overwritten: the live views are unchanged; had the "snapshot"
    been the live slices themselves, the same overwrite would have changed them *)
Example C19_isolation_example :
  let h := [[x01; x02; x03]] in let live := [mkSl 0 0 2; mkSl 0 1 2] in
  copy_items h live = ([[x01; x02; x03]; [x01; x02]; [x02; x03]], [mkSl 1 0 2; mkSl 2 0 2]) /\
  map (rd [[x01; x02; x03]; [xff; xff]; [xff; xff]]) live = [[x01; x02]; [x02; x03]] /\
  map (rd [[xff; xff; xff]]) live <> [[x01; x02]; [x02; x03]].
Proof. vm_compute. repeat split; try reflexivity. discriminate. Qed.

Example C19_full_traces :
  (* OP_1 | OP_1 OP_EQUAL: pushes inside opcodes, pops in OP_EQUAL and in the final check *)
  full_lifecycle_ok false [FL BE; FL BS; FL BO; FPush; FL AO; FL BC; FL AC; FL AS; FL BS; FL BO; FPush; FL AO; FL AS;
                           FL BS; FL BO; FPop; FPop; FPush; FL AO; FL BC; FL AC; FL AS; FL AE; FPop; FL EOK] = true /\
  (* the alt stack dropped AFTER the script change: refused ... *)
  full_lifecycle_ok false [FL BE; FL BS; FL BO; FPush; FL AO; FL BC; FL AC; FPop; FL AS; FL AE; FL EER] = false /\
  (* ... except as the bookkeeping of a pay-to-script-hash run *)
  full_lifecycle_ok true [FL BE; FL BS; FL BO; FPush; FL AO; FL BC; FL AC; FPop; FL AS; FL AE; FL EER] = true /\
  (* a pop from an empty stack: no after-callback, the step is interrupted *)
  full_lifecycle_ok false [FL BE; FL BS; FL BO; FPopFail; FL AE; FL EER] = true /\
  full_lifecycle_ok false [FL BE; FL BS; FL BO; FPopFail; FL AO; FL AS; FL AE; FL EER] = false /\
  (* a push between two steps *)
  full_lifecycle_ok false [FL BE; FL BS; FL BO; FL AO; FL AS; FPush; FL BS; FL BO; FL AE; FL EER] = false /\
  (* OP_1 | OP_5 OP_TOALTSTACK OP_IF: the script ends inside the conditional; the alt stack is NOT dropped first *)
  full_lifecycle_ok false [FL BE; FL BS; FL BO; FPush; FL AO; FL BC; FL AC; FL AS; FL BS; FL BO; FPush; FL AO; FL AS;
                           FL BS; FL BO; FPop; FPush; FL AO; FL AS; FL BS; FL BO; FPop; FL AO; FL AE; FL EER] = true /\
  full_lifecycle_ok false [FL BE; FL BS; FL BO; FPush; FL AO; FL BC; FL AC; FL AS; FL BS; FL BO; FPush; FL AO; FL AS;
                           FL BS; FL BO; FPop; FPush; FL AO; FL AS; FL BS; FL BO; FPop; FL AO; FPop; FL AE; FL EER] = false.
Proof. vm_compute. repeat split; reflexivity. Qed.

(** ** An explicit debugger object (audit B: was OPEN).
    [debugger D]: a value of ANY type D with one method, handed each callback with the snapshot of the machine state
    current at it and returning its new self.  [engine_execute_with] threads it through the run: the hooks are called where
    thread.go calls them, between the instructions, and the rest of the run is computed in the presence of the
    debugger's state.  For every D, every debugger and every initial debugger state the verdict and the AfterStep
    snapshots are those of the plain engine, and the debugger ends in the state obtained by showing it the trace
    [engine_trace] one callback after the other.  (After a FAILING instruction the Go state is partially updated and
    documented as undefined; the model shows the state the instruction started from: see model/Debug.v.) *)
From GoBT Require Import proofs.DebugWith proofs.SnapshotChain proofs.InterpLimits.

Theorem C19_any_debugger_same_run : forall (D : Type) (dbg : debugger D) (d0 : D) so i,
  fst (engine_execute_with dbg d0 so i) = engine_execute so i.
Proof. exact debugger_never_changes_the_run. Qed.
Print Assumptions C19_any_debugger_same_run.
Theorem C19_any_debugger_is_a_replay : forall (D : Type) (dbg : debugger D) (d0 : D) so i,
  engine_execute_with dbg d0 so i = (engine_execute so i, replay (on_event dbg) (engine_trace so i) d0).
Proof. exact engine_execute_with_spec. Qed.
Print Assumptions C19_any_debugger_is_a_replay.
Theorem C19_two_debuggers_same_run : forall (D1 D2 : Type) (g1 : debugger D1) (g2 : debugger D2) d1 d2 so i,
  fst (engine_execute_with g1 d1 so i) = fst (engine_execute_with g2 d2 so i).
Proof. exact two_debuggers_same_run. Qed.
Print Assumptions C19_two_debuggers_same_run.
(** the trace shown consists of the callbacks of the instrumented run, in order; the recording debugger sees all of it *)
Theorem C19_debugger_trace_events : forall so i, map fst (engine_trace so i) = events_of (engine_execute_dbg so i).
Proof. exact engine_trace_events. Qed.
Print Assumptions C19_debugger_trace_events.
Theorem C19_recorder_sees_the_trace : forall so i, snd (engine_execute_with recorder [] so i) = engine_trace so i.
Proof. exact recorder_sees_the_trace. Qed.
Print Assumptions C19_recorder_sees_the_trace.
(** the snapshots shown at the AfterStep callbacks are the AfterStep snapshots of [engine_execute] *)
Theorem C19_trace_afterstep_snapshots : forall so i,
  map snap (as_states (engine_states so i)) = snd (engine_execute so i).
Proof. exact engine_states_cover_snapshots. Qed.
Print Assumptions C19_trace_afterstep_snapshots.
(** a debugger that counts callbacks, and the recorder, on OP_1 | OP_1 OP_EQUAL *)
Example C19_debugger_examples :
  engine_execute_with (mkDebugger (fun n _ _ => S n)) 0 no_sigops (mkExecInput [x51] [x51; x87] 0 false false 0 0 0) =
    (engine_execute no_sigops (mkExecInput [x51] [x51; x87] 0 false false 0 0 0), 19) /\
  map fst (snd (engine_execute_with recorder [] no_sigops (mkExecInput [x51] [x51; x87] 0 false false 0 0 0))) =
    [BE; BS; BO; AO; BC; AC; AS; BS; BO; AO; AS; BS; BO; AO; BC; AC; AS; AE; EOK] /\
  map (fun es => List.length (sn_ds (snd es))) (snd (engine_execute_with recorder [] no_sigops (mkExecInput [x51] [x51; x87] 0 false false 0 0 0))) =
    [0; 0; 0; 1; 1; 1; 1; 1; 1; 2; 2; 2; 2; 1; 1; 1; 1; 1; 0].
Proof. vm_compute. repeat split; reflexivity. Qed.

(** ** The snapshots of a WHOLE run chain (audit B: was OPEN).
    The states the AfterStep snapshots are taken of form a path from the initial state: each comes from the previous
    one by one instruction ([L_step]), or by one instruction plus a script change -- alt stack dropped, per-script
    registers reset ([L_change]; the instruction may be an early OP_RETURN) -- and on entering a P2SH redeem script
    the data stack is replaced by the stack the unlocking script left ([saved_stack]) minus the redeem script
    ([L_p2sh]). *)
Theorem C19_whole_run_snapshots_chain : forall so c bip16 unlock lock,
  exists sts : list st,
    snd (execute so c bip16 unlock lock) = map snap sts /\
    path (link so c (saved_stack so c unlock)) (start_state unlock lock) sts.
Proof. exact execute_snapshots_chain. Qed.
Print Assumptions C19_whole_run_snapshots_chain.
Theorem C19_engine_snapshots_chain : forall so i,
  snd (engine_execute so i) = [] \/
  exists u l (sts : list st),
    parse_script (c_err_on_checksig (engine_ctx i)) (ei_unlock i) = Some u /\
    parse_script (c_err_on_checksig (engine_ctx i)) (ei_lock i) = Some l /\
    snd (engine_execute so i) = map snap sts /\
    path (link so (engine_ctx i) (saved_stack so (engine_ctx i) u)) (start_state u l) sts.
Proof. exact engine_snapshots_chain. Qed.
Print Assumptions C19_engine_snapshots_chain.

(** State inventory (tie, translator part): every Go struct the model of this property represents has, in the
    source as it is NOW (gen/Structs.v, regenerated on every run), exactly the fields - names, types, order - the
    model was written against (model/StateInventory.v).  New state in these objects (a memoised digest, a cached
    document, a remembered operand) is state the theorems above do not speak about: this is the obligation that
    stops checking then. *)
From GoBT Require gen.Structs model.StateInventory.
Theorem C19_state_inventory :
  forall k, In k (StateInventory.group_of StateInventory.pC19) ->
  exists f, StateInventory.lookup_gen gen.Structs.structs k = Some f /\ StateInventory.lookup_model k = Some f.
Proof. apply StateInventory.inventory_ok_spec. vm_compute. reflexivity. Qed.
Print Assumptions C19_state_inventory.

(** Package-level state (tie, translator part): in the source as it is NOW (gen/Globals.v) no package-level variable of
    the packages this property's code lives in can change after initialisation or is handed out by reference - the
    model's functions are functions of their arguments only (model/StateInventory.v). *)
From GoBT Require gen.Globals.
Theorem C19_no_mutable_package_state :
  forall g, In g gen.Globals.globals -> In (StateInventory.rg_pkg g) (StateInventory.packages_of StateInventory.pC19) ->
  StateInventory.rg_mutated g = false /\ StateInventory.rg_escapes g = false.
Proof. apply StateInventory.pkg_state_ok_spec. vm_compute. reflexivity. Qed.
Print Assumptions C19_no_mutable_package_state.

(** ** The PUBLIC debugger object, debug.NewDebugger (bscript/interpreter/debug/debugger.go) - was NOT MODELLED.
    model/DebugFanout.v: a record of 14 handler lists (the fields of the Go struct, in order), [attach] = the 14 Attach
    methods ([append] at the end of the list of that event), [dispatch] = the 14 methods the engine calls (one loop
    over the list of that event).  A handler is a function of the State it is shown (and the data, for the stack
    callbacks) and of the user state the closures share; it RETURNS what it leaves in the State object / the bytes of
    the data slice, because the Go loop hands the SAME [*State] pointer and the same [data] slice to every handler of
    one call: a handler that writes there is seen by the next handler of the same event (not by later events: every
    call of the engine builds a new State; not by the engine).  The options ([WithRewind]) do nothing.
    proofs/DebugFanoutProofs.v. *)
From GoBT Require Import model.DebugFanout proofs.DebugFanoutProofs.

(** (a) the object, whatever was attached to it, is a [debugger U]: the run with it attached returns verdict and
    snapshots of the plain engine ([C19_any_debugger_same_run]), and the user state ends where the method loops, run
    over the engine's callback trace, leave it ([C19_any_debugger_is_a_replay]) *)
Theorem C19_fanout_is_a_debugger : forall (U : Type) (d : fanout U) (u0 : U) so i,
  engine_execute_with (fan_debugger d) u0 so i =
  (engine_execute so i, fan_replay d (lifecycle_calls (engine_trace so i)) u0).
Proof. exact fanout_is_a_debugger. Qed.
Print Assumptions C19_fanout_is_a_debugger.
Theorem C19_fanout_never_changes_the_run : forall (U : Type) (rs : list (reg U)) rewind (u0 : U) so i,
  fst (engine_execute_with (fan_debugger (attach_all rs (new_debugger rewind))) u0 so i) = engine_execute so i.
Proof. exact fanout_never_changes_the_run. Qed.
Print Assumptions C19_fanout_never_changes_the_run.

(** (b) order.  One call of the method of event [e]: exactly the functions passed to the Attach method of [e], in the
    order of the Attach calls ... *)
Theorem C19_fanout_dispatch_registration_order : forall (U : Type) (rs : list (reg U)) rewind e sn data (u : U),
  dispatch e sn data (attach_all rs (new_debugger rewind)) u =
  snd (run_handlers (map reg_stf (filter (fun r => fevent_eqb (reg_event r) e) rs)) sn data u).
Proof. exact dispatch_registration_order. Qed.
Print Assumptions C19_fanout_dispatch_registration_order.
(** ... so with recording handlers (each writes its event and label) registered in the order [regs], the log of a run
    is, callback by callback of the engine's trace, the labels registered for THAT callback in registration order,
    each once ([expected_log]); handlers of other events are not run by that callback *)
Theorem C19_fanout_order : forall (L : Type) (regs : list (fevent * L)) so i,
  engine_execute_with (fan_debugger (recording_fanout regs)) [] so i =
  (engine_execute so i, expected_log regs (map hook_of (map fst (engine_trace so i)))).
Proof. exact fanout_order. Qed.
Print Assumptions C19_fanout_order.
(** for ANY sequence of calls of the 14 methods (stack callbacks included; this is what corr/C19.v evaluates on the
    observed sequence, whose lifecycle part is checked to be the model's trace) *)
Theorem C19_fanout_order_calls : forall (L : Type) (regs : list (fevent * L)) (tr : list fcall) u,
  fan_replay (recording_fanout regs) tr u = u ++ expected_log regs (map fc_event tr).
Proof. exact fanout_order_calls. Qed.
Print Assumptions C19_fanout_order_calls.
(** the part of the log written by the handlers of event [e]: their registration-order block, once per call of [e] *)
Theorem C19_fanout_once_per_occurrence : forall (L : Type) (regs : list (fevent * L)) events e,
  filter (fun el => fevent_eqb (fst el) e) (expected_log regs events) =
  concat (repeat (map (fun l => (e, l)) (labels_for e regs)) (count_event e events)).
Proof. exact expected_log_per_event. Qed.
Print Assumptions C19_fanout_once_per_occurrence.

(** (c) handlers do not influence each other - PROVIDED they only read what they are shown.  [rs]: handlers with a
    state of their own (the j-th registered owns slot j of [nat -> H]).  With all of them attached to one object,
    handler j ends where it ends when attached alone, which is where it gets when run on the calls of its own event
    shown what the engine handed out. *)
Theorem C19_fanout_compositional : forall (H : Type) (rs : list (reg H)) (u0 : nat -> H) so i j r,
  Forall reg_read_only rs -> nth_error rs j = Some r ->
  snd (engine_execute_with (fan_debugger (fanout_of rs)) u0 so i) j =
  snd (engine_execute_with (fan_debugger (fanout_alone j r)) u0 so i) j /\
  snd (engine_execute_with (fan_debugger (fanout_of rs)) u0 so i) j =
  own_replay r (lifecycle_calls (engine_trace so i)) (u0 j).
Proof. exact @fanout_compositional. Qed.
Print Assumptions C19_fanout_compositional.
Theorem C19_fanout_compositional_calls : forall (H : Type) (rs : list (reg H)) (tr : list fcall) (u0 : nat -> H) j r,
  Forall reg_read_only rs -> nth_error rs j = Some r ->
  fan_replay (fanout_of rs) tr u0 j = fan_replay (fanout_alone j r) tr u0 j /\
  fan_replay (fanout_of rs) tr u0 j = own_replay r tr (u0 j).
Proof. exact @fanout_compositional_calls. Qed.
Print Assumptions C19_fanout_compositional_calls.
(** WITHOUT the hypothesis the statement is false of the faithful model: the State object of one call is shared by the
    handlers of that call.  OP_1 | OP_1 OP_EQUAL; an AfterStep handler that empties the data stack of the State it is
    shown, registered before an AfterStep handler that only reads (writes down the depth of the data stack): the
    reader ends with [0;0;0], alone it ends with [1;2;1].  Reproduced on /repo (debug.NewDebugger, two AttachAfterStep):
    the second handler is shown the first one's scribbling.  The RUN is not affected (C19_fanout_never_changes_the_run):
    what is broken is the isolation of one handler's snapshot from another handler, not from the execution. *)
Theorem C19_fanout_compositional_refuted_with_a_writer :
  exists (rs : list (reg (list nat))) j r so i,
    nth_error rs j = Some r /\ reg_read_only r /\
    snd (engine_execute_with (fan_debugger (fanout_of rs)) (fun _ => []) so i) j <>
    snd (engine_execute_with (fan_debugger (fanout_alone j r)) (fun _ => []) so i) j.
Proof. exact fanout_compositional_refuted_with_a_writer. Qed.
Print Assumptions C19_fanout_compositional_refuted_with_a_writer.
Example C19_fanout_writer_seen_by_next_handler :
  snd (engine_execute_with (fan_debugger (fanout_of [wiper; depth_reader])) (fun _ => []) no_sigops eq_prog) 1 = [0; 0; 0]%nat /\
  snd (engine_execute_with (fan_debugger (fanout_alone 1 depth_reader)) (fun _ => []) no_sigops eq_prog) 1 = [1; 2; 1]%nat /\
  snd (engine_execute_with (fan_debugger (fanout_of [depth_reader; wiper])) (fun _ => []) no_sigops eq_prog) 0 = [1; 2; 1]%nat /\
  fst (engine_execute_with (fan_debugger (fanout_of [wiper; depth_reader])) (fun _ => []) no_sigops eq_prog) =
    engine_execute no_sigops eq_prog.
Proof. exact writer_seen_by_next_handler. Qed.
(** the options record is dropped *)
Theorem C19_fanout_ignores_rewind : forall (U : Type) r r', @new_debugger U r = @new_debugger U r'.
Proof. exact @new_debugger_ignores_rewind. Qed.

(** (d) OP_2 | OP_3 OP_ADD with two handlers on AfterStep (the data stack flattened / its depth in unary) and one on
    BeforeStackPush (the data about to be pushed), over the calls the engine makes (lifecycle part = the model's trace,
    stack callbacks where model/DebugStack.v accepts them, States and data as the Go engine shows them) *)
Example C19_fanout_example :
  filter (fun c => is_lifecycle (fc_event c)) add_calls = lifecycle_calls (engine_trace no_sigops add_prog) /\
  full_lifecycle_ok false [FL BE; FL BS; FL BO; FPush; FL AO; FL BC; FL AC; FL AS; FL BS; FL BO; FPush; FL AO; FL AS;
            FL BS; FL BO; FPop; FPop; FPush; FL AO; FL BC; FL AC; FL AS; FL AE; FPop; FL EOK] = true /\
  map fc_event add_calls =
    expand [FL BE; FL BS; FL BO; FPush; FL AO; FL BC; FL AC; FL AS; FL BS; FL BO; FPush; FL AO; FL AS;
            FL BS; FL BO; FPop; FPop; FPush; FL AO; FL BC; FL AC; FL AS; FL AE; FPop; FL EOK] /\
  fan_replay (fanout_of add_handlers) add_calls (fun _ => []) 0 = [[x02]; [x02; x03]; [x05]] /\
  fan_replay (fanout_of add_handlers) add_calls (fun _ => []) 1 = [[x02]; [x03]; [x05]] /\
  fan_replay (fanout_of add_handlers) add_calls (fun _ => []) 2 = [[x01]; [x01; x01]; [x01]] /\
  fst (fst (engine_execute_with (fan_debugger (fanout_of add_handlers)) (fun _ => []) no_sigops add_prog)) = VOk /\
  fan_replay (recording_fanout [(HAfterStep, 1%nat); (HBeforeStackPush, 0%nat); (HAfterStep, 0%nat)]) add_calls [] =
    [(HBeforeStackPush, 0%nat); (HAfterStep, 1%nat); (HAfterStep, 0%nat); (HBeforeStackPush, 0%nat); (HAfterStep, 1%nat);
     (HAfterStep, 0%nat); (HBeforeStackPush, 0%nat); (HAfterStep, 1%nat); (HAfterStep, 0%nat)].
Proof. vm_compute. repeat split; reflexivity. Qed.

(** * Round 8: what the stack callbacks are handed as their DATA argument (model/DebugStackData.v).
    The placement automaton above says where BeforeStackPush / AfterStackPush / BeforeStackPop / AfterStackPop occur;
    these statements are about the item and the two stacks they show.  As for the automaton they are about the
    instrumented two-stack machine written in the shape of stack.go's PushByteArray / PopByteArray ([irun]: any sequence
    of pushes and pops on either stack, changes of the stacks made without callbacks, lifecycle callbacks in between)
    and about the ACCEPTOR [data_ok]; that the real engine's stack events are accepted is decided on every run on the
    observed events (corr/C19.v check_data) and, for every program of the run, by the same predicate stated in Go. *)
From GoBT Require Import model.DebugStackData.

(** every event sequence of the machine is accepted: whatever is pushed or popped on whichever stack, from whatever
    contents, the item AfterStackPush reports is the item BeforeStackPush announced and the new top of the stack that
    grew; AfterStackPop reports the item the stack that shrank lost; a failed pop saw an empty stack and ends the run *)
Theorem C19_stack_callback_data_of_the_machine : forall ops st, data_ok (irun st ops) = true.
Proof. exact irun_data_ok. Qed.
Print Assumptions C19_stack_callback_data_of_the_machine.

(** the checker is the readable inductive specification *)
Theorem C19_stack_callback_data_checker_is_the_specification : forall tr, data_ok tr = true <-> DataOK tr.
Proof. exact data_ok_iff. Qed.
Print Assumptions C19_stack_callback_data_checker_is_the_specification.

(** what acceptance means for a push pair and a pop pair, spelled out on the two snapshots *)
Theorem C19_stack_callback_push_pair : forall b x a y r,
  data_ok (SBeforePush b x :: SAfterPush a y :: r) = true ->
  x = y /\ ((s_data a = y :: s_data b /\ s_alt a = s_alt b) \/ (s_alt a = y :: s_alt b /\ s_data a = s_data b)).
Proof. exact data_ok_push_pair. Qed.
Print Assumptions C19_stack_callback_push_pair.

Theorem C19_stack_callback_pop_pair : forall b a y r,
  data_ok (SBeforePop b :: SAfterPop a y :: r) = true ->
  (s_data b = y :: s_data a /\ s_alt a = s_alt b) \/ (s_alt b = y :: s_alt a /\ s_data a = s_data b).
Proof. exact data_ok_pop_pair. Qed.
Print Assumptions C19_stack_callback_pop_pair.

(** non-vacuity: OP_1 OP_7 then OP_TOALTSTACK (07 goes onto the alt stack while 01 stays on the data stack) is accepted;
    the same push with AfterStackPush handed the top of the DATA stack is refused *)
Example C19_stack_callback_data_examples :
  data_ok (irun (mkStacks [] []) [OMark; OPush WData [x01]; OMark; OPush WData [x07]; OMark; OPop WData; OPush WAlt [x07]; OMark;
                                   OPop WAlt; OMark; OPop WData; OMark]) = true /\
  data_ok [SBeforePush (mkStacks [[x01]] []) [x07]; SAfterPush (mkStacks [[x01]] [[x07]]) [x07]] = true /\
  data_ok [SBeforePush (mkStacks [[x01]] []) [x07]; SAfterPush (mkStacks [[x01]] [[x07]]) [x01]] = false /\
  data_ok [SBeforePop (mkStacks [[x07]; [x01]] []); SAfterPop (mkStacks [[x01]] []) [x01]] = false.
Proof. vm_compute. repeat split; reflexivity. Qed.
