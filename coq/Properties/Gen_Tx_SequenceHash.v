(** Export: the Go source of Tx.SequenceHash (txinput.go), as printed into gen/Funcs.v on every run, is the model function the
    property theorems are about (proofs/GenFuncs_Tx_SequenceHash.v).  Go values are related to the model's records by the
    abstraction functions of proofs/GenFuncsTxTac.v ([tx_of_go]); the hypotheses are the ranges of the Go types plus
    what the Go code itself needs in order not to panic (no nil element in Inputs).  TRUSTED mappings used (lib/GoTx.v):
    crypto.Sha256d of go-bk -> [sha256d].  Compiled only while gen/Funcs.status.json says the function is
    translated. *)
From Coq Require Import List ZArith NArith Bool.
From Coq Require Import Strings.Byte.
From GoBT Require Import lib.Bytes lib.GoSem lib.GoTx gen.Funcs proofs.GenFuncsTxTac proofs.GenFuncs_Tx_SequenceHash.
From GoBT Require Import model.Tx model.SigHash.
Import ListNotations.
Local Open Scope Z_scope.

Theorem C02_go_source_Tx_SequenceHash_is_model :
  forall (ins : list go_Input) (outs : list go_Output) (ver lock : Z), Forall go_input_ok ins -> len_ok ins ->
  Tx_SequenceHash (map Some ins) = Val (sequence_hash (tx_of_go ins outs ver lock)).
Proof. exact Tx_SequenceHash_is_model. Qed.
Print Assumptions C02_go_source_Tx_SequenceHash_is_model.

Theorem C03_go_source_Tx_SequenceHash_is_model :
  forall (ins : list go_Input) (outs : list go_Output) (ver lock : Z), Forall go_input_ok ins -> len_ok ins ->
  Tx_SequenceHash (map Some ins) = Val (sequence_hash (tx_of_go ins outs ver lock)).
Proof. exact Tx_SequenceHash_is_model. Qed.
Print Assumptions C03_go_source_Tx_SequenceHash_is_model.

