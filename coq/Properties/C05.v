(** C05 — Interpreter evaluates all non-signature opcodes exactly per BSV script rules.
    Model: model/ScriptNum.v, model/Interp.v.  Specification-level theorems about the building blocks
    (numbers, minimal encoding, shifts as big-endian bit strings, stack permutations, NUM2BIN/BIN2NUM),
    for all operands with no size bound; the model as a whole is validated against the node's own script
    vectors and tied to the Go code by the correspondence check. *)
From Coq Require Import List NArith ZArith.
From Coq Require Import Strings.Byte.
From GoBT Require Import lib.Bytes lib.Ripemd160 model.ScriptNum model.Interp model.CheckSig proofs.ScriptNumProofs proofs.ShiftProofs proofs.InterpTotal
  model.Tx proofs.CheckSigProofs proofs.MultisigProofs spec.VerifyScriptSpec proofs.VerifyRefine proofs.InterpLimits.
Import ListNotations.

(** script numbers: sign-magnitude little-endian, minimal *)
Theorem C05_num_dec_enc : forall z, num_dec (num_enc z) = z.
Proof. exact num_dec_enc. Qed.
Print Assumptions C05_num_dec_enc.
Theorem C05_num_enc_minimal : forall z, is_minimal (num_enc z) = true.
Proof. exact num_enc_minimal. Qed.
Print Assumptions C05_num_enc_minimal.
Theorem C05_num_enc_dec_minimal : forall b, is_minimal b = true -> num_enc (num_dec b) = b.
Proof. exact num_enc_dec_minimal. Qed.
Print Assumptions C05_num_enc_dec_minimal.
(** at EVERY length the sign is the top bit of the last byte and the magnitude is the remaining 8*len-1 bits read
    little-endian: there is no width in which the position 8*(len-1)+7 of the sign bit could wrap (33-byte, 8193-byte
    operands after Genesis) *)
Theorem C05_num_dec_sign_magnitude : forall body last,
  num_dec (body ++ [last]) =
  ((if hi_bit last then -1 else 1) * Z.of_N (le_dec body + 256 ^ N.of_nat (length body) * (b2n last mod 128)))%Z.
Proof. exact num_dec_snoc. Qed.
Print Assumptions C05_num_dec_sign_magnitude.
Example C05_long_number_examples :
  num_dec (x01 :: repeat x00 31 ++ [x80]) = (-1)%Z /\
  num_dec (repeat x00 31 ++ [x80; x80]) = (- 2 ^ 255)%Z /\
  num_enc (- 2 ^ 255 + 1) = repeat xff 31 ++ [xff] /\
  fst (engine_execute no_sigops (mkExecInput [] ([x21; x01] ++ repeat x00 31 ++ [x80; x8b; x00; x87]) 16384 false false 0 0 0)) = VOk.
Proof. vm_compute. repeat split; reflexivity. Qed.
(** the 4-byte operand / 5-byte result rule is a statement about magnitudes *)
Theorem C05_num_enc_length_bound : forall z (k : nat), (Z.abs z < 2 ^ (8 * Z.of_nat k - 1))%Z -> length (num_enc z) <= k.
Proof. exact num_enc_length_bound. Qed.
Print Assumptions C05_num_enc_length_bound.
(** truthiness: non-zero, with negative zero false *)
Theorem C05_as_bool_spec : forall b, as_bool b = negb (num_dec b =? 0)%Z.
Proof. exact as_bool_spec. Qed.
Print Assumptions C05_as_bool_spec.
(** OP_BIN2NUM computes the minimal encoding of the same number *)
Theorem C05_minimally_encode_spec : forall b, minimally_encode b = num_enc (num_dec b).
Proof. exact minimally_encode_spec. Qed.
Print Assumptions C05_minimally_encode_spec.
(** OP_NUM2BIN keeps the number and produces exactly n bytes; BIN2NUM undoes it.  (About the padding function on its
    own; the hypothesis [is_minimal b] is not needed -- proofs/ScriptNumProofs.num2bin_pad_spec_gen -- and the handler,
    with its range checks, is [C05_num2bin_handler] below.) *)
Theorem C05_num2bin_spec : forall b n, is_minimal b = true -> length b < n ->
  num_dec (num2bin_pad b n) = num_dec b /\ length (num2bin_pad b n) = n.
Proof. exact num2bin_pad_spec. Qed.
Print Assumptions C05_num2bin_spec.
Theorem C05_bin2num_num2bin : forall b n, is_minimal b = true -> length b < n -> minimally_encode (num2bin_pad b n) = b.
Proof. exact bin2num_num2bin. Qed.
Print Assumptions C05_bin2num_num2bin.
(** clamped conversions used by PICK/ROLL/CHECKMULTISIG counts *)
Theorem C05_to_int32_clamps : forall z,
  to_int32 z = (if z <? - 2 ^ 31 then - 2 ^ 31 else if 2 ^ 31 - 1 <? z then 2 ^ 31 - 1 else z)%Z /\
  (- 2 ^ 31 <= to_int32 z <= 2 ^ 31 - 1)%Z.
Proof. exact to_int32_clamps. Qed.
Print Assumptions C05_to_int32_clamps.

(** OP_LSHIFT / OP_RSHIFT: the operand read as a big-endian bit string of 8*len bits, shifted, same length;
    any length, any shift count *)
Theorem C05_lshift_spec : forall x n,
  be_dec (shl_bytes x n) = ((be_dec x * 2 ^ N.of_nat n) mod 2 ^ (8 * N.of_nat (length x)))%N /\
  length (shl_bytes x n) = length x.
Proof. intros. split; [apply shl_bytes_spec_total|apply shl_bytes_length]. Qed.
Print Assumptions C05_lshift_spec.
Theorem C05_rshift_spec : forall x n,
  be_dec (shr_bytes x n) = (be_dec x / 2 ^ N.of_nat n)%N /\ length (shr_bytes x n) = length x.
Proof. intros. split; [apply shr_bytes_spec_total|apply shr_bytes_length]. Qed.
Print Assumptions C05_rshift_spec.

(** stack opcodes are the permutations in their comments *)
Theorem C05_dup_n_spec : forall n d r, dup_n n d = Some r ->
  n <= length d /\ r = firstn n d ++ d /\ length r = n + length d /\ skipn n r = d.
Proof. exact dup_n_spec. Qed.
Print Assumptions C05_dup_n_spec.
Theorem C05_swap_n_spec : forall n d r, swap_n n d = Some r ->
  exists a b rest, d = a ++ b ++ rest /\ length a = n /\ length b = n /\
    r = b ++ a ++ rest /\ length r = length d /\ skipn (2 * n) r = skipn (2 * n) d.
Proof. exact swap_n_spec. Qed.
Print Assumptions C05_swap_n_spec.
Theorem C05_rot_n_spec : forall n d r, rot_n n d = Some r ->
  exists a b c rest, d = a ++ b ++ c ++ rest /\ length a = n /\ length b = n /\ length c = n /\
    r = c ++ a ++ b ++ rest /\ length r = length d /\ skipn (3 * n) r = skipn (3 * n) d.
Proof. exact rot_n_spec. Qed.
Print Assumptions C05_rot_n_spec.
Theorem C05_over_n_spec : forall n d r, over_n n d = Some r ->
  exists a b rest, d = a ++ b ++ rest /\ length a = n /\ length b = n /\
    r = b ++ a ++ b ++ rest /\ length r = n + length d /\ skipn n r = d.
Proof. exact over_n_spec. Qed.
Print Assumptions C05_over_n_spec.
Theorem C05_pick_n_spec : forall i d r, pick_n i d = Some r ->
  (0 <= i < lenZ d)%Z /\
  exists x, nth_error d (Z.to_nat i) = Some x /\ r = x :: d /\ length r = S (length d) /\ skipn 1 r = d.
Proof. exact pick_n_spec. Qed.
Print Assumptions C05_pick_n_spec.
Theorem C05_roll_n_spec : forall i d r, roll_n i d = Some r ->
  (0 <= i < lenZ d)%Z /\
  exists a x rest, d = a ++ x :: rest /\ length a = Z.to_nat i /\ r = x :: a ++ rest /\
    length r = length d /\ skipn (S (Z.to_nat i)) r = skipn (S (Z.to_nat i)) d.
Proof. exact roll_n_spec. Qed.
Print Assumptions C05_roll_n_spec.

(** flow control (only a bound on the DEPTH of the condition stack; WHICH opcodes execute is
    [C05_handler_runs_iff_all_branches_taken] below): the nesting of conditionals the interpreter tracks never exceeds what the parser counted,
    and a post-genesis top-level OP_RETURN ends the script successfully (pre-genesis: fails) *)
Theorem C05_cond_depth_tracks_parser : forall so c p idx s d,
  sigops_ok so -> p_real p = true -> (c_has_tx c = false -> (p_val p =? OP_CSV)%N = false) ->
  (lenZ (cond s) <= d)%Z ->
  forall s', (execute_opcode so c p idx s = OOk s' \/ execute_opcode so c p idx s = OReturn s') ->
             (lenZ (cond s') <= next_depth d (p_val p))%Z.
Proof. intros so c p idx s d H1 H2 H3 H4. exact (proj2 (execute_opcode_facts so c p idx s d H1 H2 H3 H4)). Qed.
Print Assumptions C05_cond_depth_tracks_parser.
Theorem C05_early_return_only_after_genesis : forall so c ops idx s acc s' acc',
  sigops_ok so -> run_ops so c ops idx s acc = (SReturn s', acc') -> after_genesis c = true /\ cond s' = [].
Proof. intros so c ops idx s acc s' acc' H. exact (run_ops_return so c H ops idx s acc s' acc'). Qed.
Print Assumptions C05_early_return_only_after_genesis.

(** ** Composition of the scripts: the verdict is the node's VerifyScript (spec/VerifyScriptSpec.v) — the
    unlocking script, the locking script and (pay-to-script-hash outputs created before Genesis only) the
    redeem script are each evaluated on the data stack the previous one left, with an alt stack, conditional
    state, opcode count and code-separator position of their own; a top-level OP_RETURN after Genesis ends
    one script successfully; zero-length scripts are skipped; the P2SH push-only rule and the redeem script
    apply before Genesis only.  (This statement was refuted by the model of the code as it stood: the alt stack
    survived an early return, a zero-length locking script after an early return was an error, and the
    push-only rule was applied after Genesis — three defects repaired in /repo.) *)
Theorem C05_verdict_is_verify_script : forall so i,
  sigops_ok so -> sigops_els_ok so -> fst (engine_execute so i) = verify_entry so i.
Proof. exact engine_execute_refines. Qed.
Print Assumptions C05_verdict_is_verify_script.

(** instances: without a transaction (signature opcodes rejected by the parser) and with the signature
    opcodes of model/CheckSig.v *)
Theorem C05_verdict_is_verify_script_plain : forall i, fst (engine_execute no_sigops i) = verify_entry no_sigops i.
Proof. intros i. apply engine_execute_refines; [exact no_sigops_ok|exact no_sigops_els_ok]. Qed.
Print Assumptions C05_verdict_is_verify_script_plain.
Theorem C05_verdict_is_verify_script_signatures : forall orc t i inp, tx_ctx_ok t i ->
  fst (engine_execute (mk_sigops orc t i) inp) = verify_entry (mk_sigops orc t i) inp.
Proof. exact engine_execute_refines_mk. Qed.
Print Assumptions C05_verdict_is_verify_script_signatures.

(** the alt stack does not survive a script boundary, whichever way the script ends; a zero-length locking
    script is skipped; after Genesis a P2SH-shaped output is an ordinary hash comparison *)
Example C05_script_boundaries :
  verify_entry no_sigops (mkExecInput [x51; x6b; x6a] [x6c] 16384 false false 0 0 0) = VErr /\
  verify_entry no_sigops (mkExecInput [x51; x6b] [x6c] 16384 false false 0 0 0) = VErr /\
  verify_entry no_sigops (mkExecInput [x51; x6a] [] 16384 false false 0 0 0) = VOk /\
  verify_entry no_sigops (mkExecInput [x61; x01; x51] ([xa9; x14] ++ hash160 [x51] ++ [x87]) 16385 false false 0 0 0) = VOk /\
  verify_entry no_sigops (mkExecInput [x61; x01; x51] ([xa9; x14] ++ hash160 [x51] ++ [x87]) 1 false false 0 0 0) = VErr /\
  verify_entry no_sigops (mkExecInput [x01; x51] ([xa9; x14] ++ hash160 [x51] ++ [x87]) 1 false false 0 0 0) = VOk.
Proof. vm_compute. repeat split; reflexivity. Qed.

(** the parser's "top level" is the run-time one: OP_VERIF / OP_VERNOTIF open nothing, so an OP_RETURN after a
    skipped OP_VERIF ... OP_ENDIF ends the script whatever bytes follow *)
Example C05_verif_opens_nothing :
  fst (engine_execute no_sigops (mkExecInput [x51] [x00; x63; x65; x68; x51; x6a; x4c] 16384 false false 0 0 0)) = VOk /\
  fst (engine_execute no_sigops (mkExecInput [x51] [x00; x63; x66; x68; x51; x6a; x02] 16384 false false 0 0 0)) = VOk /\
  fst (engine_execute no_sigops (mkExecInput [x51] [x00; x63; x63; x68; x51; x6a; x4c] 16384 false false 0 0 0)) = VErr.
Proof. vm_compute. repeat split; reflexivity. Qed.

(** ** Limits as an invariant over every execution: at every AfterStep snapshot of every run, in both eras, every
    element of the data and the alt stack is at most [max_elem] bytes long (520 before Genesis) and the two stacks
    together hold at most [max_stack] items (1000 before Genesis) — by induction over the opcodes executed, for
    every script pair, flag word and context, with no bound on the script length.  One opcode preserves the
    element bound (the interesting cases are the ones that create data: pushes, OP_CAT, OP_NUM2BIN, arithmetic on
    operands of at most [max_numlen] bytes, shifts and bitwise operations, hashes); the depth bound is what
    [run_ops] tests after every step. *)
Theorem C05_one_opcode_keeps_element_limit : forall so c p idx s s',
  sigops_sized so -> sized c s -> (depth s <= max_stack c)%Z ->
  execute_opcode so c p idx s = OOk s' \/ execute_opcode so c p idx s = OReturn s' -> sized c s'.
Proof. exact execute_opcode_sized. Qed.
Print Assumptions C05_one_opcode_keeps_element_limit.

Theorem C05_limits_hold_at_every_step : forall i,
  Forall (snap_ok (engine_ctx i)) (snd (engine_execute no_sigops i)).
Proof. exact engine_execute_limits_nosig. Qed.
Print Assumptions C05_limits_hold_at_every_step.

Theorem C05_limits_hold_at_every_step_signatures : forall orc t n i,
  Forall (snap_ok (engine_ctx i)) (snd (engine_execute (mk_sigops orc t n) i)).
Proof. exact engine_execute_limits_mk. Qed.
Print Assumptions C05_limits_hold_at_every_step_signatures.

Example C05_limit_examples :
  (* 260 + 260 bytes concatenate to a 520-byte element before Genesis; 300 + 300 do not; after Genesis they do *)
  fst (engine_execute no_sigops (mkExecInput [] ([x4d; x04; x01] ++ repeat x61 260 ++ [x4d; x04; x01] ++ repeat x62 260 ++ [x7e; x82; x75; x75; x51]) 0 false false 0 0 0)) = VOk /\
  fst (engine_execute no_sigops (mkExecInput [] ([x4d; x2c; x01] ++ repeat x61 300 ++ [x4d; x2c; x01] ++ repeat x62 300 ++ [x7e; x82; x75; x75; x51]) 0 false false 0 0 0)) = VErr /\
  fst (engine_execute no_sigops (mkExecInput [] ([x4d; x2c; x01] ++ repeat x61 300 ++ [x4d; x2c; x01] ++ repeat x62 300 ++ [x7e; x82; x75; x75; x51]) 16384 false false 0 0 0)) = VOk.
Proof. vm_compute. repeat split; reflexivity. Qed.

(** non-vacuity / sanity on concrete programs in both eras *)
Example C05_examples :
  fst (engine_execute no_sigops (mkExecInput [] [x02;x00;x01; x59; x98; x02;x02;x00; x87] 16384 false false 0 0 0)) = VOk /\
  fst (engine_execute no_sigops (mkExecInput [] [x05;x01;x02;x03;x04;x05; x8b] 0 false false 0 0 0)) = VErr /\
  fst (engine_execute no_sigops (mkExecInput [] [x05;x01;x02;x03;x04;x05; x8b] 16384 false false 0 0 0)) = VOk.
Proof. vm_compute. repeat split; reflexivity. Qed.

(** dispatch: lengths and handlers of all 256 opcodes, against the table regenerated from the Go source *)
From GoBT Require Import gen.OpTable proofs.DispatchProofs.
Theorem C05_dispatch_ok : forall v name len h, In (v, name, len, h) op_table ->
  len = op_length v /\ h = model_handler v.
Proof. exact dispatch_ok. Qed.
Print Assumptions C05_dispatch_ok.
Theorem C05_dispatch_table_complete : length op_table = 256 /\ values_ok op_table = true.
Proof. destruct dispatch_table_ok as (H1 & H2 & _). auto. Qed.
Print Assumptions C05_dispatch_table_complete.

(** era limits and flag bit positions against the constants regenerated from config.go / scriptflag.go *)
From GoBT Require Import gen.InterpConsts proofs.InterpConstsProofs.
From Coq Require Import String.
Local Open Scope string_scope.
Theorem C05_config_limits_match :
  lookup config_consts "MaxOpsBeforeGenesis" = Some (max_ops pre_genesis_ctx) /\
  lookup config_consts "MaxStackSizeBeforeGenesis" = Some (max_stack pre_genesis_ctx) /\
  lookup config_consts "MaxScriptSizeBeforeGenesis" = Some (max_script_size pre_genesis_ctx) /\
  lookup config_consts "MaxScriptElementSizeBeforeGenesis" = Some (max_elem pre_genesis_ctx) /\
  lookup config_consts "MaxScriptNumberLengthBeforeGenesis" = Some (max_numlen pre_genesis_ctx) /\
  lookup config_consts "MaxPubKeysPerMultiSigBeforeGenesis" = Some (max_pubkeys pre_genesis_ctx).
Proof. exact config_limits_match. Qed.
Print Assumptions C05_config_limits_match.

(** ... and so do the values the methods of BOTH era configurations return (the post-Genesis limits are literals inside
    method bodies: 750 * 1000 bytes for a number, math.MaxInt32 for the rest), evaluated by the translator on every run *)
Theorem C05_config_methods_match :
  after_genesis pre_genesis_ctx = false /\ after_genesis post_genesis_ctx = true /\
  lookup config_methods "beforeGenesisConfig.AfterGenesis" = Some 0%Z /\
  lookup config_methods "afterGenesisConfig.AfterGenesis" = Some 1%Z /\
  lookup config_methods "beforeGenesisConfig.MaxOps" = Some (max_ops pre_genesis_ctx) /\
  lookup config_methods "beforeGenesisConfig.MaxStackSize" = Some (max_stack pre_genesis_ctx) /\
  lookup config_methods "beforeGenesisConfig.MaxScriptSize" = Some (max_script_size pre_genesis_ctx) /\
  lookup config_methods "beforeGenesisConfig.MaxScriptElementSize" = Some (max_elem pre_genesis_ctx) /\
  lookup config_methods "beforeGenesisConfig.MaxScriptNumberLength" = Some (max_numlen pre_genesis_ctx) /\
  lookup config_methods "beforeGenesisConfig.MaxPubKeysPerMultiSig" = Some (max_pubkeys pre_genesis_ctx) /\
  lookup config_methods "afterGenesisConfig.MaxOps" = Some (max_ops post_genesis_ctx) /\
  lookup config_methods "afterGenesisConfig.MaxStackSize" = Some (max_stack post_genesis_ctx) /\
  lookup config_methods "afterGenesisConfig.MaxScriptSize" = Some (max_script_size post_genesis_ctx) /\
  lookup config_methods "afterGenesisConfig.MaxScriptElementSize" = Some (max_elem post_genesis_ctx) /\
  lookup config_methods "afterGenesisConfig.MaxScriptNumberLength" = Some (max_numlen post_genesis_ctx) /\
  lookup config_methods "afterGenesisConfig.MaxPubKeysPerMultiSig" = Some (max_pubkeys post_genesis_ctx).
Proof. exact config_methods_match. Qed.
Print Assumptions C05_config_methods_match.
Theorem C05_locktime_consts_match :
  lookup consensus_consts "LockTimeThreshold" = Some 500000000%Z /\
  lookup sequence_consts "MaxTxInSequenceNum" = Some 4294967295%Z /\
  lookup sequence_consts "SequenceLockTimeDisabled" = Some (2 ^ 31)%Z /\
  lookup sequence_consts "SequenceLockTimeIsSeconds" = Some 4194304%Z /\
  lookup sequence_consts "SequenceLockTimeMask" = Some 65535%Z /\
  (4194304 + 65535 = 4259839)%Z.
Proof. exact locktime_consts_match. Qed.
Print Assumptions C05_locktime_consts_match.

(** * Audit B additions (proofs/AuditB_C05.v)

    What is NOT claimed by theorems in this file, because the model already says it and a theorem would restate a
    definition: the arithmetic / comparison / bitwise / hash handlers (Z arithmetic on decoded numbers, bytewise
    maps, library hashes), MINIMALIF, DISCOURAGE_NOPS, the CLTV / CSV rule and the clean-stack rule are [if]s of
    model/Interp.v; those clauses are carried by the correspondence and by the node vectors evaluated on the model. *)
From GoBT Require Import proofs.AuditB_C05.

(** numeric operands, as a statement about magnitudes: the canonical encoding of z is admitted by the data stack as a
    number exactly when |z| < 2^(8*limit-1) -- |z| <= 2^31-1 before Genesis (4 bytes), 750000 bytes after; so a
    5-byte arithmetic result cannot be fed back before Genesis *)
Theorem C05_operand_admission : forall c z,
  pop_num c (num_enc z) = if (Z.abs z <? 2 ^ (8 * max_numlen c - 1))%Z then Some z else None.
Proof. exact pop_num_enc. Qed.
Print Assumptions C05_operand_admission.

(** the length of the canonical encoding, both directions *)
Theorem C05_num_enc_length_iff : forall z (k : nat), (1 <= k)%nat ->
  ((List.length (num_enc z) <= k)%nat <-> (Z.abs z < 2 ^ (8 * Z.of_nat k - 1))%Z).
Proof. exact num_enc_length_iff. Qed.
Print Assumptions C05_num_enc_length_iff.

(** conditional execution.  [cond_inv]: before Genesis everything pushed above an entry that is not TRUE is SKIP;
    after Genesis SKIP never occurs (a TRUE entry may then sit on a FALSE one).  Under it, the guard with which
    thread.executeOpcode lets a non-conditional opcode reach its handler -- top entry TRUE before Genesis, "no FALSE
    anywhere and no OP_RETURN met" after -- says: every enclosing branch is taken *)
Theorem C05_handler_runs_iff_all_branches_taken : forall c s v,
  cond_inv c s = true ->
  (branch_executing s && should_exec c s v =
   forallb is_true (cond s) && (negb (after_genesis c) || negb (early s) || (v =? OP_RETURN)%N))%bool.
Proof. exact handler_runs_iff_all_branches_taken. Qed.
Print Assumptions C05_handler_runs_iff_all_branches_taken.

(** the invariant holds at the start of every script, is kept by every step and hence along every script *)
Theorem C05_cond_invariant_initial : forall c ops d, cond_inv c (set_ds (init_st ops) d) = true.
Proof. exact cond_inv_init. Qed.
Print Assumptions C05_cond_invariant_initial.
Theorem C05_cond_invariant_step : forall so c p idx s s', sigops_ok so -> p_real p = true ->
  (c_has_tx c = false -> (p_val p =? OP_CSV)%N = false) ->
  cond_inv c s = true ->
  (execute_opcode so c p idx s = OOk s' \/ execute_opcode so c p idx s = OReturn s') -> cond_inv c s' = true.
Proof. exact cond_inv_step. Qed.
Print Assumptions C05_cond_invariant_step.
Theorem C05_cond_invariant_run : forall so c, sigops_ok so -> forall ops idx s acc,
  Forall (fun p => p_real p = true /\ (c_has_tx c = false -> (p_val p =? OP_CSV)%N = false)) ops ->
  cond_inv c s = true ->
  match fst (run_ops so c ops idx s acc) with
  | SEnd s' | SReturn s' => cond_inv c s' = true
  | SErr | SPanic => True
  end.
Proof. exact cond_inv_run. Qed.
Print Assumptions C05_cond_invariant_run.
Example C05_cond_invariant_examples :
  cond_wf_pre [COND_TRUE; COND_FALSE] = false /\ cond_wf_pre [COND_SKIP; COND_FALSE; COND_TRUE] = true /\
  cond_wf_post [COND_TRUE; COND_FALSE] = true /\ cond_wf_post [COND_SKIP] = false.
Proof. vm_compute. repeat split; reflexivity. Qed.

(** OP_NUM2BIN as executed: an error exactly when the size is above the element limit or too small for the number;
    otherwise the operand re-encoded minimally and padded to exactly n bytes, the number unchanged *)
Theorem C05_num2bin_handler : forall so c p idx s nb a r n,
  p_real p = true -> p_val p = OP_NUM2BIN -> ds s = nb :: a :: r -> pop_num c nb = Some n ->
  exec_handler so c p idx s =
    if ((max_elem c <? n)%Z || (n <? lenZ (num_enc (num_dec a)))%Z)%bool then OErr
    else OOk (set_ds s ((if (n =? lenZ (num_enc (num_dec a)))%Z then num_enc (num_dec a)
                         else num2bin_pad (num_enc (num_dec a)) (Z.to_nat n)) :: r)).
Proof. exact num2bin_handler_spec. Qed.
Print Assumptions C05_num2bin_handler.
Theorem C05_num2bin_result_meaning : forall so c p idx s nb a r n s',
  p_real p = true -> p_val p = OP_NUM2BIN -> ds s = nb :: a :: r -> pop_num c nb = Some n ->
  exec_handler so c p idx s = OOk s' ->
  exists x, ds s' = x :: r /\ lenZ x = n /\ num_dec x = num_dec a.
Proof. exact num2bin_result_meaning. Qed.
Print Assumptions C05_num2bin_result_meaning.

(** the reject side of the stack opcodes: a primitive fails exactly when the stack is too short / the index out of range *)
Theorem C05_dup_n_fails : forall n d, dup_n n d = None <-> (List.length d < n)%nat.
Proof. exact dup_n_none. Qed.
Print Assumptions C05_dup_n_fails.
Theorem C05_swap_n_fails : forall n d, swap_n n d = None <-> (List.length d < 2 * n)%nat.
Proof. exact swap_n_none. Qed.
Print Assumptions C05_swap_n_fails.
Theorem C05_rot_n_fails : forall n d, rot_n n d = None <-> (List.length d < 3 * n)%nat.
Proof. exact rot_n_none. Qed.
Print Assumptions C05_rot_n_fails.
Theorem C05_over_n_fails : forall n d, over_n n d = None <-> (List.length d < 2 * n)%nat.
Proof. exact over_n_none. Qed.
Print Assumptions C05_over_n_fails.
Theorem C05_pick_n_fails : forall i d, pick_n i d = None <-> (i < 0 \/ lenZ d <= i)%Z.
Proof. exact pick_n_none. Qed.
Print Assumptions C05_pick_n_fails.
Theorem C05_roll_n_fails : forall i d, roll_n i d = None <-> (i < 0 \/ lenZ d <= i)%Z.
Proof. exact roll_n_none. Qed.
Print Assumptions C05_roll_n_fails.

(** the sixteen flag bit positions of the model are those of scriptflag.go (regenerated on every run) *)
Theorem C05_flag_bits_match :
  (flag_bit_ok "Bip16" F_BIP16 && flag_bit_ok "StrictMultiSig" F_STRICTMULTISIG &&
  flag_bit_ok "DiscourageUpgradableNops" F_DISCOURAGE_NOPS && flag_bit_ok "VerifyCheckLockTimeVerify" F_CLTV &&
  flag_bit_ok "VerifyCheckSequenceVerify" F_CSV && flag_bit_ok "VerifyCleanStack" F_CLEANSTACK &&
  flag_bit_ok "VerifyDERSignatures" F_DERSIG && flag_bit_ok "VerifyLowS" F_LOWS &&
  flag_bit_ok "VerifyMinimalData" F_MINIMALDATA && flag_bit_ok "VerifyNullFail" F_NULLFAIL &&
  flag_bit_ok "VerifySigPushOnly" F_SIGPUSHONLY && flag_bit_ok "EnableSighashForkID" F_FORKID &&
  flag_bit_ok "VerifyStrictEncoding" F_STRICTENC && flag_bit_ok "VerifyBip143SigHash" F_BIP143 &&
  flag_bit_ok "UTXOAfterGenesis" F_GENESIS && flag_bit_ok "VerifyMinimalIf" F_MINIMALIF)%bool = true.
Proof. exact flag_bits_match. Qed.
Print Assumptions C05_flag_bits_match.

(** ** The operation count (audit B, clause 3: was OPEN)
    thread.executeOpcode counts every opcode above OP_16, executed or skipped, and fails when the count exceeds
    MaxOps; OP_CHECKMULTISIG adds the number of public keys under the same test; shiftScript resets the count. *)
From GoBT Require Import model.Debug proofs.OpCount proofs.AuditB_C05b proofs.RunInvariant proofs.SnapshotChain.

(** at EVERY state of a whole run -- the states current at all debugger callbacks of [engine_execute], from BeforeExecute
    to AfterSuccess / AfterError, all scripts, across script changes ([engine_states]; its AfterStep states are the ones
    the snapshots of [engine_execute] are taken of: [C05_whole_run_states_cover_snapshots]) -- the count is within the
    limit, for any signature operations that count what they add *)
Theorem C05_op_count_bounded_at_every_step : forall so i, sigops_counted so ->
  Forall (fun es => (nops (snd es) <= max_ops (engine_ctx i))%Z) (engine_states so i).
Proof. exact op_count_bounded_whole_run. Qed.
Print Assumptions C05_op_count_bounded_at_every_step.
(** without signature operations, and with the real ones (no condition on the oracle or the transaction) *)
Theorem C05_op_count_bounded_at_every_step_plain : forall i,
  Forall (fun es => (nops (snd es) <= max_ops (engine_ctx i))%Z) (engine_states no_sigops i).
Proof. exact op_count_bounded_whole_run_plain. Qed.
Print Assumptions C05_op_count_bounded_at_every_step_plain.
Theorem C05_op_count_bounded_at_every_step_signatures : forall orc t n i,
  Forall (fun es => (nops (snd es) <= max_ops (engine_ctx i))%Z) (engine_states (mk_sigops orc t n) i).
Proof. exact op_count_bounded_whole_run_mk. Qed.
Print Assumptions C05_op_count_bounded_at_every_step_signatures.
(** the real signature operations count what they add: OP_CHECKSIG nothing, OP_CHECKMULTISIG the number of keys, checked *)
Theorem C05_signature_opcodes_are_counted : forall orc t i, sigops_counted (mk_sigops orc t i).
Proof. exact mk_sigops_counted. Qed.
Print Assumptions C05_signature_opcodes_are_counted.
(** the trace the statement is about is the run: its AfterStep states are those of the snapshots of [engine_execute] *)
Theorem C05_whole_run_states_cover_snapshots : forall so i,
  map snap (as_states (engine_states so i)) = snd (engine_execute so i).
Proof. exact engine_states_cover_snapshots. Qed.
Print Assumptions C05_whole_run_states_cover_snapshots.
(** one instruction: pushes (up to OP_16) are free, every other opcode costs at least one, and the limit is kept *)
Theorem C05_op_count_one_instruction : forall so c p idx s s', sigops_counted so -> (nops s <= max_ops c)%Z ->
  (execute_opcode so c p idx s = OOk s' \/ execute_opcode so c p idx s = OReturn s') ->
  (nops s + (if (OP_16 <? p_val p)%N then 1 else 0) <= nops s' <= max_ops c)%Z.
Proof. exact execute_opcode_counts. Qed.
Print Assumptions C05_op_count_one_instruction.
(** along one script ([run_ops]): every state the script goes through, the last one included *)
Theorem C05_op_count_along_a_script : forall so c, sigops_counted so -> forall ops idx s,
  (nops s <= max_ops c)%Z -> Forall (fun s' => (nops s <= nops s' <= max_ops c)%Z) (run_states so c ops idx s).
Proof. exact run_states_counted. Qed.
Print Assumptions C05_op_count_along_a_script.
Theorem C05_run_states_is_the_run : forall so c ops idx s acc,
  match fst (run_ops so c ops idx s acc) with
  | SEnd s' | SReturn s' => s' = last (run_states so c ops idx s) s
  | SErr | SPanic => True
  end /\
  exists l, snd (run_ops so c ops idx s acc) = (rev (map snap l) ++ acc)%list /\ incl l (run_states so c ops idx s).
Proof. exact run_states_is_the_run. Qed.
Print Assumptions C05_run_states_is_the_run.
(** non-vacuity: before Genesis 500 OP_NOPs pass and the 501st fails; 600 pushes do not count; after Genesis 501 OP_NOPs pass *)
Example C05_op_count_examples :
  fst (engine_execute no_sigops (mkExecInput [x51] (repeat_byte 500 x61) 0 false false 0 0 0)) = VOk /\
  fst (engine_execute no_sigops (mkExecInput [x51] (repeat_byte 501 x61) 0 false false 0 0 0)) = VErr /\
  fst (engine_execute no_sigops (mkExecInput [x51] (repeat_byte 600 x51) 0 false false 0 0 0)) = VOk /\
  fst (engine_execute no_sigops (mkExecInput [x51] (repeat_byte 501 x61) 16384 false false 0 0 0)) = VOk.
Proof. vm_compute. repeat split; reflexivity. Qed.

(** ** A single OP_ELSE per conditional after Genesis (audit B, clause 4: was OPEN)
    opcodeIf / opcodeNotIf push a cleared flag on the else stack, opcodeElse pops it, fails if it was set and pushes it
    set.  Before Genesis the else stack is a no-op stack and OP_ELSE toggles the branch any number of times. *)
Theorem C05_second_else_is_an_error : forall so c p idx s er,
  after_genesis c = true -> p_real p = true -> p_val p = OP_ELSE -> els s = true :: er ->
  execute_opcode so c p idx s = OErr.
Proof. exact second_else_is_an_error. Qed.
Print Assumptions C05_second_else_is_an_error.
Theorem C05_first_else_sets_the_flag : forall so c p idx s s',
  after_genesis c = true -> p_real p = true -> p_val p = OP_ELSE ->
  execute_opcode so c p idx s = OOk s' ->
  exists t cr er, cond s = t :: cr /\ els s = false :: er /\ cond s' = toggle t :: cr /\ els s' = true :: er.
Proof. exact first_else_sets_the_flag. Qed.
Print Assumptions C05_first_else_sets_the_flag.
Theorem C05_else_else_is_an_error : forall so c p q idx idx' s s',
  after_genesis c = true -> p_real p = true -> p_val p = OP_ELSE -> p_real q = true -> p_val q = OP_ELSE ->
  execute_opcode so c p idx s = OOk s' -> execute_opcode so c q idx' s' = OErr.
Proof. exact else_else_is_an_error. Qed.
Print Assumptions C05_else_else_is_an_error.
Theorem C05_if_clears_the_flag : forall so c p idx s s',
  after_genesis c = true -> p_real p = true -> (p_val p = OP_IF \/ p_val p = OP_NOTIF) ->
  exec_handler so c p idx s = OOk s' -> exists er, els s' = false :: er.
Proof. exact if_clears_the_flag. Qed.
Print Assumptions C05_if_clears_the_flag.
Theorem C05_else_toggles_before_genesis : forall so c p idx s t cr,
  after_genesis c = false -> p_real p = true -> p_val p = OP_ELSE -> cond s = t :: cr ->
  exec_handler so c p idx s = OOk (set_cond s (toggle t :: cr) (els s)).
Proof. exact else_toggles_before_genesis. Qed.
Print Assumptions C05_else_toggles_before_genesis.
Theorem C05_else_else_before_genesis : forall so c p q idx idx' s t cr s',
  after_genesis c = false -> p_real p = true -> p_val p = OP_ELSE -> p_real q = true -> p_val q = OP_ELSE ->
  cond s = t :: cr -> exec_handler so c p idx s = OOk s' ->
  exists s'', exec_handler so c q idx' s' = OOk s'' /\ cond s'' = cond s /\ els s'' = els s.
Proof. exact else_else_before_genesis. Qed.
Print Assumptions C05_else_else_before_genesis.
(** the else-stack invariant: as deep as the condition stack after Genesis, empty before -- along one script ... *)
Theorem C05_else_stack_invariant_run : forall so c, sigops_ok so -> sigops_els_ok so ->
  forall ops idx s acc, els_inv c s ->
  match fst (run_ops so c ops idx s acc) with
  | SEnd s' | SReturn s' => els_inv c s'
  | SErr | SPanic => True
  end.
Proof. exact run_ops_inv. Qed.
Print Assumptions C05_else_stack_invariant_run.
(** ... and at every state of a whole run *)
Theorem C05_else_stack_invariant_at_every_step : forall so i, sigops_ok so -> sigops_els_ok so ->
  Forall (fun es => els_inv (engine_ctx i) (snd es)) (engine_states so i).
Proof. exact else_stack_invariant_whole_run. Qed.
Print Assumptions C05_else_stack_invariant_at_every_step.
Theorem C05_else_stack_invariant_at_every_step_plain : forall i,
  Forall (fun es => els_inv (engine_ctx i) (snd es)) (engine_states no_sigops i).
Proof. exact else_stack_invariant_whole_run_plain. Qed.
Print Assumptions C05_else_stack_invariant_at_every_step_plain.
Theorem C05_else_stack_invariant_at_every_step_signatures : forall orc t n i, tx_ctx_ok t n ->
  Forall (fun es => els_inv (engine_ctx i) (snd es)) (engine_states (mk_sigops orc t n) i).
Proof. exact else_stack_invariant_whole_run_mk. Qed.
Print Assumptions C05_else_stack_invariant_at_every_step_signatures.
(** OP_1 | OP_1 OP_IF OP_1 OP_ELSE OP_1 OP_ELSE OP_1 OP_ENDIF: accepted before Genesis, refused after *)
Example C05_single_else_examples :
  fst (engine_execute no_sigops (mkExecInput [x51] [x51; x63; x51; x67; x51; x67; x51; x68] 0 false false 0 0 0)) = VOk /\
  fst (engine_execute no_sigops (mkExecInput [x51] [x51; x63; x51; x67; x51; x67; x51; x68] 16384 false false 0 0 0)) = VErr /\
  fst (engine_execute no_sigops (mkExecInput [x51] [x51; x63; x51; x67; x51; x68] 16384 false false 0 0 0)) = VOk.
Proof. vm_compute. repeat split; reflexivity. Qed.

(** ** Minimal push (audit B, clause 5a: was OPEN): ParsedOpcode.enforceMinimumDataPush against the shortest-form rule
    of BIP62 written independently ([shortest_push_opcode]: empty -> OP_0; one byte 1..16 -> OP_1..OP_16; 0x81 ->
    OP_1NEGATE; up to 75 bytes -> the direct push of that length; up to 255 -> OP_PUSHDATA1; up to 65535 ->
    OP_PUSHDATA2; more -> OP_PUSHDATA4).  Above 65535 bytes the check accepts any opcode. *)
Theorem C05_minimal_push_iff : forall p,
  minimal_push_ok p = true <->
  (65535 < N.of_nat (List.length (p_data p)))%N \/ p_val p = shortest_push_opcode (p_data p).
Proof. exact minimal_push_ok_iff. Qed.
Print Assumptions C05_minimal_push_iff.
(** the check is applied to OP_0 .. OP_PUSHDATA4 only; for those a single byte 1..16 or 0x81 is never minimal *)
Theorem C05_small_number_pushed_as_data_is_not_minimal : forall p x,
  (p_val p <= OP_PUSHDATA4)%N -> p_data p = [x] ->
  ((1 <= b2n x <= 16)%N \/ b2n x = 129%N) -> minimal_push_ok p = false.
Proof. exact small_number_pushed_as_data_is_not_minimal. Qed.
Print Assumptions C05_small_number_pushed_as_data_is_not_minimal.
Theorem C05_minimal_push_unique : forall p q, p_data p = p_data q ->
  (N.of_nat (List.length (p_data p)) <= 65535)%N ->
  minimal_push_ok p = true -> minimal_push_ok q = true -> p_val p = p_val q.
Proof. exact minimal_push_unique. Qed.
Print Assumptions C05_minimal_push_unique.
(** with VerifyMinimalData: PUSHDATA1 of one byte refused, the direct push accepted, 0x05 as data refused, OP_5 accepted *)
Example C05_minimal_push_examples :
  fst (engine_execute no_sigops (mkExecInput [x4c; x01; x20] [x01; x20; x87] 256 false false 0 0 0)) = VErr /\
  fst (engine_execute no_sigops (mkExecInput [x01; x20] [x01; x20; x87] 256 false false 0 0 0)) = VOk /\
  fst (engine_execute no_sigops (mkExecInput [x01; x05] [x55; x87] 256 false false 0 0 0)) = VErr /\
  fst (engine_execute no_sigops (mkExecInput [x55] [x55; x87] 256 false false 0 0 0)) = VOk /\
  fst (engine_execute no_sigops (mkExecInput [x01; x05] [x55; x87] 0 false false 0 0 0)) = VOk.
Proof. vm_compute. repeat split; reflexivity. Qed.

(** State inventory (tie, translator part): every Go struct the model of this property represents has, in the
    source as it is NOW (gen/Structs.v, regenerated on every run), exactly the fields - names, types, order - the
    model was written against (model/StateInventory.v).  New state in these objects (a memoised digest, a cached
    document, a remembered operand) is state the theorems above do not speak about: this is the obligation that
    stops checking then. *)
From GoBT Require gen.Structs model.StateInventory.
Theorem C05_state_inventory :
  forall k, In k (StateInventory.group_of StateInventory.pC05) ->
  exists f, StateInventory.lookup_gen gen.Structs.structs k = Some f /\ StateInventory.lookup_model k = Some f.
Proof. apply StateInventory.inventory_ok_spec. vm_compute. reflexivity. Qed.
Print Assumptions C05_state_inventory.

(** Package-level state (tie, translator part): in the source as it is NOW (gen/Globals.v) no package-level variable of
    the packages this property's code lives in can change after initialisation or is handed out by reference - the
    model's functions are functions of their arguments only (model/StateInventory.v). *)
From GoBT Require gen.Globals.
Theorem C05_no_mutable_package_state :
  forall g, In g gen.Globals.globals -> In (StateInventory.rg_pkg g) (StateInventory.packages_of StateInventory.pC05) ->
  StateInventory.rg_mutated g = false /\ StateInventory.rg_escapes g = false.
Proof. apply StateInventory.pkg_state_ok_spec. vm_compute. reflexivity. Qed.
Print Assumptions C05_no_mutable_package_state.

(** Lock-time opcodes (round 8): with their flag, before Genesis and with a transaction, OP_CHECKLOCKTIMEVERIFY and
    OP_CHECKSEQUENCEVERIFY are exactly BIP65 / BIP112 as stated over the integers (spec/LockTimeSpec.v) - for EVERY lock
    time, version and sequence number (the whole unsigned 32-bit range: no field is read through a narrower or a
    signed type) and every operand of up to five bytes (nothing is truncated to 32 bits before it is compared);
    otherwise they are upgradable NOPs. *)
From GoBT Require spec.LockTimeSpec proofs.LockTimeProofs model.FlagOptions.
Theorem C05_cltv_is_bip65 : forall so c p idx s t rest,
  p_real p = true -> p_val p = OP_CLTV -> ds s = t :: rest ->
  has_flag c F_CLTV = true -> after_genesis c = false -> c_has_tx c = true ->
  exec_handler so c p idx s =
    match make_num t 5 (has_flag c F_MINIMALDATA) with
    | NumOk z => if LockTimeSpec.bip65_ok (c_tx_lock c) (c_in_seq c) z then OOk s else OErr
    | _ => OErr
    end.
Proof. exact LockTimeProofs.cltv_is_bip65. Qed.
Print Assumptions C05_cltv_is_bip65.
Theorem C05_csv_is_bip112 : forall so c p idx s t rest,
  p_real p = true -> p_val p = OP_CSV -> ds s = t :: rest ->
  has_flag c F_CSV = true -> after_genesis c = false -> c_has_tx c = true ->
  exec_handler so c p idx s =
    match make_num t 5 (has_flag c F_MINIMALDATA) with
    | NumOk z => if LockTimeSpec.bip112_ok (c_tx_version c) (c_in_seq c) z then OOk s else OErr
    | _ => OErr
    end.
Proof. exact LockTimeProofs.csv_is_bip112. Qed.
Print Assumptions C05_csv_is_bip112.
Theorem C05_locktime_operand_is_not_narrowed : forall t m z,
  make_num t 5 m = NumOk z -> (- 2 ^ 39 < z < 2 ^ 39)%Z /\ to_int64 z = z.
Proof. intros t m z H. split; [exact (LockTimeProofs.make_num_5_bound t m z H)|exact (LockTimeProofs.operand_to_int64 t m z H)]. Qed.
Print Assumptions C05_locktime_operand_is_not_narrowed.
Theorem C05_cltv_csv_are_nops_otherwise : forall so c p idx s,
  p_real p = true ->
  (p_val p = OP_CLTV /\ (has_flag c F_CLTV = false \/ after_genesis c = true)) \/
  (p_val p = OP_CSV /\ (has_flag c F_CSV = false \/ after_genesis c = true)) ->
  exec_handler so c p idx s = if has_flag c F_DISCOURAGE_NOPS then OErr else OOk s.
Proof. exact LockTimeProofs.cltv_csv_are_nops_otherwise. Qed.
Print Assumptions C05_cltv_csv_are_nops_otherwise.
(** the hypotheses are satisfiable and the wide values matter: a 5-byte operand 2^32+100 against lock time 100 is
    refused, version 2^31 is "at least 2" (whole engine, CLTV flag 8 / CSV flag 16) *)
Example C05_locktime_examples :
  fst (engine_execute no_sigops (mkExecInput [x51] [x05; x64; x00; x00; x00; x01; xb1] 8 true true 100 1 0)) = VErr /\
  fst (engine_execute no_sigops (mkExecInput [x51] [x01; x64; xb1] 8 true true 100 1 0)) = VOk /\
  fst (engine_execute no_sigops (mkExecInput [x51] [x55; xb2] 16 true true 0 2147483648 10)) = VOk /\
  fst (engine_execute no_sigops (mkExecInput [x51] [x55; xb2] 16 true true 0 4294967295 10)) = VOk /\
  fst (engine_execute no_sigops (mkExecInput [x51] [x55; xb2] 16 true true 0 1 10)) = VErr.
Proof. vm_compute. repeat split; reflexivity. Qed.

(** The flag set of an execution (round 8): Engine.Execute applies its options in order to a zero flag word and every
    flag-carrying option (WithFlags, WithAfterGenesis, WithForkID, WithP2SH) ORs its word in (model/FlagOptions.v).
    A flag is in force exactly when some option names it - no later option drops what an earlier one set; the order,
    repetitions and the way the set is cut into words are immaterial; lists naming the same flags run every program
    identically. *)
Theorem C05_flag_in_force_iff_some_option_names_it : forall l n,
  N.testbit (FlagOptions.flags_of_options l) n = existsb (FlagOptions.names_flag n) l.
Proof. exact FlagOptions.flags_of_options_testbit. Qed.
Print Assumptions C05_flag_in_force_iff_some_option_names_it.
Theorem C05_flag_options_order_is_immaterial : forall l l',
  Permutation.Permutation l l' -> FlagOptions.flags_of_options l = FlagOptions.flags_of_options l'.
Proof. exact FlagOptions.flags_of_options_perm. Qed.
Print Assumptions C05_flag_options_order_is_immaterial.
Theorem C05_flag_options_concatenate_as_union : forall a b,
  FlagOptions.flags_of_options (a ++ b) = N.lor (FlagOptions.flags_of_options a) (FlagOptions.flags_of_options b).
Proof. exact FlagOptions.flags_of_options_app. Qed.
Print Assumptions C05_flag_options_concatenate_as_union.
Theorem C05_option_lists_naming_the_same_flags_run_alike : forall so l l' i,
  (forall n, existsb (FlagOptions.names_flag n) l = existsb (FlagOptions.names_flag n) l') ->
  FlagOptions.engine_execute_opts so l i = FlagOptions.engine_execute_opts so l' i.
Proof. exact FlagOptions.options_same_names_same_run. Qed.
Print Assumptions C05_option_lists_naming_the_same_flags_run_alike.
Theorem C05_option_list_runs_as_its_union : forall so l w i,
  FlagOptions.flags_of_options l = w ->
  FlagOptions.engine_execute_opts so l i = engine_execute so (FlagOptions.with_flags i w).
Proof. exact FlagOptions.options_run_as_their_union. Qed.
Print Assumptions C05_option_list_runs_as_its_union.
(** WithAfterGenesis() followed by WithFlags(MINIMALDATA): 'OP_1 | OP_RETURN' is accepted (the era flag is still in
    force), and the non-minimal push 01 05 is refused (so is the later flag) *)
Example C05_flag_option_examples :
  FlagOptions.flags_of_options [FlagOptions.OptAfterGenesis; FlagOptions.OptFlags 256] = 16640%N /\
  FlagOptions.flags_of_options [FlagOptions.OptFlags 256; FlagOptions.OptAfterGenesis] = 16640%N /\
  fst (FlagOptions.engine_execute_opts no_sigops [FlagOptions.OptAfterGenesis; FlagOptions.OptFlags 256]
         (mkExecInput [x51] [x6a] 0 false false 0 0 0)) = VOk /\
  fst (FlagOptions.engine_execute_opts no_sigops [FlagOptions.OptFlags 256; FlagOptions.OptFlags 16384]
         (mkExecInput [x01; x05] [x6a] 0 false false 0 0 0)) = VErr.
Proof. vm_compute. repeat split; reflexivity. Qed.
