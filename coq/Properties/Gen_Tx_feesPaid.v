(** Export: the Go source of Tx.feesPaid (tx.go), as printed into gen/Funcs.v on every run, is the model function the
    property theorems are about (proofs/GenFuncs_Tx_feesPaid.v).  Go values are related to the model's records by the
    abstraction functions of proofs/GenFuncsTxTac.v ([tx_of_go]) and proofs/GenFuncs_Tx_feesPaid.v ([quote_of_go],
    [size_of_go]); the hypotheses are the ranges of the Go types plus what the Go code itself needs in order not to
    panic (a non-nil size; the quote is the two Fee pointers its map holds, nil = no such fee type -- FeeQuote.Fee is a TRUSTED mapping, lib/GoTx.go_quote_fee, and a nil FeeQuote pointer is outside).  Compiled only while gen/Funcs.status.json says the function is translated. *)
From Coq Require Import List ZArith NArith Bool.
From Coq Require Import Strings.Byte.
From GoBT Require Import lib.Bytes lib.GoSem lib.GoTx gen.Funcs proofs.GenFuncsTxTac proofs.GenFuncs_Tx_feesPaid.
From GoBT Require Import model.Tx model.Fees spec.FeeSpec.
Import ListNotations.
Local Open Scope Z_scope.

(** fees, ErrFeeTypeNotFound and the integer-divide panic on a zero Bytes field all agree; the products wrap in uint64 in both *)
Theorem C11_go_source_Tx_feesPaid_is_model :
  forall (sz : go_TxSize) (std data : option go_Fee), go_size_ok sz ->
  Tx_feesPaid (Some sz) std data = fees_result (fees_paid (size_of_go sz) (quote_of_go std data)).
Proof. exact Tx_feesPaid_is_model. Qed.
Print Assumptions C11_go_source_Tx_feesPaid_is_model.

Theorem C10_go_source_Tx_feesPaid_is_model :
  forall (sz : go_TxSize) (std data : option go_Fee), go_size_ok sz ->
  Tx_feesPaid (Some sz) std data = fees_result (fees_paid (size_of_go sz) (quote_of_go std data)).
Proof. exact Tx_feesPaid_is_model. Qed.
Print Assumptions C10_go_source_Tx_feesPaid_is_model.

