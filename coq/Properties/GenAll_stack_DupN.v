(** Export: the Go source of stack.DupN, as printed into gen/Funcs.v on every run, has for EVERY argument n the meaning of the
    list-level operation (proofs/GenFuncs_stack_DupN_all_n.v; the statement for the arguments the handlers use is
    Properties/Gen_stack_DupN.v).  Compiled only while gen/Funcs.status.json says the function is translated. *)
From Coq Require Import List ZArith NArith Bool.
From Coq Require Import Strings.Byte.
From GoBT Require Import lib.Bytes lib.GoSem lib.GoInterp gen.Funcs proofs.GenFuncsTac proofs.GenFuncsInterpTac proofs.GenFuncs_stack_DupN_all_n.
From GoBT Require model.Interp model.ScriptNum .
Import ListNotations.
Local Open Scope Z_scope.

Theorem C05_go_source_stack_DupN_is_spec_all_n : forall (n : Z) (d : list bytes), Interp.lenZ d < 2147483648 -> in31 n ->
  Interp.lenZ d + n < 2147483648 \/ Interp.lenZ d < n ->
  st_view (stack_DupN n (rev d)) = Val (if n <? 1 then None else Interp.dup_n (Z.to_nat n) d).
Proof. exact stack_DupN_all_n. Qed.
Print Assumptions C05_go_source_stack_DupN_is_spec_all_n.

Theorem C05_go_source_stack_DupN_is_spec_all_n_small : forall (n : Z) (d : list bytes), Interp.lenZ d < 1073741824 -> in31 n ->
  st_view (stack_DupN n (rev d)) = Val (if n <? 1 then None else Interp.dup_n (Z.to_nat n) d).
Proof. exact stack_DupN_all_n_small. Qed.

(** the instances the handlers use (OP_DUP, OP_2DUP, OP_3DUP), derived *)
Theorem C05_go_source_stack_DupN_is_spec_handlers : forall (n : Z) (d : list bytes), small d -> n = 1 \/ n = 2 \/ n = 3 ->
  st_view (stack_DupN n (rev d)) = Val (Interp.dup_n (Z.to_nat n) d).
Proof. exact stack_DupN_handlers. Qed.

Example C05_go_source_stack_DupN_all_n_example :
  st_view (stack_DupN 4 (rev [[x01]; [x02]; [x03]; [x04]; [x05]])) = Val (Some [[x01]; [x02]; [x03]; [x04]; [x01]; [x02]; [x03]; [x04]; [x05]]) /\
  st_view (stack_DupN 4 (rev [[x01]; [x02]; [x03]])) = Val None.
Proof. vm_compute. repeat split. Qed.
