(** Export: the Go source of verifyLockTime, as printed into gen/Funcs.v on every run, is the model function the
    property theorems are about (proofs/GenFuncs_verifyLockTime.v).  Compiled only while gen/Funcs.status.json says the
    function is translated. *)
From Coq Require Import List ZArith NArith Bool.
From Coq Require Import Strings.Byte.
From GoBT Require Import lib.Bytes lib.GoSem gen.Funcs proofs.GenFuncsTac proofs.GenFuncs_verifyLockTime.
Local Open Scope Z_scope.

Theorem C05_go_source_verifyLockTime_is_model :
  forall txLockTime threshold lockTime : Z,
  verifyLockTime txLockTime threshold lockTime = Val (negb (GoBT.model.Interp.verify_locktime txLockTime threshold lockTime)).
Proof. exact verifyLockTime_is_model. Qed.
Print Assumptions C05_go_source_verifyLockTime_is_model.
