(** Export: the Go source of bscript.MinPushSize, as printed into gen/Funcs.v on every run, is the model function the
    property theorems are about (proofs/GenFuncs_MinPushSize.v).  Compiled only while gen/Funcs.status.json says the
    function is translated. *)
From Coq Require Import List ZArith NArith Bool.
From Coq Require Import Strings.Byte.
From GoBT Require Import lib.Bytes lib.GoSem gen.Funcs proofs.GenFuncsTac proofs.GenFuncs_MinPushSize.
Local Open Scope Z_scope.

Theorem C13_go_source_MinPushSize_is_model :
  forall bb : bytes, (lenN bb < 9223372036854775808)%N -> MinPushSize bb = Val (Z.of_N (GoBT.model.Push.min_push_size bb)).
Proof. exact MinPushSize_is_model. Qed.
Print Assumptions C13_go_source_MinPushSize_is_model.
