(** Export: the Go source of stack.RotN, as printed into gen/Funcs.v on every run, has for EVERY argument n the meaning of the
    list-level operation (proofs/GenFuncs_stack_RotN_all_n.v; the statement for the arguments the handlers use is
    Properties/Gen_stack_RotN.v).  Compiled only while gen/Funcs.status.json says the function is translated. *)
From Coq Require Import List ZArith NArith Bool.
From Coq Require Import Strings.Byte.
From GoBT Require Import lib.Bytes lib.GoSem lib.GoInterp gen.Funcs proofs.GenFuncsTac proofs.GenFuncsInterpTac proofs.GenFuncs_stack_RotN_all_n.
From GoBT Require model.Interp model.ScriptNum .
Import ListNotations.
Local Open Scope Z_scope.

Theorem C05_go_source_stack_RotN_is_spec_all_n : forall (n : Z) (d : list bytes), small d -> in31 n -> 3 * n < 4294967296 ->
  st_view (stack_RotN n (rev d)) = Val (if n <? 1 then None else Interp.rot_n (Z.to_nat n) d).
Proof. exact stack_RotN_all_n. Qed.
Print Assumptions C05_go_source_stack_RotN_is_spec_all_n.

(** the instances the handlers use (OP_ROT, OP_2ROT), derived *)
Theorem C05_go_source_stack_RotN_is_spec_handlers : forall (n : Z) (d : list bytes), small d -> n = 1 \/ n = 2 ->
  st_view (stack_RotN n (rev d)) = Val (Interp.rot_n (Z.to_nat n) d).
Proof. exact stack_RotN_handlers. Qed.

Example C05_go_source_stack_RotN_all_n_example :
  st_view (stack_RotN 3 (rev [[x01]; [x02]; [x03]; [x04]; [x05]; [x06]; [x07]; [x08]; [x09]; [x0a]])) =
    Val (Some [[x07]; [x08]; [x09]; [x01]; [x02]; [x03]; [x04]; [x05]; [x06]; [x0a]]) /\
  st_view (stack_RotN 3 (rev [[x01]; [x02]; [x03]; [x04]; [x05]; [x06]; [x07]; [x08]])) = Val None.
Proof. vm_compute. repeat split. Qed.
