(** C17 — BIP276 text encoding round-trips and follows the specified layout.
    Only statements, [exact], [Print Assumptions] and non-vacuity examples.
    Model: model/Bip276.v; specification of the layout: spec/Bip276Spec.v; proofs: proofs/Bip276Proofs.v. *)
From Coq Require Import String Ascii List NArith ZArith.
From Coq Require Import Strings.Byte.
From GoBT Require Import lib.Bytes lib.Hex lib.Str lib.Sha256 model.Bip276 spec.Bip276Spec proofs.Bip276Proofs proofs.AuditD17.
Import ListNotations.
Local Open Scope string_scope.

(** Round trip, for EVERY non-empty prefix without a newline character (the property only names
    bitcoin-script / bitcoin-template; the prefix may contain colons and arbitrary bytes), every
    version and network in 1..255 and every payload. Both hypotheses on the prefix are necessary:
    see [C17_roundtrip_needs_prefix] and the example at the end. *)
Theorem C17_bip276_roundtrip : forall p v n d,
  p <> "" -> no_newline p = true -> (1 <= v <= 255)%Z -> (1 <= n <= 255)%Z ->
  decode_bip276 (encode_bip276 (mkBip276 p v n d)) = DOk (mkBip276 p v n d).
Proof. exact bip276_roundtrip_lemma. Qed.
Print Assumptions C17_bip276_roundtrip.

Theorem C17_roundtrip_needs_prefix : forall v n d, (1 <= v <= 255)%Z -> (1 <= n <= 255)%Z ->
  decode_bip276 (encode_bip276 (mkBip276 "" v n d)) <> DOk (mkBip276 "" v n d).
Proof. exact bip276_roundtrip_needs_prefix. Qed.
Print Assumptions C17_roundtrip_needs_prefix.

(** LAYOUT. The property demands, at full strength,

      forall p v n d, 1 <= v <= 255 -> 1 <= n <= 255 ->
        encode_bip276 (mkBip276 p v n d) = bip276_spec_text p (Z.to_N v) (Z.to_N n) d

    i.e. prefix, colon, two hex digits of VERSION, two hex digits of NETWORK, hex data, eight hex
    digits of checksum over the preceding text. This statement ([bip276_layout]) is FALSE of the
    code: createBIP276 passes (Network, Version) to the format string. It cannot be repaired in
    /repo because the pinned test TestEncodeBIP276/valid_encode_(testnet) asserts the current
    output. Recorded known finding; what is proved instead: *)

(** refutation, with the witness of the pinned test (version 1, network 2) *)
Theorem C17_bip276_layout_refuted :
  exists p v n d, (1 <= v <= 255)%Z /\ (1 <= n <= 255)%Z /\
    encode_bip276 (mkBip276 p v n d) <> bip276_spec_text p (Z.to_N v) (Z.to_N n) d.
Proof. exact bip276_layout_refuted_lemma. Qed.
Print Assumptions C17_bip276_layout_refuted.

(** ... in fact the specified order fails for every pair of different field values *)
Theorem C17_bip276_layout_fails_when_different : forall p v n d,
  (1 <= v <= 255)%Z -> (1 <= n <= 255)%Z -> v <> n ->
  encode_bip276 (mkBip276 p v n d) <> bip276_spec_text p (Z.to_N v) (Z.to_N n) d.
Proof. exact bip276_layout_fails_when_different. Qed.
Print Assumptions C17_bip276_layout_fails_when_different.

(** partial: everything the layout says except the order of the two header fields — the text is
    the specified layout with the two fields swapped (network first) *)
Theorem C17_bip276_layout_partial : forall p v n d, (1 <= v <= 255)%Z -> (1 <= n <= 255)%Z ->
  encode_bip276 (mkBip276 p v n d) = bip276_spec_text p (Z.to_N n) (Z.to_N v) d.
Proof. exact bip276_layout_partial_lemma. Qed.
Print Assumptions C17_bip276_layout_partial.

(** hence the full layout holds on the diagonal (the only case the pinned tests can see) *)
Theorem C17_bip276_layout_when_equal : forall p v d, (1 <= v <= 255)%Z ->
  encode_bip276 (mkBip276 p v v d) = bip276_spec_text p (Z.to_N v) (Z.to_N v) d.
Proof. exact bip276_layout_when_equal. Qed.
Print Assumptions C17_bip276_layout_when_equal.

(** out-of-range fields (including negative ones) give the text "ERROR" *)
Theorem C17_encode_out_of_range : forall p v n d,
  ~ ((1 <= v <= 255)%Z /\ (1 <= n <= 255)%Z) -> encode_bip276 (mkBip276 p v n d) = "ERROR".
Proof. exact encode_out_of_range. Qed.
Print Assumptions C17_encode_out_of_range.

(** REJECTION. A text whose last eight characters are not the lower-case hex of the first four
    bytes of sha256d of everything in front of them is rejected ... *)
Theorem C17_bad_checksum_rejected : forall text,
  sdrop (String.length text - 8) text <> checksum_text (stake (String.length text - 8) text) ->
  exists e, decode_bip276 text = DErr e.
Proof. exact bad_checksum_rejected_lemma. Qed.
Print Assumptions C17_bad_checksum_rejected.

(** ... and so is every text that is not: non-empty newline-free prefix, colon, 2 + 2 hex digits,
    an even number of hex digits, 8 hex digits ([wellformed_layout], spec/Bip276Spec.v) *)
Theorem C17_malformed_rejected : forall text,
  ~ wellformed_layout text -> exists e, decode_bip276 text = DErr e.
Proof. exact malformed_rejected_lemma. Qed.
Print Assumptions C17_malformed_rejected.

(** nothing else is rejected: acceptance is EXACTLY well-formed layout + right checksum *)
Theorem C17_decode_accepts_iff : forall text,
  (exists s, decode_bip276 text = DOk s) <->
  wellformed_layout text /\
  sdrop (String.length text - 8) text = checksum_text (stake (String.length text - 8) text).
Proof. exact decode_accepts_iff. Qed.
Print Assumptions C17_decode_accepts_iff.

(** the regular expression's lazy prefix group always splits at the LAST colon of the text *)
Theorem C17_regexp_splits_at_last_colon : forall text p r,
  lazy_prefix "" text = Some (p, r) ->
  text = p ++ ":" ++ r /\ string_forall (fun c => negb (Ascii.eqb c ":")) r = true.
Proof. exact lazy_prefix_last_colon. Qed.
Print Assumptions C17_regexp_splits_at_last_colon.

(** the exact set of texts that decode to a given value (any letter case in the three fields) *)
Theorem C17_decode_ok_iff : forall text s, decode_bip276 text = DOk s <-> decodes_to text s.
Proof. exact decode_ok_iff. Qed.
Print Assumptions C17_decode_ok_iff.

(** VALIDATION: ValidateAddress accepts a bitcoin-script: string exactly when it decodes
    (whatever the Base58 branch does).
    (Holds by unfolding the model: [validate_address_with] is written as this very [if], as is the Go
    function; that the Go function has this shape is carried by the correspondence.) *)
Theorem C17_validate_iff_decodes : forall valid_a58 address,
  has_prefix "bitcoin-script:" address = true ->
  (validate_address_with valid_a58 address = true <-> exists s, decode_bip276 address = DOk s).
Proof. exact validate_iff_decodes_lemma. Qed.
Print Assumptions C17_validate_iff_decodes.

(** CORRUPTION OF THE CHECKSUM (audit D): any change confined to the last eight characters of a text that
    decodes - a change of letter case included - is rejected. (A change elsewhere is rejected unless
    the four checksum bytes collide, which no theorem can exclude.) *)
Theorem C17_corrupted_checksum_rejected : forall pre c c',
  String.length c = 8 -> String.length c' = 8 -> c <> c' ->
  (exists s, decode_bip276 (pre ++ c) = DOk s) -> exists e, decode_bip276 (pre ++ c') = DErr e.
Proof. exact corrupted_checksum_rejected. Qed.
Print Assumptions C17_corrupted_checksum_rejected.

(** what a successful decode returns: version and network are bytes - 0 is possible, although
    EncodeBIP276 refuses to write it - and the prefix is non-empty without a newline *)
Theorem C17_decode_ranges : forall text s, decode_bip276 text = DOk s ->
  (0 <= b_version s <= 255)%Z /\ (0 <= b_network s <= 255)%Z /\ b_prefix s <> "" /\ no_newline (b_prefix s) = true.
Proof. exact decode_ranges. Qed.
Print Assumptions C17_decode_ranges.

(** a text that decodes and is written the encoder's way (lower-case fields, network first) is
    reproduced by decode-then-encode *)
Theorem C17_decode_then_encode : forall text s,
  decode_bip276 text = DOk s -> (1 <= b_version s <= 255)%Z -> (1 <= b_network s <= 255)%Z ->
  (forall g2 g3 g4 c, text = b_prefix s ++ ":" ++ g2 ++ g3 ++ g4 ++ c ->
     String.length g2 = 2 -> String.length g3 = 2 -> String.length c = 8 ->
     g2 = hex2 (Z.to_N (b_network s)) -> g3 = hex2 (Z.to_N (b_version s)) -> g4 = hex_of (b_data s) ->
     encode_bip276 s = text).
Proof. exact decode_then_encode. Qed.
Print Assumptions C17_decode_then_encode.

(** ValidateAddress looks at the first fifteen characters only: what decodes may carry any longer
    prefix, and version / network 0 *)
Example C17_validate_accepts_other_prefix :
  let t := encode_bip276 (mkBip276 "bitcoin-script:anything" 1 1 []) in
  validate_address_with (fun _ => false) t = true /\
  decode_bip276 t = DOk (mkBip276 "bitcoin-script:anything" 1 1 []).
Proof. vm_compute. split; reflexivity. Qed.

(** non-vacuity: the two prefixes of the property meet the hypotheses; a concrete round trip; a
    prefix with colons round-trips too; a newline in the prefix really breaks the round trip *)
Example C17_prefixes_satisfy_hypotheses :
  ("bitcoin-script" <> "" /\ no_newline "bitcoin-script" = true) /\
  ("bitcoin-template" <> "" /\ no_newline "bitcoin-template" = true).
Proof. split; [exact script_prefix_ok | exact template_prefix_ok]. Qed.
Example C17_pinned_vector :
  encode_bip276 (mkBip276 "bitcoin-script" 1 2 (unhex "66616b6520736372697074")) =
    "bitcoin-script:020166616b65207363726970742577a444" /\
  decode_bip276 "bitcoin-script:020166616b65207363726970742577a444" =
    DOk (mkBip276 "bitcoin-script" 1 2 (unhex "66616b6520736372697074")).
Proof. split; vm_compute; reflexivity. Qed.
Example C17_prefix_with_colons :
  decode_bip276 (encode_bip276 (mkBip276 "a:b:0101" 200 10 [xab])) = DOk (mkBip276 "a:b:0101" 200 10 [xab]).
Proof. vm_compute. reflexivity. Qed.
Example C17_newline_breaks_roundtrip :
  decode_bip276 (encode_bip276 (mkBip276 (String "010"%char "p") 1 1 [])) = DErr ENoMatch.
Proof. vm_compute. reflexivity. Qed.
Example C17_wrong_checksum_witness :
  decode_bip276 "bitcoin-script:020166616b65207363726970742577a445" = DErr EChecksum.
Proof. vm_compute. reflexivity. Qed.

(** the two prefixes and the version / network numbers used above are the constants of bscript/bip276.go
    (regenerated from the Go source on every run) *)
From GoBT Require Import gen.MiscConsts proofs.InterpConstsProofs proofs.MiscConstsProofs.
Theorem C17_constants_match :
  lookup bip276_consts "CurrentVersion" = Some 1%Z /\
  lookup bip276_consts "NetworkMainnet" = Some 1%Z /\
  lookup bip276_consts "NetworkTestnet" = Some 2%Z /\
  lookup_s bip276_prefixes "PrefixScript" = Some "bitcoin-script"%string /\
  lookup_s bip276_prefixes "PrefixTemplate" = Some "bitcoin-template"%string.
Proof. exact bip276_consts_match. Qed.
Print Assumptions C17_constants_match.

(** State inventory (tie, translator part): every Go struct the model of this property represents has, in the
    source as it is NOW (gen/Structs.v, regenerated on every run), exactly the fields - names, types, order - the
    model was written against (model/StateInventory.v).  New state in these objects (a memoised digest, a cached
    document, a remembered operand) is state the theorems above do not speak about: this is the obligation that
    stops checking then. *)
From GoBT Require gen.Structs model.StateInventory.
Theorem C17_state_inventory :
  forall k, In k (StateInventory.group_of StateInventory.pC17) ->
  exists f, StateInventory.lookup_gen gen.Structs.structs k = Some f /\ StateInventory.lookup_model k = Some f.
Proof. apply StateInventory.inventory_ok_spec. vm_compute. reflexivity. Qed.
Print Assumptions C17_state_inventory.

(** Package-level state (tie, translator part): in the source as it is NOW (gen/Globals.v) no package-level variable of
    the packages this property's code lives in can change after initialisation or is handed out by reference - the
    model's functions are functions of their arguments only (model/StateInventory.v). *)
From GoBT Require gen.Globals.
Theorem C17_no_mutable_package_state :
  forall g, In g gen.Globals.globals -> In (StateInventory.rg_pkg g) (StateInventory.packages_of StateInventory.pC17) ->
  StateInventory.rg_mutated g = false /\ StateInventory.rg_escapes g = false.
Proof. apply StateInventory.pkg_state_ok_spec. vm_compute. reflexivity. Qed.
Print Assumptions C17_no_mutable_package_state.

(** The payload as MEMORY (round 8; model/Bip276Mem.v, proofs/Bip276MemProofs.v).  [BIP276.Data] is a Go slice: a
    window of a buffer the caller owns, with a sibling payload or spare capacity inside its capacity.  For every
    buffer and every window (any offset, length, capacity): the encoder leaves the buffer as it was and its text is
    the text of the bytes the window denotes; so payloads that are adjacent windows of one buffer, encoded one after
    the other, each get the text of what they held at the start — the round trip of the theorems above is about the
    caller's data, not about a private copy.  [C17_appending_encoder_is_told_apart]: an encoder that appends the
    checksum to the slice it was handed returns the right first text, overwrites the first four bytes of the next
    payload, and encodes that one wrongly. *)
From GoBT Require model.AsmArena model.Bip276Mem proofs.Bip276MemProofs.
Theorem C17_encoder_leaves_callers_buffer : forall h c,
  fst (Bip276Mem.encode_mem h c) = h /\
  snd (Bip276Mem.encode_mem h c) = encode_bip276 (Bip276Mem.value_of h c).
Proof. intros; split; [apply Bip276MemProofs.encode_mem_read_only | apply Bip276MemProofs.encode_mem_value]. Qed.
Print Assumptions C17_encoder_leaves_callers_buffer.

Theorem C17_sibling_payloads_in_sequence : forall h cs,
  Bip276Mem.encode_seq_mem h cs = (h, map (fun c => encode_bip276 (Bip276Mem.value_of h c)) cs).
Proof. exact Bip276MemProofs.encode_seq_mem_texts. Qed.
Print Assumptions C17_sibling_payloads_in_sequence.

Theorem C17_appending_encoder_is_told_apart :
  snd (Bip276Mem.encode_mem_appending Bip276MemProofs.demo_buf (Bip276Mem.mkCall "bitcoin-script" 1 1 (AsmArena.Win 1 5 11))) =
    encode_bip276 (mkBip276 "bitcoin-script" 1 1 [x76; xa9; x14; x88; xac]) /\
  fst (Bip276Mem.encode_mem_appending Bip276MemProofs.demo_buf (Bip276Mem.mkCall "bitcoin-script" 1 1 (AsmArena.Win 1 5 11))) <>
    Bip276MemProofs.demo_buf /\
  nth 1 (snd (Bip276Mem.encode_seq_mem_appending Bip276MemProofs.demo_buf Bip276MemProofs.demo_calls)) "" <>
    encode_bip276 (mkBip276 "bitcoin-script" 1 1 [x51; x52; x53; x54; x55]).
Proof.
  split; [exact Bip276MemProofs.appending_first_text |].
  split; [exact Bip276MemProofs.appending_writes | exact Bip276MemProofs.appending_second_text_wrong].
Qed.
Print Assumptions C17_appending_encoder_is_told_apart.
