(** Export: the Go source of ParsedOpcode.IsConditional, as printed into gen/Funcs.v on every run, is the model function the
    property theorems are about (proofs/GenFuncs_ParsedOpcode_IsConditional.v).  Compiled only while gen/Funcs.status.json says the
    function is translated. *)
From Coq Require Import List ZArith NArith Bool.
From Coq Require Import Strings.Byte.
From GoBT Require Import lib.Bytes lib.GoSem gen.Funcs proofs.GenFuncsTac proofs.GenFuncs_ParsedOpcode_IsConditional.
Local Open Scope Z_scope.

Theorem C05_go_source_ParsedOpcode_IsConditional_is_model :
  forall v : N, (v < 256)%N -> ParsedOpcode_IsConditional (Z.of_N v) = Val (GoBT.model.Interp.is_conditional v).
Proof. exact ParsedOpcode_IsConditional_is_model. Qed.
Print Assumptions C05_go_source_ParsedOpcode_IsConditional_is_model.
