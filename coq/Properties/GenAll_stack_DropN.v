(** Export: the Go source of stack.DropN, as printed into gen/Funcs.v on every run, has for EVERY argument n the meaning of the
    list-level operation (proofs/GenFuncs_stack_DropN_all_n.v; the statement for the arguments the handlers use is
    Properties/Gen_stack_DropN.v).  Compiled only while gen/Funcs.status.json says the function is translated. *)
From Coq Require Import List ZArith NArith Bool.
From Coq Require Import Strings.Byte.
From GoBT Require Import lib.Bytes lib.GoSem lib.GoInterp gen.Funcs proofs.GenFuncsTac proofs.GenFuncsInterpTac proofs.GenFuncs_stack_DropN_all_n.
From GoBT Require model.Interp model.ScriptNum spec.StackOpsSpec.
Import ListNotations.
Local Open Scope Z_scope.

Theorem C05_go_source_stack_DropN_is_spec_all_n : forall (n : Z) (d : list bytes), Interp.lenZ d < 2147483648 -> in31 n ->
  st_view (stack_DropN n (rev d)) = Val (if n <? 1 then None else StackOpsSpec.drop_n (Z.to_nat n) d).
Proof. exact stack_DropN_all_n. Qed.
Print Assumptions C05_go_source_stack_DropN_is_spec_all_n.

(** the instances the handlers use (OP_DROP, OP_2DROP), derived *)
Theorem C05_go_source_stack_DropN_is_spec_1 : forall (d : list bytes), Interp.lenZ d < 2147483648 ->
  st_view (stack_DropN 1 (rev d)) = Val (match d with _ :: r => Some r | _ => None end).
Proof. exact stack_DropN_1. Qed.
Theorem C05_go_source_stack_DropN_is_spec_2 : forall (d : list bytes), Interp.lenZ d < 2147483648 ->
  st_view (stack_DropN 2 (rev d)) = Val (match d with _ :: _ :: r => Some r | _ => None end).
Proof. exact stack_DropN_2. Qed.

(** non-vacuity: the hypotheses hold and the operation succeeds / fails on small stacks *)
Example C05_go_source_stack_DropN_all_n_example :
  st_view (stack_DropN 4 (rev [[x01]; [x02]; [x03]; [x04]; [x05]])) = Val (Some [[x05]]) /\
  st_view (stack_DropN 4 (rev [[x01]; [x02]; [x03]])) = Val None /\ st_view (stack_DropN 0 (rev [[x01]])) = Val None.
Proof. vm_compute. repeat split. Qed.
