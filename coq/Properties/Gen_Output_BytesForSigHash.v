(** Export: the Go source of Output.BytesForSigHash (output.go), as printed into gen/Funcs.v on every run, is the model function the
    property theorems are about (proofs/GenFuncs_Output_BytesForSigHash.v).  Go values are related to the model's records by the
    abstraction functions of proofs/GenFuncsTxTac.v; the hypotheses are the ranges of the Go types.  Compiled only
    while gen/Funcs.status.json says the function is translated. *)
From Coq Require Import List ZArith NArith Bool.
From Coq Require Import Strings.Byte.
From GoBT Require Import lib.Bytes lib.GoSem lib.GoTx gen.Funcs proofs.GenFuncsTxTac proofs.GenFuncs_Output_BytesForSigHash.
From GoBT Require Import model.Tx model.SigHash.
Import ListNotations.
Local Open Scope Z_scope.

Theorem C02_go_source_Output_BytesForSigHash_is_model :
  forall (sats : Z) (s : bytes), u64 sats -> len_ok s ->
  Output_BytesForSigHash sats (Some s) = Val (bytes_for_sighash (mkOutput (Z.to_N sats) s)).
Proof. exact Output_BytesForSigHash_is_model. Qed.
Print Assumptions C02_go_source_Output_BytesForSigHash_is_model.

Theorem C03_go_source_Output_BytesForSigHash_is_model :
  forall (sats : Z) (s : bytes), u64 sats -> len_ok s ->
  Output_BytesForSigHash sats (Some s) = Val (bytes_for_sighash (mkOutput (Z.to_N sats) s)).
Proof. exact Output_BytesForSigHash_is_model. Qed.
Print Assumptions C03_go_source_Output_BytesForSigHash_is_model.

(** Go's partiality: the LockingScript pointer is dereferenced *)
Theorem C02_go_source_Output_BytesForSigHash_nil_script_panics :
  forall sats : Z, Output_BytesForSigHash sats None = Panic.
Proof. exact Output_BytesForSigHash_nil_script. Qed.
Print Assumptions C02_go_source_Output_BytesForSigHash_nil_script_panics.

