(** C11 — Size and fee accounting is exact and the size estimate is an upper bound.
    Only statements, [exact], and [Print Assumptions]. Model: model/Fees.v; spec: spec/FeeSpec.v;
    proofs: proofs/FeesProofs.v; generated constants (dummy unlocking script): gen/Consts.v. *)
From Coq Require Import List NArith Bool.
From Coq Require Import Strings.Byte.
From GoBT Require Import lib.Bytes lib.VarInt model.Tx gen.Consts spec.FeeSpec model.Fees proofs.FeesProofs proofs.AuditC11.
From GoBT Require Import model.QuoteHeap proofs.QuoteHeapProofs.
From GoBT Require proofs.OrdProofs.
Import ListNotations.
Local Open Scope N_scope.

(** total = serialised length = standard + data bytes; data bytes = script bytes of the data-carrier outputs.
    (The first conjunct holds by construction of the model: [tx_size] is defined as the length of [tx_bytes]; that
    Tx.Size() is len(tx.Bytes()) is carried by the correspondence.  The other two are proved.) *)
Theorem C11_size_partition : forall t,
  let sz := size_with_types t in
  sz_total sz = lenN (tx_bytes false t) /\
  sz_total sz = sz_std sz + sz_data sz /\
  sz_data sz = data_sum (tx_outs t).
Proof. exact size_partition. Qed.
Print Assumptions C11_size_partition.

(** feesPaid: each part is floor(bytes x satoshis / bytes-per-unit) in uint64, the total their uint64 sum; when
    nothing wraps that is the quoted fee of the specification. A missing fee type is an error, never a guess. *)
Theorem C11_fee_floor : forall sz q f,
  fees_paid sz q = FOk f ->
  exists sf df, q_std q = Some sf /\ q_data q = Some df /\ r_bytes sf <> 0 /\ r_bytes df <> 0 /\
    fee_std f = ((sz_std sz * r_sat sf) mod two64) / r_bytes sf /\
    fee_data f = ((sz_data sz * r_sat df) mod two64) / r_bytes df /\
    fee_total f = (fee_std f + fee_data f) mod two64 /\
    (sz_std sz * r_sat sf < two64 -> sz_data sz * r_sat df < two64 ->
     floor_fee (sz_std sz) sf + floor_fee (sz_data sz) df < two64 ->
     fee_std f = floor_fee (sz_std sz) sf /\ fee_data f = floor_fee (sz_data sz) df /\
     fee_total f = quoted_fee sf df (sz_std sz) (sz_data sz)).
Proof. exact fee_floor. Qed.
Print Assumptions C11_fee_floor.

(** IsFeePaidEnough is true exactly when outputs do not exceed inputs and inputs minus outputs reach the quoted fee *)
Theorem C11_fee_enough_iff : forall t q b sf df,
  q_std q = Some sf -> q_data q = Some df ->
  let sz := size_with_types t in
  sz_std sz * r_sat sf < two64 -> sz_data sz * r_sat df < two64 ->
  floor_fee (sz_std sz) sf + floor_fee (sz_data sz) df < two64 ->
  is_fee_paid_enough t q = FOk b ->
  b = (total_out t <=? total_in t) && (quoted_fee sf df (sz_std sz) (sz_data sz) <=? total_in t - total_out t).
Proof. exact fee_enough_iff. Qed.
Print Assumptions C11_fee_enough_iff.

(** EstimateIsFeePaidEnough is the same predicate on the estimated final transaction.
    (Holds by construction of the model: it unfolds the definition of [estimate_is_fee_paid_enough]; the statement
    with content is [C11_estimate_enough_iff] below.) *)
Theorem C11_estimate_enough_unfold : forall t q b,
  estimate_is_fee_paid_enough t q = FOk b ->
  exists te, estimated_final_tx t = FOk te /\ is_fee_paid_enough te q = FOk b.
Proof. exact (fun t q b => obind_ok (estimated_final_tx t) (fun te => is_fee_paid_enough te q) b). Qed.
Print Assumptions C11_estimate_enough_unfold.

(** IsFeePaidEnough is total for a complete quote with positive byte denominators ... *)
Theorem C11_fee_enough_total : forall t q sf df, q_std q = Some sf -> q_data q = Some df ->
  r_bytes sf <> 0 -> r_bytes df <> 0 -> exists b, is_fee_paid_enough t q = FOk b.
Proof. exact fee_enough_total. Qed.
Print Assumptions C11_fee_enough_total.

(** ... and its other outcomes are exactly: ErrFeeTypeNotFound for a missing fee type, a panic (integer
    division by zero) for a zero byte denominator; never a process exit *)
Theorem C11_fee_enough_outcomes : forall t q,
  match is_fee_paid_enough t q with
  | FOk _ => exists sf df, q_std q = Some sf /\ q_data q = Some df /\ r_bytes sf <> 0 /\ r_bytes df <> 0
  | FErr e => e = ErrFeeTypeNotFound /\ (q_std q = None \/ q_data q = None)
  | FPanic => exists sf df, q_std q = Some sf /\ q_data q = Some df /\ (r_bytes sf = 0 \/ r_bytes df = 0)
  | FFatal => False
  end.
Proof. exact fee_enough_outcomes. Qed.
Print Assumptions C11_fee_enough_outcomes.

(** EstimateIsFeePaidEnough is true exactly when the transaction's OWN outputs do not exceed its inputs and
    inputs minus outputs reach the quoted fee of its ESTIMATED size *)
Theorem C11_estimate_enough_iff : forall t q b sf df sz, wf_tx t -> ~ ambiguous t ->
  q_std q = Some sf -> q_data q = Some df -> estimate_size_with_types t = FOk sz ->
  sz_std sz * r_sat sf < two64 -> sz_data sz * r_sat df < two64 ->
  floor_fee (sz_std sz) sf + floor_fee (sz_data sz) df < two64 ->
  estimate_is_fee_paid_enough t q = FOk b ->
  b = (total_out t <=? total_in t) && (quoted_fee sf df (sz_std sz) (sz_data sz) <=? total_in t - total_out t).
Proof. exact estimate_enough_iff. Qed.
Print Assumptions C11_estimate_enough_iff.

(** the accumulated totals are the plain sums whenever those fit 64 bits *)
Theorem C11_totals : forall t,
  (sum_in t < two64 -> total_in t = sum_in t) /\ (sum_out t < two64 -> total_out t = sum_out t).
Proof. exact (fun t => conj (total_in_sum t) (total_out_sum t)). Qed.
Print Assumptions C11_totals.

(** estimation succeeds exactly when every input carries a supported (P2PKH / P2PKH-inscription) previous
    script and then only fills unsigned inputs with the dummy; otherwise the first offending input decides
    between ErrEmptyPreviousTxScript and ErrUnsupportedScript; it never aborts or panics *)
Theorem C11_estimate_errors : forall t, wf_tx t -> ~ ambiguous t ->
  (forall te, estimated_final_tx t = FOk te <->
     Forall input_ok (tx_ins t) /\ te = set_ins t (map fill_one (tx_ins t))) /\
  (forall e, estimated_final_tx t = FErr e <->
     exists pre i post, tx_ins t = pre ++ i :: post /\ Forall input_ok pre /\
       ((in_script i = None /\ e = ErrEmptyPreviousTxScript) \/
        (exists s, in_script i = Some s /\ supported s = false /\ e = ErrUnsupportedScript))) /\
  estimated_final_tx t <> FFatal /\ estimated_final_tx t <> FPanic.
Proof. exact estimate_errors. Qed.
Print Assumptions C11_estimate_errors.

(** the DecodeParts model behind IsP2PKHInscription never runs out of fuel *)
Theorem C11_decode_parts_total : forall b, decode_parts b <> DFuel.
Proof. exact decode_parts_never_out_of_fuel. Qed.
Print Assumptions C11_decode_parts_total.

(** DER encoding of (r, s), 0 < r < 2^256, 0 < s <= n/2, is at most 71 bytes *)
Theorem C11_der_len_bound : forall r s, 0 < r < 2 ^ 256 -> 0 < s <= half_order -> lenN (der r s) <= 71.
Proof. exact der_len_bound. Qed.
Print Assumptions C11_der_len_bound.

(** ... and Serialise normalises any 0 < s < n to low S first *)
Theorem C11_serialise_len_bound : forall r s,
  0 < r < 2 ^ 256 -> 0 < s < secp256k1_n -> lenN (serialise r s) <= 71.
Proof. exact serialise_len_bound. Qed.
Print Assumptions C11_serialise_len_bound.

(** so the unlocking script the library builds (push(DER ++ hash type), push(33-byte key)) is library-shaped: <= 107 bytes *)
Theorem C11_lib_signature_shaped : forall r s pk flag,
  0 < r < 2 ^ 256 -> 0 < s <= half_order -> lenN pk = 33 -> lib_shaped (p2pkh_unlocking pk (der r s) flag).
Proof. exact lib_signature_shaped. Qed.
Print Assumptions C11_lib_signature_shaped.
Theorem C11_lib_shaped_len : forall u, lib_shaped u -> lenN u <= 107.
Proof. exact lib_shaped_len. Qed.
Print Assumptions C11_lib_shaped_len.

(** translator-fed: the dummy script literal in tx.go (regenerated into gen/Consts.v on every run) is long enough *)
Theorem C11_dummy_len : 107 <= lenN dummy_unlocking_script /\ lenN dummy_unlocking_script = dummy_unlocking_script_len.
Proof. exact (conj dummy_len_ge dummy_len_consistent). Qed.
Print Assumptions C11_dummy_len.

(** for every assignment of library-shaped unlocking scripts to the unsigned inputs, the estimate is at least the signed size *)
Theorem C11_estimate_ge_signed : forall t te ins', wf_tx t -> ~ ambiguous t ->
  estimated_final_tx t = FOk te -> Forall2 sign_rel (tx_ins t) ins' ->
  tx_size (set_ins t ins') <= tx_size te.
Proof. exact estimate_ge_signed. Qed.
Print Assumptions C11_estimate_ge_signed.

(** signing can only lower the quoted fee: the data bytes are the same, the standard bytes shrink *)
Theorem C11_estimate_fee_ge_signed : forall t te ins' sf df, wf_tx t -> ~ ambiguous t ->
  estimated_final_tx t = FOk te -> Forall2 sign_rel (tx_ins t) ins' ->
  let sz := size_with_types (set_ins t ins') in
  let sze := size_with_types te in
  sz_data sz = sz_data sze /\ sz_std sz <= sz_std sze /\
  quoted_fee sf df (sz_std sz) (sz_data sz) <= quoted_fee sf df (sz_std sze) (sz_data sze).
Proof. exact estimate_fee_ge_signed. Qed.
Print Assumptions C11_estimate_fee_ge_signed.

(** from raw signatures, in one statement: every unsigned input receives what unlocker.Simple builds - push(
    Serialise(r, s) ++ hash type), push(33-byte key) - for ANY 0 < r < 2^256 and ANY 0 < s < n (Serialise
    normalises to low S), signed inputs are left alone: the result is no larger than EstimateSize said *)
Theorem C11_estimate_ge_lib_signed : forall t n ins', wf_tx t -> ~ ambiguous t ->
  estimate_size t = FOk n -> Forall2 lib_signed (tx_ins t) ins' ->
  tx_size (set_ins t ins') <= n.
Proof. exact estimate_ge_lib_signed. Qed.
Print Assumptions C11_estimate_ge_lib_signed.

(** ... and its quoted fee is no larger than the quoted fee of the estimate *)
Theorem C11_estimate_fee_ge_lib_signed : forall t te ins' sf df, wf_tx t -> ~ ambiguous t ->
  estimated_final_tx t = FOk te -> Forall2 lib_signed (tx_ins t) ins' ->
  quoted_fee sf df (sz_std (size_with_types (set_ins t ins'))) (sz_data (size_with_types (set_ins t ins'))) <=
  quoted_fee sf df (sz_std (size_with_types te)) (sz_data (size_with_types te)).
Proof. exact estimate_fee_ge_lib_signed. Qed.
Print Assumptions C11_estimate_fee_ge_lib_signed.

(** the predicates agree: if EstimateIsFeePaidEnough holds before signing, IsFeePaidEnough holds after unsigned
    inputs have received scripts no longer than the dummy (proved for the ordinals flows, stated here where it
    belongs) *)
Theorem C11_estimate_enough_implies_signed_enough : forall T A q,
  wf_tx T -> ~ ambiguous T ->
  estimate_is_fee_paid_enough T q = FOk true ->
  tx_outs A = tx_outs T -> Forall2 OrdProofs.short_signed (tx_ins T) (tx_ins A) ->
  (forall te, estimated_final_tx T = FOk te -> OrdProofs.fee_fits q te) ->
  is_fee_paid_enough A q = FOk true.
Proof. exact OrdProofs.signed_fee_enough. Qed.
Print Assumptions C11_estimate_enough_implies_signed_enough.

(** non-vacuity: a partially signed 2-in / 2-out transaction with a data output meets every hypothesis; the
    maximal signature (r = 2^256-1, s = n/2) reaches the bound exactly: 71-byte DER, estimate = signed size *)
Definition ex_p2pkh : bytes := [x76; xa9; x14] ++ repeat_byte 20 x11 ++ [x88; xac].
Definition ex_tx : tx :=
  mkTx 1 [mkInput (repeat_byte 32 xab) 0 [] 4294967295 5000 (Some ex_p2pkh);
          mkInput (repeat_byte 32 xcd) 1 [x51] 4294967295 7000 (Some ex_p2pkh)]
         [mkOutput 1000 ex_p2pkh; mkOutput 0 [x00; x6a; x03; x61; x62; x63]] 0.
Definition ex_quote : quote := mkQuote (Some (mkRate 5 100)) (Some (mkRate 1 2)).
Definition ex_unlock : bytes := p2pkh_unlocking (repeat_byte 33 x02) (der (2 ^ 256 - 1) half_order) x41.

Example C11_hypotheses_satisfiable :
  wf_tx ex_tx /\ ~ ambiguous ex_tx /\ no_overflow ex_quote ex_tx 0 = true /\
  (exists te, estimated_final_tx ex_tx = FOk te /\ tx_size te = 249) /\
  Forall2 sign_rel (tx_ins ex_tx) [with_unlock (nth 0 (tx_ins ex_tx) (mkInput [] 0 [] 0 0 None)) ex_unlock;
                                   nth 1 (tx_ins ex_tx) (mkInput [] 0 [] 0 0 None)] /\
  lenN (der (2 ^ 256 - 1) half_order) = 71 /\ lenN ex_unlock = 107.
Proof.
  split; [apply wf_txb_sound; vm_compute; reflexivity|].
  split; [apply ambiguousb_sound; vm_compute; reflexivity|].
  split; [vm_compute; reflexivity|].
  split; [eexists; split; [vm_compute; reflexivity|vm_compute; reflexivity]|].
  split; [|split; vm_compute; reflexivity].
  constructor; [|constructor; [reflexivity|constructor]].
  exists ex_unlock. split; [|reflexivity].
  apply lib_signature_shaped; [| |reflexivity]; split; vm_compute; try reflexivity; discriminate.
Qed.

Example C11_fee_example :
  estimate_fees_paid ex_tx ex_quote = FOk (mkFees 15 12 3) /\
  is_fee_paid_enough ex_tx ex_quote = FOk true.
Proof. split; vm_compute; reflexivity. Qed.

(** State inventory (tie, translator part): every Go struct the model of this property represents has, in the
    source as it is NOW (gen/Structs.v, regenerated on every run), exactly the fields - names, types, order - the
    model was written against (model/StateInventory.v).  New state in these objects (a memoised digest, a cached
    document, a remembered operand) is state the theorems above do not speak about: this is the obligation that
    stops checking then. *)
From GoBT Require gen.Structs model.StateInventory.
Theorem C11_state_inventory :
  forall k, In k (StateInventory.group_of StateInventory.pC11) ->
  exists f, StateInventory.lookup_gen gen.Structs.structs k = Some f /\ StateInventory.lookup_model k = Some f.
Proof. apply StateInventory.inventory_ok_spec. vm_compute. reflexivity. Qed.
Print Assumptions C11_state_inventory.

(** Package-level state (tie, translator part): in the source as it is NOW (gen/Globals.v) no package-level variable of
    the packages this property's code lives in can change after initialisation or is handed out by reference - the
    model's functions are functions of their arguments only (model/StateInventory.v). *)
From GoBT Require gen.Globals.
Theorem C11_no_mutable_package_state :
  forall g, In g gen.Globals.globals -> In (StateInventory.rg_pkg g) (StateInventory.packages_of StateInventory.pC11) ->
  StateInventory.rg_mutated g = false /\ StateInventory.rg_escapes g = false.
Proof. apply StateInventory.pkg_state_ok_spec. vm_compute. reflexivity. Qed.
Print Assumptions C11_no_mutable_package_state.

(** ** Quotes as objects (model/QuoteHeap.v): the fee computed from a quote depends on that quote only.
    A history is a list of operations over the pool of FeeQuote objects the library has handed out: [HNew] (NewFeeQuote()),
    [HAdd] (AddQuote with a Fee of the caller, or nil), [HEditMining] / [HEditRelay] (a write through the *Fee that
    [FeeQuote.Fee] hands out), [HShare] (the caller registers the Fee object of one quote in a quote), [HFees] (fees are
    computed).  [view st b] is quote [b] as the value every theorem above computes fees from.  [local o] excludes only
    an [HShare] from one quote into ANOTHER one: the caller sharing an object itself. *)

(** After any history [before], any further history [after] that is not applied to quote [b] leaves what [b] says - and
    with it EstimateFeesPaid, IsFeePaidEnough, EstimateIsFeePaidEnough computed from it - exactly as it was: editing the
    rates of one quote in place never changes another quote the library handed out, older or newer. *)
Theorem C11_quote_history_independent : forall before after b,
  Forall local (before ++ after) ->
  (b < length (qs_quotes (run empty_state before)))%nat ->
  Forall (fun o => target o <> Some b) after ->
  view (run empty_state (before ++ after)) b = view (run empty_state before) b.
Proof. exact history_independent. Qed.
Print Assumptions C11_quote_history_independent.

(** A quote built by NewFeeQuote() says the documented defaults (regenerated from fees.go into gen/Consts.v) whatever
    was done to the quotes built before it, and keeps saying them whatever is done to the other quotes afterwards. *)
Theorem C11_default_quote_stays_default : forall before after,
  Forall local (before ++ HNew :: after) ->
  let b := length (qs_quotes (run empty_state before)) in
  Forall (fun o => target o <> Some b) after ->
  view (run empty_state (before ++ HNew :: after)) b = default_quote.
Proof. exact default_quote_stays_default. Qed.
Print Assumptions C11_default_quote_stays_default.

(** non-vacuity: build A and B, edit A's standard and data mining fee in place, build C - B and C say the defaults, A
    what it was given; and the hypothesis [local] is needed (the model follows pointers: after the caller registered A's
    Fee object in B an edit through A is an edit of B) *)
Example C11_quote_history_example :
  let st := run empty_state ex_history in
  view st 0 = mkQuote (Some (mkRate 50 100)) (Some (mkRate 25 100)) /\
  view st 1 = default_quote /\ view st 2 = default_quote /\ Forall local ex_history.
Proof. exact ex_history_views. Qed.
Example C11_caller_made_sharing_is_followed :
  view (run empty_state [HNew; HNew; HShare 1 true 0 true; HEditMining 0 true (mkRate 50 100)]) 1
  = mkQuote (Some (mkRate 50 100)) (Some (mkRate default_data_fee_sat default_data_fee_bytes)).
Proof. exact ex_caller_made_sharing. Qed.
