(** C11 — Size and fee accounting is exact and the size estimate is an upper bound.
    Only statements, [exact], and [Print Assumptions]. Model: model/Fees.v; spec: spec/FeeSpec.v;
    proofs: proofs/FeesProofs.v; generated constants (dummy unlocking script): gen/Consts.v. *)
From Coq Require Import List NArith Bool.
From Coq Require Import Strings.Byte.
From GoBT Require Import lib.Bytes lib.VarInt model.Tx gen.Consts spec.FeeSpec model.Fees proofs.FeesProofs.
Import ListNotations.
Local Open Scope N_scope.

(** total = serialised length = standard + data bytes; data bytes = script bytes of the data-carrier outputs *)
Theorem C11_size_partition : forall t,
  let sz := size_with_types t in
  sz_total sz = lenN (tx_bytes false t) /\
  sz_total sz = sz_std sz + sz_data sz /\
  sz_data sz = data_sum (tx_outs t).
Proof. exact size_partition. Qed.
Print Assumptions C11_size_partition.

(** feesPaid: each part is floor(bytes x satoshis / bytes-per-unit) in uint64, the total their uint64 sum; when
    nothing wraps that is the quoted fee of the specification. A missing fee type is an error, never a guess. *)
Theorem C11_fee_floor : forall sz q f,
  fees_paid sz q = FOk f ->
  exists sf df, q_std q = Some sf /\ q_data q = Some df /\ r_bytes sf <> 0 /\ r_bytes df <> 0 /\
    fee_std f = ((sz_std sz * r_sat sf) mod two64) / r_bytes sf /\
    fee_data f = ((sz_data sz * r_sat df) mod two64) / r_bytes df /\
    fee_total f = (fee_std f + fee_data f) mod two64 /\
    (sz_std sz * r_sat sf < two64 -> sz_data sz * r_sat df < two64 ->
     floor_fee (sz_std sz) sf + floor_fee (sz_data sz) df < two64 ->
     fee_std f = floor_fee (sz_std sz) sf /\ fee_data f = floor_fee (sz_data sz) df /\
     fee_total f = quoted_fee sf df (sz_std sz) (sz_data sz)).
Proof. exact fee_floor. Qed.
Print Assumptions C11_fee_floor.

(** IsFeePaidEnough is true exactly when outputs do not exceed inputs and inputs minus outputs reach the quoted fee *)
Theorem C11_fee_enough_iff : forall t q b sf df,
  q_std q = Some sf -> q_data q = Some df ->
  let sz := size_with_types t in
  sz_std sz * r_sat sf < two64 -> sz_data sz * r_sat df < two64 ->
  floor_fee (sz_std sz) sf + floor_fee (sz_data sz) df < two64 ->
  is_fee_paid_enough t q = FOk b ->
  b = (total_out t <=? total_in t) && (quoted_fee sf df (sz_std sz) (sz_data sz) <=? total_in t - total_out t).
Proof. exact fee_enough_iff. Qed.
Print Assumptions C11_fee_enough_iff.

(** EstimateIsFeePaidEnough is the same predicate on the estimated final transaction *)
Theorem C11_estimate_enough_unfold : forall t q b,
  estimate_is_fee_paid_enough t q = FOk b ->
  exists te, estimated_final_tx t = FOk te /\ is_fee_paid_enough te q = FOk b.
Proof. exact (fun t q b => obind_ok (estimated_final_tx t) (fun te => is_fee_paid_enough te q) b). Qed.
Print Assumptions C11_estimate_enough_unfold.

(** the accumulated totals are the plain sums whenever those fit 64 bits *)
Theorem C11_totals : forall t,
  (sum_in t < two64 -> total_in t = sum_in t) /\ (sum_out t < two64 -> total_out t = sum_out t).
Proof. exact (fun t => conj (total_in_sum t) (total_out_sum t)). Qed.
Print Assumptions C11_totals.

(** estimation succeeds exactly when every input carries a supported (P2PKH / P2PKH-inscription) previous
    script and then only fills unsigned inputs with the dummy; otherwise the first offending input decides
    between ErrEmptyPreviousTxScript and ErrUnsupportedScript; it never aborts or panics *)
Theorem C11_estimate_errors : forall t, wf_tx t -> ~ ambiguous t ->
  (forall te, estimated_final_tx t = FOk te <->
     Forall input_ok (tx_ins t) /\ te = set_ins t (map fill_one (tx_ins t))) /\
  (forall e, estimated_final_tx t = FErr e <->
     exists pre i post, tx_ins t = pre ++ i :: post /\ Forall input_ok pre /\
       ((in_script i = None /\ e = ErrEmptyPreviousTxScript) \/
        (exists s, in_script i = Some s /\ supported s = false /\ e = ErrUnsupportedScript))) /\
  estimated_final_tx t <> FFatal /\ estimated_final_tx t <> FPanic.
Proof. exact estimate_errors. Qed.
Print Assumptions C11_estimate_errors.

(** the DecodeParts model behind IsP2PKHInscription never runs out of fuel *)
Theorem C11_decode_parts_total : forall b, decode_parts b <> DFuel.
Proof. exact decode_parts_never_out_of_fuel. Qed.
Print Assumptions C11_decode_parts_total.

(** DER encoding of (r, s), 0 < r < 2^256, 0 < s <= n/2, is at most 71 bytes *)
Theorem C11_der_len_bound : forall r s, 0 < r < 2 ^ 256 -> 0 < s <= half_order -> lenN (der r s) <= 71.
Proof. exact der_len_bound. Qed.
Print Assumptions C11_der_len_bound.

(** ... and Serialise normalises any 0 < s < n to low S first *)
Theorem C11_serialise_len_bound : forall r s,
  0 < r < 2 ^ 256 -> 0 < s < secp256k1_n -> lenN (serialise r s) <= 71.
Proof. exact serialise_len_bound. Qed.
Print Assumptions C11_serialise_len_bound.

(** so the unlocking script the library builds (push(DER ++ hash type), push(33-byte key)) is library-shaped: <= 107 bytes *)
Theorem C11_lib_signature_shaped : forall r s pk flag,
  0 < r < 2 ^ 256 -> 0 < s <= half_order -> lenN pk = 33 -> lib_shaped (p2pkh_unlocking pk (der r s) flag).
Proof. exact lib_signature_shaped. Qed.
Print Assumptions C11_lib_signature_shaped.
Theorem C11_lib_shaped_len : forall u, lib_shaped u -> lenN u <= 107.
Proof. exact lib_shaped_len. Qed.
Print Assumptions C11_lib_shaped_len.

(** translator-fed: the dummy script literal in tx.go (regenerated into gen/Consts.v on every run) is long enough *)
Theorem C11_dummy_len : 107 <= lenN dummy_unlocking_script /\ lenN dummy_unlocking_script = dummy_unlocking_script_len.
Proof. exact (conj dummy_len_ge dummy_len_consistent). Qed.
Print Assumptions C11_dummy_len.

(** for every assignment of library-shaped unlocking scripts to the unsigned inputs, the estimate is at least the signed size *)
Theorem C11_estimate_ge_signed : forall t te ins', wf_tx t -> ~ ambiguous t ->
  estimated_final_tx t = FOk te -> Forall2 sign_rel (tx_ins t) ins' ->
  tx_size (set_ins t ins') <= tx_size te.
Proof. exact estimate_ge_signed. Qed.
Print Assumptions C11_estimate_ge_signed.

(** non-vacuity: a partially signed 2-in / 2-out transaction with a data output meets every hypothesis; the
    maximal signature (r = 2^256-1, s = n/2) reaches the bound exactly: 71-byte DER, estimate = signed size *)
Definition ex_p2pkh : bytes := [x76; xa9; x14] ++ repeat_byte 20 x11 ++ [x88; xac].
Definition ex_tx : tx :=
  mkTx 1 [mkInput (repeat_byte 32 xab) 0 [] 4294967295 5000 (Some ex_p2pkh);
          mkInput (repeat_byte 32 xcd) 1 [x51] 4294967295 7000 (Some ex_p2pkh)]
         [mkOutput 1000 ex_p2pkh; mkOutput 0 [x00; x6a; x03; x61; x62; x63]] 0.
Definition ex_quote : quote := mkQuote (Some (mkRate 5 100)) (Some (mkRate 1 2)).
Definition ex_unlock : bytes := p2pkh_unlocking (repeat_byte 33 x02) (der (2 ^ 256 - 1) half_order) x41.

Example C11_hypotheses_satisfiable :
  wf_tx ex_tx /\ ~ ambiguous ex_tx /\ no_overflow ex_quote ex_tx 0 = true /\
  (exists te, estimated_final_tx ex_tx = FOk te /\ tx_size te = 249) /\
  Forall2 sign_rel (tx_ins ex_tx) [with_unlock (nth 0 (tx_ins ex_tx) (mkInput [] 0 [] 0 0 None)) ex_unlock;
                                   nth 1 (tx_ins ex_tx) (mkInput [] 0 [] 0 0 None)] /\
  lenN (der (2 ^ 256 - 1) half_order) = 71 /\ lenN ex_unlock = 107.
Proof.
  split; [apply wf_txb_sound; vm_compute; reflexivity|].
  split; [apply ambiguousb_sound; vm_compute; reflexivity|].
  split; [vm_compute; reflexivity|].
  split; [eexists; split; [vm_compute; reflexivity|vm_compute; reflexivity]|].
  split; [|split; vm_compute; reflexivity].
  constructor; [|constructor; [reflexivity|constructor]].
  exists ex_unlock. split; [|reflexivity].
  apply lib_signature_shaped; [| |reflexivity]; split; vm_compute; try reflexivity; discriminate.
Qed.

Example C11_fee_example :
  estimate_fees_paid ex_tx ex_quote = FOk (mkFees 15 12 3) /\
  is_fee_paid_enough ex_tx ex_quote = FOk true.
Proof. split; vm_compute; reflexivity. Qed.
