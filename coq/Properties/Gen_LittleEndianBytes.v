(** Export: the Go source of LittleEndianBytes (bytemanipulation.go), as printed into gen/Funcs.v on every run, is the
    little-endian encoder [le_enc 4] the serialisation models are written with (proofs/GenFuncs_LittleEndianBytes.v).
    Compiled only while gen/Funcs.status.json says the function is translated. *)
From Coq Require Import List ZArith NArith Bool.
From Coq Require Import Strings.Byte.
From GoBT Require Import lib.Bytes lib.GoSem gen.Funcs proofs.GenFuncs_LittleEndianBytes.
Local Open Scope Z_scope.

Theorem C01_go_source_LittleEndianBytes_is_model :
  forall v : Z, LittleEndianBytes v 4 = Val (le_enc 4 (Z.to_N v)).
Proof. exact LittleEndianBytes_4. Qed.
Print Assumptions C01_go_source_LittleEndianBytes_is_model.

(** Go's partiality: a buffer shorter than four bytes makes PutUint32 panic *)
Theorem C01_go_source_LittleEndianBytes_short_panics :
  forall v l : Z, 0 <= l < 4 -> LittleEndianBytes v l = Panic.
Proof. exact LittleEndianBytes_short. Qed.
Print Assumptions C01_go_source_LittleEndianBytes_short_panics.
