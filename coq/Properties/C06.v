(** C06 — signature opcodes accept exactly valid, correctly ordered signatures.
    Only statements, [exact], [Print Assumptions], and examples showing the hypotheses are satisfiable.

    Model: model/CheckSig.v — opcodeCheckSig(Verify), opcodeCheckMultiSig(Verify), the three encoding
    checks, subScript, removeOpcodeByData / removeOpcode / PushDataPrefix, Unparse, in the shape of the Go
    code; ECDSA (go-bk) is the oracle record [sig_oracle] and EVERY theorem below holds for all oracles.
    Specifications: spec/MultisigSpec.v ([monotone_matching], [strict_der], [low_s]), spec/DigestSpec.v.
    Proofs: proofs/{CheckSigProofs,DerProofs,MultisigProofs,SigOpProofs}.v.
    The model is tied to the Go code on every run by corr/C06.v (harness/cmd/c06).

    One deviation of the code from the reference rules remains (known finding): the digest algorithm is
    chosen by the hash-type bit alone, also when the FORKID flag is off — see [C06_checksig_result]. *)
From Coq Require Import List NArith ZArith Bool.
From Coq Require Import Strings.Byte.
From GoBT Require Import lib.Bytes lib.VarInt model.Tx model.SigHash model.SigHashWire model.ScriptNum model.Interp model.CheckSig
  spec.DigestSpec spec.MultisigSpec proofs.InterpTotal proofs.CheckSigProofs proofs.DerProofs proofs.MultisigProofs
  proofs.SigOpProofs.
Import ListNotations.

(** * 1. m-of-n: the coded loop decides the monotone matching *)

(** For all key lists and signature lists (no bound on m, n) and every oracle: when no hard error can
    arise (every non-empty signature passes the enabled hash-type / DER checks and its digest is
    computable, every key passes the enabled key check, the oracle answers) the loop of
    opcodeCheckMultiSig — run with the coded initial counters, a fresh memo and fuel = keys + 1 — ends
    normally, and with [true] exactly when the signatures can be matched to keys in order with every
    pair verifying.  [pair_ok] is "both parse in go-bk and Verify says yes for the digest, under the
    signature's hash type, of the script code of THAT signature" ([sig_code_ops]: minus the separators
    when the signature is hashed with the original digest, see [C06_script_code_per_signature]).  Lists are in pop order (top of stack first). *)
Theorem C06_multisig_matching : forall orc t in_idx c script pks sigs,
  oracle_total orc ->
  Forall (key_well_encoded c) pks -> Forall (sig_well_encoded t in_idx c script) sigs ->
  exists b,
    ms_loop orc t in_idx c script pks sigs (S (length pks)) (repeat None (length sigs)) (-1)
            (Z.of_nat (length pks) + 1) 0 (Z.of_nat (length sigs)) = LDone b /\
    (b = true <-> monotone_matching (fun s k => pair_ok orc t in_idx c script s k = true) sigs pks).
Proof. exact ms_loop_decides. Qed.
Print Assumptions C06_multisig_matching.

(** pop order or script order: the same matching *)
Theorem C06_matching_script_order : forall (S K : Type) (ok : S -> K -> Prop) ss ks,
  monotone_matching ok (rev ss) (rev ks) <-> monotone_matching ok ss ks.
Proof. exact @mm_rev. Qed.
Print Assumptions C06_matching_script_order.

(** the inductive specification says: a strictly increasing map from signatures to keys under which
    every signature verifies *)
Theorem C06_matching_is_increasing_map : forall (S K : Type) (ok : S -> K -> Prop) ss ks,
  monotone_matching ok ss ks <-> increasing_map ok ss ks.
Proof. exact @mm_iff_increasing_map. Qed.
Print Assumptions C06_matching_is_increasing_map.

(** the coded loop (indices, counters, memo list, fuel) is the structural loop over the remaining keys:
    the loop invariant, for ALL inputs (also ill-encoded ones) *)
Theorem C06_loop_invariant : forall orc t in_idx c script pks sigs,
  ms_loop orc t in_idx c script pks sigs (S (length pks)) (repeat None (length sigs)) (-1)
          (Z.of_nat (length pks) + 1) 0 (Z.of_nat (length sigs))
  = ms_struct orc t in_idx c script pks None sigs.
Proof. exact ms_loop_initial. Qed.
Print Assumptions C06_loop_invariant.

(** the multisig side of the flag table.  FULL STATEMENT WANTED: for every flag subset, exactly which
    malformed elements of an m-of-n argument list are hard failures.  PROVED: a hard failure inside the
    loop comes ONLY from a signature that fails an enabled hash-type / DER check or a key that fails the
    enabled key check (soundness); together with [C06_multisig_matching] (no such element => no error and
    the matching verdict), [C06_multisig_eval] (null dummy, null fail) and the per-element rules
    [C06_hash_type_rule], [C06_der_check_spec], [C06_pubkey_rule].  MISSING: the exact set of positions the
    loop examines before it stops (a malformed element it never reaches is not an error) is only given
    by the structural loop [C06_loop_invariant], not as a closed formula. *)
Theorem C06_flag_table_multisig_partial : forall orc t i c script pks sigs,
  ms_loop orc t i c script pks sigs (S (length pks)) (repeat None (length sigs)) (-1)
          (Z.of_nat (length pks) + 1) 0 (Z.of_nat (length sigs)) = LErr ->
  (exists raw sg hb, In raw sigs /\ split_last raw = Some (sg, hb) /\
                     (check_hash_type c (b2n hb) = false \/ check_sig_enc c sg = EncErr)) \/
  (exists pk, In pk pks /\ check_pubkey_enc c pk = false).
Proof. exact ms_loop_err. Qed.
Print Assumptions C06_flag_table_multisig_partial.

(** * 2. OP_CHECKMULTISIG consumes exactly n + m + 3 items *)

(** whenever the operation does not fail, the stack was  n :: keys(n) ++ m :: sigs(m) ++ dummy :: rest,
    m <= n, and afterwards it is  bool :: rest  (VERIFY: rest), the operation count has grown by n and
    nothing else changed.  Contrapositive: a stack without n + m + 3 items is an error. *)
Theorem C06_multisig_pops : forall orc t i c s idx vf s',
  checkmultisig_run orc t i c s idx vf = Some (OOk s') ->
  exists nk pks ns sigs dummy rest b,
    ds s = nk :: pks ++ ns :: sigs ++ dummy :: rest /\
    option_map to_int32 (pop_count c nk) = Some (Z.of_nat (length pks)) /\
    option_map to_int32 (pop_count c ns) = Some (Z.of_nat (length sigs)) /\
    (length sigs <= length pks)%nat /\
    ds s' = (if vf then rest else from_bool b :: rest) /\ (vf = true -> b = true) /\
    nops s' = (nops s + Z.of_nat (length pks))%Z /\
    als s' = als s /\ cond s' = cond s /\ last_sep s' = last_sep s /\ cur s' = cur s.
Proof. exact multisig_pops. Qed.
Print Assumptions C06_multisig_pops.

(** the run on a stack of that shape: null-dummy rule, the loop, null-fail over all signatures, the push *)
Theorem C06_multisig_eval : forall orc t i c s idx vf nk pks ns sigs dummy rest a b,
  ds s = nk :: pks ++ ns :: sigs ++ dummy :: rest ->
  pop_count c nk = Some a -> to_int32 a = Z.of_nat (length pks) ->
  pop_count c ns = Some b -> to_int32 b = Z.of_nat (length sigs) ->
  (length sigs <= length pks)%nat -> (Z.of_nat (length pks) <= max_pubkeys c)%Z ->
  (nops s + Z.of_nat (length pks) <= max_ops c)%Z ->
  checkmultisig_run orc t i c s idx vf =
  if has_flag c F_STRICTMULTISIG && negb (Nat.eqb (length dummy) 0) then Some OErr else
  let s1 := set_nops (set_ds s rest) (nops s + Z.of_nat (length pks)) in
  match ms_struct orc t i c (multisig_code_ops c s sigs) pks None sigs with
  | LErr => Some OErr
  | LPanic | LFuel => Some OPanic
  | LMiss => None
  | LPushFalse => Some (finish_verify vf (push_bool s1 false))
  | LDone ok =>
      if negb ok && has_flag c F_NULLFAIL && existsb (fun sg => Nat.ltb 0 (length sg)) sigs then Some OErr
      else Some (finish_verify vf (push_bool s1 ok))
  end.
Proof. exact multisig_eval. Qed.
Print Assumptions C06_multisig_eval.

(** the two counts are script numbers of at most 4 bytes in BOTH eras (the data stack's number length,
    750000 bytes after genesis, does not apply to them), minimally encoded under MINIMALDATA *)
Theorem C06_count_rule : forall c b,
  pop_count c b = if (4 <? Z.of_nat (length b))%Z then None
                  else if has_flag c F_MINIMALDATA && negb (is_minimal b) then None else Some (num_dec b).
Proof. exact pop_count_spec. Qed.
Print Assumptions C06_count_rule.

Theorem C06_multisig_long_key_count : forall orc t i c s idx vf nk d,
  ds s = nk :: d -> (4 < length nk)%nat -> checkmultisig_run orc t i c s idx vf = Some OErr.
Proof. exact multisig_long_key_count. Qed.
Print Assumptions C06_multisig_long_key_count.

Theorem C06_multisig_long_sig_count : forall orc t i c s idx vf nk pks ns d a,
  ds s = nk :: pks ++ ns :: d -> pop_count c nk = Some a -> to_int32 a = Z.of_nat (length pks) ->
  (4 < length ns)%nat -> checkmultisig_run orc t i c s idx vf = Some OErr.
Proof. exact multisig_long_sig_count. Qed.
Print Assumptions C06_multisig_long_sig_count.

(** * 3. OP_CHECKSIG *)

(** when the three encoding checks pass, the pushed boolean is go-bk's verdict on (key, the
    SPECIFICATION's digest of the script code, signature); [digest_spec] is spec/DigestSpec.v's FORKID
    digest (with the spent value recorded on the input) or the original digest, chosen BY THE HASH-TYPE
    BIT ALONE as coded (reported: the node also requires the FORKID flag for the former) *)
Theorem C06_checksig_result : forall orc t i c s idx pk full r sig hb up inp,
  ds s = pk :: full :: r -> split_last full = Some (sig, hb) ->
  check_hash_type c (b2n hb) = true -> check_sig_enc c sig = EncOk -> check_pubkey_enc c pk = true ->
  unparse (checksig_code_ops c s full (b2n hb)) = Some up -> (lenN up < two64)%N ->
  wf_tx t -> nth_error (tx_ins t) (N.to_nat i) = Some inp -> (i < 2147483648)%N ->
  (N.of_nat (length (tx_outs t)) < 2147483648)%N ->
  let h := digest_spec (wire_tx t) (N.to_nat i) up (in_sats inp) (b2n hb) in
  checksig_run orc t i c s idx false =
  if orc_parse_pub orc pk && orc_parse_sig orc (uses_der_parser c) sig then
    match orc_verify orc pk h sig (uses_der_parser c) with
    | None => None
    | Some true => Some (push_bool (set_ds s r) true)
    | Some false => Some (checksig_failed c (set_ds s r) full)      (* false, or the NULLFAIL error *)
    end
  else Some (checksig_failed c (set_ds s r) full).
Proof. exact checksig_result. Qed.
Print Assumptions C06_checksig_result.

(** an empty signature: the public key encoding is checked all the same (an error under STRICTENC for a
    key that is not 02/03 + 32 bytes or 04 + 64 bytes), then false is pushed.
    (Statement changed: it used to say "always pushes false", which was the defect.) *)
Theorem C06_checksig_empty_signature : forall orc t i c s idx pk r,
  ds s = pk :: [] :: r ->
  checksig_run orc t i c s idx false =
  if check_pubkey_enc c pk then Some (push_bool (set_ds s r) false) else Some OErr.
Proof. exact checksig_empty. Qed.
Print Assumptions C06_checksig_empty_signature.

(** * 4. the script code *)

(** OP_CHECKSIG: the opcodes from [last_sep] on; FORKID flag and FORKID bit: untouched; otherwise minus
    the separators and minus the opcodes that ARE the push of the signature ([kept], [is_sig_push]).
    (Statement changed: [kept] used to remove every smallest-form push CONTAINING the signature.) *)
Theorem C06_script_code_checksig : forall c s full shf,
  checksig_code_ops c s full shf =
  if has_flag c F_FORKID && flag_has shf sh_forkid then skipn (last_sep s) (cur s)
  else filter (kept full) (skipn (last_sep s) (cur s)).
Proof. exact checksig_code_spec. Qed.
Print Assumptions C06_script_code_checksig.

(** OP_CHECKMULTISIG, common part: the pushes of every signature that is not (FORKID flag and FORKID
    bit) are removed — an empty signature is one of them.  Separators are NOT removed here.
    (Statement changed: it used to remove the separators as soon as one such signature was present.) *)
Theorem C06_script_code_multisig : forall c s sigs,
  multisig_code_ops c s sigs =
  filter (fun p => forallb (fun raw => negb (strips c raw) || negb (is_sig_push raw p)) sigs) (skipn (last_sep s) (cur s)).
Proof. exact multisig_code_spec. Qed.
Print Assumptions C06_script_code_multisig.

(** OP_CHECKMULTISIG, per signature: what is unparsed and hashed for a signature with hash type [shf]
    is the common script minus the separators when that signature is hashed with the original digest,
    and the common script itself (separators included) when it is hashed with the FORKID digest — whatever
    the hash types of the OTHER signatures are *)
Theorem C06_script_code_per_signature : forall c script shf,
  sig_code_ops c script shf =
  if has_flag c F_FORKID && flag_has shf sh_forkid then script else filter (fun p => negb (is_sep p)) script.
Proof. exact sig_code_spec. Qed.
Print Assumptions C06_script_code_per_signature.

(** removal is exact: an opcode is removed exactly when its serialisation is, byte for byte, the push a
    script serialises the signature with (the node's FindAndDelete pattern [CScript() << vchSig]) *)
Theorem C06_removal_is_exact : forall sig p,
  is_sig_push sig p = true <-> exists pre, push_prefix sig = Some pre /\ pop_bytes p = Some (pre ++ sig).
Proof. exact is_sig_push_spec. Qed.
Print Assumptions C06_removal_is_exact.

(** that push: one length byte below 76 bytes — the single byte 00 (OP_0) for the empty signature, never
    OP_1..OP_16 / OP_1NEGATE —, OP_PUSHDATA1/2/4 with a little-endian length above *)
Theorem C06_push_forms : forall sig,
  let l := N.of_nat (length sig) in
  push_prefix sig =
    if (l <? 76)%N then Some [n2b l]
    else if (l <? 256)%N then Some [x4c; n2b l]
    else if (l <? 65536)%N then Some (x4d :: le_enc 2 l)
    else if (l <? 4294967296)%N then Some (x4e :: le_enc 4 l)
    else None.
Proof. exact push_prefix_spec. Qed.
Print Assumptions C06_push_forms.

(** for an opcode of the opcode table ([op_length]): removed only if it pushes EXACTLY the signature with
    the smallest push instruction — a push that merely contains the signature, or pushes it with a longer
    instruction, stays — and conversely *)
Theorem C06_removed_push_is_exact : forall sig p,
  p_len p = op_length (p_val p) -> (p_val p < 256)%N ->
  is_sig_push sig p = true -> p_data p = sig /\ p_val p = push_opcode (length sig).
Proof. exact removed_push_is_exact. Qed.
Print Assumptions C06_removed_push_is_exact.

Theorem C06_exact_push_is_removed : forall sig p,
  p_len p = op_length (p_val p) -> p_data p = sig -> p_val p = push_opcode (length sig) ->
  (N.of_nat (length sig) < 4294967296)%N -> is_sig_push sig p = true.
Proof. exact exact_push_is_removed. Qed.
Print Assumptions C06_exact_push_is_removed.

(** the empty signature removes OP_0 opcodes only *)
Theorem C06_empty_signature_removes_op0_only : forall p,
  is_sig_push [] p = true <-> pop_bytes p = Some [x00].
Proof. exact empty_sig_removes_op0_only. Qed.
Print Assumptions C06_empty_signature_removes_op0_only.

(** an opcode that serialises to a single byte other than 00 (OP_1NEGATE, OP_1..OP_16, every non-push
    opcode, OP_CODESEPARATOR) is never removed by signature removal, whatever the signature *)
Theorem C06_single_byte_opcode_kept : forall sig p v,
  pop_bytes p = Some [v] -> v <> x00 -> is_sig_push sig p = false.
Proof. exact single_byte_opcode_kept. Qed.
Print Assumptions C06_single_byte_opcode_kept.

Theorem C06_unparse_is_concatenation : forall ops b, unparse ops = Some b ->
  exists bs, Forall2 (fun p x => pop_bytes p = Some x) ops bs /\ b = concat bs.
Proof. exact unparse_spec. Qed.
Print Assumptions C06_unparse_is_concatenation.

(** [last_sep] is the index after the most recently EXECUTED OP_CODESEPARATOR: a step of the interpreter
    moves it exactly when it executes a separator; no other opcode (signature operations, pushes,
    skipped branches included) touches it or the current script *)
Theorem C06_code_start_tracking : forall orc t i c p idx s s',
  execute_opcode (mk_sigops orc t i) c p idx s = OOk s' \/ execute_opcode (mk_sigops orc t i) c p idx s = OReturn s' ->
  cur s' = cur s /\
  last_sep s' = if (p_val p =? OP_CODESEPARATOR)%N && branch_executing s && should_exec c s (p_val p)
                then S idx else last_sep s.
Proof. exact step_code_start. Qed.
Print Assumptions C06_code_start_tracking.

(** * 5. the flag table *)

(** the hash-type rule of STRICTENC (BIP143 flag off), for all 256 hash-type bytes: defined base type,
    and the FORKID bit exactly when the FORKID flag is set (ILLEGAL_FORKID / MUST_USE_FORKID) *)
Theorem C06_hash_type_rule : forall c shf, (shf < 256)%N -> has_flag c F_BIP143 = false ->
  check_hash_type c shf = hash_type_rule (has_flag c F_STRICTENC) (has_flag c F_FORKID) shf.
Proof. exact check_hash_type_rule. Qed.
Print Assumptions C06_hash_type_rule.

Theorem C06_pubkey_rule : forall c pk,
  check_pubkey_enc c pk = true <-> (has_flag c F_STRICTENC = true -> pubkey_shape_ok pk).
Proof. exact check_pubkey_enc_spec. Qed.
Print Assumptions C06_pubkey_rule.

(** OP_CHECKSIG on a non-empty signature, for EVERY flag word with BIP143 off (in particular all 2^6
    subsets of {STRICTENC, DERSIG, LOW_S, NULLDUMMY, NULLFAIL, FORKID} in both eras): it is a hard failure
    exactly when the pair has a [defect] that [hard] marks for the flags; otherwise — every other invalid
    signature included — the ECDSA verdict is pushed and there is no error.  [hard] is the table. *)
Theorem C06_flag_table : forall orc c t i s idx pk full r sig hb up h,
  ds s = pk :: full :: r -> split_last full = Some (sig, hb) -> has_flag c F_BIP143 = false ->
  unparse (checksig_code_ops c s full (b2n hb)) = Some up -> sighash_for t i up (b2n hb) = SOk h ->
  orc_verify orc pk h sig (uses_der_parser c) <> None ->
  let verdict := orc_parse_pub orc pk && orc_parse_sig orc (uses_der_parser c) sig &&
                 match orc_verify orc pk h sig (uses_der_parser c) with Some true => true | _ => false end in
  ((exists d, has_defect orc c pk sig (b2n hb) h d /\ hard c d = true) ->
     checksig_run orc t i c s idx false = Some OErr) /\
  (~ (exists d, has_defect orc c pk sig (b2n hb) h d /\ hard c d = true) ->
     checksig_run orc t i c s idx false = Some (push_bool (set_ds s r) verdict)).
Proof. exact checksig_table. Qed.
Print Assumptions C06_flag_table.

(** the table, spelled out for the 64 subsets ([flags_of]: the flag word after apply's normalisation; computed) *)
Theorem C06_flag_table_64 : forall se de lo nd nf fk,
  let c := flags_of se de lo nd nf fk in
  hard c HashTypeUndefined = (se || fk) /\
  hard c ForkIdBit = ((se || fk) && negb fk) /\
  hard c NoForkIdBit = fk /\
  hard c NotStrictDER = (de || lo || se || fk) /\
  hard c HighS = lo /\
  hard c PubKeyShape = (se || fk) /\
  hard c VerifyFails = nf /\
  hard c Unparsable = nf.
Proof. exact flag_table_64. Qed.
Print Assumptions C06_flag_table_64.

(** * 6. DER and low S *)
Theorem C06_der_check_spec : forall c b, enc_flags_on c = true -> has_flag c F_LOWS = false ->
  (check_sig_enc c b = EncOk <-> strict_der b).
Proof. exact der_check_spec. Qed.
Print Assumptions C06_der_check_spec.

Theorem C06_low_s_spec : forall c b, has_flag c F_LOWS = true ->
  (check_sig_enc c b = EncOk <-> strict_der_low_s b).
Proof. exact low_s_spec. Qed.
Print Assumptions C06_low_s_spec.

(** LOW_S is about signatures in range: with R or S not below the group order the signature is not
    "high S" — it passes the encoding check under every flag set (and never verifies) *)
Theorem C06_low_s_out_of_range : forall c R Sv,
  der_integer R -> der_integer Sv -> (length R + length Sv <= 66)%nat ->
  (secp256k1_order <= be_dec R \/ secp256k1_order <= be_dec Sv)%N ->
  check_sig_enc c (x30 :: n2b (N.of_nat (4 + length R + length Sv)) :: x02 :: n2b (N.of_nat (length R)) :: R ++
                   x02 :: n2b (N.of_nat (length Sv)) :: Sv) = EncOk.
Proof. exact out_of_range_passes. Qed.
Print Assumptions C06_low_s_out_of_range.

Theorem C06_low_s_in_range : forall R Sv, in_range R Sv -> (low_s R Sv <-> (be_dec Sv <= secp256k1_order / 2)%N).
Proof. exact in_range_low_s. Qed.
Print Assumptions C06_low_s_in_range.

Theorem C06_no_encoding_flags : forall c b, enc_flags_on c = false -> check_sig_enc c b = EncOk.
Proof. exact check_sig_enc_off. Qed.
Print Assumptions C06_no_encoding_flags.

Theorem C06_half_order : half_order = (secp256k1_order / 2)%N /\ curve_order = secp256k1_order.
Proof. split; [exact half_order_spec|exact curve_order_spec]. Qed.
Print Assumptions C06_half_order.

Theorem C06_encoding_check_total : forall c b, check_sig_enc c b = EncOk \/ check_sig_enc c b = EncErr.
Proof. exact check_sig_enc_total. Qed.
Print Assumptions C06_encoding_check_total.

(** * 7. what the interpreter's totality theorem (C07) needs *)

(** never a panic, never an early return, condition stack untouched — for every oracle, on a well-formed
    transaction with an existing input index below 2^31 *)
Theorem C06_sigops_ok_mk : forall orc t i, tx_ctx_ok t i -> sigops_ok (mk_sigops orc t i).
Proof. exact sigops_ok_mk. Qed.
Print Assumptions C06_sigops_ok_mk.

(** without the hypothesis the statement is false of the faithful model: a transaction whose input has
    no previous txid does not survive Tx.Clone's re-parse (log.Fatal in the Go code) *)
Theorem C06_sigops_ok_unconditional_refuted : exists orc t i, ~ sigops_ok (mk_sigops orc t i).
Proof. exact sigops_ok_unconditional_refuted. Qed.
Print Assumptions C06_sigops_ok_unconditional_refuted.

(** * 8. Audit B additions (proofs/AuditB_C06.v): the pieces above, composed *)
From GoBT Require Import proofs.AuditB_C06.

(** OP_CHECKSIGVERIFY / OP_CHECKMULTISIGVERIFY are the plain operations followed by OP_VERIFY: every statement
    above about the plain form (vf = false) transfers *)
Theorem C06_checksig_verify_variant : forall orc t i c s idx,
  checksig_run orc t i c s idx true = option_map (finish_verify true) (checksig_run orc t i c s idx false).
Proof. exact checksig_verify_variant. Qed.
Print Assumptions C06_checksig_verify_variant.
Theorem C06_checkmultisig_verify_variant : forall orc t i c s idx,
  checkmultisig_run orc t i c s idx true = option_map (finish_verify true) (checkmultisig_run orc t i c s idx false).
Proof. exact checkmultisig_verify_variant. Qed.
Print Assumptions C06_checkmultisig_verify_variant.

(** OP_CHECKMULTISIG end to end ([C06_multisig_eval] + [C06_loop_invariant] + [C06_multisig_matching]): on a stack
    n :: keys(n) ++ m :: sigs(m) ++ dummy :: rest within the limits, with a null dummy under STRICTMULTISIG and
    well-encoded keys and signatures, the operation pushes [ok] (or fails under NULLFAIL when [ok] is false and a
    signature is not empty) and [ok] is true exactly when the signatures match keys in key order *)
Theorem C06_checkmultisig_accepts_iff_matching : forall orc t i c s idx nk pks ns sigs dummy rest a b,
  oracle_total orc ->
  ds s = nk :: pks ++ ns :: sigs ++ dummy :: rest ->
  pop_count c nk = Some a -> to_int32 a = Z.of_nat (length pks) ->
  pop_count c ns = Some b -> to_int32 b = Z.of_nat (length sigs) ->
  (length sigs <= length pks)%nat -> (Z.of_nat (length pks) <= max_pubkeys c)%Z ->
  (nops s + Z.of_nat (length pks) <= max_ops c)%Z ->
  (has_flag c F_STRICTMULTISIG = true -> dummy = []) ->
  Forall (key_well_encoded c) pks ->
  Forall (sig_well_encoded t i c (multisig_code_ops c s sigs)) sigs ->
  exists ok,
    (ok = true <-> monotone_matching (fun sg k => pair_ok orc t i c (multisig_code_ops c s sigs) sg k = true) sigs pks) /\
    checkmultisig_run orc t i c s idx false =
      if negb ok && has_flag c F_NULLFAIL && existsb (fun sg => Nat.ltb 0 (length sg)) sigs then Some OErr
      else Some (push_bool (set_nops (set_ds s rest) (nops s + Z.of_nat (length pks))) ok).
Proof. exact checkmultisig_accepts_iff_matching. Qed.
Print Assumptions C06_checkmultisig_accepts_iff_matching.

(** the script code is cut from the script being run, along a whole run: [cur] is that script and the code start
    [last_sep] is never beyond the opcode being executed -- at the start of every script, after every step
    ([C06_code_start_tracking] says where exactly), and at the end *)
Theorem C06_code_start_initial : forall ops d s next,
  code_inv ops 0 (set_ds (init_st ops) d) /\ code_inv next 0 (shift_script s next).
Proof. intros. split; [apply code_inv_init|apply code_inv_shift]. Qed.
Print Assumptions C06_code_start_initial.
Theorem C06_code_start_step : forall orc t i c ops_all p idx s s',
  code_inv ops_all idx s ->
  execute_opcode (mk_sigops orc t i) c p idx s = OOk s' \/ execute_opcode (mk_sigops orc t i) c p idx s = OReturn s' ->
  code_inv ops_all (S idx) s'.
Proof. exact code_inv_step. Qed.
Print Assumptions C06_code_start_step.
Theorem C06_code_start_run : forall orc t i c ops_all ops idx s acc,
  skipn idx ops_all = ops -> (idx <= length ops_all)%nat -> code_inv ops_all idx s ->
  match fst (run_ops (mk_sigops orc t i) c ops idx s acc) with
  | SEnd s' | SReturn s' => cur s' = ops_all /\ (last_sep s' <= length ops_all)%nat
  | SErr | SPanic => True
  end.
Proof. exact run_ops_code_inv. Qed.
Print Assumptions C06_code_start_run.

(** * 9. Audit B, the items that were open (proofs/AuditB_C06b.v) *)
From GoBT Require Import proofs.AuditB_C06b.

(** the parser and Unparse are inverse: a script accepted by the parser unparses to itself *)
Theorem C06_parse_unparse : forall e bs ops, parse_script e bs = Some ops -> unparse ops = Some bs.
Proof. exact parse_script_unparse. Qed.
Print Assumptions C06_parse_unparse.

(** [unparse_of_parsed]: for every script accepted by the parser, Unparse succeeds on every suffix of the parsed
    opcode list (the script code after a code separator), also after removing any set of opcodes (signature
    pushes, separators), and the result is not longer than the script *)
Theorem C06_unparse_of_parsed : forall e bs ops n f, parse_script e bs = Some ops ->
  exists up, unparse (filter f (skipn n ops)) = Some up /\ (length up <= length bs)%nat.
Proof. exact unparse_of_parsed. Qed.
Print Assumptions C06_unparse_of_parsed.
Theorem C06_unparse_suffix_of_parsed : forall e bs ops n, parse_script e bs = Some ops ->
  exists up, unparse (skipn n ops) = Some up /\ (length up <= length bs)%nat.
Proof. exact unparse_suffix_of_parsed. Qed.
Print Assumptions C06_unparse_suffix_of_parsed.

(** [C06_checksig_result] for a running script, without the Unparse hypothesis: when the current script is a parse
    result of fewer than 2^64 bytes (it always is: apply and the P2SH step parse what they run) and the three
    encoding checks pass, the script code unparses and the pushed boolean is go-bk's verdict on (key, the
    SPECIFICATION's digest of that script code, signature) *)
Theorem C06_checksig_result_running : forall orc t i c s idx pk full r sig hb inp e bs,
  parse_script e bs = Some (cur s) -> (lenN bs < two64)%N ->
  ds s = pk :: full :: r -> split_last full = Some (sig, hb) ->
  check_hash_type c (b2n hb) = true -> check_sig_enc c sig = EncOk -> check_pubkey_enc c pk = true ->
  wf_tx t -> nth_error (tx_ins t) (N.to_nat i) = Some inp -> (i < 2147483648)%N ->
  (N.of_nat (length (tx_outs t)) < 2147483648)%N ->
  exists up, unparse (checksig_code_ops c s full (b2n hb)) = Some up /\ (length up <= length bs)%nat /\
  let h := digest_spec (wire_tx t) (N.to_nat i) up (in_sats inp) (b2n hb) in
  checksig_run orc t i c s idx false =
  if orc_parse_pub orc pk && orc_parse_sig orc (uses_der_parser c) sig then
    match orc_verify orc pk h sig (uses_der_parser c) with
    | None => None
    | Some true => Some (push_bool (set_ds s r) true)
    | Some false => Some (checksig_failed c (set_ds s r) full)
    end
  else Some (checksig_failed c (set_ds s r) full).
Proof. exact checksig_result_running. Qed.
Print Assumptions C06_checksig_result_running.

(** OP_CHECKMULTISIG end to end over the SPECIFICATION's digest: [C06_checkmultisig_accepts_iff_matching] with
    [pair_ok_spec] -- "both parse in go-bk and Verify says yes for [digest_spec] (the independent BSV digest, FORKID
    with the spent value of the input or original, by the hash-type bit) of the script code of THAT signature" --
    in place of the model's digest; "well encoded" no longer mentions the model's digest either
    ([sig_well_encoded_spec]: hash-type and DER checks pass, the script code unparses to fewer than 2^64 bytes) *)
Theorem C06_checkmultisig_accepts_iff_matching_spec : forall orc t i c s idx nk pks ns sigs dummy rest a b inp,
  oracle_total orc ->
  wf_tx t -> nth_error (tx_ins t) (N.to_nat i) = Some inp -> (i < 2147483648)%N ->
  (N.of_nat (length (tx_outs t)) < 2147483648)%N ->
  ds s = nk :: pks ++ ns :: sigs ++ dummy :: rest ->
  pop_count c nk = Some a -> to_int32 a = Z.of_nat (length pks) ->
  pop_count c ns = Some b -> to_int32 b = Z.of_nat (length sigs) ->
  (length sigs <= length pks)%nat -> (Z.of_nat (length pks) <= max_pubkeys c)%Z ->
  (nops s + Z.of_nat (length pks) <= max_ops c)%Z ->
  (has_flag c F_STRICTMULTISIG = true -> dummy = []) ->
  Forall (key_well_encoded c) pks ->
  Forall (sig_well_encoded_spec c (multisig_code_ops c s sigs)) sigs ->
  exists ok,
    (ok = true <-> monotone_matching (fun sg k =>
        pair_ok_spec orc (wire_tx t) (N.to_nat i) (in_sats inp) c (multisig_code_ops c s sigs) sg k = true) sigs pks) /\
    checkmultisig_run orc t i c s idx false =
      if negb ok && has_flag c F_NULLFAIL && existsb (fun sg => Nat.ltb 0 (length sg)) sigs then Some OErr
      else Some (push_bool (set_nops (set_ds s rest) (nops s + Z.of_nat (length pks))) ok).
Proof. exact checkmultisig_accepts_iff_matching_spec. Qed.
Print Assumptions C06_checkmultisig_accepts_iff_matching_spec.

(** the same on a running script (current script = a parse result of fewer than 2^64 bytes): the script codes
    unparse by [C06_unparse_of_parsed], so only the hash-type and DER checks of the non-empty signatures
    ([sig_checks_pass]) and the key checks remain as hypotheses *)
Theorem C06_checkmultisig_accepts_iff_matching_running : forall orc t i c s idx nk pks ns sigs dummy rest a b inp e bs,
  oracle_total orc ->
  parse_script e bs = Some (cur s) -> (lenN bs < two64)%N ->
  wf_tx t -> nth_error (tx_ins t) (N.to_nat i) = Some inp -> (i < 2147483648)%N ->
  (N.of_nat (length (tx_outs t)) < 2147483648)%N ->
  ds s = nk :: pks ++ ns :: sigs ++ dummy :: rest ->
  pop_count c nk = Some a -> to_int32 a = Z.of_nat (length pks) ->
  pop_count c ns = Some b -> to_int32 b = Z.of_nat (length sigs) ->
  (length sigs <= length pks)%nat -> (Z.of_nat (length pks) <= max_pubkeys c)%Z ->
  (nops s + Z.of_nat (length pks) <= max_ops c)%Z ->
  (has_flag c F_STRICTMULTISIG = true -> dummy = []) ->
  Forall (key_well_encoded c) pks ->
  Forall (sig_checks_pass c) sigs ->
  exists ok,
    (ok = true <-> monotone_matching (fun sg k =>
        pair_ok_spec orc (wire_tx t) (N.to_nat i) (in_sats inp) c (multisig_code_ops c s sigs) sg k = true) sigs pks) /\
    checkmultisig_run orc t i c s idx false =
      if negb ok && has_flag c F_NULLFAIL && existsb (fun sg => Nat.ltb 0 (length sg)) sigs then Some OErr
      else Some (push_bool (set_nops (set_ds s rest) (nops s + Z.of_nat (length pks))) ok).
Proof. exact checkmultisig_accepts_iff_matching_running. Qed.
Print Assumptions C06_checkmultisig_accepts_iff_matching_running.

(** the hash-type rule for EVERY flag word, BIP143 on or off, all 256 hash-type bytes (a computed sweep over the
    2 x 2 x 2 values of the three flags checkHashTypeEncoding reads x 256 bytes, [hash_type_sweep]): under STRICTENC
    a defined base type, and the FORKID bit exactly when the FORKID flag OR the BIP143 flag is set *)
Theorem C06_hash_type_rule_all_flags : forall c shf, (shf < 256)%N ->
  check_hash_type c shf =
  hash_type_rule_all (has_flag c F_STRICTENC) (has_flag c F_FORKID) (has_flag c F_BIP143) shf.
Proof. exact check_hash_type_rule_all. Qed.
Print Assumptions C06_hash_type_rule_all_flags.

(** [C06_flag_table] without the hypothesis on the BIP143 flag: for EVERY flag word OP_CHECKSIG on a non-empty
    signature is a hard failure exactly when the pair has a defect that [hard_all] marks; [hard_all] is [hard]
    except that the two FORKID-bit rows read "FORKID flag or BIP143 flag" (with BIP143 off it IS [hard]) *)
Theorem C06_flag_table_all_flags : forall orc c t i s idx pk full r sig hb up h,
  ds s = pk :: full :: r -> split_last full = Some (sig, hb) ->
  unparse (checksig_code_ops c s full (b2n hb)) = Some up -> sighash_for t i up (b2n hb) = SOk h ->
  orc_verify orc pk h sig (uses_der_parser c) <> None ->
  let verdict := orc_parse_pub orc pk && orc_parse_sig orc (uses_der_parser c) sig &&
                 match orc_verify orc pk h sig (uses_der_parser c) with Some true => true | _ => false end in
  ((exists d, has_defect orc c pk sig (b2n hb) h d /\ hard_all c d = true) ->
     checksig_run orc t i c s idx false = Some OErr) /\
  (~ (exists d, has_defect orc c pk sig (b2n hb) h d /\ hard_all c d = true) ->
     checksig_run orc t i c s idx false = Some (push_bool (set_ds s r) verdict)).
Proof. exact checksig_table_all_flags. Qed.
Print Assumptions C06_flag_table_all_flags.

Theorem C06_flag_table_bip143_off : forall c d, has_flag c F_BIP143 = false -> hard_all c d = hard c d.
Proof. exact hard_all_bip143_off. Qed.
Print Assumptions C06_flag_table_bip143_off.

(** the table spelled out for the 128 subsets, BIP143 included ([flags_of7]; computed) *)
Theorem C06_flag_table_128 : forall se de lo nd nf fk b143,
  let c := flags_of7 se de lo nd nf fk b143 in
  has_flag c F_BIP143 = b143 /\
  hard_all c HashTypeUndefined = (se || fk) /\
  hard_all c ForkIdBit = ((se || fk) && negb (fk || b143)) /\
  hard_all c NoForkIdBit = ((se || fk) && (fk || b143)) /\
  hard_all c NotStrictDER = (de || lo || se || fk) /\
  hard_all c HighS = lo /\
  hard_all c PubKeyShape = (se || fk) /\
  hard_all c VerifyFails = nf /\
  hard_all c Unparsable = nf.
Proof. exact flag_table_128. Qed.
Print Assumptions C06_flag_table_128.

(** STRICTENC | BIP143 without the FORKID flag: hash type 01 is refused, 41 accepted (the row that differs from
    the BIP143-off table, where 41 is refused and 01 accepted) *)
Example C06_bip143_examples :
  let on := flags_of7 true false false false false false true in
  let off := flags_of7 true false false false false false false in
  check_hash_type on 1 = false /\ check_hash_type on 65 = true /\
  check_hash_type off 1 = true /\ check_hash_type off 65 = false.
Proof. vm_compute. repeat split; reflexivity. Qed.

(** the code-separator example: OP_1 OP_CODESEPARATOR <30 01> OP_CHECKSIG parses; the script code after the
    separator (suffix from index 2) unparses to the last three bytes plus the opcode *)
Example C06_unparse_suffix_example :
  match parse_script false [x51; xab; x02; x30; x01; xac] with
  | Some ops => unparse (skipn 2 ops) = Some [x02; x30; x01; xac] /\ unparse ops = Some [x51; xab; x02; x30; x01; xac]
  | None => False
  end.
Proof. vm_compute. split; reflexivity. Qed.

(** * 10. the code start along a run, across script changes (proofs/AuditB_C06b.v, section 4) *)

(** [run_steps] lists the execute_opcode calls of [run_ops] in order, as (index, opcode, state before): every
    step's outcome is the next step's state, and the last step's outcome is how run_ops ends *)
Theorem C06_run_steps_chain : forall so c ops idx s pre k p s1 k' p' s2 post,
  run_steps so c ops idx s = pre ++ (k, p, s1) :: (k', p', s2) :: post ->
  execute_opcode so c p k s1 = OOk s2 /\ k' = S k.
Proof. exact run_steps_chain. Qed.
Print Assumptions C06_run_steps_chain.
Theorem C06_run_steps_end : forall so c ops idx s acc, ops <> [] ->
  exists pre k p sl, run_steps so c ops idx s = pre ++ [(k, p, sl)] /\
                     fst (run_ops so c ops idx s acc) = step_end c (execute_opcode so c p k sl).
Proof. exact run_ops_last_step. Qed.
Print Assumptions C06_run_steps_end.

(** [code_start_after c g tr]: the index after the LAST step of [tr] that executed an OP_CODESEPARATOR
    ([sep_executed]: the opcode is a separator in an executing branch, not after an early return), [g] if none *)
Theorem C06_code_start_after : forall c g tr k p s,
  code_start_after c g [] = g /\
  code_start_after c g (tr ++ [(k, p, s)]) = if sep_executed c p s then S k else code_start_after c g tr.
Proof. intros. split; [apply code_start_after_nil|apply code_start_after_snoc]. Qed.
Print Assumptions C06_code_start_after.

(** the handler of a signature opcode is called with the state before the step, the operation count charged:
    same current script, same code start (or the step fails earlier / the opcode is not executed) *)
Theorem C06_sigop_call_state : forall so c p idx s,
  let s1 := set_nops s (nops s + 1)%Z in
  let o := execute_opcode so c p idx s in
  (p_val p = OP_CHECKSIG -> o = OErr \/ o = OPanic \/ o = OOk s1 \/ o = so_checksig so c s1 idx false) /\
  (p_val p = OP_CHECKSIGVERIFY -> o = OErr \/ o = OPanic \/ o = OOk s1 \/ o = so_checksig so c s1 idx true) /\
  (p_val p = OP_CHECKMULTISIG -> o = OErr \/ o = OPanic \/ o = OOk s1 \/ o = so_checkmultisig so c s1 idx false) /\
  (p_val p = OP_CHECKMULTISIGVERIFY -> o = OErr \/ o = OPanic \/ o = OOk s1 \/ o = so_checkmultisig so c s1 idx true).
Proof. exact execute_sigop_call. Qed.
Print Assumptions C06_sigop_call_state.

(** the start states of the run_ops calls of [execute] / [run_lock] / [run_redeem] (first script; locking script
    after shiftScript; redeem script after shiftScript with the saved stack): current script installed, code start 0 *)
Theorem C06_script_start_shapes : forall ops s d,
  script_start ops (init_st ops) /\ script_start ops (shift_script s ops) /\
  script_start ops (set_ds (shift_script s ops) d).
Proof. exact script_start_shapes. Qed.
Print Assumptions C06_script_start_shapes.

(** run level, across the unlocking / locking / redeem boundaries: in the run of a script started in one of those
    states, at EVERY step (k, p, sk) -- [pre] being the steps before it -- p is opcode k of the current script and the
    script code a signature opcode cuts there is the suffix of the CURRENT script after the most recently executed
    OP_CODESEPARATOR of this script's run (separators executed in a previous script do not count: shiftScript
    resets the start), minus signature pushes and separators for the original digest *)
Theorem C06_code_start_along_run : forall orc t i c ops s0 pre k p sk post,
  script_start ops s0 ->
  run_steps (mk_sigops orc t i) c ops 0 s0 = pre ++ (k, p, sk) :: post ->
  nth_error ops k = Some p /\
  sub_script (set_nops sk (nops sk + 1)%Z) = skipn (code_start_after c 0 pre) ops /\
  forall full shf,
    checksig_code_ops c (set_nops sk (nops sk + 1)%Z) full shf =
    if has_flag c F_FORKID && flag_has shf sh_forkid then skipn (code_start_after c 0 pre) ops
    else filter (kept full) (skipn (code_start_after c 0 pre) ops).
Proof. exact code_start_along_run. Qed.
Print Assumptions C06_code_start_along_run.

(** OP_1 OP_CODESEPARATOR OP_1 OP_CODESEPARATOR OP_1 in a skipped branch does not count: for
    OP_CODESEPARATOR OP_0 OP_IF OP_CODESEPARATOR OP_ENDIF OP_1 the start before the last step is 1, not 4 *)
Example C06_code_start_example :
  let c := flags_of false false false false false false in
  let ops := match parse_script false [xab; x00; x63; xab; x68; x51] with Some o => o | None => [] end in
  map (fun x : step => last_sep (snd x)) (run_steps (mk_sigops any_oracle ex_tx 1) c ops 0 (init_st ops)) = [0; 1; 1; 1; 1; 1]%nat.
Proof. vm_compute. reflexivity. Qed.

(** the WHOLE execution ([execute] / [engine_execute]: unlocking script, locking script, P2SH redeem script, with
    their shiftScript steps): every call of a signature opcode's handler happens in a state whose code start lies
    within the executed part of the CURRENT script and is 0 or the index right after an OP_CODESEPARATOR opcode of
    the current script ([code_guard]) -- stated as: handlers that PANIC when called outside the guard ([guarded])
    give the same execution, for every input.  (Which separator: [C06_code_start_along_run].) *)
Theorem C06_code_guard_whole_execution : forall orc t i c bip16 unlock lock,
  execute (guarded (mk_sigops orc t i)) c bip16 unlock lock = execute (mk_sigops orc t i) c bip16 unlock lock.
Proof. exact execute_guarded. Qed.
Print Assumptions C06_code_guard_whole_execution.
Theorem C06_code_guard_engine : forall orc t i inp,
  engine_execute (guarded (mk_sigops orc t i)) inp = engine_execute (mk_sigops orc t i) inp.
Proof. exact engine_execute_guarded. Qed.
Print Assumptions C06_code_guard_engine.

(** the guard can fail (the statement above is not empty): a code start beyond the current opcode, or one that
    does not follow a separator, makes the guarded handler panic *)
Example C06_code_guard_can_fail :
  let so := guarded (mk_sigops any_oracle ex_tx 1) in
  let c := flags_of false false false false false false in
  so_checksig so c (set_sep (init_st [mkPop OP_1 1 [] true; mkPop OP_CHECKSIG 1 [] true]) 2) 1 false = OPanic /\
  so_checksig so c (set_sep (init_st [mkPop OP_1 1 [] true; mkPop OP_CHECKSIG 1 [] true]) 1) 1 false = OPanic /\
  so_checksig so c (init_st [mkPop OP_1 1 [] true; mkPop OP_CHECKSIG 1 [] true]) 1 false = OErr.
Proof. vm_compute. repeat split; reflexivity. Qed.

(** * non-vacuity *)
Example C06_tx_ctx_ok_satisfiable : tx_ctx_ok ex_tx 1.
Proof.
  assert (Hin : forall txid vout unl sq sats scr, length txid = 32%nat -> (vout < two32)%N -> (sq < two32)%N ->
            (sats < two64)%N -> (lenN unl < two64)%N -> (lenN scr < two64)%N ->
            wf_input (mkInput txid vout unl sq sats (Some scr))).
  { intros. unfold wf_input, wf_script. cbn [in_txid in_vout in_seq in_sats in_unlock in_script]. repeat split; assumption. }
  split; [|split; [cbn; apply le_n|reflexivity]].
  split; [reflexivity|]. split; [reflexivity|]. split; [|split; [|split; reflexivity]].
  - constructor; [apply Hin; reflexivity|]. constructor; [apply Hin; reflexivity|constructor].
  - constructor; [split; reflexivity|constructor].
Qed.

(** the hypotheses of [C06_multisig_matching] are satisfiable: with no encoding flags, an oracle that
    answers everything, the 2-byte signature 30 01 and any key are well encoded for input 1 of [ex_tx] *)
Example C06_matching_hypotheses_satisfiable :
  oracle_total any_oracle /\
  Forall (key_well_encoded (flags_of false false false false false false)) [[x02]] /\
  Forall (sig_well_encoded ex_tx 1 (flags_of false false false false false false) []) [[x30; x01]].
Proof. exact matching_hypotheses_example. Qed.

(** 3006020101020101 is strict DER with low S; the model accepts it under DERSIG | LOW_S *)
Example C06_strict_der_example : strict_der_low_s [x30; x06; x02; x01; x01; x02; x01; x01].
Proof.
  exists [x01], [x01].
  assert (Hi : der_integer [x01]) by (cbn; split; [reflexivity|exact I]).
  split; [reflexivity|]. split; [exact Hi|]. split; [exact Hi|]. split; [cbn; repeat constructor|].
  unfold low_s. intros _ H. vm_compute in H. discriminate.
Qed.
Example C06_der_example_model :
  check_sig_enc (flags_of false true true false false false) [x30; x06; x02; x01; x01; x02; x01; x01] = EncOk /\
  check_sig_enc (flags_of false true false false false false) [x30; x06; x02; x01; x00; x02; x01; x01; x00] = EncErr.
Proof. vm_compute. split; reflexivity. Qed.

(** S = the group order (33 bytes 00 FF..41) is out of range, not high S: accepted under LOW_S; S = order - 1
    is the highest high S: rejected; without LOW_S (DERSIG only) both pass the encoding check *)
Example C06_low_s_range_examples :
  let body s := x30 :: x26 :: x02 :: x01 :: x01 :: x02 :: x21 :: x00 :: be_enc 32 s in
  check_sig_enc (flags_of false false true false false false) (body secp256k1_order) = EncOk /\
  check_sig_enc (flags_of false false true false false false) (body (secp256k1_order - 1)%N) = EncErr /\
  check_sig_enc (flags_of false true false false false false) (body (secp256k1_order - 1)%N) = EncOk.
Proof. vm_compute. repeat split; reflexivity. Qed.

(** signature removal on  <30 01>  <30 01 ee>  PUSHDATA1<30 01>  OP_0  OP_5  <05> :
    for the "signature" 30 01 only the first opcode goes (the push containing it and the PUSHDATA1 form stay);
    the empty signature removes OP_0 only; the one-byte signature 05 removes 01 05 and not OP_5 *)
Example C06_removal_examples :
  let script := [x02; x30; x01] ++ [x03; x30; x01; xee] ++ [x4c; x02; x30; x01] ++ [x00; x55] ++ [x01; x05] in
  let strip sig := match parse_script false script with
                   | Some ops => unparse (remove_by_data ops sig) | None => None end in
  strip [x30; x01] = Some ([x03; x30; x01; xee] ++ [x4c; x02; x30; x01] ++ [x00; x55] ++ [x01; x05]) /\
  strip [] = Some ([x02; x30; x01] ++ [x03; x30; x01; xee] ++ [x4c; x02; x30; x01] ++ [x55] ++ [x01; x05]) /\
  strip [x05] = Some ([x02; x30; x01] ++ [x03; x30; x01; xee] ++ [x4c; x02; x30; x01] ++ [x00; x55]).
Proof. vm_compute. repeat split; reflexivity. Qed.

(** a 5-byte count 01 00 00 00 00 is refused after genesis as before; 01 00 00 00 (4 bytes) is the number 1
    unless MINIMALDATA is set *)
Example C06_count_examples :
  let ag := mkCtx (N.shiftl 1 F_GENESIS) true 0 1 0 true in
  pop_count ag [x01; x00; x00; x00; x00] = None /\ pop_count ag [x01; x00; x00; x00] = Some 1%Z /\
  pop_count (mkCtx (N.shiftl 1 F_MINIMALDATA) true 0 1 0 false) [x01; x00; x00; x00] = None.
Proof. vm_compute. repeat split; reflexivity. Qed.

(** a toy oracle: 2-of-3 with signatures for keys 1 and 3 matches, in the other order it does not *)
Example C06_matching_example :
  monotone_matching (fun s k : nat => Nat.eqb s k = true) [1; 3]%nat [1; 2; 3]%nat /\
  ~ monotone_matching (fun s k : nat => Nat.eqb s k = true) [3; 1]%nat [1; 2; 3]%nat.
Proof.
  split.
  - apply mm_take; [reflexivity|]. apply mm_skip. apply mm_take; [reflexivity|]. apply mm_done.
  - intros H. apply (greedy_spec Nat.eqb [1; 2; 3]%nat [3; 1]%nat) in H. discriminate.
Qed.

(** State inventory (tie, translator part): every Go struct the model of this property represents has, in the
    source as it is NOW (gen/Structs.v, regenerated on every run), exactly the fields - names, types, order - the
    model was written against (model/StateInventory.v).  New state in these objects (a memoised digest, a cached
    document, a remembered operand) is state the theorems above do not speak about: this is the obligation that
    stops checking then. *)
From GoBT Require gen.Structs model.StateInventory.
Theorem C06_state_inventory :
  forall k, In k (StateInventory.group_of StateInventory.pC06) ->
  exists f, StateInventory.lookup_gen gen.Structs.structs k = Some f /\ StateInventory.lookup_model k = Some f.
Proof. apply StateInventory.inventory_ok_spec. vm_compute. reflexivity. Qed.
Print Assumptions C06_state_inventory.

(** Package-level state (tie, translator part): in the source as it is NOW (gen/Globals.v) no package-level variable of
    the packages this property's code lives in can change after initialisation or is handed out by reference - the
    model's functions are functions of their arguments only (model/StateInventory.v). *)
From GoBT Require gen.Globals.
Theorem C06_no_mutable_package_state :
  forall g, In g gen.Globals.globals -> In (StateInventory.rg_pkg g) (StateInventory.packages_of StateInventory.pC06) ->
  StateInventory.rg_mutated g = false /\ StateInventory.rg_escapes g = false.
Proof. apply StateInventory.pkg_state_ok_spec. vm_compute. reflexivity. Qed.
Print Assumptions C06_no_mutable_package_state.

(** * 11. the positions the OP_CHECKMULTISIG loop examines; the full multisig side of the flag table
    (spec/MultisigTraceSpec.v, proofs/MultisigTrace.v)

    The node's walk, independent of the model: [examined ok nsigs nkeys] lists the (signature index, key index)
    pairs looked at, in loop order (pop order: index 0 is the LAST key / signature of the script) — start at
    (0,0); success advances both, failure advances the key; stop when every signature is matched or fewer keys
    than signatures remain.  Below, for argument lists [sigs], [pks]:
      [ms_ok sigs pks j i]   = [pair_ok] of signature j and key i,
      [ms_trace sigs pks]    = [examined (ms_ok sigs pks) (length sigs) (length pks)],
      [ms_bad sigs pks j i]  = signature j fails check_hash_type / check_sig_enc, or key i fails check_pubkey_enc,
      [ms_stop sigs pks j i] = both parse, and the script code does not unparse / the digest is not computable
                               (PushBool(false); return nil) or the oracle table has no answer. *)
From GoBT Require Import spec.MultisigTraceSpec proofs.MultisigTrace.

(** the closed form of the walk: the k-th examined pair has key index k and signature index [hits k] (the number
    of successes among the earlier pairs); it exists exactly while that signature exists and the signatures left
    are not more than the keys left *)
Theorem C06_examined_closed_form : forall ok nsigs nkeys,
  examined ok nsigs nkeys = map (fun k => (hits ok k, k)) (seq 0 (length (examined ok nsigs nkeys))) /\
  (forall j i, In (j, i) (examined ok nsigs nkeys) <-> reached ok nsigs nkeys j i) /\
  (forall k j i, nth_error (examined ok nsigs nkeys) k = Some (j, i) -> i = k /\ j = hits ok k) /\
  (forall j i, In (j, i) (examined ok nsigs nkeys) -> (j < nsigs /\ i < nkeys)%nat).
Proof.
  intros ok nsigs nkeys. split; [apply examined_closed|]. split; [apply examined_iff_reached|].
  split; [apply examined_nth|apply examined_bounds].
Qed.
Print Assumptions C06_examined_closed_form.

(** the trace theorem.  For ALL argument lists, oracles, flags (no hypothesis: also nsigs > nkeys, no signature,
    empty signatures, ill-encoded elements, oracles without an answer): the loop as opcodeCheckMultiSig runs it
    (coded counters, fresh memo, fuel = keys + 1) returns what the FIRST pair of the walk that is bad (hard
    error) or that stops the operation decides, and the verdict of the walk — every signature found its key —
    if there is none.  The encoding checks are thus evaluated exactly along the walk: the signature's (hash
    type, then DER) before the key's within a pair; the memo [parsedSigInfo.parsed] only spares re-checking a
    signature that has passed at its first pairing. *)
Theorem C06_multisig_examined_positions : forall orc t in_idx c script pks sigs,
  ms_loop orc t in_idx c script pks sigs (S (length pks)) (repeat None (length sigs)) (-1)
          (Z.of_nat (length pks) + 1) 0 (Z.of_nat (length sigs))
  = trace_outcome (ms_bad c sigs pks) (ms_stop orc t in_idx c script sigs pks) LErr LDone
                  (verdict (ms_ok orc t in_idx c script sigs pks) (length sigs) (length pks))
                  (ms_trace orc t in_idx c script sigs pks).
Proof. exact ms_loop_trace. Qed.
Print Assumptions C06_multisig_examined_positions.

(** unrolled to any position: when no earlier pair is bad or stops, the pair at that position decides *)
Theorem C06_multisig_first_pair_decides : forall orc t in_idx c script pks sigs pre j i post,
  ms_trace orc t in_idx c script sigs pks = pre ++ (j, i) :: post ->
  (forall j' i', In (j', i') pre -> ms_bad c sigs pks j' i' = false /\ ms_stop orc t in_idx c script sigs pks j' i' = None) ->
  ms_loop orc t in_idx c script pks sigs (S (length pks)) (repeat None (length sigs)) (-1)
          (Z.of_nat (length pks) + 1) 0 (Z.of_nat (length sigs))
  = if ms_bad c sigs pks j i then LErr
    else match ms_stop orc t in_idx c script sigs pks j i with
         | Some r => r
         | None => trace_outcome (ms_bad c sigs pks) (ms_stop orc t in_idx c script sigs pks) LErr LDone
                                 (verdict (ms_ok orc t in_idx c script sigs pks) (length sigs) (length pks)) post
         end.
Proof. exact ms_loop_first_decides. Qed.
Print Assumptions C06_multisig_first_pair_decides.

(** the verdict of the walk is first fit, hence the monotone matching ([greedy_spec], as in [C06_multisig_matching]) *)
Theorem C06_multisig_trace_verdict : forall orc t in_idx c script pks sigs,
  verdict (ms_ok orc t in_idx c script sigs pks) (length sigs) (length pks) = true <->
  monotone_matching (fun s k => pair_ok orc t in_idx c script s k = true) sigs pks.
Proof. intros. rewrite <- greedy_is_verdict. apply greedy_spec. Qed.
Print Assumptions C06_multisig_trace_verdict.

(** EXACTLY those positions: two argument lists of the same lengths that agree on the examined positions of one
    of them give the same result (for every oracle; nothing else is looked at) *)
Theorem C06_multisig_unexamined_irrelevant : forall orc t in_idx c script pks sigs pks' sigs',
  length pks' = length pks -> length sigs' = length sigs ->
  (forall j i, In (j, i) (ms_trace orc t in_idx c script sigs pks) ->
               nth_error sigs' j = nth_error sigs j /\ nth_error pks' i = nth_error pks i) ->
  ms_loop orc t in_idx c script pks' sigs' (S (length pks')) (repeat None (length sigs')) (-1)
          (Z.of_nat (length pks') + 1) 0 (Z.of_nat (length sigs'))
  = ms_loop orc t in_idx c script pks sigs (S (length pks)) (repeat None (length sigs)) (-1)
          (Z.of_nat (length pks) + 1) 0 (Z.of_nat (length sigs)).
Proof. exact ms_loop_unexamined_irrelevant. Qed.
Print Assumptions C06_multisig_unexamined_irrelevant.

(** the multisig side of the flag table, complete (replaces the soundness-only [C06_flag_table_multisig_partial]).
    When the oracle answers and the digest of every non-empty signature is computable ([sig_digestable]: the
    script code unparses and hashes — on a running script see [C06_checkmultisig_accepts_iff_matching_running];
    NO hypothesis on the encodings, on the counts, or on which signatures are empty):
      hard error  <->  some EXAMINED pair (j, i) has signature j failing check_hash_type / check_sig_enc or
                       key i failing check_pubkey_enc ([bad_pair_examined]);
      otherwise the loop ends normally with the monotone-matching verdict.
    Which elements fail under which flags: [C06_hash_type_rule_all_flags], [C06_der_check_spec],
    [C06_low_s_spec], [C06_pubkey_rule]. *)
Theorem C06_flag_table_multisig : forall orc t in_idx c script pks sigs,
  oracle_total orc -> Forall (sig_digestable t in_idx c script) sigs ->
  let res := ms_loop orc t in_idx c script pks sigs (S (length pks)) (repeat None (length sigs)) (-1)
                     (Z.of_nat (length pks) + 1) 0 (Z.of_nat (length sigs)) in
  (res = LErr <->
   exists j i raw pk, In (j, i) (ms_trace orc t in_idx c script sigs pks) /\
                      nth_error sigs j = Some raw /\ nth_error pks i = Some pk /\
                      ((exists sg hb, split_last raw = Some (sg, hb) /\
                                      (check_hash_type c (b2n hb) = false \/ check_sig_enc c sg = EncErr)) \/
                       check_pubkey_enc c pk = false)) /\
  (~ bad_pair_examined orc t in_idx c script pks sigs ->
   exists b, res = LDone b /\
             (b = true <-> monotone_matching (fun s k => pair_ok orc t in_idx c script s k = true) sigs pks)).
Proof. exact flag_table_multisig. Qed.
Print Assumptions C06_flag_table_multisig.

(** what the partial theorem could not say: a malformed key or signature at a position the walk never reaches
    is NOT an error.  (1) If every examined pair passes the enabled checks the loop ends normally, whatever
    stands elsewhere; (2) a key at or beyond position [length trace] is not examined (every signature has
    matched, or the walk has given up for lack of keys, before it); (3) a key that is not examined can be
    replaced by any bytes without changing the result. *)
Theorem C06_multisig_unreached_is_not_an_error : forall orc t in_idx c script pks sigs,
  oracle_total orc -> Forall (sig_digestable t in_idx c script) sigs ->
  (forall j i raw pk, In (j, i) (ms_trace orc t in_idx c script sigs pks) ->
                      nth_error sigs j = Some raw -> nth_error pks i = Some pk ->
                      ~ sig_fails c raw /\ check_pubkey_enc c pk = true) ->
  exists b,
    ms_loop orc t in_idx c script pks sigs (S (length pks)) (repeat None (length sigs)) (-1)
            (Z.of_nat (length pks) + 1) 0 (Z.of_nat (length sigs)) = LDone b /\
    (b = true <-> monotone_matching (fun s k => pair_ok orc t in_idx c script s k = true) sigs pks).
Proof. exact unreached_is_not_an_error. Qed.
Print Assumptions C06_multisig_unreached_is_not_an_error.

Theorem C06_multisig_key_beyond_trace : forall orc t in_idx c script pks sigs i,
  (length (ms_trace orc t in_idx c script sigs pks) <= i)%nat ->
  forall j, ~ In (j, i) (ms_trace orc t in_idx c script sigs pks).
Proof. exact key_beyond_trace_unexamined. Qed.
Print Assumptions C06_multisig_key_beyond_trace.

Theorem C06_multisig_unexamined_key_replaced : forall orc t in_idx c script pks sigs i0 pk',
  (forall j, ~ In (j, i0) (ms_trace orc t in_idx c script sigs pks)) ->
  let pks' := firstn i0 pks ++ pk' :: skipn (S i0) pks in
  (i0 < length pks)%nat ->
  ms_loop orc t in_idx c script pks' sigs (S (length pks')) (repeat None (length sigs)) (-1)
          (Z.of_nat (length pks') + 1) 0 (Z.of_nat (length sigs))
  = ms_loop orc t in_idx c script pks sigs (S (length pks)) (repeat None (length sigs)) (-1)
          (Z.of_nat (length pks) + 1) 0 (Z.of_nat (length sigs)).
Proof. exact unexamined_key_replaced. Qed.
Print Assumptions C06_multisig_unexamined_key_replaced.

(** the operation itself (OP_CHECKMULTISIG, not VERIFY) on a well-shaped stack: it is a script error exactly for
    a non-empty dummy under STRICTMULTISIG (NULLDUMMY), an examined pair with an element failing an enabled check,
    or NULLFAIL with a non-empty signature when the signatures cannot be matched *)
Theorem C06_checkmultisig_error_iff : forall orc t i c s idx nk pks ns sigs dummy rest a b,
  ds s = nk :: pks ++ ns :: sigs ++ dummy :: rest ->
  pop_count c nk = Some a -> to_int32 a = Z.of_nat (length pks) ->
  pop_count c ns = Some b -> to_int32 b = Z.of_nat (length sigs) ->
  (length sigs <= length pks)%nat -> (Z.of_nat (length pks) <= max_pubkeys c)%Z ->
  (nops s + Z.of_nat (length pks) <= max_ops c)%Z ->
  oracle_total orc ->
  Forall (sig_digestable t i c (multisig_code_ops c s sigs)) sigs ->
  (checkmultisig_run orc t i c s idx false = Some OErr <->
   (has_flag c F_STRICTMULTISIG = true /\ dummy <> []) \/
   bad_pair_examined orc t i c (multisig_code_ops c s sigs) pks sigs \/
   (has_flag c F_NULLFAIL = true /\ (exists sg, In sg sigs /\ sg <> []) /\
    ~ monotone_matching (fun sg k => pair_ok orc t i c (multisig_code_ops c s sigs) sg k = true) sigs pks)).
Proof. exact checkmultisig_error_iff. Qed.
Print Assumptions C06_checkmultisig_error_iff.

(** 2-of-3 under STRICTENC, lists in loop order, toy oracle (signature r verifies under key r), input 1 of [ex_tx].
    Keys K1 K2 <garbage>: with signatures S1 S2 the walk is (0,0) (1,1), the garbage key is never reached and the
    operation pushes true; with S1 S3 the walk goes on to (1,2), reaches the garbage key and the result is an
    error.  In script order the garbage key is the FIRST key pushed. *)
Example C06_multisig_garbage_key_not_reached :
  let pks := [toy_key x01; toy_key x02; garbage_key] in
  let sigs := [toy_sig x01; toy_sig x02] in
  check_pubkey_enc strictenc_ctx garbage_key = false /\
  toy_trace pks sigs = [(0, 0); (1, 1)]%nat /\ toy_loop pks sigs = LDone true /\
  option_map (fun o => match o with OOk s' => ds s' | _ => [] end) (toy_op pks sigs) = Some [[x01]].
Proof. vm_compute. repeat split; reflexivity. Qed.

Example C06_multisig_garbage_key_reached :
  let pks := [toy_key x01; toy_key x02; garbage_key] in
  let sigs := [toy_sig x01; toy_sig x03] in
  toy_trace pks sigs = [(0, 0); (1, 1); (1, 2)]%nat /\ toy_loop pks sigs = LErr /\ toy_op pks sigs = Some OErr.
Proof. vm_compute. repeat split; reflexivity. Qed.

(** the same for a garbage signature (hash type 00): after the walk has failed for lack of keys it is never
    looked at and the operation pushes false; when the first signature matches it is reached: error *)
Example C06_multisig_garbage_signature :
  let pks := [toy_key x01; toy_key x02] in
  sig_checks strictenc_ctx garbage_sig = false /\
  toy_trace pks [toy_sig x09; garbage_sig] = [(0, 0)]%nat /\ toy_loop pks [toy_sig x09; garbage_sig] = LDone false /\
  option_map (fun o => match o with OOk s' => ds s' | _ => [[x01]] end) (toy_op pks [toy_sig x09; garbage_sig]) = Some [[]] /\
  toy_trace pks [toy_sig x01; garbage_sig] = [(0, 0); (1, 1)]%nat /\ toy_loop pks [toy_sig x01; garbage_sig] = LErr /\
  toy_op pks [toy_sig x01; garbage_sig] = Some OErr.
Proof. vm_compute. repeat split; reflexivity. Qed.

(** the corner cases are inside the theorems, not excluded by them: 0-of-1 with a garbage key (nothing examined,
    true); m = n in and out of order; nsigs > nkeys at entry (nothing examined, false — the operation itself
    refuses such counts before the loop); an EMPTY signature is still paired: its key is checked *)
Example C06_multisig_trace_corner_cases :
  toy_trace [garbage_key] [] = [] /\ toy_loop [garbage_key] [] = LDone true /\
  toy_trace [toy_key x01; toy_key x02] [toy_sig x01; toy_sig x02] = [(0, 0); (1, 1)]%nat /\
  toy_loop [toy_key x01; toy_key x02] [toy_sig x01; toy_sig x02] = LDone true /\
  toy_trace [toy_key x01; toy_key x02] [toy_sig x02; toy_sig x01] = [(0, 0)]%nat /\
  toy_loop [toy_key x01; toy_key x02] [toy_sig x02; toy_sig x01] = LDone false /\
  toy_trace [garbage_key] [garbage_sig; garbage_sig] = [] /\ toy_loop [garbage_key] [garbage_sig; garbage_sig] = LDone false /\
  toy_trace [garbage_key] [[]] = [(0, 0)]%nat /\ toy_loop [garbage_key] [[]] = LErr /\
  toy_trace [toy_key x01; garbage_key] [[]] = [(0, 0); (0, 1)]%nat /\ toy_loop [toy_key x01; garbage_key] [[]] = LErr /\
  toy_trace [toy_key x01] [[]] = [(0, 0)]%nat /\ toy_loop [toy_key x01] [[]] = LDone false.
Proof. vm_compute. repeat split; reflexivity. Qed.

(** non-vacuity: the hypotheses of [C06_flag_table_multisig] and of [C06_checkmultisig_error_iff] hold on the
    2-of-3 instance above (garbage key and garbage signature included: [sig_digestable] does not ask for a
    well-encoded signature) *)
Example C06_flag_table_multisig_hypotheses_satisfiable :
  let pks := [toy_key x01; toy_key x02; garbage_key] in
  let sigs := [toy_sig x01; garbage_sig] in
  let s := toy_state pks sigs in
  oracle_total toy_oracle /\
  Forall (sig_digestable ex_tx 1 strictenc_ctx (multisig_code_ops strictenc_ctx s sigs)) sigs /\
  ds s = [x03] :: pks ++ [x02] :: sigs ++ [] :: [] /\
  pop_count strictenc_ctx [x03] = Some 3%Z /\ to_int32 3 = Z.of_nat (length pks) /\
  pop_count strictenc_ctx [x02] = Some 2%Z /\ to_int32 2 = Z.of_nat (length sigs) /\
  (length sigs <= length pks)%nat /\ (Z.of_nat (length pks) <= max_pubkeys strictenc_ctx)%Z /\
  (nops s + Z.of_nat (length pks) <= max_ops strictenc_ctx)%Z.
Proof.
  cbv zeta. split; [exact toy_oracle_total|]. split.
  - change (multisig_code_ops strictenc_ctx (toy_state [toy_key x01; toy_key x02; garbage_key] [toy_sig x01; garbage_sig])
                              [toy_sig x01; garbage_sig]) with (@nil pop).
    constructor; [apply toy_sig_digestable|]. constructor; [apply garbage_sig_digestable|constructor].
  - repeat split; try (vm_compute; reflexivity); try (vm_compute; discriminate). vm_compute. repeat constructor.
Qed.

(** the same on a RUNNING script (the current script is a parse result, as in every execution): the digest
    clause is a theorem, and the walk and the matching are over the SPECIFICATION's digest
    ([ms_ok_spec sigs pks j i] = [pair_ok_spec] of signature j and key i, positions in loop order).  What remains
    as hypotheses: the oracle answers, the transaction is well formed, the stack has the n + m + 3 shape. *)
From GoBT Require Import proofs.MultisigTraceRunning.
Theorem C06_checkmultisig_error_iff_running : forall orc t i c s idx nk pks ns sigs dummy rest a b inp e bs,
  oracle_total orc ->
  parse_script e bs = Some (cur s) -> (lenN bs < two64)%N ->
  wf_tx t -> nth_error (tx_ins t) (N.to_nat i) = Some inp -> (i < 2147483648)%N ->
  (N.of_nat (length (tx_outs t)) < 2147483648)%N ->
  ds s = nk :: pks ++ ns :: sigs ++ dummy :: rest ->
  pop_count c nk = Some a -> to_int32 a = Z.of_nat (length pks) ->
  pop_count c ns = Some b -> to_int32 b = Z.of_nat (length sigs) ->
  (length sigs <= length pks)%nat -> (Z.of_nat (length pks) <= max_pubkeys c)%Z ->
  (nops s + Z.of_nat (length pks) <= max_ops c)%Z ->
  let script := multisig_code_ops c s sigs in
  let ok := ms_ok_spec orc (wire_tx t) (N.to_nat i) (in_sats inp) c script sigs pks in
  (checkmultisig_run orc t i c s idx false = Some OErr <->
   (has_flag c F_STRICTMULTISIG = true /\ dummy <> []) \/
   (exists j k raw pk, In (j, k) (examined ok (length sigs) (length pks)) /\
                       nth_error sigs j = Some raw /\ nth_error pks k = Some pk /\
                       (sig_fails c raw \/ check_pubkey_enc c pk = false)) \/
   (has_flag c F_NULLFAIL = true /\ (exists sg, In sg sigs /\ sg <> []) /\
    ~ monotone_matching (fun sg k => pair_ok_spec orc (wire_tx t) (N.to_nat i) (in_sats inp) c script sg k = true) sigs pks)).
Proof. exact checkmultisig_error_iff_running. Qed.
Print Assumptions C06_checkmultisig_error_iff_running.

(** The way the flags reach the engine (bscript/interpreter/options.go; model/ExecOptions.v): Execute applies its options in
    order to a zero flag word; [WithFlags w], [WithForkID()], [WithAfterGenesis()] and [WithP2SH()] each OR their
    flags into it, the other options leave it alone.  So an option list configures the execution with the UNION of the
    words it names - every "subset of the signature-related flags in both eras" of the quantifier can be handed over in
    any order and cut into options in any way, and the theorems above (stated on the flag word of the context) apply
    to it.  Tied to the code on every run by the harness: each case is executed again under other option lists
    denoting its flag word and must show the same verdict, step count and stack snapshots
    (harness/cmd/c06/optionlists.go). *)
From GoBT Require Import model.ExecOptions proofs.ExecOptionsProofs.
From Coq Require Import Permutation.

Theorem C06_flag_on_iff_some_option_names_it : forall oo b,
  N.testbit (flags_of_options oo) b = existsb (fun o => N.testbit (option_word o) b) oo.
Proof. exact flags_of_options_testbit. Qed.
Print Assumptions C06_flag_on_iff_some_option_names_it.

Theorem C06_later_option_keeps_earlier_flags : forall oo oo' b,
  N.testbit (flags_of_options oo) b = true -> N.testbit (flags_of_options (oo ++ oo')) b = true.
Proof. exact flags_of_options_monotone. Qed.
Print Assumptions C06_later_option_keeps_earlier_flags.

Theorem C06_option_order_irrelevant : forall oo oo', Permutation oo oo' -> flags_of_options oo = flags_of_options oo'.
Proof. exact flags_of_options_perm. Qed.
Print Assumptions C06_option_order_irrelevant.

Theorem C06_option_list_is_its_union : forall so oo f i,
  options_union oo = f -> ei_flags i = f ->
  engine_execute_options so oo i = engine_execute so i.
Proof.
  intros so oo f i H Hi. rewrite (engine_execute_options_denote so oo f i H). now apply engine_execute_options_single.
Qed.
Print Assumptions C06_option_list_is_its_union.

(** non-vacuity: FORKID as the named option followed by WithFlags(NULLFAIL), in both orders, and FORKID | NULLFAIL cut
    into two words, all configure the word 0xa00; a later WithFlags(0) removes nothing *)
Example C06_option_lists_example :
  flags_of_options [OptNoFlags; OptForkID; OptFlags 512; OptNoFlags] = 2560%N /\
  flags_of_options [OptFlags 512; OptNoFlags; OptForkID] = 2560%N /\
  flags_of_options [OptFlags 2048; OptFlags 512] = 2560%N /\
  flags_of_options [OptFlags 2560; OptFlags 0] = 2560%N /\
  flags_of_options [OptAfterGenesis; OptP2SH; OptFlags 2560] = 18945%N /\
  options_union [OptForkID; OptFlags 512] = 2560%N.
Proof. vm_compute. repeat split; reflexivity. Qed.
