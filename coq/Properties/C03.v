(** C03 — Legacy signature hash equals the original Satoshi algorithm incl. the SIGHASH_SINGLE bug.
    Only statements, [exact], and [Print Assumptions].
    Model: model/SigHash.v (code-shaped: guards, SINGLE constant, Clone through the wire codec,
    blanking loop, NONE/SINGLE truncation and sequence zeroing, ANYONECANPAY slice, hand-written
    serialisation).  Specification: spec/DigestSpec.v [legacy_signature_hash] (written from the
    original SignatureHash, full 32-bit hash type; validated against the node's
    sighash_legacy.json vectors on every run).  Proofs: proofs/SigHashProofs.v. *)
From Coq Require Import List NArith Bool.
From Coq Require Import Strings.Byte.
From GoBT Require Import lib.Bytes lib.VarInt lib.Sha256 model.Tx spec.DigestSpec model.SigHash
  model.SigHashWire proofs.SigHashProofs proofs.AuditASigHash model.SigHeap proofs.SigHeapProofs
  proofs.SigHeapAliasProofs proofs.SigHashVerbatimProofs.
Import ListNotations.
Local Open Scope N_scope. Local Open Scope bool_scope.

(** For every well-formed transaction (32-byte previous txids, Go field ranges), every in-range
    input index and every 8-bit hash type (in particular the 128 without bit 0x40), with the
    script code taken verbatim from the input's recorded previous script: CalcInputPreimageLegacy
    returns the serialisation the original algorithm hashes — or the 32-byte constant 1 when
    SINGLE has no matching output ([legacy_expected] unfolds to exactly that case split).
    (i + 1 < 2^32: inputNumber+1 is computed on uint32 in the Go code.) *)
Theorem C03_legacy_preimage_is_spec : forall t i ht inp sc,
  wf_tx t -> ht < 256 -> i + 1 < two32 ->
  nth_error (tx_ins t) (N.to_nat i) = Some inp -> in_script inp = Some sc ->
  fst (calc_input_preimage_legacy t i ht) =
  match legacy_signature_hash sc (wire_tx t) (N.to_nat i) ht with
  | LegacyOne => SOk default_hex
  | LegacyPreimage p => SOk p
  end.
Proof. exact legacy_preimage_is_spec. Qed.
Print Assumptions C03_legacy_preimage_is_spec.

(** CalcInputSignatureHash on a type without FORKID: the specification's signature hash, i.e. the
    double SHA-256 of that serialisation, or the constant 1 (never double-hashed) *)
Theorem C03_legacy_sighash_is_spec : forall t i ht inp sc,
  wf_tx t -> ht < 256 -> has_forkid ht = false -> i + 1 < two32 ->
  nth_error (tx_ins t) (N.to_nat i) = Some inp -> in_script inp = Some sc ->
  fst (calc_input_signature_hash t i ht) = SOk (legacy_sighash sc (wire_tx t) (N.to_nat i) ht).
Proof. exact legacy_sighash_is_spec. Qed.
Print Assumptions C03_legacy_sighash_is_spec.

(** the SIGHASH_SINGLE bug: no matching output => the hash is 1 as a little-endian 256-bit
    number, not an error (no well-formedness needed: the transaction is not even cloned) *)
Theorem C03_legacy_single_bug : forall t i ht inp, ht < 256 -> has_forkid ht = false ->
  nth_error (tx_ins t) (N.to_nat i) = Some inp -> in_txid inp <> [] -> in_script inp <> None ->
  is_single ht = true -> N.of_nat (length (tx_outs t)) <= i ->
  fst (calc_input_signature_hash t i ht) = SOk (le_enc 32 1).
Proof. exact legacy_single_bug. Qed.
Print Assumptions C03_legacy_single_bug.

(** the transaction passed in is never modified.
    At the VALUE level (the next two statements) this holds by construction: every branch of model/SigHash.v
    returns the transaction it was given and the edits are made on an immutable copy; they are kept because the
    correspondence compares this second component with the caller's real object field by field after every call.
    The clause itself - CalcInputPreimageLegacy writes through txCopy; does the caller see any of it? - is stated
    and proved on the pointer-level model model/SigHeap.v further down (C03_legacy_never_writes_callers_cells,
    C03_heap_model_refines_value_model, C03_shallow_clone_would_write), where it can fail. *)
Theorem C03_legacy_leaves_tx_unchanged : forall t i ht, snd (calc_input_preimage_legacy t i ht) = t.
Proof. exact legacy_leaves_tx_unchanged. Qed.
Print Assumptions C03_legacy_leaves_tx_unchanged.
Theorem C03_sighash_leaves_tx_unchanged : forall t i ht, snd (calc_input_signature_hash t i ht) = t.
Proof. exact sighash_leaves_tx_unchanged. Qed.
Print Assumptions C03_sighash_leaves_tx_unchanged.

(** POINTER LEVEL (model/SigHeap.v: a heap of script / input / output / transaction cells, pointers are addresses,
    explicit stores; CalcInputPreimageLegacy transcribed statement by statement with its stores into txCopy;
    [clone_deep] is Tx.Clone as written - new *Input, *Output, UnlockingScript and LockingScript cells through the
    codec, the PreviousTxScript pointers copied from the original).
    FRAME: for every heap, every pointer, every index and every hash type, and whatever the outcome (bytes, one of
    the three errors, the SINGLE constant, a panic half way through the edits, log.Fatal), every cell that existed
    before the call holds afterwards exactly what it held before: the caller's Tx struct with its two slices,
    every *Input, every *Output and every script. *)
Theorem C03_legacy_never_writes_callers_cells : forall h p i ht h' r,
  legacy_preimage_heap clone_deep h p i ht = (h', r) ->
  forall a, (a < heap_size h)%nat -> cell h' a = cell h a.
Proof. exact legacy_frame_deep. Qed.
Print Assumptions C03_legacy_never_writes_callers_cells.
(** hence the caller's pointer denotes the same transaction value afterwards *)
Theorem C03_callers_tx_denotes_same_value : forall h p t i ht,
  abs_tx h p = Some t -> abs_tx (fst (legacy_preimage_heap clone_deep h p i ht)) p = Some t.
Proof. exact legacy_deep_keeps_callers_tx. Qed.
Print Assumptions C03_callers_tx_denotes_same_value.

(** REFINEMENT: whenever the pointer [p] denotes the transaction value [t] in the heap (every pointer of the graph
    leads to a cell of its kind; LockingScripts are not nil), the heap program's outcome - bytes, error, panic,
    log.Fatal - is the value-level model's outcome on [t].  Every C03 theorem above about
    [fst (calc_input_preimage_legacy t i ht)] is therefore a theorem about the program that performs the stores. *)
Theorem C03_heap_model_refines_value_model : forall h p t i ht, abs_tx h p = Some t ->
  snd (legacy_preimage_heap clone_deep h p i ht) = fst (calc_input_preimage_legacy t i ht).
Proof. exact legacy_heap_refines. Qed.
Print Assumptions C03_heap_model_refines_value_model.

(** REFUTATION (the frame statement is falsifiable on this machine): the same program with a clone that copies
    only the Tx struct ([clone_shallow]: c := *tx).  On an eleven-cell heap holding a 2-in/2-out transaction it
    returns the same bytes as with Clone as written, but NONE on input 0 has zeroed the sequence number of the
    caller's input 1 and replaced its two scripts (cell 5), and SINGLE on input 1 has blanked the caller's output 0
    (cell 7); the caller's pointer no longer denotes the same transaction. *)
Example C03_shallow_clone_would_write :
  (let '(h', r) := legacy_preimage_heap clone_shallow ex_heap ex_ptr 0 2 in
   r = snd (legacy_preimage_heap clone_deep ex_heap ex_ptr 0 2) /\ (exists b, r = SOk b) /\
   (5 < heap_size ex_heap)%nat /\ cell h' 5%nat <> cell ex_heap 5%nat /\
   get_input h' 5%nat = Some (mkIR (repeat_byte 32 xcd) 1 (Some 13%nat) (Some 12%nat) 0 0) /\
   abs_tx h' ex_ptr <> abs_tx ex_heap ex_ptr) /\
  (let '(h', r) := legacy_preimage_heap clone_shallow ex_heap ex_ptr 1 3 in
   r = snd (legacy_preimage_heap clone_deep ex_heap ex_ptr 1 3) /\ (exists b, r = SOk b) /\
   (7 < heap_size ex_heap)%nat /\ cell h' 7%nat <> cell ex_heap 7%nat /\
   abs_tx h' ex_ptr <> abs_tx ex_heap ex_ptr).
Proof. exact (conj shallow_clone_writes_none shallow_clone_writes_single). Qed.
Print Assumptions C03_shallow_clone_would_write.
(** the example heap is one the refinement applies to *)
Example C03_example_heap_denotes :
  abs_tx ex_heap ex_ptr =
  Some (mkTx 1 [mkInput (repeat_byte 32 xab) 3 [x51] 4294967295 5000 (Some [x76; xa9]);
                mkInput (repeat_byte 32 xcd) 0 [x52] 7 1 (Some [x51])]
             [mkOutput 1000 [x6a]; mkOutput 2000 [x6a; x6a]] 0).
Proof. exact ex_heap_denotes. Qed.

(** SHARING INSIDE THE CALLER'S GRAPH.  Neither theorem above assumes that the caller's pointers are distinct: one
    script cell may be the PreviousTxScript of several inputs, the previous script, unlocking script and locking
    script of several inputs / outputs at once, one input cell may stand at several positions of tx.Inputs.  Stated
    on its own: two object graphs denoting the same transaction value give the same outcome for every index and
    every hash type - which input is "the signed one" is decided by its POSITION, never by which objects it holds. *)
Theorem C03_sharing_in_callers_graph_is_unobservable : forall h1 p1 h2 p2 t i ht,
  abs_tx h1 p1 = Some t -> abs_tx h2 p2 = Some t ->
  snd (legacy_preimage_heap clone_deep h1 p1 i ht) = snd (legacy_preimage_heap clone_deep h2 p2 i ht).
Proof. exact sharing_unobservable. Qed.
Print Assumptions C03_sharing_in_callers_graph_is_unobservable.
(** non-vacuity: an eight-cell graph in which ONE script object is the previous script of inputs 0 and 1, the
    unlocking script of input 1 and the locking script of the output (input 2 holds equal bytes in an object of its
    own) denotes a transaction; signing input 0 with ALL blanks inputs 1 and 2 alike. *)
Example C03_shared_graph_denotes : abs_tx shared_heap shared_ptr = Some shared_value.
Proof. exact shared_heap_denotes. Qed.
Example C03_shared_graph_preimage :
  snd (legacy_preimage_heap clone_deep shared_heap shared_ptr 0 1) =
  SOk (le_enc 4 1 ++ [x03] ++
       (repeat_byte 32 x11 ++ le_enc 4 0 ++ [x06] ++ shared_script ++ le_enc 4 4294967295) ++
       (repeat_byte 32 x22 ++ le_enc 4 3 ++ [x00] ++ le_enc 4 4294967294) ++
       (repeat_byte 32 x33 ++ le_enc 4 1 ++ [x00] ++ le_enc 4 7) ++
       [x01] ++ (le_enc 8 3400 ++ [x06] ++ shared_script) ++ le_enc 4 0 ++ le_enc 4 1).
Proof. exact shared_preimage_all_0. Qed.
(** REFUTATION (the statement is falsifiable on this machine): the same program whose blanking loop recognises the
    signed input by the identity of its PreviousTxScript pointer ([by_identity]:
    if txCopy.Inputs[i].PreviousTxScript != in.PreviousTxScript { blank }) computes the same outcome on graphs
    without sharing - all 128 legacy types on every input of two such graphs - and the wrong bytes on the shared
    graph: input 1's script stays in the preimage of input 0, and for input 1 every type without ANYONECANPAY
    (other than the SINGLE constant) differs from the value-level model.  The refinement theorem is false of it. *)
Example C03_by_identity_agrees_without_sharing :
  (forall i ht, In i [0; 1; 2] -> In ht legacy_types ->
     snd (by_identity unshared_heap 10%nat i ht) = snd (legacy_preimage_heap clone_deep unshared_heap 10%nat i ht)) /\
  (forall i ht, In i [0; 1] -> In ht legacy_types ->
     snd (by_identity ex_heap ex_ptr i ht) = snd (legacy_preimage_heap clone_deep ex_heap ex_ptr i ht)).
Proof. exact by_identity_agrees_without_sharing. Qed.
Example C03_by_identity_would_not_blank_shared_script :
  snd (by_identity shared_heap shared_ptr 0 1) <> fst (calc_input_preimage_legacy shared_value 0 1) /\
  (forall ht, In ht legacy_types -> N.land ht 128 = 0 -> (N.land ht 31 = 3 -> False) ->
     snd (by_identity shared_heap shared_ptr 1 ht) <> fst (calc_input_preimage_legacy shared_value 1 ht)) /\
  ~ (forall h p t i ht, abs_tx h p = Some t -> snd (by_identity h p i ht) = fst (calc_input_preimage_legacy t i ht)).
Proof.
  exact (conj (proj1 by_identity_refuted) (conj (proj2 (proj2 by_identity_refuted)) by_identity_does_not_refine)).
Qed.
Print Assumptions C03_by_identity_would_not_blank_shared_script.

(** inputs with and without unlocking scripts already filled in give the same preimage: two
    transactions that differ only in unlocking scripts (of the signed input or of any other) *)
Theorem C03_legacy_ignores_other_unlocking_scripts : forall t1 t2 i ht inp1 sc,
  wf_tx t1 -> wf_tx t2 -> ht < 256 -> i + 1 < two32 ->
  erase_unlocks t1 = erase_unlocks t2 ->
  nth_error (tx_ins t1) (N.to_nat i) = Some inp1 -> in_script inp1 = Some sc ->
  fst (calc_input_preimage_legacy t1 i ht) = fst (calc_input_preimage_legacy t2 i ht).
Proof. exact legacy_ignores_unlocking_scripts. Qed.
Print Assumptions C03_legacy_ignores_other_unlocking_scripts.

(** the script code is taken VERBATIM (round 8): whatever bytes the recorded previous script of the signed input
    consists of - OP_CODESEPARATOR, OP_RETURN, pushes that do not fit, the signature itself - the preimage is the
    constant of the SINGLE bug or contains exactly those bytes behind their CompactSize length; nothing is stripped,
    cut or re-encoded (code-separator stripping is the caller's job).  First on the specification, for every script
    code and every 32-bit type; then on the model of CalcInputPreimageLegacy. *)
Theorem C03_spec_preimage_contains_script_code : forall sc tx nIn ht p,
  legacy_signature_hash sc tx nIn ht = LegacyPreimage p ->
  exists a b, p = a ++ ser_script sc ++ b.
Proof. exact legacy_preimage_contains_script_code. Qed.
Print Assumptions C03_spec_preimage_contains_script_code.

Theorem C03_script_code_is_verbatim : forall t i ht inp sc,
  wf_tx t -> ht < 256 -> i + 1 < two32 ->
  nth_error (tx_ins t) (N.to_nat i) = Some inp -> in_script inp = Some sc ->
  fst (calc_input_preimage_legacy t i ht) = SOk default_hex \/
  exists a b, fst (calc_input_preimage_legacy t i ht) = SOk (a ++ varint_bytes (lenN sc) ++ sc ++ b).
Proof. exact legacy_model_script_code_verbatim. Qed.
Print Assumptions C03_script_code_is_verbatim.

(** ... on a script code with OP_CODESEPARATOR as an opcode (twice) and inside push data: all seven bytes are there *)
Example C03_example_codeseparators_kept :
  let sc := [x51; xab; x75; x02; xab; xab; xab] in
  let tx := mkTransaction 1 [mkTxIn (mkOutPoint (repeat x11 32) 0) [x51] 4294967295] [mkTxOut 1 [x51]] 0 in
  legacy_signature_hash sc tx 0 1 =
  LegacyPreimage (u32 1 ++ [x01] ++ repeat x11 32 ++ u32 0 ++ [x07] ++ sc ++ u32 4294967295 ++
                  [x01] ++ u64 1 ++ [x01; x51] ++ u32 0 ++ u32 1).
Proof. exact script_code_with_codeseparators_is_kept. Qed.

(** errors of the guards (the property quantifies over in-range indices; these are what the code
    does otherwise) *)
Theorem C03_legacy_missing_input : forall t i ht, N.of_nat (length (tx_ins t)) <= i ->
  fst (calc_input_preimage_legacy t i ht) = SErr ErrInputNoExist.
Proof. exact legacy_missing_input. Qed.
Print Assumptions C03_legacy_missing_input.
Theorem C03_legacy_missing_txid : forall t i ht inp,
  nth_error (tx_ins t) (N.to_nat i) = Some inp -> in_txid inp = [] ->
  fst (calc_input_preimage_legacy t i ht) = SErr ErrEmptyPreviousTxID.
Proof. exact legacy_missing_txid. Qed.
Print Assumptions C03_legacy_missing_txid.
Theorem C03_legacy_missing_script : forall t i ht inp,
  nth_error (tx_ins t) (N.to_nat i) = Some inp -> in_txid inp <> [] -> in_script inp = None ->
  fst (calc_input_preimage_legacy t i ht) = SErr ErrEmptyPreviousTxScript.
Proof. exact legacy_missing_script. Qed.
Print Assumptions C03_legacy_missing_script.

(** one statement of totality: on every well-formed transaction, index and 8-bit type the function answers with
    bytes or with one of the three errors - never with the panic, log.Fatal or fuel outcomes of the model *)
Theorem C03_legacy_preimage_total : forall t i ht, wf_tx t -> ht < 256 -> i + 1 < two32 ->
  answers_s (fst (calc_input_preimage_legacy t i ht)).
Proof. exact legacy_preimage_total. Qed.
Print Assumptions C03_legacy_preimage_total.
(** the same for CalcInputSignatureHash, whichever algorithm the hash type selects *)
Theorem C03_sighash_total : forall t i ht, wf_tx t -> ht < 256 -> i + 1 < two32 ->
  N.of_nat (length (tx_outs t)) < two31 -> answers_s (fst (calc_input_signature_hash t i ht)).
Proof. exact sighash_total. Qed.
Print Assumptions C03_sighash_total.
(** and the signature hash ignores unlocking scripts under both algorithms *)
Theorem C03_sighash_ignores_unlocking_scripts : forall t1 t2 i ht inp1 sc,
  wf_tx t1 -> wf_tx t2 -> ht < 256 -> i + 1 < two32 ->
  erase_unlocks t1 = erase_unlocks t2 ->
  nth_error (tx_ins t1) (N.to_nat i) = Some inp1 -> in_script inp1 = Some sc ->
  fst (calc_input_signature_hash t1 i ht) = fst (calc_input_signature_hash t2 i ht).
Proof. exact sighash_ignores_unlocking_scripts. Qed.
Print Assumptions C03_sighash_ignores_unlocking_scripts.

(** non-vacuity: a 2-in/1-out transaction meets the hypotheses; SINGLE on input 1 hits the bug,
    SINGLE|ANYONECANPAY on input 0 serialises one input and one output; filling in unlocking
    scripts changes nothing *)
Definition ex_tx : tx :=
  mkTx 1 [mkInput (repeat_byte 32 xab) 3 [x51] 4294967295 5000 (Some [x76; xa9; x88; xac]);
          mkInput (repeat_byte 32 xcd) 0 [] 7 1 (Some [x51])]
         [mkOutput 1000 [x6a]] 0.
Definition ex_tx_filled : tx :=
  mkTx 1 [mkInput (repeat_byte 32 xab) 3 [x00; x00] 4294967295 5000 (Some [x76; xa9; x88; xac]);
          mkInput (repeat_byte 32 xcd) 0 [x52; x53] 7 1 (Some [x51])]
         [mkOutput 1000 [x6a]] 0.
Example C03_hypotheses_satisfiable :
  wf_tx ex_tx /\ wf_tx ex_tx_filled /\ erase_unlocks ex_tx = erase_unlocks ex_tx_filled /\
  exists inp sc, nth_error (tx_ins ex_tx) (N.to_nat 1) = Some inp /\ in_script inp = Some sc /\
                 is_single 3 = true /\ has_forkid 3 = false /\ N.of_nat (length (tx_outs ex_tx)) <= 1.
Proof.
  assert (W : forall t, t = ex_tx \/ t = ex_tx_filled -> wf_tx t).
  { intros t [-> | ->]; unfold wf_tx, ex_tx, ex_tx_filled; cbn; repeat split; try reflexivity;
      repeat constructor; unfold wf_script, lenN; cbn; reflexivity. }
  split; [apply W; auto|]. split; [apply W; auto|]. split; [reflexivity|].
  eexists; eexists. repeat split. discriminate.
Qed.
Example C03_example_single_bug :
  fst (calc_input_signature_hash ex_tx 1 3) = SOk (x01 :: repeat x00 31) /\
  fst (calc_input_preimage_legacy ex_tx 1 3) = SOk (x01 :: repeat x00 31).
Proof. split; vm_compute; reflexivity. Qed.
Example C03_example_single_acp :
  match fst (calc_input_preimage_legacy ex_tx 0 131) with
  | SOk p => lenN p =? 4 + 1 + (32 + 4 + 1 + 4 + 4) + 1 + (8 + 1 + 1) + 4 + 4
  | _ => false
  end = true.
Proof. vm_compute. reflexivity. Qed.
Example C03_example_unlocking_ignored :
  fst (calc_input_preimage_legacy ex_tx 0 1) = fst (calc_input_preimage_legacy ex_tx_filled 0 1) /\
  fst (calc_input_preimage_legacy ex_tx 0 1) <> SOk default_hex.
Proof. split; vm_compute; [reflexivity|discriminate]. Qed.

(** the hash-type constants of the model are those of sighash/flag.go (regenerated from the Go source on every run) *)
From Coq Require Import String ZArith.
From GoBT Require Import gen.MiscConsts proofs.InterpConstsProofs proofs.MiscConstsProofs.
Local Open Scope string_scope.
Theorem C03_sighash_constants_match :
  lookup sighash_consts "All" = Some (Z.of_N sh_all) /\
  lookup sighash_consts "None" = Some (Z.of_N sh_none) /\
  lookup sighash_consts "Single" = Some (Z.of_N sh_single) /\
  lookup sighash_consts "AnyOneCanPay" = Some (Z.of_N sh_anyonecanpay) /\
  lookup sighash_consts "ForkID" = Some (Z.of_N sh_forkid) /\
  lookup sighash_consts "Mask" = Some (Z.of_N sh_mask).
Proof. destruct sighash_consts_match as (H1 & H2 & H3 & H4 & H5 & H6 & _). repeat split; assumption. Qed.
Print Assumptions C03_sighash_constants_match.

(** State inventory (tie, translator part): every Go struct the model of this property represents has, in the
    source as it is NOW (gen/Structs.v, regenerated on every run), exactly the fields - names, types, order - the
    model was written against (model/StateInventory.v).  New state in these objects (a memoised digest, a cached
    document, a remembered operand) is state the theorems above do not speak about: this is the obligation that
    stops checking then. *)
From GoBT Require gen.Structs model.StateInventory.
Theorem C03_state_inventory :
  forall k, In k (StateInventory.group_of StateInventory.pC03) ->
  exists f, StateInventory.lookup_gen gen.Structs.structs k = Some f /\ StateInventory.lookup_model k = Some f.
Proof. apply StateInventory.inventory_ok_spec. vm_compute. reflexivity. Qed.
Print Assumptions C03_state_inventory.

(** Package-level state (tie, translator part): in the source as it is NOW (gen/Globals.v) no package-level variable of
    the packages this property's code lives in can change after initialisation or is handed out by reference - the
    model's functions are functions of their arguments only (model/StateInventory.v). *)
From GoBT Require gen.Globals.
Theorem C03_no_mutable_package_state :
  forall g, In g gen.Globals.globals -> In (StateInventory.rg_pkg g) (StateInventory.packages_of StateInventory.pC03) ->
  StateInventory.rg_mutated g = false /\ StateInventory.rg_escapes g = false.
Proof. apply StateInventory.pkg_state_ok_spec. vm_compute. reflexivity. Qed.
Print Assumptions C03_no_mutable_package_state.
