(** Export: the Go source of Output.Bytes (output.go), as printed into gen/Funcs.v on every run, is the model function the
    property theorems are about (proofs/GenFuncs_Output_Bytes.v).  Go values are related to the model's records by the
    abstraction functions of proofs/GenFuncsTxTac.v; the hypotheses are the ranges of the Go types.  Compiled only
    while gen/Funcs.status.json says the function is translated. *)
From Coq Require Import List ZArith NArith Bool.
From Coq Require Import Strings.Byte.
From GoBT Require Import lib.Bytes lib.GoSem lib.GoTx gen.Funcs proofs.GenFuncsTxTac proofs.GenFuncs_Output_Bytes.
From GoBT Require Import model.Tx.
Import ListNotations.
Local Open Scope Z_scope.

Theorem C01_go_source_Output_Bytes_is_model :
  forall (sats : Z) (s : bytes), u64 sats -> len_ok s ->
  Output_Bytes sats (Some s) = Val (output_bytes (mkOutput (Z.to_N sats) s)).
Proof. exact Output_Bytes_is_model. Qed.
Print Assumptions C01_go_source_Output_Bytes_is_model.

Theorem C11_go_source_Output_Bytes_is_model :
  forall (sats : Z) (s : bytes), u64 sats -> len_ok s ->
  Output_Bytes sats (Some s) = Val (output_bytes (mkOutput (Z.to_N sats) s)).
Proof. exact Output_Bytes_is_model. Qed.
Print Assumptions C11_go_source_Output_Bytes_is_model.

(** Go's partiality: the LockingScript pointer is dereferenced; the model's outputs always carry a script *)
Theorem C01_go_source_Output_Bytes_nil_script_panics :
  forall sats : Z, Output_Bytes sats None = Panic.
Proof. exact Output_Bytes_nil_script. Qed.
Print Assumptions C01_go_source_Output_Bytes_nil_script_panics.

