(** Export: the Go source of stack.Tuck, as printed into gen/Funcs.v on every run, has the meaning the interpreter
    model gives it (proofs/GenFuncs_stack_Tuck.v).  Compiled only while gen/Funcs.status.json says the function is translated. *)
From Coq Require Import List ZArith NArith Bool.
From Coq Require Import Strings.Byte.
From GoBT Require Import lib.Bytes lib.GoSem lib.GoInterp gen.Funcs proofs.GenFuncsTac proofs.GenFuncsInterpTac proofs.GenFuncs_stack_PopByteArray proofs.GenFuncs_stack_PushByteArray proofs.GenFuncs_stack_Tuck.
From GoBT Require model.Interp model.ScriptNum.
Import ListNotations.
Local Open Scope Z_scope.

Theorem C05_go_source_stack_Tuck_is_model : forall (d : list bytes), Interp.lenZ d < 2147483648 ->
  st_view (stack_Tuck (rev d)) = Val (match d with x2 :: x1 :: r => Some (x2 :: x1 :: x2 :: r) | _ => None end).
Proof. exact stack_Tuck_spec. Qed.
Print Assumptions C05_go_source_stack_Tuck_is_model.

Theorem C08_go_source_stack_Tuck_is_model : forall (d : list bytes), Interp.lenZ d < 2147483648 ->
  st_view (stack_Tuck (rev d)) = Val (match d with x2 :: x1 :: r => Some (x2 :: x1 :: x2 :: r) | _ => None end).
Proof. exact stack_Tuck_spec. Qed.
Print Assumptions C08_go_source_stack_Tuck_is_model.
