(** Export: the Go source of stack.SwapN, as printed into gen/Funcs.v on every run, has for EVERY argument n the meaning of the
    list-level operation (proofs/GenFuncs_stack_SwapN_all_n.v; the statement for the arguments the handlers use is
    Properties/Gen_stack_SwapN.v).  Compiled only while gen/Funcs.status.json says the function is translated. *)
From Coq Require Import List ZArith NArith Bool.
From Coq Require Import Strings.Byte.
From GoBT Require Import lib.Bytes lib.GoSem lib.GoInterp gen.Funcs proofs.GenFuncsTac proofs.GenFuncsInterpTac proofs.GenFuncs_stack_SwapN_all_n.
From GoBT Require model.Interp model.ScriptNum .
Import ListNotations.
Local Open Scope Z_scope.

Theorem C05_go_source_stack_SwapN_is_spec_all_n : forall (n : Z) (d : list bytes), small d -> in31 n ->
  st_view (stack_SwapN n (rev d)) = Val (if n <? 1 then None else Interp.swap_n (Z.to_nat n) d).
Proof. exact stack_SwapN_all_n. Qed.
Print Assumptions C05_go_source_stack_SwapN_is_spec_all_n.

(** the instances the handlers use (OP_SWAP, OP_2SWAP), derived *)
Theorem C05_go_source_stack_SwapN_is_spec_handlers : forall (n : Z) (d : list bytes), small d -> n = 1 \/ n = 2 ->
  st_view (stack_SwapN n (rev d)) = Val (Interp.swap_n (Z.to_nat n) d).
Proof. exact stack_SwapN_handlers. Qed.

Example C05_go_source_stack_SwapN_all_n_example :
  st_view (stack_SwapN 3 (rev [[x01]; [x02]; [x03]; [x04]; [x05]; [x06]; [x07]])) = Val (Some [[x04]; [x05]; [x06]; [x01]; [x02]; [x03]; [x07]]) /\
  st_view (stack_SwapN 3 (rev [[x01]; [x02]; [x03]; [x04]; [x05]])) = Val None.
Proof. vm_compute. repeat split. Qed.
