(** Export: the Go source of Script.IsP2PKHInscription, as printed into gen/Funcs.v on every run, is the model function the
    property theorems are about (proofs/GenFuncs_Script_IsP2PKHInscription.v).  Compiled only while gen/Funcs.status.json says the
    function is translated. The printed function calls the printed DecodeParts and isP2PKHInscriptionHelper; panic case included. *)
From Coq Require Import List ZArith NArith Bool.
From Coq Require Import Strings.Byte.
From GoBT Require Import lib.Bytes lib.GoSem lib.GoTx gen.Funcs proofs.GenFuncsTac proofs.GenFuncs_Script_IsP2PKHInscription.
Local Open Scope Z_scope.

Theorem C14_go_source_Script_IsP2PKHInscription_is_model :
  forall b : bytes, to_outcome (Script_IsP2PKHInscription b) = GoBT.model.Classify.is_p2pkh_inscription b.
Proof. exact Script_IsP2PKHInscription_is_model. Qed.
Print Assumptions C14_go_source_Script_IsP2PKHInscription_is_model.

Theorem C20_go_source_Script_IsP2PKHInscription_is_model :
  forall b : bytes, to_outcome (Script_IsP2PKHInscription b) = GoBT.model.Classify.is_p2pkh_inscription b.
Proof. exact Script_IsP2PKHInscription_is_model. Qed.
Print Assumptions C20_go_source_Script_IsP2PKHInscription_is_model.
