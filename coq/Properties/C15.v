(** C15 — P2PKH construction and addresses are coherent and checksum-protected.
    Only statements, [exact], [Print Assumptions] and non-vacuity examples.
    Models: lib/Base58.v (go-bk base58), model/Address.v; specification: spec/Base58Check.v;
    proofs: lib/Numeral.v, lib/Base58.v, proofs/AddressProofs.v, proofs/AddressLengthProofs.v. *)
From Coq Require Import String Ascii List NArith.
From Coq Require Import Strings.Byte.
From GoBT Require Import lib.Bytes lib.Hex lib.Str lib.Sha256 lib.Ripemd160 lib.Numeral lib.Base58.
From GoBT Require Import model.Bip276 model.Address spec.Base58Check proofs.AddressProofs proofs.AddressLengthProofs.
From GoBT Require lib.Checked model.Push model.Classify proofs.AuditD15.
Import ListNotations.

(** Base58 (go-bk, as coded): decode inverts encode on EVERY byte list (leading zero bytes <-> leading '1's) *)
Theorem C15_b58_decode_encode : forall b : bytes, b58_decode (b58_encode b) = b.
Proof. exact b58_decode_encode. Qed.
Print Assumptions C15_b58_decode_encode.

(** ... and encode inverts decode on every string over the alphabet: each such string is the
    canonical (only) encoding of its decoding; on any other string decode returns the empty slice *)
Theorem C15_b58_encode_decode : forall s : bytes, is_b58_text s -> b58_encode (b58_decode s) = s.
Proof. exact b58_encode_decode. Qed.
Print Assumptions C15_b58_encode_decode.
Theorem C15_b58_decode_invalid : forall s : bytes, ~ is_b58_text s -> b58_decode s = [].
Proof. exact b58_decode_invalid. Qed.
Print Assumptions C15_b58_decode_invalid.

(** the generic positional-numeral facts behind both (any base >= 2; instantiated with 58 and 256) *)
Theorem C15_numeral_digits_value : forall B, (2 <= B)%N -> forall ds, canonical B ds -> digits B (value B ds) = ds.
Proof. exact digits_value. Qed.
Print Assumptions C15_numeral_digits_value.
Theorem C15_numeral_value_digits : forall B, (2 <= B)%N -> forall n, value B (digits B n) = n.
Proof. exact value_digits. Qed.
Print Assumptions C15_numeral_value_digits.

(** the address derived from any 20-byte hash, either network, decodes back to the same hash (and
    the same Address value) and validates *)
Theorem C15_address_roundtrip : forall h mainnet, List.length h = 20%nat ->
  let a := new_address_from_pkh h mainnet in
  new_address_from_string (a_string a) = Ok a /\ a_pkh_hex a = hex_of h /\
  validate_address (a_string a) = true.
Proof. exact address_roundtrip_lemma. Qed.
Print Assumptions C15_address_roundtrip.

(** ... and so does the address derived from any public key (its compressed serialisation; no
    hypothesis on the key bytes is needed) *)
Theorem C15_address_roundtrip_key : forall k mainnet,
  let a := new_address_from_public_key k mainnet in
  new_address_from_string (a_string a) = Ok a /\ a_pkh_hex a = hex_of (hash160 k) /\
  validate_address (a_string a) = true.
Proof. exact address_roundtrip_key_lemma. Qed.
Print Assumptions C15_address_roundtrip_key.

(** every way of building a P2PKH locking script yields the same canonical 25-byte script
    76 a9 14 ‖ h ‖ 88 ac, from which the same hash and address are recovered *)
Theorem C15_constructors_agree : forall k h mainnet, List.length k = 33%nat -> List.length h = 20%nat ->
  p2pkh_from_pubkey_bytes k = Ok (p2pkh_script (hash160 k)) /\
  p2pkh_from_pkh h = p2pkh_script h /\
  p2pkh_from_pkh_str (hex_of h) = Ok (p2pkh_script h) /\
  p2pkh_from_address (a_string (new_address_from_pkh h mainnet)) = Ok (p2pkh_script h) /\
  List.length (p2pkh_script h) = 25%nat /\ is_p2pkh (p2pkh_script h) = true /\
  public_key_hash (p2pkh_script h) = Ok h /\
  addresses (p2pkh_script h) = Ok [a_string (new_address_from_pkh h true)] /\
  new_address_from_public_key k mainnet = new_address_from_pkh (hash160 k) mainnet /\
  List.length (hash160 k) = 20%nat.
Proof. exact constructors_agree_lemma. Qed.
Print Assumptions C15_constructors_agree.

(** ACCEPTANCE, validation: ValidateAddress accepts a string exactly when it is a BIP276 text that
    decodes (C17) or a well-formed Base58Check P2PKH address — right length, supported version
    byte, correct checksum, canonical leading '1's (full iff) *)
Theorem C15_validate_accept_iff_base58check : forall s, has_prefix "bitcoin-script:" s = false ->
  (validate_address s = true <-> is_p2pkh_address (bytes_of_string s)).
Proof. exact validate_accept_iff_base58check_lemma. Qed.
Print Assumptions C15_validate_accept_iff_base58check.
Theorem C15_validate_address_iff : forall s,
  validate_address s = true <->
  (has_prefix "bitcoin-script:" s = true /\ exists v, decode_bip276 s = DOk v) \/
  is_p2pkh_address (bytes_of_string s).
Proof. exact validate_address_iff. Qed.
Print Assumptions C15_validate_address_iff.
Theorem C15_valid_a58_iff : forall s : bytes, valid_a58 s = Ok tt <-> is_p2pkh_address s.
Proof. exact valid_a58_iff. Qed.
Print Assumptions C15_valid_a58_iff.

(** ACCEPTANCE, building a locking script. The property demands, at full strength,

      forall addr, (exists a, new_address_from_string addr = Ok a) <-> is_p2pkh_address (bytes_of_string addr)

    (and the same for NewP2PKHFromAddress / PayToAddress). This is FALSE of the code:
    addressToPubKeyHashStr never looks at the four checksum bytes. It cannot be repaired in /repo:
    the pinned suite itself pays to wrong-checksum addresses (tx_test.go) and asserts NoError.
    Recorded known finding; what is proved instead: *)

(** refutation: a valid address with its last character changed is accepted by
    NewAddressFromString and NewP2PKHFromAddress, rejected by ValidateAddress, and is not Base58Check *)
Theorem C15_from_address_accept_iff_base58check_refuted :
  exists addr, (exists a, new_address_from_string addr = Ok a) /\
               (exists s, p2pkh_from_address addr = Ok s) /\
               validate_address addr = false /\
               ~ is_p2pkh_address (bytes_of_string addr).
Proof. exact from_address_accept_iff_base58check_refuted_lemma. Qed.
Print Assumptions C15_from_address_accept_iff_base58check_refuted.

(** partial: everything but the checksum, as an exact characterisation — accepted iff the string
    is the Base58 encoding of 25 bytes whose first byte is 00 or 6f (so: only Base58 characters,
    right length, supported version, canonical leading '1's); every Base58Check address is accepted *)
Theorem C15_from_address_accept_partial : forall addr,
  ((exists a, new_address_from_string addr = Ok a) <-> is_base58_25 (bytes_of_string addr)) /\
  ((exists s, p2pkh_from_address addr = Ok s) <-> is_base58_25 (bytes_of_string addr)) /\
  (is_p2pkh_address (bytes_of_string addr) -> exists a, new_address_from_string addr = Ok a).
Proof. exact from_address_accept_partial_lemma. Qed.
Print Assumptions C15_from_address_accept_partial.

(** ... and when it accepts, the script is the canonical one for bytes 1..20 of the decoding *)
Theorem C15_from_address_script : forall addr s, p2pkh_from_address addr = Ok s ->
  exists v rest, supported_version v /\ List.length rest = 24%nat /\
    bytes_of_string addr = b58_encode (v :: rest) /\ s = p2pkh_script (firstn 20 rest).
Proof. exact p2pkh_from_address_ok. Qed.
Print Assumptions C15_from_address_script.

(** NO LONG STRING IS AN ADDRESS (any length, in particular lengths and counts of leading '1's that are multiples
    of 2^8 or 2^16, where a narrow counter in the code would wrap): Base58 of at most 25 bytes has at most 35
    characters, so every acceptor rejects every string of more than 35 characters (BIP276 texts, which belong
    to C17, aside) ... *)
Theorem C15_b58_encode_length : forall b : bytes, (List.length b <= 25)%nat -> (List.length (b58_encode b) <= 35)%nat.
Proof. exact b58_encode_length_le_35. Qed.
Print Assumptions C15_b58_encode_length.
Theorem C15_accepted_strings_are_short : forall s,
  (has_prefix "bitcoin-script:" s = false -> validate_address s = true -> (String.length s <= 35)%nat) /\
  ((exists a, new_address_from_string s = Ok a) -> (String.length s <= 35)%nat) /\
  ((exists sc, p2pkh_from_address s = Ok sc) -> (String.length s <= 35)%nat) /\
  ((exists sc, pay_to_address_script s = Ok sc) -> (String.length s <= 35)%nat).
Proof. exact accepted_strings_are_short. Qed.
Print Assumptions C15_accepted_strings_are_short.
(** ... and n >= 36 characters '1' before ANY string never validate *)
Theorem C15_ones_prepended_rejected : forall n s, (36 <= n)%nat ->
  has_prefix "bitcoin-script:" (String.append (string_of_bytes (repeat x31 n)) s) = false ->
  validate_address (String.append (string_of_bytes (repeat x31 n)) s) = false.
Proof. exact ones_prepended_rejected. Qed.
Print Assumptions C15_ones_prepended_rejected.
(** non-vacuity: accepted strings exist, and the bound 35 leaves room for them (34 characters here) *)
Example C15_accepted_strings_are_short_nonvacuous :
  validate_address "1E7ucTTWRTahCyViPhxSMor2pj4VGQdFMr" = true /\
  String.length "1E7ucTTWRTahCyViPhxSMor2pj4VGQdFMr" = 34%nat /\
  validate_address (String.append (string_of_bytes (repeat x31 256)) "1E7ucTTWRTahCyViPhxSMor2pj4VGQdFMr") = false.
Proof. vm_compute. repeat split. Qed.

(** the indexing expressions of the modelled functions never go out of range.
    (Largely by construction of model/Address.v: its accesses are totalised ([nth _ _ x00], unchecked
    [slice]) and [Panic] only appears at three hand-placed branches. The statement with checked
    primitives for PublicKeyHash is C14_inspect_no_panic; [C15_public_key_hash_models_agree] below
    shows the two models of PublicKeyHash compute the same.) *)
Theorem C15_no_panic : forall (s : bytes) (addr : string),
  valid_a58 s <> Panic /\ address_to_pkh_str addr <> Panic /\
  public_key_hash s <> Panic /\ public_key_hash s <> Err EFuel.
Proof.
  intros s addr. split; [apply valid_a58_no_panic|]. split; [apply address_to_pkh_no_panic|].
  apply public_key_hash_no_panic.
Qed.
Print Assumptions C15_no_panic.

(** THE SAFE USAGE PATTERN (audit D). Building a script does not verify the checksum (refuted above), but an
    address that ValidateAddress accepts builds the locking script of exactly the hash its checksum
    protects, and NewAddressFromString returns that hash *)
Theorem C15_validated_address_builds_checked_script : forall addr,
  has_prefix "bitcoin-script:" addr = false -> validate_address addr = true ->
  exists v h, supported_version v /\ List.length h = 20%nat /\ bytes_of_string addr = base58check v h /\
    p2pkh_from_address addr = Ok (p2pkh_script h) /\
    new_address_from_string addr = Ok (mkAddress addr (hex_of h)).
Proof. exact AuditD15.validated_address_builds_checked_script. Qed.
Print Assumptions C15_validated_address_builds_checked_script.

(** two different (network, hash) pairs never share an address string *)
Theorem C15_address_injective : forall h h' m m', List.length h = 20%nat -> List.length h' = 20%nat ->
  a_string (new_address_from_pkh h m) = a_string (new_address_from_pkh h' m') -> h = h' /\ m = m'.
Proof. exact AuditD15.address_injective. Qed.
Print Assumptions C15_address_injective.

(** the constructors that take hex strings agree with the ones that take bytes *)
Theorem C15_p2pkh_from_pubkey_str : forall k, List.length k = 33%nat ->
  p2pkh_from_pubkey_str (hex_of k) = Ok (p2pkh_script (hash160 k)).
Proof. exact AuditD15.p2pkh_from_pubkey_str_spec. Qed.
Print Assumptions C15_p2pkh_from_pubkey_str.
Theorem C15_new_address_from_public_key_string : forall k mainnet,
  new_address_from_public_key_string (hex_of k) mainnet = Ok (new_address_from_public_key k mainnet).
Proof. exact AuditD15.new_address_from_public_key_string_spec. Qed.
Print Assumptions C15_new_address_from_public_key_string.

(** ONE MODEL, NOT TWO (audit D). model/Address.v has its own copies of DecodeParts, PublicKeyHash, IsP2PKH and
    PushDataPrefix; C13 / C14 are proved about the copies in model/Push.v and model/Classify.v. The
    copies compute the same on every input: same verdict, same parts / hash / boolean / prefix *)
Theorem C15_decode_parts_models_agree : forall b,
  match Push.decode_parts b, decode_parts b with
  | Push.DOk l, Ok l' => l = l'
  | Push.DErr _, Err EDataTooSmall => True
  | _, _ => False
  end.
Proof. exact AuditD15.decode_models_agree. Qed.
Print Assumptions C15_decode_parts_models_agree.
Theorem C15_public_key_hash_models_agree : forall s,
  match Classify.public_key_hash s, public_key_hash s with
  | Checked.Ok h, Ok h' => h = h'
  | Checked.Err, Err _ => True
  | _, _ => False
  end.
Proof. exact AuditD15.public_key_hash_models_agree. Qed.
Print Assumptions C15_public_key_hash_models_agree.
Theorem C15_is_p2pkh_models_agree : forall s, Classify.is_p2pkh s = Checked.Ok (is_p2pkh s).
Proof. exact AuditD15.is_p2pkh_models_agree. Qed.
Print Assumptions C15_is_p2pkh_models_agree.
Theorem C15_push_data_prefix_models_agree : forall d,
  push_data_prefix d = match Push.push_data_prefix d with Some p => Ok p | None => Err EPartTooBig end.
Proof. exact AuditD15.push_data_prefix_models_agree. Qed.
Print Assumptions C15_push_data_prefix_models_agree.

(** non-vacuity: a concrete hash, its two addresses, the script; the spec really excludes the witness *)
Example C15_example :
  let h := unhex "8fe80c75c9560e8b56ed64ea3c26e18d2c52211b" in
  List.length h = 20%nat /\
  a_string (new_address_from_pkh h true) = "1E7ucTTWRTahCyViPhxSMor2pj4VGQdFMr"%string /\
  a_string (new_address_from_pkh h false) = "mtdruWYVEV1wz5yL7GvpBj4MgifCB7yhPd"%string /\
  p2pkh_from_address "1E7ucTTWRTahCyViPhxSMor2pj4VGQdFMr" = Ok (unhex "76a9148fe80c75c9560e8b56ed64ea3c26e18d2c52211b88ac").
Proof. cbv zeta. repeat split; vm_compute; reflexivity. Qed.
Example C15_pinned_suite_addresses_have_wrong_checksums :
  validate_address "n2wmGVP89x3DsLNqk3NvctfQy9m9pvt7mz" = false /\
  validate_address "mywmGVP89x3DsLNqk3NvctfQy9m9pvt7mz" = false /\
  is_ok (p2pkh_from_address "n2wmGVP89x3DsLNqk3NvctfQy9m9pvt7mz") = true /\
  is_ok (p2pkh_from_address "mywmGVP89x3DsLNqk3NvctfQy9m9pvt7mz") = true.
Proof. repeat split; vm_compute; reflexivity. Qed.
Example C15_leading_one_canonicity :
  validate_address "1NRoySJ9Lvby6DuE2UQYnyT67AASwNZxGb" = true /\
  validate_address "NRoySJ9Lvby6DuE2UQYnyT67AASwNZxGb" = false /\
  validate_address "11NRoySJ9Lvby6DuE2UQYnyT67AASwNZxGb" = false.
Proof. repeat split; vm_compute; reflexivity. Qed.

(** the version bytes of the model are the constants of bscript/address.go (regenerated from the Go source on every run) *)
From Coq Require Import String ZArith.
From GoBT Require Import gen.MiscConsts proofs.InterpConstsProofs proofs.MiscConstsProofs.
Local Open Scope string_scope.
Theorem C15_version_bytes_match :
  lookup address_consts "hashP2PKH" = Some (Z.of_N (b2n (version_byte true))) /\
  lookup address_consts "hashTestNetP2PKH" = Some (Z.of_N (b2n (version_byte false))).
Proof. destruct address_consts_match as (H1 & H2 & _). split; assumption. Qed.
Print Assumptions C15_version_bytes_match.

(** State inventory (tie, translator part): every Go struct the model of this property represents has, in the
    source as it is NOW (gen/Structs.v, regenerated on every run), exactly the fields - names, types, order - the
    model was written against (model/StateInventory.v).  New state in these objects (a memoised digest, a cached
    document, a remembered operand) is state the theorems above do not speak about: this is the obligation that
    stops checking then. *)
From GoBT Require gen.Structs model.StateInventory.
Theorem C15_state_inventory :
  forall k, In k (StateInventory.group_of StateInventory.pC15) ->
  exists f, StateInventory.lookup_gen gen.Structs.structs k = Some f /\ StateInventory.lookup_model k = Some f.
Proof. apply StateInventory.inventory_ok_spec. vm_compute. reflexivity. Qed.
Print Assumptions C15_state_inventory.

(** Package-level state (tie, translator part): in the source as it is NOW (gen/Globals.v) no package-level variable of
    the packages this property's code lives in can change after initialisation or is handed out by reference - the
    model's functions are functions of their arguments only (model/StateInventory.v). *)
From GoBT Require gen.Globals.
Theorem C15_no_mutable_package_state :
  forall g, In g gen.Globals.globals -> In (StateInventory.rg_pkg g) (StateInventory.packages_of StateInventory.pC15) ->
  StateInventory.rg_mutated g = false /\ StateInventory.rg_escapes g = false.
Proof. apply StateInventory.pkg_state_ok_spec. vm_compute. reflexivity. Qed.
Print Assumptions C15_no_mutable_package_state.

(** THE TRANSACTION METHODS, ON EVERY TRANSACTION (model/AddressTx.v: Tx.PayToAddress / Tx.AddP2PKHOutputFromAddress /
    Tx.ChangeToAddress as functions of the transaction they are called on - any version, inputs, outputs, lock time:
    still empty, inputs = outputs, inputs above or below the outputs - of the fee quote and of the string; the change
    arithmetic is model/Change.v of C10).  The verdict on the STRING is the verdict of NewP2PKHFromAddress and does
    not depend on the state of the transaction nor on the quote: *)
From GoBT Require model.Tx model.Fees model.Change model.AddressTx proofs.AddressTxProofs.

(** ChangeToAddress refuses the string as an address exactly when NewP2PKHFromAddress does, on every transaction and
    quote (the change calculation has errors of its own - insufficient inputs, a missing rate, an input without its
    previous script - but never this one) ... *)
Theorem C15_change_to_address_refusal_iff : forall (t : model.Tx.tx) (q : model.Fees.quote) addr,
  AddressTx.refused_as_address (fst (AddressTx.change_to_address_str t q addr)) = true <->
  exists e, p2pkh_from_address addr = Err e.
Proof. exact AddressTxProofs.change_to_address_refusal_iff. Qed.
Print Assumptions C15_change_to_address_refusal_iff.

(** ... so two transactions (and quotes) never disagree about a string *)
Theorem C15_tx_methods_verdict_state_independent : forall (t t' : model.Tx.tx) (q q' : model.Fees.quote) sats sats' addr,
  AddressTx.refused_as_address (fst (AddressTx.change_to_address_str t q addr)) =
  AddressTx.refused_as_address (fst (AddressTx.change_to_address_str t' q' addr)) /\
  fst (AddressTx.add_p2pkh_output_from_address t addr sats) = fst (AddressTx.add_p2pkh_output_from_address t' addr sats') /\
  fst (AddressTx.pay_to_address t addr sats) = fst (AddressTx.pay_to_address t' addr sats').
Proof.
  intros. split; [apply AddressTxProofs.change_to_address_refusal_state_independent|].
  split; apply AddressTxProofs.add_output_verdict_state_independent.
Qed.
Print Assumptions C15_tx_methods_verdict_state_independent.

(** a string NewP2PKHFromAddress does not accept is accepted by none of them, whatever the transaction and the quote,
    and the transaction is afterwards the one the method was called on (nothing half-built is left behind) *)
Theorem C15_rejected_string_rejected_on_every_tx : forall addr, (forall s, p2pkh_from_address addr <> Ok s) ->
  forall (t : model.Tx.tx) (q : model.Fees.quote) sats,
    fst (AddressTx.add_p2pkh_output_from_address t addr sats) <> Ok tt /\
    snd (AddressTx.add_p2pkh_output_from_address t addr sats) = t /\
    fst (AddressTx.pay_to_address t addr sats) <> Ok tt /\ snd (AddressTx.pay_to_address t addr sats) = t /\
    (forall b, fst (AddressTx.change_to_address_str t q addr) <> model.Fees.FOk b) /\
    snd (AddressTx.change_to_address_str t q addr) = t.
Proof. exact AddressTxProofs.rejected_string_rejected_on_every_tx. Qed.
Print Assumptions C15_rejected_string_rejected_on_every_tx.

(** accept => Base58 of 25 bytes with version 00/6f, on every transaction (partial in the same sense as
    C15_from_address_accept_partial: everything but the checksum - the recorded finding) *)
Theorem C15_tx_methods_accept_only_base58_25_partial : forall (t : model.Tx.tx) (q : model.Fees.quote) addr sats,
  (fst (AddressTx.add_p2pkh_output_from_address t addr sats) = Ok tt -> is_base58_25 (bytes_of_string addr)) /\
  (fst (AddressTx.pay_to_address t addr sats) = Ok tt -> is_base58_25 (bytes_of_string addr)) /\
  (forall b, fst (AddressTx.change_to_address_str t q addr) = model.Fees.FOk b -> is_base58_25 (bytes_of_string addr)).
Proof. exact AddressTxProofs.tx_acceptors_accept_only_base58_25. Qed.
Print Assumptions C15_tx_methods_accept_only_base58_25_partial.

(** what a call leaves behind: version, inputs, lock time and every earlier output as they were; one output appended
    exactly when the call says so, with the script NewP2PKHFromAddress builds from the string *)
Theorem C15_change_to_address_leaves : forall (t : model.Tx.tx) (q : model.Fees.quote) addr r t',
  AddressTx.change_to_address_str t q addr = (r, t') ->
  model.Tx.tx_version t' = model.Tx.tx_version t /\ model.Tx.tx_ins t' = model.Tx.tx_ins t /\
  model.Tx.tx_lock t' = model.Tx.tx_lock t /\
  ((r <> model.Fees.FOk true /\ t' = t) \/
   (r = model.Fees.FOk true /\ exists s v, p2pkh_from_address addr = Ok s /\
      model.Tx.tx_outs t' = (model.Tx.tx_outs t ++ [model.Tx.mkOutput v s])%list)).
Proof. exact AddressTxProofs.change_to_address_str_preserves. Qed.
Print Assumptions C15_change_to_address_leaves.

Theorem C15_add_output_leaves : forall (t : model.Tx.tx) addr sats r t',
  AddressTx.add_p2pkh_output_from_address t addr sats = (r, t') ->
  (r = Ok tt /\ exists s, p2pkh_from_address addr = Ok s /\ t' = Change.add_output t (model.Tx.mkOutput sats s)) \/
  (r <> Ok tt /\ t' = t).
Proof. exact AddressTxProofs.add_output_exact. Qed.
Print Assumptions C15_add_output_leaves.

(** non-vacuity: a malformed string on an empty transaction (0 = 0) and on one whose outputs use up the inputs is
    refused as an address; a valid address on the same transactions is not *)
Example C15_tx_methods_example :
  let empty := model.Tx.mkTx 1 [] [] 0 in
  let q := model.Fees.mkQuote (Some (FeeSpec.mkRate 5 100)) (Some (FeeSpec.mkRate 5 100)) in
  AddressTx.change_to_address_str empty q "not an address" = (model.Fees.FErr model.Fees.ErrBadAddress, empty) /\
  AddressTx.change_to_address_str empty q "1E7ucTTWRTahCyViPhxSMor2pj4VGQdFM0" = (model.Fees.FErr model.Fees.ErrBadAddress, empty) /\
  AddressTx.change_to_address_str empty q "1E7ucTTWRTahCyViPhxSMor2pj4VGQdFMr" = (model.Fees.FOk false, empty).
Proof. vm_compute. repeat split. Qed.
