(** Export: the Go source of Tx.InputIdx (tx.go), as printed into gen/Funcs.v on every run, is the model function
    [input_idx] the signature-hash theorems are about (proofs/GenFuncs_Tx_InputIdx.v).  Go values are related to the
    model's records by the abstraction functions of proofs/GenFuncsTxTac.v; the hypothesis is the range of a Go slice
    length.  Tx.InputCount is the printed function.  Compiled only while gen/Funcs.status.json says the function is
    translated. *)
From Coq Require Import List ZArith NArith Bool.
From Coq Require Import Strings.Byte.
From GoBT Require Import lib.Bytes lib.GoSem lib.GoTx gen.Funcs proofs.GenFuncsTxTac proofs.GenFuncs_Tx_InputIdx.
From GoBT Require Import model.Tx model.SigHash.
Import ListNotations.
Local Open Scope Z_scope.

(** every index from 0 (the callers convert a uint32): nil above InputCount()-1, the element otherwise *)
Theorem C02_go_source_Tx_InputIdx_is_model :
  forall (ins : list go_Input) (outs : list go_Output) (ver lock : Z) (i : N), len_ok ins ->
  bind (Tx_InputIdx (Z.of_N i) (map Some ins)) (fun p => Val (option_map input_of_go p)) = Val (input_idx (tx_of_go ins outs ver lock) i).
Proof. exact Tx_InputIdx_is_model. Qed.
Print Assumptions C02_go_source_Tx_InputIdx_is_model.

Theorem C03_go_source_Tx_InputIdx_is_model :
  forall (ins : list go_Input) (outs : list go_Output) (ver lock : Z) (i : N), len_ok ins ->
  bind (Tx_InputIdx (Z.of_N i) (map Some ins)) (fun p => Val (option_map input_of_go p)) = Val (input_idx (tx_of_go ins outs ver lock) i).
Proof. exact Tx_InputIdx_is_model. Qed.
Print Assumptions C03_go_source_Tx_InputIdx_is_model.

(** a negative int is not refused by the guard: Go's index panic *)
Theorem C02_go_source_Tx_InputIdx_negative_panics :
  forall (ins : list (option go_Input)) (i : Z), len_ok ins -> i < 0 -> Tx_InputIdx i ins = Panic.
Proof. exact Tx_InputIdx_negative. Qed.
Print Assumptions C02_go_source_Tx_InputIdx_negative_panics.
