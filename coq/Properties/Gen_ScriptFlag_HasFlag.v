(** Export: the Go source of ScriptFlag.HasFlag, as printed into gen/Funcs.v on every run, is the model function the
    property theorems are about (proofs/GenFuncs_ScriptFlag_HasFlag.v).  Compiled only while gen/Funcs.status.json says the
    function is translated. *)
From Coq Require Import List ZArith NArith Bool.
From Coq Require Import Strings.Byte.
From GoBT Require Import lib.Bytes lib.GoSem gen.Funcs proofs.GenFuncsTac proofs.GenFuncs_ScriptFlag_HasFlag.
Local Open Scope Z_scope.

Theorem C05_go_source_ScriptFlag_HasFlag_is_model :
  forall (c : GoBT.model.Interp.ctx) (f : N), ScriptFlag_HasFlag (Z.of_N (GoBT.model.Interp.c_flags c)) (Z.of_N (2 ^ f)) = Val (GoBT.model.Interp.has_flag c f).
Proof. exact ScriptFlag_HasFlag_is_model. Qed.
Print Assumptions C05_go_source_ScriptFlag_HasFlag_is_model.

Theorem C05_go_source_ScriptFlag_HasFlag_mask_is_model :
  forall s m : N, ScriptFlag_HasFlag (Z.of_N s) (Z.of_N m) = Val (N.land s m =? m)%N.
Proof. exact ScriptFlag_HasFlag_mask. Qed.
Print Assumptions C05_go_source_ScriptFlag_HasFlag_mask_is_model.
