(** Export: the Go source of stack.PushInt, as printed into gen/Funcs.v on every run, has the meaning the interpreter
    model gives it (proofs/GenFuncs_stack_PushInt.v).  Compiled only while gen/Funcs.status.json says the function is translated. *)
From Coq Require Import List ZArith NArith Bool.
From Coq Require Import Strings.Byte.
From GoBT Require Import lib.Bytes lib.GoSem lib.GoInterp gen.Funcs proofs.GenFuncsTac proofs.GenFuncsInterpTac proofs.GenFuncs_stack_PushByteArray proofs.GenFuncs_stack_PushInt.
From GoBT Require model.Interp model.ScriptNum.
Import ListNotations.
Local Open Scope Z_scope.

Theorem C05_go_source_stack_PushInt_is_model : forall (n : Z) (d : list bytes),
  stack_PushInt n (rev d) = Val (rev (ScriptNum.num_enc n :: d)).
Proof. exact stack_PushInt_spec. Qed.
Print Assumptions C05_go_source_stack_PushInt_is_model.

Theorem C08_go_source_stack_PushInt_is_model : forall (n : Z) (d : list bytes),
  stack_PushInt n (rev d) = Val (rev (ScriptNum.num_enc n :: d)).
Proof. exact stack_PushInt_spec. Qed.
Print Assumptions C08_go_source_stack_PushInt_is_model.
