(** Export: the Go source of thread.isBranchExecuting, as printed into gen/Funcs.v on every run, is the model function the
    property theorems are about (proofs/GenFuncs_thread_isBranchExecuting.v).  Compiled only while gen/Funcs.status.json says the
    function is translated. *)
From Coq Require Import List ZArith NArith Bool.
From Coq Require Import Strings.Byte.
From GoBT Require Import lib.Bytes lib.GoSem gen.Funcs proofs.GenFuncsTac proofs.GenFuncs_thread_isBranchExecuting.
Local Open Scope Z_scope.

Theorem C05_go_source_thread_isBranchExecuting_is_model :
  forall s : GoBT.model.Interp.st, Z.of_nat (length (GoBT.model.Interp.cond s)) < 9223372036854775808 ->
  thread_isBranchExecuting (go_cond_stack (GoBT.model.Interp.cond s)) = Val (GoBT.model.Interp.branch_executing s).
Proof. exact thread_isBranchExecuting_is_model. Qed.
Print Assumptions C05_go_source_thread_isBranchExecuting_is_model.
