(** Export: the Go source of stack.PeekInt, as printed into gen/Funcs.v on every run, has the meaning the interpreter
    model gives it (proofs/GenFuncs_stack_PeekInt.v).  Compiled only while gen/Funcs.status.json says the function is translated. *)
From Coq Require Import List ZArith NArith Bool.
From Coq Require Import Strings.Byte.
From GoBT Require Import lib.Bytes lib.GoSem lib.GoInterp gen.Funcs proofs.GenFuncsTac proofs.GenFuncsInterpTac proofs.GenFuncs_stack_PeekByteArray proofs.GenFuncs_stack_PeekInt.
From GoBT Require model.Interp model.ScriptNum.
Import ListNotations.
Local Open Scope Z_scope.

Theorem C05_go_source_stack_PeekInt_is_model : forall (i mx : Z) (mn ag : bool) (d : list bytes), Interp.lenZ d < 2147483648 -> in31 i ->
  stack_PeekInt i mx mn ag (rev d) =
  Val (match peek_model i d with (x, false) => sn_make x mx mn ag | (_, true) => (sn_nil, true) end).
Proof. exact stack_PeekInt_spec. Qed.
Print Assumptions C05_go_source_stack_PeekInt_is_model.
