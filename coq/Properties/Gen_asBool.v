(** Export: the Go source of asBool, as printed into gen/Funcs.v on every run, is the model function the
    property theorems are about (proofs/GenFuncs_asBool.v).  Compiled only while gen/Funcs.status.json says the
    function is translated. *)
From Coq Require Import List ZArith NArith Bool.
From Coq Require Import Strings.Byte.
From GoBT Require Import lib.Bytes lib.GoSem gen.Funcs proofs.GenFuncsTac proofs.GenFuncs_asBool.
Local Open Scope Z_scope.

Theorem C05_go_source_asBool_is_model :
  forall t : bytes, (lenN t < 9223372036854775808)%N -> asBool t = Val (GoBT.model.ScriptNum.as_bool t).
Proof. exact asBool_is_model. Qed.
Print Assumptions C05_go_source_asBool_is_model.
