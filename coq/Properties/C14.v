(** C14 — Script inspection is total and classifies by the standard templates.
    Only statements, [exact], [Print Assumptions], and examples.
    Model: model/Classify.v (bscript/script.go inspection queries and txjson_node.go fromOutput, every
    index / slice a checked primitive), model/Push.v, model/Asm.v.  Templates: spec/TemplateSpec.v.
    All theorems are for every byte string, without length bound. *)
From Coq Require Import List NArith ZArith String.
From Coq Require Import Strings.Byte.
From GoBT Require Import lib.Bytes lib.Hex lib.Checked model.Push model.Asm model.Classify
  spec.PushSpec spec.TemplateSpec proofs.PushProofs proofs.ClassifyProofs proofs.TemplateProofs proofs.AuditD14.
Import ListNotations.
Local Open Scope N_scope.

(** no inspection query panics on any byte string: ScriptType, the Is* tests, PublicKeyHash,
    Addresses, ParseInscription, ToASM, and what the node-JSON marshaller does with an output script *)
Theorem C14_inspect_no_panic : forall s,
  script_type s <> Panic /\ is_p2pkh s <> Panic /\ is_p2pk s <> Panic /\ is_p2sh s <> Panic /\ is_data s <> Panic /\
  is_multisig_out s <> Panic /\ is_p2pkh_inscription s <> Panic /\ public_key_hash s <> Panic /\
  addresses s <> Panic /\ parse_inscription s <> Panic /\ to_asm s <> Panic /\ node_output s <> Panic.
Proof. exact inspect_no_panic. Qed.
Print Assumptions C14_inspect_no_panic.

(** the model never answers "out of fuel" either (its fuel is a proof device) *)
Theorem C14_inspect_no_fuel : forall s,
  script_type s <> Fuel /\ is_p2pk s <> Fuel /\ is_multisig_out s <> Fuel /\ is_p2pkh_inscription s <> Fuel /\
  public_key_hash s <> Fuel /\ addresses s <> Fuel /\ parse_inscription s <> Fuel /\ to_asm s <> Fuel /\ node_output s <> Fuel.
Proof. exact inspect_no_fuel. Qed.
Print Assumptions C14_inspect_no_fuel.

(** ScriptType and the boolean tests always return a value; ToASM always returns a string *)
Theorem C14_script_type_total : forall s, exists t, script_type s = Ok t.
Proof. exact script_type_ok. Qed.
Print Assumptions C14_script_type_total.
Theorem C14_to_asm_total : forall s, exists a, to_asm s = Ok a.
Proof. exact to_asm_ok. Qed.
Print Assumptions C14_to_asm_total.

(** a script that instantiates a standard template is reported as that type *)
Theorem C14_template_classified : forall s,
  (is_p2pkh_t s -> script_type s = Ok TPubKeyHash) /\
  (is_p2pk_t s -> script_type s = Ok TPubKey) /\
  (is_multisig_t s -> script_type s = Ok TMultiSig) /\
  (is_data_t s -> script_type s = Ok TNullData) /\
  (is_inscription_t s -> script_type s = Ok TInscription).
Proof. exact template_classified. Qed.
Print Assumptions C14_template_classified.

(** reported P2PKH only if exactly the 25-byte template *)
Theorem C14_p2pkh_only_exact : forall s, script_type s = Ok TPubKeyHash -> is_p2pkh_t s.
Proof. exact p2pkh_only_exact. Qed.
Print Assumptions C14_p2pkh_only_exact.

(** reported data only if it starts with OP_RETURN or OP_FALSE OP_RETURN *)
Theorem C14_data_only_prefix : forall s, script_type s = Ok TNullData -> is_data_t s.
Proof. exact data_only_prefix. Qed.
Print Assumptions C14_data_only_prefix.

(** a script DecodeParts rejects is never reported as a key-bearing type *)
Theorem C14_undecodable_not_keybearing : forall s, dres_ok (decode_parts s) = false ->
  script_type s <> Ok TPubKey /\ script_type s <> Ok TPubKeyHash /\ script_type s <> Ok TMultiSig /\
  script_type s <> Ok TInscription.
Proof. exact undecodable_not_keybearing. Qed.
Print Assumptions C14_undecodable_not_keybearing.

(** the five templates are pairwise disjoint *)
Theorem C14_templates_disjoint : forall s,
  ~ (is_p2pkh_t s /\ is_p2pk_t s) /\ ~ (is_p2pkh_t s /\ is_multisig_t s) /\ ~ (is_p2pkh_t s /\ is_data_t s) /\
  ~ (is_p2pkh_t s /\ is_inscription_t s) /\ ~ (is_p2pk_t s /\ is_multisig_t s) /\ ~ (is_p2pk_t s /\ is_data_t s) /\
  ~ (is_p2pk_t s /\ is_inscription_t s) /\ ~ (is_multisig_t s /\ is_data_t s) /\
  ~ (is_multisig_t s /\ is_inscription_t s) /\ ~ (is_data_t s /\ is_inscription_t s).
Proof. exact templates_disjoint. Qed.
Print Assumptions C14_templates_disjoint.

(** IsP2PK reports true only for two parts: a key of valid version and length, then OP_CHECKSIG *)
Theorem C14_p2pk_only_valid_key : forall s, is_p2pk s = Ok true ->
  exists k v kr c cr, decode_parts s = DOk [k; c :: cr] /\ k = v :: kr /\ b2n c = 172 /\
    (((b2n v = 4 \/ b2n v = 6 \/ b2n v = 7) /\ lenN k = 65) \/ ((b2n v = 3 \/ b2n v = 2) /\ lenN k = 33)).
Proof. exact is_p2pk_true_inv. Qed.
Print Assumptions C14_p2pk_only_valid_key.

(** "undecodable" read against the grammar that is written without the library (audit D): a byte string that
    is not a sequence of complete tokens is never reported as a key-bearing type
    (DecodeParts rejects exactly those: C13_decode_accepts_iff_wellformed) *)
Theorem C14_not_wellformed_not_keybearing : forall s, ~ tokens s ->
  script_type s <> Ok TPubKey /\ script_type s <> Ok TPubKeyHash /\ script_type s <> Ok TMultiSig /\
  script_type s <> Ok TInscription.
Proof. exact not_wellformed_not_keybearing. Qed.
Print Assumptions C14_not_wellformed_not_keybearing.

(** reported empty exactly for the empty script *)
Theorem C14_empty_iff : forall s, script_type s = Ok TEmpty <-> s = [].
Proof. exact script_type_empty_iff. Qed.
Print Assumptions C14_empty_iff.

(** the EXACT set of scripts reported "pubkey", at byte level: a push - any of the four forms - of a
    key of valid version and length, followed by the opcode OP_CHECKSIG, or by a push (any form) of
    data that merely STARTS with the byte 0xac. The second alternative is what IsP2PK does (it looks
    at parts[1][0] and DecodeParts does not tell an opcode from pushed data): library behaviour,
    wider than the P2PK template, stated here so that it is not hidden *)
Theorem C14_pubkey_reported_iff : forall s, script_type s = Ok TPubKey <->
  exists hk k tail, push_header hk (lenN k) /\ valid_pubkey k /\
    (tail = [xac] \/ exists h2 d, push_header h2 (1 + lenN d) /\ tail = h2 ++ xac :: d) /\
    s = hk ++ k ++ tail.
Proof. exact p2pk_reported_iff. Qed.
Print Assumptions C14_pubkey_reported_iff.

(** ** non-vacuity: every template has instances; and the inputs on which the library used to panic
    or misclassify now evaluate to values in the model *)
Definition h20 : bytes := repeat_byte 20 x11.
Definition k33 : bytes := x02 :: repeat_byte 32 x22.
Definition k65 : bytes := x04 :: repeat_byte 64 x33.

Example C14_p2pkh_instance : is_p2pkh_t (p2pkh_script h20).
Proof. exists h20. split; reflexivity. Qed.
Example C14_p2pk_instances : is_p2pk_t (push_direct k33 ++ [xac]) /\ is_p2pk_t (push_direct k65 ++ [xac]).
Proof.
  split; [exists k33|exists k65]; (split; [|reflexivity]); unfold valid_pubkey, k33, k65; cbn [List.length repeat_byte].
  - left. split; [reflexivity|left; reflexivity].
  - right. split; [reflexivity|left; reflexivity].
Qed.
Example C14_multisig_instance :
  is_multisig_t ([op_n 2] ++ List.concat (map push_direct [k33; k65; k33]) ++ [op_n 3; xae]).
Proof.
  exists 2, [k33; k65; k33].
  split; [vm_compute; congruence|]. split; [vm_compute; congruence|]. split; [vm_compute; congruence|].
  split; [|reflexivity].
  constructor; [left; reflexivity|]. constructor; [right; reflexivity|]. constructor; [left; reflexivity|constructor].
Qed.
Example C14_data_instances : is_data_t [x6a; x01; x51] /\ is_data_t [x00; x6a; x01; x51; x01; xae].
Proof. split; eexists; [left|right]; reflexivity. Qed.
Example C14_inscription_instance :
  is_inscription_t (p2pkh_script h20 ++ ord_header ++ [x02; x61; x62] ++ [x00] ++ [x00] ++ [x68] ++ [x6a; x01; x51]).
Proof.
  exists h20, [x61; x62], [], [x02; x61; x62], [x00], [x6a; x01; x51].
  split; [reflexivity|]. split; [|split; [left; split; reflexivity|split; [|reflexivity]]].
  - right. exists [x02]. split; [vm_compute; congruence|]. split; [|reflexivity].
    apply (push_prefix_shortest [x61; x62] [x02]); [reflexivity|vm_compute; congruence].
  - right. exists [x01; x51]. split; [reflexivity|].
    apply (tok_push [x01] [x51] []); [apply (ph_direct 1); vm_compute; split; congruence|constructor].
Qed.

(** the data-before-multisig precedence: OP_FALSE OP_RETURN data that ends like a multisig is data *)
Example C14_data_has_precedence : script_type [x00; x6a; x01; x51; x01; xae] = Ok TNullData.
Proof. vm_compute. reflexivity. Qed.

(** inputs that decode into empty parts *)
Example C14_empty_parts_evaluate :
  is_p2pk [x01; x02; x4c; x00] = Ok false /\
  is_multisig_out [x4c; x00; x51; x51; x51; xae] = Ok false /\
  script_type [x4c; x00; x4c; x00] = Ok TNonStandard.
Proof. repeat split; vm_compute; reflexivity. Qed.

(** the wider-than-template case of [C14_pubkey_reported_iff] is inhabited: a key followed by a
    two-byte data push ac 00 is reported "pubkey" *)
Example C14_pubkey_with_data_push : script_type (push_direct k33 ++ [x02; xac; x00]) = Ok TPubKey.
Proof. vm_compute. reflexivity. Qed.

(** Inspection is read-only and repeatable (model/AsmArena.v: the parts ToASM renders are Go slice values into the
    caller's buffer and [append] writes in place while the capacity lasts): for every buffer, every list of windows
    into it and both kinds of script, the buffer after rendering is the buffer before, the text is that of
    model/Asm.v for the bytes the windows denote, and rendering again gives the same.  The examples show the
    statement separates the code from a renderer that pads the part it was handed. *)
From GoBT Require model.AsmArena proofs.AsmArenaProofs.
Theorem C14_asm_rendering_read_only : forall data h parts,
  fst (AsmArena.asm_parts_a data h parts) = h /\
  snd (AsmArena.asm_parts_a data h parts) = asm_parts data (map (AsmArena.rd h) parts).
Proof. intros. split; [apply AsmArenaProofs.asm_parts_a_read_only|apply AsmArenaProofs.asm_parts_a_value]. Qed.
Print Assumptions C14_asm_rendering_read_only.
Theorem C14_asm_rendering_repeatable : forall data h parts,
  AsmArena.asm_parts_a data (fst (AsmArena.asm_parts_a data h parts)) parts = AsmArena.asm_parts_a data h parts.
Proof. exact AsmArenaProofs.asm_parts_a_repeatable. Qed.
Print Assumptions C14_asm_rendering_repeatable.
Example C14_padding_in_place_is_not_read_only :
  (snd (AsmArena.asm_parts_padding_in_place true AsmArenaProofs.demo_script AsmArenaProofs.demo_parts)
   = snd (AsmArena.asm_parts_a true AsmArenaProofs.demo_script AsmArenaProofs.demo_parts)) /\
  (fst (AsmArena.asm_parts_padding_in_place true AsmArenaProofs.demo_script AsmArenaProofs.demo_parts)
   <> AsmArenaProofs.demo_script).
Proof. split; [vm_compute; reflexivity|exact AsmArenaProofs.padding_in_place_not_read_only]. Qed.

(** State inventory (tie, translator part): every Go struct the model of this property represents has, in the
    source as it is NOW (gen/Structs.v, regenerated on every run), exactly the fields - names, types, order - the
    model was written against (model/StateInventory.v).  New state in these objects (a memoised digest, a cached
    document, a remembered operand) is state the theorems above do not speak about: this is the obligation that
    stops checking then. *)
From GoBT Require gen.Structs model.StateInventory.
Theorem C14_state_inventory :
  forall k, In k (StateInventory.group_of StateInventory.pC14) ->
  exists f, StateInventory.lookup_gen gen.Structs.structs k = Some f /\ StateInventory.lookup_model k = Some f.
Proof. apply StateInventory.inventory_ok_spec. vm_compute. reflexivity. Qed.
Print Assumptions C14_state_inventory.

(** Package-level state (tie, translator part): in the source as it is NOW (gen/Globals.v) no package-level variable of
    the packages this property's code lives in can change after initialisation or is handed out by reference - the
    model's functions are functions of their arguments only (model/StateInventory.v). *)
From GoBT Require gen.Globals.
Theorem C14_no_mutable_package_state :
  forall g, In g gen.Globals.globals -> In (StateInventory.rg_pkg g) (StateInventory.packages_of StateInventory.pC14) ->
  StateInventory.rg_mutated g = false /\ StateInventory.rg_escapes g = false.
Proof. apply StateInventory.pkg_state_ok_spec. vm_compute. reflexivity. Qed.
Print Assumptions C14_no_mutable_package_state.
