(** Export: the Go source of EncodeParts, as printed into gen/Funcs.v on every run, is the model function the
    property theorems are about (proofs/GenFuncs_EncodeParts.v).  Compiled only while gen/Funcs.status.json says the
    function is translated.  The printed EncodeParts calls the printed PushDataPrefix.  Hypothesis: every part has fewer
    than 2^63 bytes (a Go slice has). *)
From Coq Require Import List ZArith NArith Bool.
From Coq Require Import Strings.Byte.
From GoBT Require Import lib.Bytes lib.GoSem gen.Funcs proofs.GenFuncsTac proofs.GenFuncs_PushDataPrefix proofs.GenFuncs_EncodeParts.
Local Open Scope Z_scope.

Theorem C13_go_source_EncodeParts_is_model :
  forall parts : list bytes, Forall (fun p => (lenN p < 9223372036854775808)%N) parts ->
  EncodeParts parts = Val (of_option (GoBT.model.Push.encode_parts parts)).
Proof. exact EncodeParts_is_model. Qed.
Print Assumptions C13_go_source_EncodeParts_is_model.

(** C20: the inscription builder (model/Inscription.v) pushes its fields with the same [encode_parts] *)
Theorem C20_go_source_EncodeParts_is_model :
  forall parts : list bytes, Forall (fun p => (lenN p < 9223372036854775808)%N) parts ->
  EncodeParts parts = Val (of_option (GoBT.model.Push.encode_parts parts)).
Proof. exact EncodeParts_is_model. Qed.
Print Assumptions C20_go_source_EncodeParts_is_model.
