(** Export: the Go source of Script.AppendPushDataArray, as printed into gen/Funcs.v on every run, is the model function the
    property theorems are about (proofs/GenFuncs_Script_AppendPushDataArray.v).  Compiled only while gen/Funcs.status.json says the
    function is translated.  The receiver's target [*s] is state: a parameter and, with the error, the result.  Hypothesis (Go's): every part is shorter than 2^63 bytes. *)
From Coq Require Import List ZArith NArith Bool.
From Coq Require Import Strings.Byte.
From GoBT Require Import lib.Bytes lib.GoSem gen.Funcs proofs.GenFuncsTac proofs.GenFuncs_Script_AppendPushDataArray.
Local Open Scope Z_scope.

Theorem C20_go_source_Script_AppendPushDataArray_is_model :
  forall (dd : list bytes) (s : bytes), Forall (fun p => (lenN p < 9223372036854775808)%N) dd ->
  Script_AppendPushDataArray dd s = Val (of_append s (GoBT.model.Inscription.append_push_data_array s dd)).
Proof. exact Script_AppendPushDataArray_is_model. Qed.
Print Assumptions C20_go_source_Script_AppendPushDataArray_is_model.
