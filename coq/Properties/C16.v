(** C16 - JSON interchange preserves transactions and satoshi amounts exactly.
    Only statements, [exact], and [Print Assumptions].
    Models: model/Json.v (value-level halves of both JSON dialects; encoding/json and strconv are
    trusted between the halves), model/Amount.v (binary64 via Flocq).  Proofs: proofs/JsonProofs.v,
    proofs/AmountProofs.v; the tx round trips reduce to the C01 codec theorems (proofs/TxProofs.v). *)
From Coq Require Import List NArith ZArith String Reals.
From Coq Require Import Strings.Byte.
From Flocq Require Import Core IEEE754.BinarySingleNaN.
From GoBT Require Import lib.Bytes lib.Hex lib.Parse lib.VarInt model.Tx proofs.TxProofs
  model.Amount proofs.AmountProofs model.Json proofs.JsonProofs proofs.AuditC16.
Import ListNotations.
Local Open Scope N_scope.

(** ** amounts: uint64(math.Round((float64(sat) / 1e8) * 1e8)) = sat for every amount up to 21e14.
    A floating-point theorem: two correctly rounded operations, relative error 2^-53 each, so the
    product is within 1/2 of sat and rounding to nearest recovers it. *)
Theorem C16_amount_roundtrip : forall sat : N, sat <= max_money -> to_sat (of_sat sat) = sat.
Proof. exact amount_roundtrip. Qed.
Print Assumptions C16_amount_roundtrip.

Theorem C16_amount_value_finite : forall sat : N, sat <= max_money -> is_finite (of_sat sat) = true.
Proof. exact of_sat_finite. Qed.
Print Assumptions C16_amount_value_finite.

Theorem C16_amount_mult_error : forall sat : N, sat <= max_money ->
  (Rabs (B2R (Bmult mode_NE (of_sat sat) f1e8) - IZR (Z.of_N sat)) < / 2)%R.
Proof. exact amount_mult_error. Qed.
Print Assumptions C16_amount_mult_error.

(** the pre-repair conversion (truncation instead of math.Round) loses 3 satoshis -> 2 *)
Theorem C16_amount_roundtrip_trunc_refuted :
  exists sat : N, sat <= max_money /\ to_sat_trunc (of_sat sat) <> sat.
Proof. exact amount_roundtrip_trunc_refuted. Qed.
Print Assumptions C16_amount_roundtrip_trunc_refuted.

(** a finite evaluation of the same definitions on 0..20000 - NOT the theorem above, an independent
    sanity check of the model by computation *)
Theorem C16_amount_roundtrip_exhaustive_small :
  forallb (fun k => N.eqb (to_sat (of_sat k)) k) (map N.of_nat (seq 0 (1 + 100 * 200))) = true.
Proof. exact amount_roundtrip_exhaustive_small. Qed.
Print Assumptions C16_amount_roundtrip_exhaustive_small.

(** ** transactions, library dialect: unmarshal (marshal tx) is the transaction the C01 decoder
    returns for tx's own bytes.  [tx_back g = gtx_of_tx (strip_tx (plain_tx g))]. *)
Theorem C16_tx_json_roundtrip : forall prev g, wf_gtx g -> ~ ambiguous (plain_tx g) ->
  exists j, marshal_tx g = JOk j /\ unmarshal_tx prev j = JOk (tx_back g).
Proof. exact tx_json_roundtrip. Qed.
Print Assumptions C16_tx_json_roundtrip.

(** ... which has the identical serialisation (hence the identical txid), identical outputs
    (satoshis and script bytes) and the inputs' txid / vout / script bytes / sequence *)
Theorem C16_tx_roundtrip_same_bytes : forall g, outs_set g -> gtx_bytes (tx_back g) = gtx_bytes g.
Proof. exact tx_roundtrip_same_bytes. Qed.
Print Assumptions C16_tx_roundtrip_same_bytes.
Theorem C16_tx_roundtrip_same_outputs : forall g, outs_set g -> g_outs (tx_back g) = g_outs g.
Proof. exact tx_roundtrip_same_outputs. Qed.
Print Assumptions C16_tx_roundtrip_same_outputs.
Theorem C16_tx_roundtrip_inputs : forall g,
  g_ins (tx_back g) =
  map (fun i => mkGInput (gi_txid i) (gi_vout i) (Some (script_or_empty (gi_unlock i))) (gi_seq i) 0 None) (g_ins g).
Proof. exact tx_roundtrip_inputs. Qed.
Print Assumptions C16_tx_roundtrip_inputs.

(** node dialect ([script_info] stands for bscript's ToASM / Addresses / ScriptType).
    (The marshalled document always carries "hex", so this round trip goes through the hex shortcut and no
    floating-point amount is involved; the vin/vout path is [C16_node_fields_roundtrip].  Marshalling succeeds
    whenever the script oracle does: [C16_node_marshal_tx_ok].) *)
Theorem C16_node_tx_json_roundtrip : forall script_info prev g j, wf_gtx g -> ~ ambiguous (plain_tx g) ->
  node_marshal_tx script_info g = JOk j -> node_unmarshal_tx prev j = JOk (tx_back g).
Proof. exact node_tx_json_roundtrip. Qed.
Print Assumptions C16_node_tx_json_roundtrip.

(** the same document without "hex" (the vin/vout path): all fields the objects carry come back,
    amounts through the float64 coin value *)
Theorem C16_node_fields_roundtrip : forall script_info prev g j,
  Forall (fun o => go_sats o <= max_money) (g_outs g) ->
  Forall (fun i => List.length (gi_txid i) = 32%nat) (g_ins g) ->
  node_marshal_tx script_info g = JOk j ->
  node_unmarshal_tx prev (mkNT (nt_version j) (nt_lock j) (nt_txid j) (nt_hash j) (nt_size j) "" (nt_vin j) (nt_vout j)) =
  JOk (mkGTx (g_version g)
         (map (fun i => mkGInput (gi_txid i) (gi_vout i) (Some (script_or_empty (gi_unlock i))) (gi_seq i) 0 None) (g_ins g))
         (map (fun o => mkGOutput (go_sats o) (Some (script_or_empty (go_lock o)))) (g_outs g))
         (g_lock g)).
Proof. exact node_fields_roundtrip. Qed.
Print Assumptions C16_node_fields_roundtrip.

(** lists *)
Theorem C16_txs_json_roundtrip : forall l, Forall wf_gtx l -> Forall (fun g => ~ ambiguous (plain_tx g)) l ->
  exists js, marshal_txs l = JOk js /\ unmarshal_txs js = JOk (map tx_back l).
Proof. exact txs_json_roundtrip. Qed.
Print Assumptions C16_txs_json_roundtrip.
Theorem C16_node_txs_json_roundtrip : forall script_info l js,
  Forall wf_gtx l -> Forall (fun g => ~ ambiguous (plain_tx g)) l ->
  node_marshal_txs script_info l = JOk js -> node_unmarshal_txs js = JOk (map tx_back l).
Proof. exact node_txs_json_roundtrip. Qed.
Print Assumptions C16_node_txs_json_roundtrip.

(** ** marshalling never panics - unsigned and partially signed inputs (nil unlocking script)
    included; needs only what every library constructor and decoder guarantees: locking scripts set *)
Theorem C16_marshal_no_panic : forall g, outs_set g -> marshal_tx g <> JPanic.
Proof. exact marshal_tx_no_panic. Qed.
Print Assumptions C16_marshal_no_panic.
Theorem C16_node_marshal_no_panic : forall script_info g,
  (forall s, script_info s <> JPanic) -> outs_set g -> node_marshal_tx script_info g <> JPanic.
Proof. exact node_marshal_tx_no_panic. Qed.
Print Assumptions C16_node_marshal_no_panic.

(** [outs_set] - the hypothesis of the two theorems above - is established by every decoder: a transaction
    that came in through hex, the library dialect or the node dialect has all its locking scripts set *)
Theorem C16_tx_from_hex_outs_set : forall s g, tx_from_hex s = JOk g -> outs_set g.
Proof. exact tx_from_hex_outs_set. Qed.
Print Assumptions C16_tx_from_hex_outs_set.
Theorem C16_unmarshal_tx_outs_set : forall prev j g, outs_set prev -> unmarshal_tx prev j = JOk g -> outs_set g.
Proof. exact unmarshal_tx_outs_set. Qed.
Print Assumptions C16_unmarshal_tx_outs_set.
Theorem C16_node_unmarshal_tx_outs_set : forall prev j g, node_unmarshal_tx prev j = JOk g -> outs_set g.
Proof. exact node_unmarshal_tx_outs_set. Qed.
Print Assumptions C16_node_unmarshal_tx_outs_set.

(** node marshalling succeeds whenever the script oracle does (so the node round trips are not vacuous) *)
Theorem C16_node_marshal_tx_ok : forall script_info,
  (forall s, exists i, script_info s = JOk i) ->
  forall g, outs_set g -> exists j, node_marshal_tx script_info g = JOk j.
Proof. exact node_marshal_tx_ok. Qed.
Print Assumptions C16_node_marshal_tx_ok.

(** distinct amounts have distinct coin values on the quantified range *)
Theorem C16_of_sat_injective : forall a b, a <= max_money -> b <= max_money -> of_sat a = of_sat b -> a = b.
Proof. exact of_sat_injective. Qed.
Print Assumptions C16_of_sat_injective.

(** ** outputs and UTXOs *)
Theorem C16_output_json_roundtrip : forall o, wf_goutput o ->
  exists j, marshal_output o = JOk j /\ unmarshal_output j = JOk o.
Proof. exact output_json_roundtrip. Qed.
Print Assumptions C16_output_json_roundtrip.
Theorem C16_node_output_roundtrip : forall script_info idx o j, go_sats o <= max_money ->
  from_output script_info idx o = JOk j ->
  node_unmarshal_output (Some j) = JOk (mkGOutput (go_sats o) (Some (script_or_empty (go_lock o)))).
Proof. exact node_output_roundtrip. Qed.
Print Assumptions C16_node_output_roundtrip.
Theorem C16_utxo_json_roundtrip : forall prev u,
  exists j, marshal_utxo u = JOk j /\ unmarshal_utxo prev j = JOk (utxo_back prev u).
Proof. exact utxo_json_roundtrip. Qed.
Print Assumptions C16_utxo_json_roundtrip.
Theorem C16_utxo_node_roundtrip : forall prev u, u_sats u <= max_money ->
  exists j, node_marshal_utxo u = JOk j /\ node_unmarshal_utxo prev j = JOk (utxo_back prev u).
Proof. exact utxo_node_roundtrip. Qed.
Print Assumptions C16_utxo_node_roundtrip.
Theorem C16_utxos_json_roundtrip : forall l,
  exists js, marshal_utxos l = JOk js /\ unmarshal_utxos js = JOk (map (utxo_back zero_utxo) l).
Proof. exact utxos_json_roundtrip. Qed.
Print Assumptions C16_utxos_json_roundtrip.
Theorem C16_utxos_node_roundtrip : forall l, Forall (fun u => u_sats u <= max_money) l ->
  exists js, node_marshal_utxos l = JOk js /\ node_unmarshal_utxos js = JOk (map (utxo_back zero_utxo) l).
Proof. exact utxos_node_roundtrip. Qed.
Print Assumptions C16_utxos_node_roundtrip.

(** ** any script bytes: the node dialect without an oracle.  The node marshaller runs bscript's inspection code
    (ToASM, Addresses, ScriptType - and through them IsP2PKH / IsP2PK / IsData / IsMultiSigOut / IsP2PKHInscription /
    PublicKeyHash / DecodeParts) on every locking script and ToASM on every unlocking script.  [script_info_bscript]
    (model/JsonScripts.v) is the model of that code (model/Classify.v, model/Asm.v: every index and slice expression a
    checked primitive yielding Panic; the subject of C14's theorems) in the place of the oracle.  For EVERY byte string
    it has an answer - never a panic, never an error - so node marshalling of a transaction / a list / an output
    the library can build or decode succeeds and round-trips whatever the scripts hold: multisig-shaped scripts that
    declare more keys than they carry, inscription-shaped scripts shorter than a P2PKH prefix, truncated pushes. *)
From GoBT Require Import lib.Checked model.Asm model.Classify model.JsonScripts proofs.JsonScriptsProofs.
Theorem C16_script_info_total : forall s, exists i, script_info_bscript s = JOk i.
Proof. exact script_info_bscript_ok. Qed.
Print Assumptions C16_script_info_total.
Theorem C16_script_info_is_bscript : forall s asm n ty, script_info_bscript s = JOk (asm, n, ty) ->
  to_asm s = Ok asm /\ (exists a, addresses s = Ok a /\ n = lenNg a) /\ exists t, script_type s = Ok t /\ ty = stype_name t.
Proof. exact script_info_bscript_spec. Qed.
Print Assumptions C16_script_info_is_bscript.
Theorem C16_node_marshal_any_script_no_panic : forall g, outs_set g -> node_marshal_tx script_info_bscript g <> JPanic.
Proof. exact node_marshal_tx_any_script_no_panic. Qed.
Print Assumptions C16_node_marshal_any_script_no_panic.
Theorem C16_node_tx_json_roundtrip_any_script : forall prev g, wf_gtx g -> ~ ambiguous (plain_tx g) ->
  exists j, node_marshal_tx script_info_bscript g = JOk j /\ node_unmarshal_tx prev j = JOk (tx_back g).
Proof. exact node_tx_json_roundtrip_any_script. Qed.
Print Assumptions C16_node_tx_json_roundtrip_any_script.
Theorem C16_node_txs_json_roundtrip_any_script : forall l, Forall wf_gtx l -> Forall (fun g => ~ ambiguous (plain_tx g)) l ->
  exists js, node_marshal_txs script_info_bscript l = JOk js /\ node_unmarshal_txs js = JOk (map tx_back l).
Proof. exact node_txs_json_roundtrip_any_script. Qed.
Print Assumptions C16_node_txs_json_roundtrip_any_script.
Theorem C16_node_output_roundtrip_any_script : forall o, wf_goutput o -> go_sats o <= max_money ->
  exists j, node_marshal_output script_info_bscript o = JOk j /\
            node_unmarshal_output (Some j) = JOk (mkGOutput (go_sats o) (Some (script_or_empty (go_lock o)))).
Proof. exact node_output_roundtrip_any_script. Qed.
Print Assumptions C16_node_output_roundtrip_any_script.
(** non-vacuity / the shapes of this round: OP_1 <33-byte key> OP_16 OP_CHECKMULTISIG and OP_1 <key> OP_0
    OP_CHECKMULTISIG are reported "multisig"; the 19-byte inscription-shaped script with a one-byte "hash" is
    reported "pubkeyhashinscription" with no address *)
Example C16_short_inscription_shape :
  script_info_bscript [x76; xa9; x01; xaa; x88; xac; x00; x63; x03; x6f; x72; x64; x51; x01; x00; x00; x01; x00; x68] =
  JOk ("OP_DUP OP_HASH160 OP_HASH256 OP_EQUALVERIFY OP_CHECKSIG OP_FALSE OP_IF 6f7264 OP_TRUE OP_FALSE OP_FALSE OP_FALSE OP_ENDIF"%string, 0, "pubkeyhashinscription"%string).
Proof. vm_compute. reflexivity. Qed.
Example C16_multisig_counts_disagree :
  (exists asm, script_info_bscript ([x51; x21; x02] ++ repeat x07 32 ++ [x60; xae]) = JOk (asm, 0, "multisig"%string)) /\
  (exists asm, script_info_bscript ([x51; x21; x02] ++ repeat x07 32 ++ [x00; xae]) = JOk (asm, 0, "multisig"%string)).
Proof. split; eexists; vm_compute; reflexivity. Qed.

(** ** destinations with a past (round 8; model/JsonHeap.v, proofs/JsonHeapProofs.v).  encoding/json decodes a JSON
    array INTO the elements a []*UTXO already has (the ones up to its length and the stale ones up to its capacity), so
    UTXO.UnmarshalJSON runs on objects whose TxID slice and script object may be shared with each other, with the
    transaction they come from, with transactions built from them.  Over a heap of buffers and UTXO objects: whatever
    the destination's elements share, the list read back is the list that was marshalled (txid bytes, vout, script bytes,
    satoshis of every element), no buffer that existed is written, and every object that is not one of the reused
    elements reads as before.  Hypothesis of the library dialect, imposed by encoding/json on any []*T destination: the
    reused elements are distinct objects ([C16_same_pointer_twice]: one pointer twice is decoded into twice).  The node
    dialect builds the list anew: no hypothesis on what the destination held. *)
From GoBT Require Import model.JsonHeap proofs.JsonHeapProofs.
Theorem C16_utxos_roundtrip_into_used_destination : forall h backing us,
  heap_ok h ->
  NoDup (reused backing (List.length us)) ->
  Forall (fun a => a < List.length (h_objs h))%nat (reused backing (List.length us)) ->
  exists js h' l,
    marshal_utxos us = JOk js /\
    unmarshal_utxos_into h backing js = JOk (h', l) /\
    map (fun a => fields (view h' a)) l = map fields us /\
    (exists ext, h_bufs h' = h_bufs h ++ ext) /\
    (forall b, (b < List.length (h_objs h))%nat -> ~ In b (reused backing (List.length us)) -> view h' b = view h b).
Proof. exact utxos_roundtrip_into_used_destination. Qed.
Print Assumptions C16_utxos_roundtrip_into_used_destination.
Theorem C16_node_utxos_roundtrip_into_used_destination : forall h backing us,
  heap_ok h -> Forall (fun u => u_sats u <= max_money) us ->
  exists js h' l,
    node_marshal_utxos us = JOk js /\
    node_unmarshal_utxos_into h backing js = JOk (h', l) /\
    map (fun a => fields (view h' a)) l = map fields us /\
    (exists ext, h_bufs h' = h_bufs h ++ ext) /\
    (forall b, (b < List.length (h_objs h))%nat -> view h' b = view h b).
Proof. exact node_utxos_roundtrip_into_used_destination. Qed.
Print Assumptions C16_node_utxos_roundtrip_into_used_destination.
(** one object refreshed from document after document: it reads as the value-level decoder says, nothing else changes *)
Theorem C16_utxo_refresh : forall h a j u, heap_ok h -> (a < List.length (h_objs h))%nat ->
  unmarshal_utxo (view h a) j = JOk u ->
  exists h', unmarshal_utxo_at h a j = JOk h' /\ view h' a = u /\ heap_ok h' /\
             (exists ext, h_bufs h' = h_bufs h ++ ext) /\ (forall b, b <> a -> view h' b = view h b).
Proof. exact utxo_refresh. Qed.
Print Assumptions C16_utxo_refresh.
(** the hypothesis NoDup cannot be dropped for the library dialect (encoding/json's doing, not utxojson.go's), and is
    not needed for the node dialect *)
Example C16_same_pointer_twice :
  match unmarshal_utxos_into alias_heap [Some 0%nat; Some 0%nat] alias_docs with
  | JOk (h', l) => map (fun a => u_vout (view h' a)) l = [1; 1]
  | _ => False
  end.
Proof. exact alias_example. Qed.
(** non-vacuity: a destination as Tx.AddP2PKHInputsFromTx-style code builds it - two objects, ONE txid buffer, one
    script object - satisfies the hypotheses *)
Example C16_shared_destination_ok :
  let h := mkHeap [[x01; x02]; [x51]] [mkUObj (Some (mkSlice 0 0 2)) 0 (Some 1%nat) 5 0; mkUObj (Some (mkSlice 0 0 2)) 1 (Some 1%nat) 6 0] in
  heap_ok h /\ NoDup (reused [Some 0%nat; Some 1%nat] 2) /\
  Forall (fun a => a < List.length (h_objs h))%nat (reused [Some 0%nat; Some 1%nat] 2).
Proof.
  cbn. split; [|split].
  - repeat constructor; cbn; auto.
  - repeat constructor; cbn; intuition discriminate.
  - repeat constructor.
Qed.

(** ** the hypothesis [~ ambiguous] cannot be dropped: NewTx() with LockTime 0xEF000000 marshals
    in both dialects to a document that does not unmarshal (a FINDING: C16's text does not exclude
    this shape; C01's does).  Full statement that is therefore false:
      forall prev g, wf_gtx g -> exists j, marshal_tx g = JOk j /\ unmarshal_tx prev j = JOk (tx_back g). *)
Theorem C16_tx_json_roundtrip_unrestricted_refuted :
  exists g, wf_gtx g /\
    (exists j, marshal_tx g = JOk j /\ unmarshal_tx (mkGTx 0 [] [] 0) j = JErr) /\
    (forall info, exists j, node_marshal_tx info g = JOk j /\ node_unmarshal_tx new_tx j = JErr).
Proof. exact tx_json_roundtrip_unrestricted_refuted. Qed.
Print Assumptions C16_tx_json_roundtrip_unrestricted_refuted.

(** non-vacuity: the hypotheses hold of an unsigned transaction (nil unlocking script) *)
Example C16_hypotheses_satisfiable : wf_gtx unsigned_gtx /\ ~ ambiguous (plain_tx unsigned_gtx).
Proof. exact unsigned_gtx_ok. Qed.
Example C16_three_satoshis : to_sat (of_sat 3) = 3 /\ to_sat_trunc (of_sat 3) = 2.
Proof. split; vm_compute; reflexivity. Qed.

(** State inventory (tie, translator part): every Go struct the model of this property represents has, in the
    source as it is NOW (gen/Structs.v, regenerated on every run), exactly the fields - names, types, order - the
    model was written against (model/StateInventory.v).  New state in these objects (a memoised digest, a cached
    document, a remembered operand) is state the theorems above do not speak about: this is the obligation that
    stops checking then. *)
From GoBT Require gen.Structs model.StateInventory.
Theorem C16_state_inventory :
  forall k, In k (StateInventory.group_of StateInventory.pC16) ->
  exists f, StateInventory.lookup_gen gen.Structs.structs k = Some f /\ StateInventory.lookup_model k = Some f.
Proof. apply StateInventory.inventory_ok_spec. vm_compute. reflexivity. Qed.
Print Assumptions C16_state_inventory.

(** Package-level state (tie, translator part): in the source as it is NOW (gen/Globals.v) no package-level variable of
    the packages this property's code lives in can change after initialisation or is handed out by reference - the
    model's functions are functions of their arguments only (model/StateInventory.v). *)
From GoBT Require gen.Globals.
Theorem C16_no_mutable_package_state :
  forall g, In g gen.Globals.globals -> In (StateInventory.rg_pkg g) (StateInventory.packages_of StateInventory.pC16) ->
  StateInventory.rg_mutated g = false /\ StateInventory.rg_escapes g = false.
Proof. apply StateInventory.pkg_state_ok_spec. vm_compute. reflexivity. Qed.
Print Assumptions C16_no_mutable_package_state.
