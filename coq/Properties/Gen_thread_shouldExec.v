(** Export: the Go source of thread.shouldExec, as printed into gen/Funcs.v on every run, is the model function the
    property theorems are about (proofs/GenFuncs_thread_shouldExec.v).  Compiled only while gen/Funcs.status.json says the
    function is translated. *)
From Coq Require Import List ZArith NArith Bool.
From Coq Require Import Strings.Byte.
From GoBT Require Import lib.Bytes lib.GoSem gen.Funcs proofs.GenFuncsTac proofs.GenFuncs_thread_shouldExec.
Local Open Scope Z_scope.

Theorem C05_go_source_thread_shouldExec_is_model :
  forall (c : GoBT.model.Interp.ctx) (s : GoBT.model.Interp.st) (v : N),
  thread_shouldExec (GoBT.model.Interp.after_genesis c) (go_cond_stack (GoBT.model.Interp.cond s)) (GoBT.model.Interp.early s) (Z.of_N v) = Val (GoBT.model.Interp.should_exec c s v).
Proof. exact thread_shouldExec_is_model. Qed.
Print Assumptions C05_go_source_thread_shouldExec_is_model.
