(** Export: the Go source of Tx.IsFeePaidEnough (tx.go), as printed into gen/Funcs.v on every run, is the model function the
    property theorems are about (proofs/GenFuncs_Tx_IsFeePaidEnough.v).  Go values are related to the model's records by the
    abstraction functions of proofs/GenFuncsTxTac.v ([tx_of_go]) and proofs/GenFuncs_Tx_feesPaid.v ([quote_of_go],
    [size_of_go]); the hypotheses are the ranges of the Go types plus what the Go code itself needs in order not to
    panic (no nil element in Inputs / Outputs, no output with a nil LockingScript); the serialised size below 2^63; the quote as in Gen_Tx_feesPaid.v.  Compiled only while gen/Funcs.status.json says the function is translated. *)
From Coq Require Import List ZArith NArith Bool.
From Coq Require Import Strings.Byte.
From GoBT Require Import lib.Bytes lib.GoSem lib.GoTx gen.Funcs proofs.GenFuncsTxTac proofs.GenFuncs_Tx_IsFeePaidEnough.
From GoBT Require Import model.Tx model.Fees spec.FeeSpec proofs.GenFuncs_Tx_feesPaid.
Import ListNotations.
Local Open Scope Z_scope.

(** verdict, error and panic agree *)
Theorem C11_go_source_Tx_IsFeePaidEnough_is_model :
  forall (ins : list go_Input) (outs : list go_Output) (ver lock : Z) (std data : option go_Fee),
  Forall go_input_ok ins -> Forall go_output_ok outs -> u32 ver -> u32 lock -> len_ok ins -> len_ok outs ->
  Z.of_N (tx_size (tx_of_go ins outs ver lock)) < 9223372036854775808 ->
  Tx_IsFeePaidEnough (map Some ins) (map Some outs) ver lock std data =
  enough_result (is_fee_paid_enough (tx_of_go ins outs ver lock) (quote_of_go std data)).
Proof. exact Tx_IsFeePaidEnough_is_model. Qed.
Print Assumptions C11_go_source_Tx_IsFeePaidEnough_is_model.

