(** C04 — Library-made signatures verify and commit to exactly what their hash type says.
    Only statements, [exact], [Print Assumptions], and examples (non-vacuity).

    Specification: spec/CommitSpec.v — the signing context [sign_ctx], the single-field [mutation]s,
    THE TABLE [committed alg ht idx nouts field] (ALL / NONE / SINGLE x ANYONECANPAY; spent value only
    under FORKID; SINGLE without a matching output: FORKID zero hash, legacy constant-1 digest), and
    the committed VIEW of each digest algorithm.  Digests: spec/DigestSpec.v (C02 / C03).
    Models: model/SigHash.v (CalcInputPreimage, CalcInputPreimageLegacy, CalcInputSignatureHash),
    model/TxMutate.v (the mutations on a go-bt transaction object), model/Interp.v + model/CheckSig.v
    (interpreter with the signature opcodes over an ECDSA oracle).
    model/Sign.v (the SIGNING path: unlocker.Simple.UnlockingScript, Tx.FillInput, Tx.FillAllInputs over an ECDSA
    signer record).
    Proofs: proofs/CommitProofs.v, proofs/CommitModelProofs.v, proofs/P2PKHProofs.v, proofs/SignedCoverageProofs.v,
    proofs/SignProofs.v.

    The property has three parts:
    (a) a library-signed P2PKH / P2PKH-inscription input is accepted   — [C04_signed_p2pkh_accepts],
        relative to the ECDSA oracle ("a signature made with the matching key verifies");
    (b) mutating an UNcommitted field leaves the input valid            — [C04_commit_invariant_*]: the
        preimage and the 32-byte signature hash are byte-for-byte identical, so the same oracle query
        gets the same answer: exact, no cryptographic assumption;
    (c) mutating a COMMITTED field makes the input fail                 — NOT provable: it needs SHA-256
        collision resistance and ECDSA unforgeability.  Proved instead ([..._partial]): the bytes that
        enter the hash change — for the legacy algorithm the preimage itself, for FORKID the ten
        pre-hash fields (three of which enter the preimage through double SHA-256).  The full
        statement is decided on every run by the correspondence (harness/cmd/c04 + corr/C04.v: every
        mutation at every position, real interpreter, real go-bk ECDSA). *)
From Coq Require Import List NArith ZArith Bool.
From Coq Require Import Strings.Byte.
From GoBT Require Import lib.Bytes lib.VarInt lib.Sha256 lib.Ripemd160 model.Tx spec.DigestSpec spec.CommitSpec model.SigHash
  model.SigHashWire model.TxMutate model.ScriptNum model.Interp model.CheckSig proofs.SigHashProofs proofs.CommitProofs
  proofs.CommitModelProofs proofs.P2PKHProofs proofs.SignedCoverageProofs proofs.AuditAC04 proofs.AuditACommit
  proofs.AuditASigHash model.Push model.Classify model.Sign proofs.SignProofs.
From GoBT Require model.Inscription proofs.InscriptionProofs proofs.OrdSignProofs proofs.SignAcceptAll.
Import ListNotations.
Local Open Scope N_scope. Local Open Scope bool_scope.

(** * (a) a library-signed P2PKH / P2PKH-inscription input is accepted

    For EVERY ECDSA oracle (go-bk is not modelled), every transaction, input position, hash type, flag word,
    33-byte key and signature: executing the interpreter model on
      unlock = push(sig ++ [hash type]) push(pubkey)            (bscript.NewP2PKHUnlockingScript)
      lock   = DUP HASH160 push(hash160 pubkey) EQUALVERIFY CHECKSIG  [OP_FALSE OP_IF body OP_ENDIF]
    returns VOk, given: the three encoding checks of opcodeCheckSig pass (computable; the correspondence
    evaluates them on every signed input), the envelope body is push-only, and THE oracle hypothesis:
    key and signature parse and the signature verifies over the digest the engine computes.
    hash160 is opaque in the proof. *)
Theorem C04_signed_p2pkh_accepts : forall (orc : sig_oracle) (t : tx) (idx : N) (inp : input) (flags sats ht : N)
    (sig pk body : bytes) (insc : bool) (bops : list pop) (h : bytes),
  let full := sig ++ [n2b ht] in
  let unlock := p2pkh_unlock sig ht pk in
  let lock := p2pkh_lock (hash160 pk) ++ (if insc then inscription_suffix body else []) in
  let tE := engine_tx t idx unlock lock sats in
  let c := mkCtx (normalise_flags flags) true (Z.of_N (tx_lock t)) (Z.of_N (tx_version t)) (Z.of_N (in_seq inp)) false in
  ht < 256 -> length pk = 33%nat -> (length full <= 75)%nat ->
  (has_flag c F_MINIMALDATA = true -> sig <> []) ->
  (has_flag c F_CLEANSTACK = true -> has_flag c F_BIP16 = true) ->
  (lenZ lock <= max_script_size c)%Z ->
  (insc = true -> parse_ops (length body) false body 1 = Some bops /\ is_push_only bops = true /\
                  Forall (fun p => (lenZ (p_data p) <= max_elem c)%Z) bops) ->
  check_hash_type c ht = true -> check_sig_enc c sig = EncOk -> check_pubkey_enc c pk = true ->
  (has_flag c F_FORKID && flag_has ht sh_forkid = true \/
   forall l, parse_script false lock = Some l -> remove_by_data l full = l) ->
  sighash_for tE idx lock ht = SOk h ->
  orc_parse_pub orc pk = true -> orc_parse_sig orc (uses_der_parser c) sig = true ->
  orc_verify orc pk h sig (uses_der_parser c) = Some true ->
  fst (engine_execute (mk_sigops orc tE idx)
         (mkExecInput unlock lock flags true true (Z.of_N (tx_lock t)) (Z.of_N (tx_version t)) (Z.of_N (in_seq inp)))) = VOk.
Proof. exact signed_p2pkh_accepts. Qed.
Print Assumptions C04_signed_p2pkh_accepts.

(** the digest opcodeCheckSig recomputes (clone, install the script code, CalcInputSignatureHash) is the digest
    unlocker.Simple signed (CalcInputSignatureHash on the transaction being filled in, whatever unlocking
    scripts are already present) *)
Theorem C04_engine_digest_is_signed_digest : forall (t : tx) (idx : N) (inp : input) (u lock : bytes) (sats ht : N),
  wf_tx t -> nthN (tx_ins t) idx = Some inp -> in_script inp = Some lock -> in_sats inp = sats ->
  wf_script u -> ht < 256 -> idx + 1 < two32 ->
  sighash_for (engine_tx t idx u lock sats) idx lock ht = fst (calc_input_signature_hash t idx ht).
Proof. exact engine_digest_is_signed_digest. Qed.
Print Assumptions C04_engine_digest_is_signed_digest.

(** both: "the signature verifies over the digest the unlocker computed" is enough *)
Theorem C04_signed_p2pkh_accepts_unlocker_digest : forall (orc : sig_oracle) (t : tx) (idx : N) (inp : input)
    (flags sats ht : N) (sig pk body : bytes) (insc : bool) (bops : list pop) (h : bytes),
  let full := sig ++ [n2b ht] in
  let unlock := p2pkh_unlock sig ht pk in
  let lock := p2pkh_lock (hash160 pk) ++ (if insc then inscription_suffix body else []) in
  let tE := engine_tx t idx unlock lock sats in
  let c := mkCtx (normalise_flags flags) true (Z.of_N (tx_lock t)) (Z.of_N (tx_version t)) (Z.of_N (in_seq inp)) false in
  wf_tx t -> nthN (tx_ins t) idx = Some inp -> in_script inp = Some lock -> in_sats inp = sats ->
  idx + 1 < two32 ->
  ht < 256 -> length pk = 33%nat -> (length full <= 75)%nat ->
  (has_flag c F_MINIMALDATA = true -> sig <> []) ->
  (has_flag c F_CLEANSTACK = true -> has_flag c F_BIP16 = true) ->
  (lenZ lock <= max_script_size c)%Z ->
  (insc = true -> parse_ops (length body) false body 1 = Some bops /\ is_push_only bops = true /\
                  Forall (fun p => (lenZ (p_data p) <= max_elem c)%Z) bops) ->
  check_hash_type c ht = true -> check_sig_enc c sig = EncOk -> check_pubkey_enc c pk = true ->
  (has_flag c F_FORKID && flag_has ht sh_forkid = true \/
   forall l, parse_script false lock = Some l -> remove_by_data l full = l) ->
  fst (calc_input_signature_hash t idx ht) = SOk h ->
  orc_parse_pub orc pk = true -> orc_parse_sig orc (uses_der_parser c) sig = true ->
  orc_verify orc pk h sig (uses_der_parser c) = Some true ->
  fst (engine_execute (mk_sigops orc tE idx)
         (mkExecInput unlock lock flags true true (Z.of_N (tx_lock t)) (Z.of_N (tx_version t)) (Z.of_N (in_seq inp)))) = VOk.
Proof. exact signed_p2pkh_accepts_unlocker_digest. Qed.
Print Assumptions C04_signed_p2pkh_accepts_unlocker_digest.

(** non-vacuity of (a): the hypotheses hold on concrete instances ([p2pkh_hyps] is literally the hypothesis list,
    see [signed_p2pkh_accepts_packed]) — FORKID|GENESIS with ALL|FORKID and no flags with legacy ALL, with and
    without the inscription envelope — and direct evaluation of the model gives VOk there *)
Example C04_p2pkh_hypotheses_satisfiable :
  p2pkh_hyps ex_orc (P2PKHProofs.ex_tx true) 0 (ex_inp true) FLAGS_FORKID_GENESIS 1000 65 ex_sig ex_pk ex_body true ex_bops (ex_digest true 65) /\
  p2pkh_hyps ex_orc (P2PKHProofs.ex_tx false) 0 (ex_inp false) 0 1000 1 ex_sig ex_pk [] false [] (ex_digest false 1).
Proof. split; [exact ex_forkid_genesis_inscription | exact ex_legacy_plain]. Qed.

(** * the table on the twelve standard types: which rule set each one selects *)
Theorem C04_standard_types :
  map (fun ht => (has_forkid ht, is_all ht, is_none ht, is_single ht, anyone_can_pay ht))
      [0x41; 0x42; 0x43; 0xc1; 0xc2; 0xc3; 0x01; 0x02; 0x03; 0x81; 0x82; 0x83] =
  [(true, true, false, false, false); (true, false, true, false, false); (true, false, false, true, false);
   (true, true, false, false, true); (true, false, true, false, true); (true, false, false, true, true);
   (false, true, false, false, false); (false, false, true, false, false); (false, false, false, true, false);
   (false, true, false, false, true); (false, false, true, false, true); (false, false, false, true, true)].
Proof. vm_compute. reflexivity. Qed.
Print Assumptions C04_standard_types.

(** * (b)/(c) on the specification: the digest is a function of the committed view *)

(** the FORKID preimage = the ten pre-hash fields of the view, three of them hashed *)
Theorem C04_forkid_preimage_is_function_of_view : forall c ht,
  forkid_preimage (sc_tx c) (sc_idx c) (sc_code c) (sc_amount c) ht =
  option_map (fun v => assemble (components_of v)) (forkid_view_of c ht).
Proof. exact forkid_preimage_factors. Qed.
Print Assumptions C04_forkid_preimage_is_function_of_view.

(** the legacy digest = the serialised edited copy of the view, or the constant 1 *)
Theorem C04_legacy_digest_is_function_of_view : forall c ht,
  legacy_signature_hash (sc_code c) (sc_tx c) (sc_idx c) ht = legacy_digest_of (legacy_view_of c ht).
Proof. exact legacy_digest_factors. Qed.
Print Assumptions C04_legacy_digest_is_function_of_view.

(** fixed-width / length-prefixed encodings: different views give different pre-hash fields ... *)
Theorem C04_forkid_components_injective : forall v1 v2, wf_fview v1 -> wf_fview v2 ->
  components_of v1 = components_of v2 -> v1 = v2.
Proof. exact forkid_components_injective. Qed.
Print Assumptions C04_forkid_components_injective.
(** ... and different legacy preimages *)
Theorem C04_legacy_digest_injective : forall v1 v2, wf_lview v1 -> wf_lview v2 ->
  legacy_digest_of v1 = legacy_digest_of v2 -> v1 = v2.
Proof. exact legacy_digest_injective. Qed.
Print Assumptions C04_legacy_digest_injective.

(** (b) for ALL transactions, positions, hash types (in particular the 6 + 6 standard ones) and all
    mutations: an uncommitted field does not enter the digest *)
Theorem C04_commit_invariant_forkid_spec : forall c ht m,
  committed_in AlgForkid ht c m = false -> applicable m c ->
  let c' := apply_mutation m c in
  forkid_preimage (sc_tx c') (sc_idx c') (sc_code c') (sc_amount c') ht =
  forkid_preimage (sc_tx c) (sc_idx c) (sc_code c) (sc_amount c) ht.
Proof. exact commit_invariant_forkid. Qed.
Print Assumptions C04_commit_invariant_forkid_spec.
Theorem C04_commit_invariant_legacy_spec : forall c ht m,
  committed_in AlgLegacy ht c m = false -> applicable m c ->
  let c' := apply_mutation m c in
  legacy_signature_hash (sc_code c') (sc_tx c') (sc_idx c') ht =
  legacy_signature_hash (sc_code c) (sc_tx c) (sc_idx c) ht.
Proof. exact commit_invariant_legacy. Qed.
Print Assumptions C04_commit_invariant_legacy_spec.

(** (c), the provable part, on the specification: an effective mutation of a committed field changes
    the pre-hash fields (FORKID) / the digest preimage (legacy).  [NoDup]: the outputs are pairwise
    distinct (otherwise moving the SINGLE position onto an equal output changes nothing). *)
Theorem C04_commit_sensitive_forkid_spec_partial : forall c ht m inp,
  committed_in AlgForkid ht c m = true -> effective m c ->
  nth_error (t_vin (sc_tx c)) (sc_idx c) = Some inp ->
  wf_ctx c -> wf_ctx (apply_mutation m c) -> ht < two32 ->
  NoDup (t_vout (sc_tx c)) -> NoDup (t_vout (sc_tx (apply_mutation m c))) ->
  exists v v', forkid_view_of c ht = Some v /\ forkid_view_of (apply_mutation m c) ht = Some v' /\
               components_of v' <> components_of v.
Proof. exact commit_sensitive_forkid. Qed.
Print Assumptions C04_commit_sensitive_forkid_spec_partial.
Theorem C04_commit_sensitive_legacy_spec_partial : forall c ht m inp,
  committed_in AlgLegacy ht c m = true -> effective m c ->
  nth_error (t_vin (sc_tx c)) (sc_idx c) = Some inp ->
  wf_ctx c -> wf_ctx (apply_mutation m c) -> ht < two32 ->
  NoDup (t_vout (sc_tx c)) -> NoDup (t_vout (sc_tx (apply_mutation m c))) ->
  let c' := apply_mutation m c in
  legacy_signature_hash (sc_code c') (sc_tx c') (sc_idx c') ht <>
  legacy_signature_hash (sc_code c) (sc_tx c) (sc_idx c) ht.
Proof. exact commit_sensitive_legacy. Qed.
Print Assumptions C04_commit_sensitive_legacy_spec_partial.

(** * (b)/(c) on the library model: what CalcInputPreimage / CalcInputPreimageLegacy /
    CalcInputSignatureHash return for the mutated transaction object (through C02 / C03).
    [signable t i]: Go field ranges ([wf_tx]), input i exists and records its previous output,
    i + 1 < 2^32, fewer than 2^31 outputs. *)
Theorem C04_commit_invariant_forkid : forall t i ht m, ht < 256 ->
  let t' := fst (apply_tx m t i) in let i' := snd (apply_tx m t i) in
  signable t i -> signable t' i' ->
  committed_in AlgForkid ht (sign_ctx_of t i) m = false -> applicable m (sign_ctx_of t i) ->
  fst (calc_input_preimage t' (N.of_nat i') ht) = fst (calc_input_preimage t (N.of_nat i) ht).
Proof. exact model_commit_invariant_forkid. Qed.
Print Assumptions C04_commit_invariant_forkid.
Theorem C04_commit_invariant_legacy : forall t i ht m, ht < 256 ->
  let t' := fst (apply_tx m t i) in let i' := snd (apply_tx m t i) in
  signable t i -> signable t' i' ->
  committed_in AlgLegacy ht (sign_ctx_of t i) m = false -> applicable m (sign_ctx_of t i) ->
  fst (calc_input_preimage_legacy t' (N.of_nat i') ht) = fst (calc_input_preimage_legacy t (N.of_nat i) ht).
Proof. exact model_commit_invariant_legacy. Qed.
Print Assumptions C04_commit_invariant_legacy.

(** the signature hash — the 32 bytes ECDSA signs and verifies — is the same: the same signature
    stays valid, exactly *)
Theorem C04_commit_invariant_sighash : forall t i ht m, ht < 256 ->
  let t' := fst (apply_tx m t i) in let i' := snd (apply_tx m t i) in
  signable t i -> signable t' i' ->
  committed_in (if has_forkid ht then AlgForkid else AlgLegacy) ht (sign_ctx_of t i) m = false ->
  applicable m (sign_ctx_of t i) ->
  fst (calc_input_signature_hash t' (N.of_nat i') ht) = fst (calc_input_signature_hash t (N.of_nat i) ht).
Proof. exact model_commit_invariant_sighash. Qed.
Print Assumptions C04_commit_invariant_sighash.

(** (a) + (b) at the interpreter: after a mutation of an uncommitted field the interpreter model still
    accepts the signed input, the signature having been made over the digest of the ORIGINAL transaction.
    ([m] is not a spent-script mutation: that one changes the program being run; it is committed under every
    type except in the legacy SINGLE-bug regime.) *)
Theorem C04_uncommitted_mutation_still_accepted : forall (orc : sig_oracle) (t : tx) (i : nat) (m : mutation) (inp' : input)
    (flags ht : N) (sig pk body : bytes) (insc : bool) (bops : list pop) (h : bytes),
  let full := sig ++ [n2b ht] in
  let unlock := p2pkh_unlock sig ht pk in
  let lock := p2pkh_lock (hash160 pk) ++ (if insc then inscription_suffix body else []) in
  let t' := fst (apply_tx m t i) in let i' := snd (apply_tx m t i) in
  let c := mkCtx (normalise_flags flags) true (Z.of_N (tx_lock t')) (Z.of_N (tx_version t')) (Z.of_N (in_seq inp')) false in
  signable t i -> signable t' i' -> nth_error (tx_ins t') i' = Some inp' ->
  (exists inp, nth_error (tx_ins t) i = Some inp /\ in_script inp = Some lock) ->
  (forall s, m <> MSpentScript s) -> applicable m (sign_ctx_of t i) ->
  committed_in (if has_forkid ht then AlgForkid else AlgLegacy) ht (sign_ctx_of t i) m = false ->
  ht < 256 -> length pk = 33%nat -> (length full <= 75)%nat ->
  (has_flag c F_MINIMALDATA = true -> sig <> []) ->
  (has_flag c F_CLEANSTACK = true -> has_flag c F_BIP16 = true) ->
  (lenZ lock <= max_script_size c)%Z ->
  (insc = true -> parse_ops (length body) false body 1 = Some bops /\ is_push_only bops = true /\
                  Forall (fun p => (lenZ (p_data p) <= max_elem c)%Z) bops) ->
  check_hash_type c ht = true -> check_sig_enc c sig = EncOk -> check_pubkey_enc c pk = true ->
  (has_flag c F_FORKID && flag_has ht sh_forkid = true \/
   forall l, parse_script false lock = Some l -> remove_by_data l full = l) ->
  fst (calc_input_signature_hash t (N.of_nat i) ht) = SOk h ->
  orc_parse_pub orc pk = true -> orc_parse_sig orc (uses_der_parser c) sig = true ->
  orc_verify orc pk h sig (uses_der_parser c) = Some true ->
  fst (engine_execute (mk_sigops orc (engine_tx t' (N.of_nat i') unlock lock (in_sats inp')) (N.of_nat i'))
         (mkExecInput unlock lock flags true true (Z.of_N (tx_lock t')) (Z.of_N (tx_version t')) (Z.of_N (in_seq inp')))) = VOk.
Proof. exact uncommitted_mutation_still_accepted. Qed.
Print Assumptions C04_uncommitted_mutation_still_accepted.

(** FULL statement of (c), not proved:
      committed ... = true -> effective m ... -> the interpreter rejects input i' of t' with the
      signature made for input i of t.
    Missing: "the three inner double-SHA-256 digests and the outer one then differ" (collision
    resistance of SHA-256) and "a signature valid for one digest is not valid for another"
    (unforgeability of ECDSA / go-bk).  Proved: the inputs to the hash differ. *)
Theorem C04_commit_sensitive_forkid_partial : forall t i ht m, ht < 256 ->
  let t' := fst (apply_tx m t i) in let i' := snd (apply_tx m t i) in
  signable t i -> signable t' i' ->
  committed_in AlgForkid ht (sign_ctx_of t i) m = true -> effective m (sign_ctx_of t i) ->
  NoDup (tx_outs t) -> NoDup (tx_outs t') ->
  exists v v',
    fst (calc_input_preimage t (N.of_nat i) ht) = SOk (assemble (components_of v)) /\
    fst (calc_input_preimage t' (N.of_nat i') ht) = SOk (assemble (components_of v')) /\
    components_of v' <> components_of v.
Proof. exact model_commit_sensitive_forkid. Qed.
Print Assumptions C04_commit_sensitive_forkid_partial.
Theorem C04_commit_sensitive_legacy_partial : forall t i ht m, ht < 256 ->
  let t' := fst (apply_tx m t i) in let i' := snd (apply_tx m t i) in
  signable t i -> signable t' i' ->
  committed_in AlgLegacy ht (sign_ctx_of t i) m = true -> effective m (sign_ctx_of t i) ->
  NoDup (tx_outs t) -> NoDup (tx_outs t') ->
  fst (calc_input_preimage_legacy t' (N.of_nat i') ht) <> fst (calc_input_preimage_legacy t (N.of_nat i) ht).
Proof. exact model_commit_sensitive_legacy. Qed.
Print Assumptions C04_commit_sensitive_legacy_partial.

(** * (c) RELATIVE TO THE ORACLE and with the residual assumption as a hypothesis (audit A)

    Rejection needs no cryptography once "the oracle does not accept this signature over the digest the engine
    recomputes" is a hypothesis: for every oracle, transaction, flag word and well-encoded P2PKH / inscription
    unlocking script, if key or signature do not parse, or Verify does not say yes ([oracle_accepts = false]), the
    interpreter model answers VErr (false on the stack at the end, or the NULLFAIL error).  Mirror image of
    [C04_signed_p2pkh_accepts]. *)
Theorem C04_signed_p2pkh_rejects : forall (orc : sig_oracle) (t : tx) (idx : N) (inp : input) (flags sats ht : N)
    (sig pk body : bytes) (insc : bool) (bops : list pop) (h : bytes),
  let full := sig ++ [n2b ht] in
  let unlock := p2pkh_unlock sig ht pk in
  let lock := p2pkh_lock (hash160 pk) ++ (if insc then inscription_suffix body else []) in
  let tE := engine_tx t idx unlock lock sats in
  let c := mkCtx (normalise_flags flags) true (Z.of_N (tx_lock t)) (Z.of_N (tx_version t)) (Z.of_N (in_seq inp)) false in
  ht < 256 -> length pk = 33%nat -> (length full <= 75)%nat ->
  (has_flag c F_MINIMALDATA = true -> sig <> []) ->
  (has_flag c F_CLEANSTACK = true -> has_flag c F_BIP16 = true) ->
  (lenZ lock <= max_script_size c)%Z ->
  (insc = true -> parse_ops (length body) false body 1 = Some bops /\ is_push_only bops = true /\
                  Forall (fun p => (lenZ (p_data p) <= max_elem c)%Z) bops) ->
  check_hash_type c ht = true -> check_sig_enc c sig = EncOk -> check_pubkey_enc c pk = true ->
  (has_flag c F_FORKID && flag_has ht sh_forkid = true \/
   forall l, parse_script false lock = Some l -> remove_by_data l full = l) ->
  sighash_for tE idx lock ht = SOk h ->
  oracle_accepts orc c pk h sig = false ->
  fst (engine_execute (mk_sigops orc tE idx)
         (mkExecInput unlock lock flags true true (Z.of_N (tx_lock t)) (Z.of_N (tx_version t)) (Z.of_N (in_seq inp)))) = VErr.
Proof. exact signed_p2pkh_rejects. Qed.
Print Assumptions C04_signed_p2pkh_rejects.

(** the same with the digest CalcInputSignatureHash gives on the transaction object as it now is (e.g. after a
    mutation): if the oracle does not accept the old signature over THAT digest, the input is rejected *)
Theorem C04_signed_p2pkh_rejects_unlocker_digest : forall (orc : sig_oracle) (t : tx) (idx : N) (inp : input)
    (flags sats ht : N) (sig pk body : bytes) (insc : bool) (bops : list pop) (h : bytes),
  let full := sig ++ [n2b ht] in
  let unlock := p2pkh_unlock sig ht pk in
  let lock := p2pkh_lock (hash160 pk) ++ (if insc then inscription_suffix body else []) in
  let tE := engine_tx t idx unlock lock sats in
  let c := mkCtx (normalise_flags flags) true (Z.of_N (tx_lock t)) (Z.of_N (tx_version t)) (Z.of_N (in_seq inp)) false in
  wf_tx t -> nthN (tx_ins t) idx = Some inp -> in_script inp = Some lock -> in_sats inp = sats ->
  idx + 1 < two32 ->
  ht < 256 -> length pk = 33%nat -> (length full <= 75)%nat ->
  (has_flag c F_MINIMALDATA = true -> sig <> []) ->
  (has_flag c F_CLEANSTACK = true -> has_flag c F_BIP16 = true) ->
  (lenZ lock <= max_script_size c)%Z ->
  (insc = true -> parse_ops (length body) false body 1 = Some bops /\ is_push_only bops = true /\
                  Forall (fun p => (lenZ (p_data p) <= max_elem c)%Z) bops) ->
  check_hash_type c ht = true -> check_sig_enc c sig = EncOk -> check_pubkey_enc c pk = true ->
  (has_flag c F_FORKID && flag_has ht sh_forkid = true \/
   forall l, parse_script false lock = Some l -> remove_by_data l full = l) ->
  fst (calc_input_signature_hash t idx ht) = SOk h ->
  oracle_accepts orc c pk h sig = false ->
  fst (engine_execute (mk_sigops orc tE idx)
         (mkExecInput unlock lock flags true true (Z.of_N (tx_lock t)) (Z.of_N (tx_version t)) (Z.of_N (in_seq inp)))) = VErr.
Proof. exact signed_p2pkh_rejects_unlocker_digest. Qed.
Print Assumptions C04_signed_p2pkh_rejects_unlocker_digest.

(** [oracle_accepts = false] is exactly: the key does not parse, or the signature does not, or Verify does not
    answer yes *)
Theorem C04_oracle_accepts_false_iff : forall orc c pk h sig,
  oracle_accepts orc c pk h sig = false <->
  orc_parse_pub orc pk = false \/ orc_parse_sig orc (uses_der_parser c) sig = false \/
  orc_verify orc pk h sig (uses_der_parser c) <> Some true.
Proof. exact oracle_accepts_false_iff. Qed.
Print Assumptions C04_oracle_accepts_false_iff.

(** the residual assumption of the FORKID part as an explicit hypothesis: different pre-hash fields give different
    PREIMAGES unless one of the three inner double SHA-256 collides on the pair at hand (or hits the all-zero
    word); and different SIGNATURE HASHES unless, in addition, the outer double SHA-256 collides on the two preimages *)
Theorem C04_forkid_preimage_sensitive_mod_collisions : forall v v', wf_fview v -> wf_fview v' ->
  components_of v' <> components_of v ->
  no_collision (fc_prevouts (components_of v')) (fc_prevouts (components_of v)) ->
  no_collision (fc_sequences (components_of v')) (fc_sequences (components_of v)) ->
  no_collision (fc_outputs (components_of v')) (fc_outputs (components_of v)) ->
  assemble (components_of v') <> assemble (components_of v).
Proof. exact forkid_preimage_sensitive_mod_collisions. Qed.
Print Assumptions C04_forkid_preimage_sensitive_mod_collisions.
Theorem C04_forkid_sighash_sensitive_mod_collisions : forall v v', wf_fview v -> wf_fview v' ->
  components_of v' <> components_of v ->
  no_collision (fc_prevouts (components_of v')) (fc_prevouts (components_of v)) ->
  no_collision (fc_sequences (components_of v')) (fc_sequences (components_of v)) ->
  no_collision (fc_outputs (components_of v')) (fc_outputs (components_of v)) ->
  (hash256 (assemble (components_of v')) = hash256 (assemble (components_of v)) ->
   assemble (components_of v') = assemble (components_of v)) ->
  hash256 (assemble (components_of v')) <> hash256 (assemble (components_of v)).
Proof. exact forkid_sighash_sensitive_mod_collisions. Qed.
Print Assumptions C04_forkid_sighash_sensitive_mod_collisions.

(** on the library model: after an effective mutation of a committed field CalcInputPreimage returns different bytes,
    unless one of the three inner hashes collides *)
Theorem C04_commit_sensitive_forkid_mod_collisions : forall t i ht m, ht < 256 ->
  let t' := fst (apply_tx m t i) in let i' := snd (apply_tx m t i) in
  signable t i -> signable t' i' ->
  committed_in AlgForkid ht (sign_ctx_of t i) m = true -> effective m (sign_ctx_of t i) ->
  NoDup (tx_outs t) -> NoDup (tx_outs t') ->
  exists v v',
    fst (calc_input_preimage t (N.of_nat i) ht) = SOk (assemble (components_of v)) /\
    fst (calc_input_preimage t' (N.of_nat i') ht) = SOk (assemble (components_of v')) /\
    components_of v' <> components_of v /\
    (no_collision (fc_prevouts (components_of v')) (fc_prevouts (components_of v)) ->
     no_collision (fc_sequences (components_of v')) (fc_sequences (components_of v)) ->
     no_collision (fc_outputs (components_of v')) (fc_outputs (components_of v)) ->
     fst (calc_input_preimage t' (N.of_nat i') ht) <> fst (calc_input_preimage t (N.of_nat i) ht)).
Proof. exact model_commit_sensitive_forkid_mod_collisions. Qed.
Print Assumptions C04_commit_sensitive_forkid_mod_collisions.

(** non-vacuity of the rejection theorem: direct evaluation of the model with an oracle that verifies nothing gives
    VErr on the instances of [C04_p2pkh_hypotheses_satisfiable] (and under NULLFAIL) ... *)
Example C04_rejection_direct_evaluation :
  forall insc flags ht, In (insc, flags, ht) [(true, FLAGS_FORKID_GENESIS, 65); (false, FLAGS_FORKID_GENESIS, 65);
                                               (true, 0, 1); (false, 0, 1);
                                               (true, FLAGS_FORKID_GENESIS + N.shiftl 1 F_NULLFAIL, 65)] ->
  fst (engine_execute (mk_sigops no_orc (engine_tx (P2PKHProofs.ex_tx insc) 0 (p2pkh_unlock ex_sig ht ex_pk) (ex_lock insc) 1000) 0)
         (mkExecInput (p2pkh_unlock ex_sig ht ex_pk) (ex_lock insc) flags true true 0 1 4294967295)) = VErr.
Proof.
  intros insc flags ht H. cbn [In] in H.
  destruct H as [H|[H|[H|[H|[H|[]]]]]]; injection H as <- <- <-; vm_compute; reflexivity.
Qed.
(** ... and coverage end to end on an instance: a signature the oracle accepts ONLY over the digest of the original
    transaction (SINGLE|ANYONECANPAY|FORKID, input 0) stays accepted after mutations of uncommitted fields (an output
    appended, an input appended) and is rejected after mutations of committed ones (value of output 0, locktime,
    spent value) *)
Example C04_coverage_on_instance :
  let t0 := P2PKHProofs.ex_tx true in
  let h0 := match fst (calc_input_signature_hash t0 0 0xc3) with SOk h => h | _ => [] end in
  let u := p2pkh_unlock ex_sig 0xc3 ex_pk in
  let run (m : mutation) :=
    let t' := fst (apply_tx m t0 0) in
    fst (engine_execute (mk_sigops (only_orc h0)
                           (engine_tx t' 0 u (ex_lock true) (match tx_ins t' with x :: _ => in_sats x | [] => 0 end)) 0)
           (mkExecInput u (ex_lock true) FLAGS_FORKID_GENESIS true true (Z.of_N (tx_lock t')) (Z.of_N (tx_version t')) 4294967295)) in
  length h0 = 32%nat /\
  run (MOutInsert 1 (mkTxOut 5 [x51])) = VOk /\
  run (MInInsert 1 (mkTxIn (mkOutPoint (repeat_byte 32 x11) 0) [] 5)) = VOk /\
  run (MOutValue 0 901) = VErr /\ run (MLocktime 1) = VErr /\ run (MSpentValue 999) = VErr.
Proof. vm_compute. repeat split. Qed.

(** * hypotheses of (a) that are facts about what the library produces *)

(** the hash-type check of opcodeCheckSig passes for the six FORKID types under the FORKID flag, and for the six
    legacy types without it, whatever the other flags *)
Theorem C04_hash_type_ok_forkid : forall c ht, has_flag c F_FORKID = true ->
  In ht [0x41; 0x42; 0x43; 0xc1; 0xc2; 0xc3] -> check_hash_type c ht = true.
Proof. exact hash_type_ok_forkid. Qed.
Print Assumptions C04_hash_type_ok_forkid.
Theorem C04_hash_type_ok_legacy : forall c ht, has_flag c F_FORKID = false -> has_flag c F_BIP143 = false ->
  In ht [0x01; 0x02; 0x03; 0x81; 0x82; 0x83] -> check_hash_type c ht = true.
Proof. exact hash_type_ok_legacy. Qed.
Print Assumptions C04_hash_type_ok_legacy.
(** a compressed public key (33 bytes, first byte 02 or 03) passes checkPubKeyEncoding under every flag word *)
Theorem C04_pubkey_enc_ok_compressed : forall c b0 r, length r = 32%nat -> (b2n b0 = 2 \/ b2n b0 = 3) ->
  check_pubkey_enc c (b0 :: r) = true.
Proof. exact pubkey_enc_ok_compressed. Qed.
Print Assumptions C04_pubkey_enc_ok_compressed.

(** the signature hash does not read unlocking scripts (both algorithms): signing input 0 before input 1 has its
    script, and verifying afterwards, see the same digest *)
Theorem C04_sighash_ignores_unlocking_scripts : forall t1 t2 i ht inp1 sc,
  wf_tx t1 -> wf_tx t2 -> ht < 256 -> i + 1 < two32 ->
  erase_unlocks t1 = erase_unlocks t2 ->
  nth_error (tx_ins t1) (N.to_nat i) = Some inp1 -> in_script inp1 = Some sc ->
  fst (calc_input_signature_hash t1 i ht) = fst (calc_input_signature_hash t2 i ht).
Proof. exact sighash_ignores_unlocking_scripts. Qed.
Print Assumptions C04_sighash_ignores_unlocking_scripts.

(** * the SIGNING path (model/Sign.v): what unlocker.Simple / FillInput / FillAllInputs produce

    [signer]: the bec.PrivateKey as a record (compressed public key, digest -> DER signature or error), quantified
    like the oracle.  [signer_ok]: the key is 33 bytes starting 02 / 03 and signatures have 1..74 bytes.
    [default_type ht] = 0x41 (ALL|FORKID) if ht = 0, else ht. *)

(** (1) whenever unlocker.Simple.UnlockingScript returns a script, for ANY requested type: the input exists, its
    previous script is present and ScriptType says P2PKH or P2PKH-inscription, and the script is
    push(sig ++ [ht']) push(pubkey) = [p2pkh_unlock sig ht' pk] where ht' is the DEFAULTED type and sig is what the
    key signs over CalcInputSignatureHash(idx, ht') of the transaction as it stands *)
Theorem C04_unlocking_script_is_p2pkh_unlock : forall s t idx ht u, signer_ok s ->
  unlocking_script s t idx ht = SgOk u ->
  exists inp prev sig h,
    nthN (tx_ins t) idx = Some inp /\ in_script inp = Some prev /\
    (script_type prev = Checked.Ok TPubKeyHash \/ script_type prev = Checked.Ok TInscription) /\
    fst (calc_input_signature_hash t idx (default_type ht)) = SOk h /\ sg_sign s h = Some sig /\
    u = p2pkh_unlock sig (default_type ht) (sg_pub s).
Proof. exact unlocking_script_is_p2pkh_unlock. Qed.
Print Assumptions C04_unlocking_script_is_p2pkh_unlock.

(** the ScriptType gate: any other kind of previous script is refused with "currently only p2pkh supported", a nil
    previous script with ErrEmptyPreviousTxScript, before anything is hashed or signed *)
Theorem C04_unlocking_script_gate : forall s t idx ht inp prev ty,
  nthN (tx_ins t) idx = Some inp -> in_script inp = Some prev -> script_type prev = Checked.Ok ty ->
  ty <> TPubKeyHash -> ty <> TInscription ->
  unlocking_script s t idx ht = SgErr ENotP2PKH.
Proof. exact unlocking_script_gate. Qed.
Print Assumptions C04_unlocking_script_gate.
Theorem C04_unlocking_script_nil_prev : forall s t idx ht inp,
  nthN (tx_ins t) idx = Some inp -> in_script inp = None -> unlocking_script s t idx ht = SgErr EEmptyPrevScript.
Proof. exact unlocking_script_nil_prev. Qed.
Print Assumptions C04_unlocking_script_nil_prev.

(** (2) the hash-type byte opcodeCheckSig will read off the script ([carried_hash_type]: last byte of the first
    pushed item, as in [checksig_run]) is the type the signed digest was computed for - for every requested type
    0..255; 0 is signed AND labelled as 0x41 *)
Theorem C04_carried_type_is_digest_type : forall s t idx ht u, ht < 256 -> signer_ok s ->
  unlocking_script s t idx ht = SgOk u ->
  exists sig h,
    fst (calc_input_signature_hash t idx (default_type ht)) = SOk h /\ sg_sign s h = Some sig /\
    carried_signature u = Some sig /\ carried_hash_type u = Some (default_type ht).
Proof. exact carried_type_is_digest_type. Qed.
Print Assumptions C04_carried_type_is_digest_type.
Theorem C04_carried_type_cases : forall s t idx ht u, ht < 256 -> signer_ok s ->
  unlocking_script s t idx ht = SgOk u -> carried_hash_type u = Some (if ht =? 0 then 65 else ht).
Proof. exact carried_type_cases. Qed.
Print Assumptions C04_carried_type_cases.

(** Tx.FillInput = default the type, call the unlocker, store the script in the input (nothing else changes);
    defaulting twice is defaulting once *)
Theorem C04_fill_input_inv : forall s t idx ht t', fill_input (Some s) t idx ht = SgOk t' ->
  exists u, unlocking_script s t idx ht = SgOk u /\ t' = with_unlock_at t idx u.
Proof. exact fill_input_inv. Qed.
Print Assumptions C04_fill_input_inv.
(** and on a plain P2PKH input it succeeds whenever the digest exists and the key signs *)
Theorem C04_fill_input_p2pkh_succeeds : forall s t idx ht inp pkh h sig, signer_ok s ->
  nthN (tx_ins t) idx = Some inp -> in_script inp = Some (p2pkh_lock pkh) -> length pkh = 20%nat ->
  fst (calc_input_signature_hash t idx (default_type ht)) = SOk h -> sg_sign s h = Some sig ->
  fill_input (Some s) t idx ht = SgOk (with_unlock_at t idx (p2pkh_unlock sig (default_type ht) (sg_pub s))).
Proof. exact fill_input_p2pkh_succeeds. Qed.
Print Assumptions C04_fill_input_p2pkh_succeeds.

(** (3) (a) for the signing path: an input that spends a P2PKH / P2PKH-inscription output paying to the signing key
    and was filled by FillInput (any requested type) is accepted by the interpreter model run on the FILLED
    transaction.  Residual hypotheses: apply's flag sanity and script-size limit, the envelope body being push-only,
    the defaulted type being allowed by the flags ([check_hash_type]), legacy stripping finding nothing - and THE
    oracle hypothesis [oracle_accepts_signer]: the key parses, and what the key signs over the digest at hand is
    well encoded, parses and verifies.  The shape of the script, its size, the digest being the engine's, the key
    encoding, "MINIMALDATA needs a non-empty signature" are all discharged. *)
Theorem C04_filled_input_accepted : forall (orc : sig_oracle) (s : signer) (t t' : tx) (idx : N) (inp : input)
    (flags ht : N) (body : bytes) (insc : bool) (bops : list pop),
  let ht' := default_type ht in
  let pk := sg_pub s in
  let lock := p2pkh_lock (hash160 pk) ++ (if insc then inscription_suffix body else []) in
  let c := mkCtx (normalise_flags flags) true (Z.of_N (tx_lock t)) (Z.of_N (tx_version t)) (Z.of_N (in_seq inp)) false in
  wf_tx t -> idx + 1 < two32 -> ht < 256 ->
  nthN (tx_ins t) idx = Some inp -> in_script inp = Some lock ->
  signer_ok s ->
  fill_input (Some s) t idx ht = SgOk t' ->
  (has_flag c F_CLEANSTACK = true -> has_flag c F_BIP16 = true) ->
  (lenZ lock <= max_script_size c)%Z ->
  (insc = true -> parse_ops (length body) false body 1 = Some bops /\ is_push_only bops = true /\
                  Forall (fun p => (lenZ (p_data p) <= max_elem c)%Z) bops) ->
  check_hash_type c ht' = true ->
  (has_flag c F_FORKID && flag_has ht' sh_forkid = true \/
   forall sig l, parse_script false lock = Some l -> remove_by_data l (sig ++ [n2b ht']) = l) ->
  (forall h, fst (calc_input_signature_hash t idx ht') = SOk h -> oracle_accepts_signer orc c s h) ->
  exists inp', nthN (tx_ins t') idx = Some inp' /\
    in_script inp' = Some lock /\ in_sats inp' = in_sats inp /\ in_seq inp' = in_seq inp /\
    fst (engine_execute (mk_sigops orc (engine_tx t' idx (in_unlock inp') lock (in_sats inp')) idx)
           (mkExecInput (in_unlock inp') lock flags true true (Z.of_N (tx_lock t')) (Z.of_N (tx_version t'))
                        (Z.of_N (in_seq inp')))) = VOk.
Proof. exact filled_input_accepted. Qed.
Print Assumptions C04_filled_input_accepted.

(** the default type (SigHashFlags 0, what FillAllInputs uses) under the FORKID flag: only the size / flag sanity,
    the envelope body and the oracle hypothesis remain *)
Theorem C04_filled_input_accepted_default : forall (orc : sig_oracle) (s : signer) (t t' : tx) (idx : N) (inp : input)
    (flags : N) (body : bytes) (insc : bool) (bops : list pop),
  let pk := sg_pub s in
  let lock := p2pkh_lock (hash160 pk) ++ (if insc then inscription_suffix body else []) in
  let c := mkCtx (normalise_flags flags) true (Z.of_N (tx_lock t)) (Z.of_N (tx_version t)) (Z.of_N (in_seq inp)) false in
  wf_tx t -> idx + 1 < two32 ->
  nthN (tx_ins t) idx = Some inp -> in_script inp = Some lock ->
  signer_ok s ->
  fill_input (Some s) t idx 0 = SgOk t' ->
  has_flag c F_FORKID = true ->
  (has_flag c F_CLEANSTACK = true -> has_flag c F_BIP16 = true) ->
  (lenZ lock <= max_script_size c)%Z ->
  (insc = true -> parse_ops (length body) false body 1 = Some bops /\ is_push_only bops = true /\
                  Forall (fun p => (lenZ (p_data p) <= max_elem c)%Z) bops) ->
  (forall h, fst (calc_input_signature_hash t idx 65) = SOk h -> oracle_accepts_signer orc c s h) ->
  exists inp', nthN (tx_ins t') idx = Some inp' /\
    in_script inp' = Some lock /\ in_sats inp' = in_sats inp /\ in_seq inp' = in_seq inp /\
    fst (engine_execute (mk_sigops orc (engine_tx t' idx (in_unlock inp') lock (in_sats inp')) idx)
           (mkExecInput (in_unlock inp') lock flags true true (Z.of_N (tx_lock t')) (Z.of_N (tx_version t'))
                        (Z.of_N (in_seq inp')))) = VOk.
Proof. exact filled_input_accepted_default. Qed.
Print Assumptions C04_filled_input_accepted_default.

(** the unlocker does not read unlocking scripts: same script, or same failure, on transactions that differ in
    them only (through [C04_sighash_ignores_unlocking_scripts]) *)
Theorem C04_unlocking_script_ignores_unlocks : forall s t1 t2 idx ht,
  wf_tx t1 -> wf_tx t2 -> ht < 256 -> idx + 1 < two32 -> erase_unlocks t1 = erase_unlocks t2 ->
  unlocking_script s t1 idx ht = unlocking_script s t2 idx ht.
Proof. exact unlocking_script_ignores_unlocks. Qed.
Print Assumptions C04_unlocking_script_ignores_unlocks.

(** (4) Tx.FillAllInputs with a getter handing out unlocker.Simple values ([key_of]: which key for which previous
    script; unlocker.Getter is the constant one): only unlocking scripts change, and the script of input j is what
    the unlocker returns (type ALL|FORKID) for input j of the transaction AS HANDED IN - the scripts this call has
    filled into the inputs before j, or fills into those after j, do not influence it - which is also what it
    returns on the completely filled transaction *)
Theorem C04_fill_all_inputs_signs_each_input_independently : forall key_of t t',
  wf_tx t -> N.of_nat (length (tx_ins t)) < two32 ->
  (forall prev s, key_of prev = Some s -> signer_ok s) ->
  fill_all_inputs (simple_getter key_of) t = SgOk t' ->
  tx_version t' = tx_version t /\ tx_outs t' = tx_outs t /\ tx_lock t' = tx_lock t /\
  length (tx_ins t') = length (tx_ins t) /\ erase_unlocks t' = erase_unlocks t /\ wf_tx t' /\
  forall j inp, nth_error (tx_ins t) j = Some inp ->
    exists s u, key_of (in_script inp) = Some s /\
      unlocking_script s t (N.of_nat j) 65 = SgOk u /\
      unlocking_script s t' (N.of_nat j) 65 = SgOk u /\
      nth_error (tx_ins t') j = Some (set_unlock inp u).
Proof. exact fill_all_inputs_signs_each_input_independently. Qed.
Print Assumptions C04_fill_all_inputs_signs_each_input_independently.

(** an input whose unlocking script is what unlocker.Simple returns when run on the very transaction [A] it sits
    in (type 0x41, 0x42, 0x43, 0xc1, 0xc2 or 0xc3 after defaulting) is accepted by the interpreter model run on [A]:
    [C04_filled_input_accepted] read with "handed in" = "returned".  This is the form in which the acceptance
    theorem applies to transactions assembled by several FillInput calls (FillAllInputs below; the ordinals flows,
    C20_*_sign_final_tx).  Residual hypotheses: the spent script pays to the signing key, FORKID in force, flag
    sanity, script size, push-only envelope body, the oracle hypothesis for the digest of [A] *)
Theorem C04_self_signed_input_accepted_forkid : forall (orc : sig_oracle) (s : signer) (A : tx) (idx : N) (inp : input)
    (flags ht : N) (body : bytes) (insc : bool) (bops : list pop),
  let ht' := default_type ht in
  let pk := sg_pub s in
  let lock := p2pkh_lock (hash160 pk) ++ (if insc then inscription_suffix body else []) in
  let c := mkCtx (normalise_flags flags) true (Z.of_N (tx_lock A)) (Z.of_N (tx_version A)) (Z.of_N (in_seq inp)) false in
  wf_tx A -> idx + 1 < two32 -> In ht' [0x41; 0x42; 0x43; 0xc1; 0xc2; 0xc3] ->
  nthN (tx_ins A) idx = Some inp -> in_script inp = Some lock -> signer_ok s ->
  unlocking_script s A idx ht = SgOk (in_unlock inp) ->
  has_flag c F_FORKID = true ->
  (has_flag c F_CLEANSTACK = true -> has_flag c F_BIP16 = true) ->
  (lenZ lock <= max_script_size c)%Z ->
  (insc = true -> parse_ops (length body) false body 1 = Some bops /\ is_push_only bops = true /\
                  Forall (fun p => (lenZ (p_data p) <= max_elem c)%Z) bops) ->
  (forall h, fst (calc_input_signature_hash A idx ht') = SOk h -> oracle_accepts_signer orc c s h) ->
  fst (engine_execute (mk_sigops orc (engine_tx A idx (in_unlock inp) lock (in_sats inp)) idx)
         (mkExecInput (in_unlock inp) lock flags true true (Z.of_N (tx_lock A)) (Z.of_N (tx_version A))
                      (Z.of_N (in_seq inp)))) = VOk.
Proof. exact OrdSignProofs.self_signed_input_accepted_forkid. Qed.
Print Assumptions C04_self_signed_input_accepted_forkid.

(** (4') EVERY input of a FillAllInputs result is accepted: (4) composed with the acceptance theorem.  For every
    input j of the transaction handed in that spends a P2PKH(-inscription) output paying to the key the getter
    hands out for it, the interpreter model run on the RESULT t' accepts input j of t' (its previous script,
    value and sequence number are those handed in); the oracle hypothesis is about the digest of t' *)
Theorem C04_fill_all_inputs_every_input_accepted : forall (orc : sig_oracle) key_of (t t' : tx) (flags : N),
  wf_tx t -> N.of_nat (length (tx_ins t)) < two32 ->
  (forall prev s, key_of prev = Some s -> signer_ok s) ->
  fill_all_inputs (simple_getter key_of) t = SgOk t' ->
  forall (j : nat) (inp : input) (s : signer) (body : bytes) (insc : bool) (bops : list pop),
  let pk := sg_pub s in
  let lock := p2pkh_lock (hash160 pk) ++ (if insc then inscription_suffix body else []) in
  let c := mkCtx (normalise_flags flags) true (Z.of_N (tx_lock t')) (Z.of_N (tx_version t')) (Z.of_N (in_seq inp)) false in
  nth_error (tx_ins t) j = Some inp -> key_of (in_script inp) = Some s -> in_script inp = Some lock ->
  has_flag c F_FORKID = true ->
  (has_flag c F_CLEANSTACK = true -> has_flag c F_BIP16 = true) ->
  (lenZ lock <= max_script_size c)%Z ->
  (insc = true -> parse_ops (length body) false body 1 = Some bops /\ is_push_only bops = true /\
                  Forall (fun p => (lenZ (p_data p) <= max_elem c)%Z) bops) ->
  (forall h, fst (calc_input_signature_hash t' (N.of_nat j) 65) = SOk h -> oracle_accepts_signer orc c s h) ->
  exists inp', nth_error (tx_ins t') j = Some inp' /\
    in_script inp' = Some lock /\ in_sats inp' = in_sats inp /\ in_seq inp' = in_seq inp /\
    fst (engine_execute (mk_sigops orc (engine_tx t' (N.of_nat j) (in_unlock inp') lock (in_sats inp')) (N.of_nat j))
           (mkExecInput (in_unlock inp') lock flags true true (Z.of_N (tx_lock t')) (Z.of_N (tx_version t'))
                        (Z.of_N (in_seq inp')))) = VOk.
Proof. exact SignAcceptAll.fill_all_inputs_every_input_accepted. Qed.
Print Assumptions C04_fill_all_inputs_every_input_accepted.

(** the inscription case without assuming that FillInput succeeded.
    ScriptType classifies what Tx.Inscribe appends to a P2PKH prefix (model/Inscription.v [inscribe_script];
    13 parts, or more with the OP_RETURN tail of EnrichedArgs) as ScriptTypeInscription, so the gate of
    unlocker.Simple lets it through ([enriched_ok]: every OP_RETURN item shorter than 2^32 bytes) *)
Theorem C04_inscribe_script_classified : forall h20 ct data enriched s, length h20 = 20%nat ->
  InscriptionProofs.enriched_ok enriched ->
  Inscription.inscribe_script (Inscription.p2pkh_script h20) ct data enriched = Some s ->
  script_type s = Checked.Ok TInscription.
Proof. exact SignAcceptAll.inscribe_script_classified. Qed.
Print Assumptions C04_inscribe_script_classified.

(** without the tail it is literally the lock of the acceptance theorem:
    p2pkh OP_FALSE OP_IF [ord_body ct data] OP_ENDIF, [ord_body] = push "ord", OP_1, push ct, OP_0, push data *)
Theorem C04_inscribe_script_is_lock : forall pkh ct data s,
  Inscription.inscribe_script (p2pkh_lock pkh) ct data None = Some s ->
  s = p2pkh_lock pkh ++ inscription_suffix (SignAcceptAll.ord_body ct data).
Proof. exact SignAcceptAll.inscribe_script_is_lock. Qed.
Print Assumptions C04_inscribe_script_is_lock.

(** FillInput SUCCEEDS on an input spending such a script whenever the digest exists and the key signs
    (the inscription counterpart of [C04_fill_input_p2pkh_succeeds]) *)
Theorem C04_fill_input_inscription_succeeds : forall s t idx ht inp pkh ct data enriched lock h sig, signer_ok s ->
  nthN (tx_ins t) idx = Some inp -> length pkh = 20%nat -> InscriptionProofs.enriched_ok enriched ->
  Inscription.inscribe_script (p2pkh_lock pkh) ct data enriched = Some lock -> in_script inp = Some lock ->
  fst (calc_input_signature_hash t idx (default_type ht)) = SOk h -> sg_sign s h = Some sig ->
  fill_input (Some s) t idx ht = SgOk (with_unlock_at t idx (p2pkh_unlock sig (default_type ht) (sg_pub s))).
Proof. exact SignAcceptAll.fill_input_inscription_succeeds. Qed.
Print Assumptions C04_fill_input_inscription_succeeds.

(** and the two together: an input spending what Inscribe built for the signing key's hash (no tail), signed by
    FillInput with a standard FORKID type, IS filled and is accepted.  Instead of "FillInput returned" the
    hypotheses are: the digest exists and the key signs it.  Still assumed about the envelope: its body
    [ord_body ct data] parses as push-only operations within the element size limit *)
Theorem C04_inscription_input_signed_and_accepted : forall (orc : sig_oracle) (s : signer) (t : tx) (idx : N) (inp : input)
    (flags ht : N) (ct data lock : bytes) (bops : list pop) (h sig : bytes),
  let ht' := default_type ht in
  let pk := sg_pub s in
  let body := SignAcceptAll.ord_body ct data in
  let c := mkCtx (normalise_flags flags) true (Z.of_N (tx_lock t)) (Z.of_N (tx_version t)) (Z.of_N (in_seq inp)) false in
  wf_tx t -> idx + 1 < two32 -> In ht' [0x41; 0x42; 0x43; 0xc1; 0xc2; 0xc3] ->
  nthN (tx_ins t) idx = Some inp ->
  Inscription.inscribe_script (p2pkh_lock (hash160 pk)) ct data None = Some lock -> in_script inp = Some lock ->
  signer_ok s ->
  fst (calc_input_signature_hash t idx ht') = SOk h -> sg_sign s h = Some sig ->
  has_flag c F_FORKID = true ->
  (has_flag c F_CLEANSTACK = true -> has_flag c F_BIP16 = true) ->
  (lenZ lock <= max_script_size c)%Z ->
  parse_ops (length body) false body 1 = Some bops -> is_push_only bops = true ->
  Forall (fun p => (lenZ (p_data p) <= max_elem c)%Z) bops ->
  oracle_accepts_signer orc c s h ->
  exists t' inp', fill_input (Some s) t idx ht = SgOk t' /\ nthN (tx_ins t') idx = Some inp' /\
    in_script inp' = Some lock /\ in_sats inp' = in_sats inp /\ in_seq inp' = in_seq inp /\
    fst (engine_execute (mk_sigops orc (engine_tx t' idx (in_unlock inp') lock (in_sats inp')) idx)
           (mkExecInput (in_unlock inp') lock flags true true (Z.of_N (tx_lock t')) (Z.of_N (tx_version t'))
                        (Z.of_N (in_seq inp')))) = VOk.
Proof. exact SignAcceptAll.inscription_input_signed_and_accepted. Qed.
Print Assumptions C04_inscription_input_signed_and_accepted.

(** non-vacuity of the signing path: direct evaluation of the model.  A key whose signatures are the fixed DER
    string [ex_sig]: FillInput with type 0 on the instance of [C04_p2pkh_hypotheses_satisfiable] stores the 0x41
    script, with type 1 the 0x01 script; the interpreter model accepts the filled transaction; FillAllInputs fills
    both inputs of a two-input transaction; a P2PK previous script is refused; a nil unlocker is refused *)
Example C04_signing_direct_evaluation :
  signer_ok ex_signer /\
  fill_input (Some ex_signer) (P2PKHProofs.ex_tx true) 0 0 =
    SgOk (with_unlock_at (P2PKHProofs.ex_tx true) 0 (p2pkh_unlock ex_sig 65 ex_pk)) /\
  fill_input (Some ex_signer) (P2PKHProofs.ex_tx false) 0 1 =
    SgOk (with_unlock_at (P2PKHProofs.ex_tx false) 0 (p2pkh_unlock ex_sig 1 ex_pk)) /\
  (forall insc, match fill_input (Some ex_signer) (P2PKHProofs.ex_tx insc) 0 0 with
     | SgOk t' => match tx_ins t' with
                  | i :: _ => fst (engine_execute (mk_sigops ex_orc (engine_tx t' 0 (in_unlock i) (ex_lock insc) 1000) 0)
                                     (mkExecInput (in_unlock i) (ex_lock insc) FLAGS_FORKID_GENESIS true true 0 1 4294967295)) = VOk
                  | [] => False end
     | _ => False end) /\
  (let two := mkTx 1 [ex_inp true; ex_inp false] [mkOutput 900 [x6a]] 0 in
   fill_all_inputs (unlocker_getter ex_signer) two =
     SgOk (with_unlock_at (with_unlock_at two 0 (p2pkh_unlock ex_sig 65 ex_pk)) 1 (p2pkh_unlock ex_sig 65 ex_pk))) /\
  unlocking_script ex_signer (mkTx 1 [mkInput (repeat_byte 32 xab) 0 [] 0 1 (Some (x21 :: ex_pk ++ [xac]))] [] 0) 0 0 =
    SgErr ENotP2PKH /\
  fill_input None (P2PKHProofs.ex_tx true) 0 0 = SgErr ENoUnlocker.
Proof.
  split; [exact ex_signer_ok|]. split; [vm_compute; reflexivity|]. split; [vm_compute; reflexivity|].
  split; [intros [|]; vm_compute; reflexivity|]. split; [vm_compute; reflexivity|]. split; vm_compute; reflexivity.
Qed.

(** * non-vacuity *)
Definition ex_tx : tx :=
  mkTx 1 [mkInput (repeat_byte 32 xab) 3 [x51] 4294967295 5000 (Some [x76; xa9; x88; xac]);
          mkInput (repeat_byte 32 xcd) 0 [] 7 1 (Some [x51])]
         [mkOutput 1000 [x6a]; mkOutput 2000 [x51]] 0.

Lemma ex_wf : forall t, t = ex_tx \/ t = fst (apply_tx (MOutValue 1 7) ex_tx 0) \/
                        t = fst (apply_tx (MInInsert 0 (mkTxIn (mkOutPoint (repeat_byte 32 x11) 0) [] 5)) ex_tx 0) -> wf_tx t.
Proof.
  intros t [-> | [-> | ->]]; unfold wf_tx, ex_tx; cbn; repeat split; try reflexivity;
    repeat constructor; unfold wf_script, lenN; cbn; reflexivity.
Qed.

(** SINGLE|ANYONECANPAY|FORKID on input 0 commits to output 0 only: output 1's value is free,
    and the hypotheses of the invariance theorem are met *)
Example C04_invariance_hypotheses_satisfiable :
  signable ex_tx 0 /\ signable (fst (apply_tx (MOutValue 1 7) ex_tx 0)) (snd (apply_tx (MOutValue 1 7) ex_tx 0)) /\
  committed_in AlgForkid 0xc3 (sign_ctx_of ex_tx 0) (MOutValue 1 7) = false /\
  applicable (MOutValue 1 7) (sign_ctx_of ex_tx 0) /\
  committed_in AlgForkid 0xc3 (sign_ctx_of ex_tx 0) (MOutValue 0 7) = true /\
  effective (MOutValue 0 7) (sign_ctx_of ex_tx 0).
Proof.
  repeat split; try (apply ex_wf; auto); try (vm_compute; reflexivity); try (cbn; unfold two32, two31; reflexivity).
  - eexists; eexists; split; reflexivity.
  - eexists; eexists; split; reflexivity.
  - eexists. split; [reflexivity|]. cbn. discriminate.
Qed.
(** and the preimages are indeed equal / different on this instance *)
Example C04_example_single_acp :
  fst (calc_input_preimage (fst (apply_tx (MOutValue 1 7) ex_tx 0)) 0 0xc3) = fst (calc_input_preimage ex_tx 0 0xc3) /\
  fst (calc_input_preimage (fst (apply_tx (MOutValue 0 7) ex_tx 0)) 0 0xc3) <> fst (calc_input_preimage ex_tx 0 0xc3).
Proof. split; vm_compute; [reflexivity | discriminate]. Qed.
(** an input inserted in front of a SINGLE|ANYONECANPAY-signed input moves it onto another output:
    committed; behind it: not committed *)
Example C04_example_position_shift :
  committed AlgForkid 0xc3 0 2 (FInInsert 0) = true /\ committed AlgForkid 0xc3 0 2 (FInInsert 1) = false /\
  committed AlgLegacy 0x83 0 2 (FInInsert 0) = true /\ committed AlgForkid 0xc1 0 2 (FInInsert 0) = false.
Proof. repeat split; vm_compute; reflexivity. Qed.
(** the legacy SIGHASH_SINGLE bug: input 1 of a 1-output transaction signs the constant; nothing is
    committed except the absence of a matching output *)
Example C04_example_legacy_single_bug :
  committed AlgLegacy 0x03 1 1 FVersion = false /\ committed AlgLegacy 0x03 1 1 (FOutpoint 1) = false /\
  committed AlgLegacy 0x03 1 1 (FOutInsert 0) = true /\ committed AlgForkid 0x43 1 1 FVersion = true /\
  fst (calc_input_preimage_legacy (fst (apply_tx (MVersion 9) (tx_with_outs ex_tx [mkOutput 1000 [x6a]]) 1)) 1 0x03) =
  fst (calc_input_preimage_legacy (tx_with_outs ex_tx [mkOutput 1000 [x6a]]) 1 0x03) /\
  fst (calc_input_preimage_legacy (tx_with_outs ex_tx [mkOutput 1000 [x6a]]) 1 0x03) = SOk default_hex.
Proof. repeat split; vm_compute; reflexivity. Qed.

(** State inventory (tie, translator part): every Go struct the model of this property represents has, in the
    source as it is NOW (gen/Structs.v, regenerated on every run), exactly the fields - names, types, order - the
    model was written against (model/StateInventory.v).  New state in these objects (a memoised digest, a cached
    document, a remembered operand) is state the theorems above do not speak about: this is the obligation that
    stops checking then. *)
From GoBT Require gen.Structs model.StateInventory.
Theorem C04_state_inventory :
  forall k, In k (StateInventory.group_of StateInventory.pC04) ->
  exists f, StateInventory.lookup_gen gen.Structs.structs k = Some f /\ StateInventory.lookup_model k = Some f.
Proof. apply StateInventory.inventory_ok_spec. vm_compute. reflexivity. Qed.
Print Assumptions C04_state_inventory.

(** Package-level state (tie, translator part): in the source as it is NOW (gen/Globals.v) no package-level variable of
    the packages this property's code lives in can change after initialisation or is handed out by reference - the
    model's functions are functions of their arguments only (model/StateInventory.v). *)
From GoBT Require gen.Globals.
Theorem C04_no_mutable_package_state :
  forall g, In g gen.Globals.globals -> In (StateInventory.rg_pkg g) (StateInventory.packages_of StateInventory.pC04) ->
  StateInventory.rg_mutated g = false /\ StateInventory.rg_escapes g = false.
Proof. apply StateInventory.pkg_state_ok_spec. vm_compute. reflexivity. Qed.
Print Assumptions C04_no_mutable_package_state.

(** * (c) WITHOUT the [NoDup] hypothesis: transactions with identical outputs (proofs/CommitNoDup.v)

    The mutations are positional and the serialisations length-prefixed, so for every type that is not SINGLE, and
    for every mutation that edits a field in place, identical outputs change nothing: [NoDup] is simply dropped.
    It was used only where the SOLE committed effect of a mutation, under SIGHASH_SINGLE, is to put another output
    at the signed input's position: output insertion / removal at or before that position (both algorithms), input
    insertion / removal in front of the signed input under SINGLE|ANYONECANPAY (FORKID only: the legacy copy carries
    [idx] blank outputs, so the shift itself shows).  There it is replaced by the weakest hypothesis that works,
    [matching_output_moves]: the output NOW at the signed position differs from the one that WAS there.  That
    hypothesis follows from the two [NoDup]s ([C04_NoDup_implies_matching_output_moves]: the theorems below subsume
    the [NoDup] ones above) and it is necessary: with the same output at the signed position the committed view,
    the preimage and the digest are identical ([C04_single_same_matching_output_*]) - so the statements with no
    hypothesis at all are FALSE ([*_without_NoDup_refuted]).  Not a defect of the code: SINGLE commits to the content
    of the output at the signed position, which is unchanged; the table [committed] is too coarse there. *)
From GoBT Require proofs.CommitNoDup proofs.InscribeAccept.

Theorem C04_commit_sensitive_forkid_spec_positional_partial : forall c ht m inp,
  committed_in AlgForkid ht c m = true -> effective m c ->
  nth_error (t_vin (sc_tx c)) (sc_idx c) = Some inp ->
  wf_ctx c -> wf_ctx (apply_mutation m c) -> ht < two32 ->
  CommitNoDup.matching_output_moves AlgForkid ht m c ->
  exists v v', forkid_view_of c ht = Some v /\ forkid_view_of (apply_mutation m c) ht = Some v' /\
               components_of v' <> components_of v.
Proof. exact CommitNoDup.commit_sensitive_forkid_pos. Qed.
Print Assumptions C04_commit_sensitive_forkid_spec_positional_partial.
Theorem C04_commit_sensitive_legacy_spec_positional_partial : forall c ht m inp,
  committed_in AlgLegacy ht c m = true -> effective m c ->
  nth_error (t_vin (sc_tx c)) (sc_idx c) = Some inp ->
  wf_ctx c -> wf_ctx (apply_mutation m c) -> ht < two32 ->
  CommitNoDup.matching_output_moves AlgLegacy ht m c ->
  let c' := apply_mutation m c in
  legacy_signature_hash (sc_code c') (sc_tx c') (sc_idx c') ht <>
  legacy_signature_hash (sc_code c) (sc_tx c) (sc_idx c) ht.
Proof. exact CommitNoDup.commit_sensitive_legacy_pos. Qed.
Print Assumptions C04_commit_sensitive_legacy_spec_positional_partial.

(** what the hypothesis says, spelled out: nothing unless the base type is SINGLE and the mutation inserts / removes
    an output or (FORKID, ANYONECANPAY) an input; then "the output at the signed position is another one" *)
Theorem C04_matching_output_moves_unfold : forall alg ht m c,
  CommitNoDup.matching_output_moves alg ht m c <->
  match m with
  | MOutInsert _ _ | MOutRemove _ =>
      is_single ht = true ->
      nth_error (t_vout (sc_tx (apply_mutation m c))) (sc_idx (apply_mutation m c)) <> nth_error (t_vout (sc_tx c)) (sc_idx c)
  | MInInsert _ _ | MInRemove _ =>
      alg = AlgForkid -> is_single ht = true -> anyone_can_pay ht = true ->
      nth_error (t_vout (sc_tx (apply_mutation m c))) (sc_idx (apply_mutation m c)) <> nth_error (t_vout (sc_tx c)) (sc_idx c)
  | _ => True
  end.
Proof. intros alg ht m c. destruct m; reflexivity. Qed.
Theorem C04_matching_output_moves_not_single : forall alg ht m c, is_single ht = false ->
  CommitNoDup.matching_output_moves alg ht m c.
Proof. exact CommitNoDup.matching_output_moves_not_single. Qed.
(** the new hypothesis is weaker than the old ones *)
Theorem C04_NoDup_implies_matching_output_moves : forall alg c ht m,
  committed_in alg ht c m = true -> effective m c ->
  NoDup (t_vout (sc_tx c)) -> NoDup (t_vout (sc_tx (apply_mutation m c))) ->
  CommitNoDup.matching_output_moves alg ht m c.
Proof. exact CommitNoDup.NoDup_matching_output_moves. Qed.
Print Assumptions C04_NoDup_implies_matching_output_moves.

(** ... and necessary: under SINGLE, a mutation of these classes that leaves the same output at the signed position
    leaves the preimage (FORKID) / the digest preimage (legacy; output insertion and removal) IDENTICAL *)
Theorem C04_single_same_matching_output_same_forkid_preimage : forall c ht m,
  is_single ht = true -> applicable m c -> CommitNoDup.shifts_matching_output ht m ->
  CommitNoDup.matching_output (apply_mutation m c) = CommitNoDup.matching_output c ->
  let c' := apply_mutation m c in
  forkid_preimage (sc_tx c') (sc_idx c') (sc_code c') (sc_amount c') ht =
  forkid_preimage (sc_tx c) (sc_idx c) (sc_code c) (sc_amount c) ht.
Proof. exact CommitNoDup.single_same_matching_output_same_forkid_preimage. Qed.
Print Assumptions C04_single_same_matching_output_same_forkid_preimage.
Theorem C04_single_same_matching_output_same_legacy_digest : forall c ht m,
  is_single ht = true -> applicable m c ->
  match m with MOutInsert _ _ | MOutRemove _ => True | _ => False end ->
  CommitNoDup.matching_output (apply_mutation m c) = CommitNoDup.matching_output c ->
  let c' := apply_mutation m c in
  legacy_signature_hash (sc_code c') (sc_tx c') (sc_idx c') ht = legacy_signature_hash (sc_code c) (sc_tx c) (sc_idx c) ht.
Proof. exact CommitNoDup.single_same_matching_output_same_legacy_digest. Qed.
Print Assumptions C04_single_same_matching_output_same_legacy_digest.

(** REFUTED: [C04_commit_sensitive_*_spec_partial] without [NoDup].  Input 0 of a transaction with two identical
    outputs, SINGLE|FORKID / SINGLE|ANYONECANPAY|FORKID / legacy SINGLE: a copy inserted at the signed position, the
    first of the two removed, an input inserted in front (ANYONECANPAY): all hypotheses but [NoDup] hold and the
    preimage is the same *)
Theorem C04_commit_sensitive_forkid_without_NoDup_refuted :
  forall ht m, In (ht, m) [(0x43, MOutInsert 0 CommitNoDup.dup_out); (0x43, MOutRemove 0);
                           (0xc3, MOutInsert 0 CommitNoDup.dup_out); (0xc3, MInInsert 0 (CommitNoDup.dup_in x11))] ->
  let c := CommitNoDup.dup_ctx in let c' := apply_mutation m c in
  committed_in AlgForkid ht c m = true /\ effective m c /\
  nth_error (t_vin (sc_tx c)) (sc_idx c) = Some (CommitNoDup.dup_in xab) /\ wf_ctx c /\ wf_ctx c' /\ ht < two32 /\
  forkid_view_of c' ht = forkid_view_of c ht /\
  forkid_preimage (sc_tx c') (sc_idx c') (sc_code c') (sc_amount c') ht =
  forkid_preimage (sc_tx c) (sc_idx c) (sc_code c) (sc_amount c) ht.
Proof. exact CommitNoDup.commit_sensitive_forkid_without_NoDup_refuted. Qed.
Print Assumptions C04_commit_sensitive_forkid_without_NoDup_refuted.
Theorem C04_commit_sensitive_legacy_without_NoDup_refuted :
  forall ht m, In (ht, m) [(0x03, MOutInsert 0 CommitNoDup.dup_out); (0x03, MOutRemove 0);
                           (0x83, MOutInsert 0 CommitNoDup.dup_out)] ->
  let c := CommitNoDup.dup_ctx in let c' := apply_mutation m c in
  committed_in AlgLegacy ht c m = true /\ effective m c /\
  nth_error (t_vin (sc_tx c)) (sc_idx c) = Some (CommitNoDup.dup_in xab) /\ wf_ctx c /\ wf_ctx c' /\ ht < two32 /\
  legacy_signature_hash (sc_code c') (sc_tx c') (sc_idx c') ht = legacy_signature_hash (sc_code c) (sc_tx c) (sc_idx c) ht.
Proof. exact CommitNoDup.commit_sensitive_legacy_without_NoDup_refuted. Qed.
Print Assumptions C04_commit_sensitive_legacy_without_NoDup_refuted.

(** on the library model.  [matching_output_moves_tx]: the same hypothesis read on the go-bt object:
    [nth_error (tx_outs t') i' <> nth_error (tx_outs t) i] in the four cases *)
Theorem C04_commit_sensitive_forkid_positional_partial : forall t i ht m, ht < 256 ->
  let t' := fst (apply_tx m t i) in let i' := snd (apply_tx m t i) in
  signable t i -> signable t' i' ->
  committed_in AlgForkid ht (sign_ctx_of t i) m = true -> effective m (sign_ctx_of t i) ->
  CommitNoDup.matching_output_moves_tx AlgForkid ht m t i ->
  exists v v',
    fst (calc_input_preimage t (N.of_nat i) ht) = SOk (assemble (components_of v)) /\
    fst (calc_input_preimage t' (N.of_nat i') ht) = SOk (assemble (components_of v')) /\
    components_of v' <> components_of v /\
    (no_collision (fc_prevouts (components_of v')) (fc_prevouts (components_of v)) ->
     no_collision (fc_sequences (components_of v')) (fc_sequences (components_of v)) ->
     no_collision (fc_outputs (components_of v')) (fc_outputs (components_of v)) ->
     fst (calc_input_preimage t' (N.of_nat i') ht) <> fst (calc_input_preimage t (N.of_nat i) ht)).
Proof. exact CommitNoDup.model_commit_sensitive_forkid_mod_collisions_pos. Qed.
Print Assumptions C04_commit_sensitive_forkid_positional_partial.
Theorem C04_commit_sensitive_legacy_positional_partial : forall t i ht m, ht < 256 ->
  let t' := fst (apply_tx m t i) in let i' := snd (apply_tx m t i) in
  signable t i -> signable t' i' ->
  committed_in AlgLegacy ht (sign_ctx_of t i) m = true -> effective m (sign_ctx_of t i) ->
  CommitNoDup.matching_output_moves_tx AlgLegacy ht m t i ->
  fst (calc_input_preimage_legacy t' (N.of_nat i') ht) <> fst (calc_input_preimage_legacy t (N.of_nat i) ht).
Proof. exact CommitNoDup.model_commit_sensitive_legacy_pos. Qed.
Print Assumptions C04_commit_sensitive_legacy_positional_partial.
Theorem C04_matching_output_moves_tx_unfold : forall alg ht m t i,
  CommitNoDup.matching_output_moves_tx alg ht m t i <->
  match m with
  | MOutInsert _ _ | MOutRemove _ =>
      is_single ht = true -> nth_error (tx_outs (fst (apply_tx m t i))) (snd (apply_tx m t i)) <> nth_error (tx_outs t) i
  | MInInsert _ _ | MInRemove _ =>
      alg = AlgForkid -> is_single ht = true -> anyone_can_pay ht = true ->
      nth_error (tx_outs (fst (apply_tx m t i))) (snd (apply_tx m t i)) <> nth_error (tx_outs t) i
  | _ => True
  end.
Proof. intros alg ht m t i. destruct m; reflexivity. Qed.

(** every type that is not SINGLE (ALL, NONE, with or without ANYONECANPAY and FORKID): NO hypothesis on the
    outputs.  In particular inserting a copy of an output next to the original, or removing one of two identical
    outputs, under ALL, changes the committed bytes (the count and the total length change) *)
Theorem C04_commit_sensitive_forkid_not_single_partial : forall t i ht m, ht < 256 -> is_single ht = false ->
  let t' := fst (apply_tx m t i) in let i' := snd (apply_tx m t i) in
  signable t i -> signable t' i' ->
  committed_in AlgForkid ht (sign_ctx_of t i) m = true -> effective m (sign_ctx_of t i) ->
  exists v v',
    fst (calc_input_preimage t (N.of_nat i) ht) = SOk (assemble (components_of v)) /\
    fst (calc_input_preimage t' (N.of_nat i') ht) = SOk (assemble (components_of v')) /\
    components_of v' <> components_of v.
Proof. exact CommitNoDup.model_commit_sensitive_forkid_not_single. Qed.
Print Assumptions C04_commit_sensitive_forkid_not_single_partial.
Theorem C04_commit_sensitive_legacy_not_single_partial : forall t i ht m, ht < 256 -> is_single ht = false ->
  let t' := fst (apply_tx m t i) in let i' := snd (apply_tx m t i) in
  signable t i -> signable t' i' ->
  committed_in AlgLegacy ht (sign_ctx_of t i) m = true -> effective m (sign_ctx_of t i) ->
  fst (calc_input_preimage_legacy t' (N.of_nat i') ht) <> fst (calc_input_preimage_legacy t (N.of_nat i) ht).
Proof. exact CommitNoDup.model_commit_sensitive_legacy_not_single. Qed.
Print Assumptions C04_commit_sensitive_legacy_not_single_partial.

(** the same output at the signed position: CalcInputPreimage of the mutated object returns the same bytes *)
Theorem C04_single_same_matching_output_same_preimage : forall t i ht m, ht < 256 -> is_single ht = true ->
  let t' := fst (apply_tx m t i) in let i' := snd (apply_tx m t i) in
  signable t i -> signable t' i' -> applicable m (sign_ctx_of t i) -> CommitNoDup.shifts_matching_output ht m ->
  nth_error (tx_outs t') i' = nth_error (tx_outs t) i ->
  fst (calc_input_preimage t' (N.of_nat i') ht) = fst (calc_input_preimage t (N.of_nat i) ht).
Proof. exact CommitNoDup.model_single_same_matching_output_same_preimage. Qed.
Print Assumptions C04_single_same_matching_output_same_preimage.

(** REFUTED on the library model: [C04_commit_sensitive_forkid_partial] / [_legacy_partial] without [NoDup] *)
Theorem C04_commit_sensitive_without_NoDup_refuted :
  forall ht m, In (ht, m) [(0x43, MOutInsert 0 CommitNoDup.dup_out); (0x43, MOutRemove 0);
                           (0xc3, MInInsert 0 (CommitNoDup.dup_in x11));
                           (0x03, MOutInsert 0 CommitNoDup.dup_out); (0x03, MOutRemove 0)] ->
  let alg := if has_forkid ht then AlgForkid else AlgLegacy in
  let t' := fst (apply_tx m CommitNoDup.dup_tx 0) in let i' := snd (apply_tx m CommitNoDup.dup_tx 0) in
  ht < 256 /\ signable CommitNoDup.dup_tx 0 /\ signable t' i' /\
  committed_in alg ht (sign_ctx_of CommitNoDup.dup_tx 0) m = true /\ effective m (sign_ctx_of CommitNoDup.dup_tx 0) /\
  (if has_forkid ht then fst (calc_input_preimage t' (N.of_nat i') ht) = fst (calc_input_preimage CommitNoDup.dup_tx 0 ht)
   else fst (calc_input_preimage_legacy t' (N.of_nat i') ht) = fst (calc_input_preimage_legacy CommitNoDup.dup_tx 0 ht)) /\
  fst (calc_input_signature_hash t' (N.of_nat i') ht) = fst (calc_input_signature_hash CommitNoDup.dup_tx 0 ht).
Proof. exact CommitNoDup.model_commit_sensitive_without_NoDup_refuted. Qed.
Print Assumptions C04_commit_sensitive_without_NoDup_refuted.

(** non-vacuity on a transaction WITH duplicate outputs: under ALL|FORKID the hypothesis holds for every mutation,
    the copy-insertion and the removal are committed and effective; under SINGLE it holds for a different output *)
Example C04_matching_output_moves_satisfiable_with_duplicates :
  ~ NoDup (t_vout (sc_tx CommitNoDup.dup_ctx)) /\
  (forall m, CommitNoDup.matching_output_moves AlgForkid 0x41 m CommitNoDup.dup_ctx) /\
  committed_in AlgForkid 0x41 CommitNoDup.dup_ctx (MOutInsert 0 CommitNoDup.dup_out) = true /\
  effective (MOutInsert 0 CommitNoDup.dup_out) CommitNoDup.dup_ctx /\
  committed_in AlgForkid 0x41 CommitNoDup.dup_ctx (MOutRemove 0) = true /\ effective (MOutRemove 0) CommitNoDup.dup_ctx /\
  CommitNoDup.matching_output_moves AlgForkid 0x43 (MOutInsert 0 (mkTxOut 7 [x51])) CommitNoDup.dup_ctx /\
  committed_in AlgForkid 0x43 CommitNoDup.dup_ctx (MOutInsert 0 (mkTxOut 7 [x51])) = true.
Proof. exact CommitNoDup.matching_output_moves_satisfiable_with_duplicates. Qed.

(** end to end on the interpreter model, two identical outputs, a signature the oracle accepts ONLY over the digest of
    the original transaction.  SINGLE|FORKID: a copy inserted at the signed position and the removal of the first
    copy leave the input ACCEPTED (the committed output has the same content), a different output there is rejected.
    ALL|FORKID: the copy-insertion and the removal are both REJECTED *)
Example C04_duplicate_outputs_on_instance :
  let t0 := tx_with_outs (P2PKHProofs.ex_tx true) [mkOutput 900 [x6a]; mkOutput 900 [x6a]] in
  let run (ht : N) (m : mutation) :=
    let h0 := match fst (calc_input_signature_hash t0 0 ht) with SOk h => h | _ => [] end in
    let u := p2pkh_unlock ex_sig ht ex_pk in
    let t' := fst (apply_tx m t0 0) in
    fst (engine_execute (mk_sigops (only_orc h0)
                           (engine_tx t' 0 u (ex_lock true) (match tx_ins t' with x :: _ => in_sats x | [] => 0 end)) 0)
           (mkExecInput u (ex_lock true) FLAGS_FORKID_GENESIS true true (Z.of_N (tx_lock t')) (Z.of_N (tx_version t')) 4294967295)) in
  run 0x43 (MOutInsert 0 (mkTxOut 900 [x6a])) = VOk /\ run 0x43 (MOutRemove 0) = VOk /\
  run 0x43 (MOutInsert 0 (mkTxOut 901 [x6a])) = VErr /\
  run 0x41 (MOutInsert 0 (mkTxOut 900 [x6a])) = VErr /\ run 0x41 (MOutRemove 0) = VErr /\
  run 0x41 (MVersion 1) = VOk.
Proof. vm_compute. repeat split. Qed.

(** * the inscription case CLOSED (proofs/InscribeAccept.v)

    (A) the envelope body Tx.Inscribe writes, push "ord" OP_1 push(content type) OP_0 push(data), parses as the five
    push operations [ord_bops ct data] - for EVERY content type and payload Inscribe accepts (shorter than 2^32
    bytes), whichever of the five forms EncodeParts picks for the two items: OP_0 (empty), direct push (1..75),
    OP_PUSHDATA1 / 2 / 4 *)
Theorem C04_inscribe_body_is_push_only : forall ct data, lenN ct < 4294967296 -> lenN data < 4294967296 ->
  parse_ops (length (SignAcceptAll.ord_body ct data)) false (SignAcceptAll.ord_body ct data) 1 =
    Some (InscribeAccept.ord_bops ct data) /\
  is_push_only (InscribeAccept.ord_bops ct data) = true /\
  map p_data (InscribeAccept.ord_bops ct data) = [Inscription.ordinals_prefix; []; ct; []; data].
Proof.
  intros ct data Hct Hd. split; [apply InscribeAccept.parse_ord_body; assumption|].
  split; [apply InscribeAccept.ord_bops_push_only|].
  unfold InscribeAccept.ord_bops. cbn [map]. rewrite !InscribeAccept.push_pop_data. reflexivity.
Qed.
Print Assumptions C04_inscribe_body_is_push_only.

(** [C04_inscription_input_signed_and_accepted] without the hypotheses on parsed operations.  What remains about
    the envelope is the interpreter's element-size limit on content type and payload: a genuine requirement before
    Genesis (520 bytes: executeOpcode checks the size of a push before it looks at the branch) ... *)
Theorem C04_inscription_input_signed_and_accepted_closed : forall (orc : sig_oracle) (s : signer) (t : tx) (idx : N) (inp : input)
    (flags ht : N) (ct data lock : bytes) (h sig : bytes),
  let ht' := default_type ht in
  let pk := sg_pub s in
  let c := mkCtx (normalise_flags flags) true (Z.of_N (tx_lock t)) (Z.of_N (tx_version t)) (Z.of_N (in_seq inp)) false in
  wf_tx t -> idx + 1 < two32 -> In ht' [0x41; 0x42; 0x43; 0xc1; 0xc2; 0xc3] ->
  nthN (tx_ins t) idx = Some inp ->
  Inscription.inscribe_script (p2pkh_lock (hash160 pk)) ct data None = Some lock -> in_script inp = Some lock ->
  signer_ok s ->
  fst (calc_input_signature_hash t idx ht') = SOk h -> sg_sign s h = Some sig ->
  has_flag c F_FORKID = true ->
  (has_flag c F_CLEANSTACK = true -> has_flag c F_BIP16 = true) ->
  (lenZ lock <= max_script_size c)%Z ->
  (lenZ ct <= max_elem c)%Z -> (lenZ data <= max_elem c)%Z ->
  oracle_accepts_signer orc c s h ->
  exists t' inp', fill_input (Some s) t idx ht = SgOk t' /\ nthN (tx_ins t') idx = Some inp' /\
    in_script inp' = Some lock /\ in_sats inp' = in_sats inp /\ in_seq inp' = in_seq inp /\
    fst (engine_execute (mk_sigops orc (engine_tx t' idx (in_unlock inp') lock (in_sats inp')) idx)
           (mkExecInput (in_unlock inp') lock flags true true (Z.of_N (tx_lock t')) (Z.of_N (tx_version t'))
                        (Z.of_N (in_seq inp')))) = VOk.
Proof. exact InscribeAccept.inscription_input_signed_and_accepted_closed. Qed.
Print Assumptions C04_inscription_input_signed_and_accepted_closed.

(** ... and implied by the script-size limit after Genesis (the configuration the property observes): NOTHING is
    assumed about the envelope *)
Theorem C04_inscription_input_signed_and_accepted_genesis : forall (orc : sig_oracle) (s : signer) (t : tx) (idx : N) (inp : input)
    (flags ht : N) (ct data lock : bytes) (h sig : bytes),
  let ht' := default_type ht in
  let pk := sg_pub s in
  let c := mkCtx (normalise_flags flags) true (Z.of_N (tx_lock t)) (Z.of_N (tx_version t)) (Z.of_N (in_seq inp)) false in
  wf_tx t -> idx + 1 < two32 -> In ht' [0x41; 0x42; 0x43; 0xc1; 0xc2; 0xc3] ->
  nthN (tx_ins t) idx = Some inp ->
  Inscription.inscribe_script (p2pkh_lock (hash160 pk)) ct data None = Some lock -> in_script inp = Some lock ->
  signer_ok s ->
  fst (calc_input_signature_hash t idx ht') = SOk h -> sg_sign s h = Some sig ->
  has_flag c F_FORKID = true -> after_genesis c = true ->
  (has_flag c F_CLEANSTACK = true -> has_flag c F_BIP16 = true) ->
  (lenZ lock <= max_script_size c)%Z ->
  oracle_accepts_signer orc c s h ->
  exists t' inp', fill_input (Some s) t idx ht = SgOk t' /\ nthN (tx_ins t') idx = Some inp' /\
    in_script inp' = Some lock /\ in_sats inp' = in_sats inp /\ in_seq inp' = in_seq inp /\
    fst (engine_execute (mk_sigops orc (engine_tx t' idx (in_unlock inp') lock (in_sats inp')) idx)
           (mkExecInput (in_unlock inp') lock flags true true (Z.of_N (tx_lock t')) (Z.of_N (tx_version t'))
                        (Z.of_N (in_seq inp')))) = VOk.
Proof. exact InscribeAccept.inscription_input_signed_and_accepted_genesis. Qed.
Print Assumptions C04_inscription_input_signed_and_accepted_genesis.

(** (B) the OP_RETURN-tailed template.  With a non-empty EnrichedArgs.OpReturnData, Inscribe builds
    p2pkh, envelope, OP_RETURN, push(item)... = [lock_e pkh (ord_body ct data) tail] *)
Theorem C04_inscribe_script_is_enriched_lock : forall pkh ct data d dd s,
  Inscription.inscribe_script (p2pkh_lock pkh) ct data (Some (d :: dd)) = Some s ->
  s = p2pkh_lock pkh ++ inscription_suffix (SignAcceptAll.ord_body ct data) ++
      x6a :: InscriptionProofs.toks_bytes (map InscriptionProofs.push_tok (d :: dd)).
Proof. exact InscribeAccept.inscribe_script_is_lock_e. Qed.
Print Assumptions C04_inscribe_script_is_enriched_lock.

(** the acceptance theorem for that template, for EVERY byte string behind the OP_RETURN: after Genesis the
    top-level OP_RETURN ends the script successfully with OP_CHECKSIG's [true] on the stack; what follows is one
    "Unformatted Data" operation that is never executed; the script code hashed is the whole locking script *)
Theorem C04_signed_inscription_enriched_accepts : forall (orc : sig_oracle) (t : tx) (idx : N) (inp : input) (flags sats ht : N)
    (sig pk body tail : bytes) (bops : list pop) (h : bytes),
  let full := sig ++ [n2b ht] in
  let unlock := p2pkh_unlock sig ht pk in
  let lock := p2pkh_lock (hash160 pk) ++ inscription_suffix body ++ x6a :: tail in
  let tE := engine_tx t idx unlock lock sats in
  let c := mkCtx (normalise_flags flags) true (Z.of_N (tx_lock t)) (Z.of_N (tx_version t)) (Z.of_N (in_seq inp)) false in
  ht < 256 -> length pk = 33%nat -> (length full <= 75)%nat ->
  (has_flag c F_MINIMALDATA = true -> sig <> []) ->
  (has_flag c F_CLEANSTACK = true -> has_flag c F_BIP16 = true) ->
  (lenZ lock <= max_script_size c)%Z ->
  after_genesis c = true ->
  parse_ops (length body) false body 1 = Some bops -> is_push_only bops = true ->
  Forall (fun p => (lenZ (p_data p) <= max_elem c)%Z) bops ->
  check_hash_type c ht = true -> check_sig_enc c sig = EncOk -> check_pubkey_enc c pk = true ->
  (has_flag c F_FORKID && flag_has ht sh_forkid = true \/
   forall l, parse_script false lock = Some l -> strip_sig l full = l) ->
  sighash_for tE idx lock ht = SOk h ->
  orc_parse_pub orc pk = true -> orc_parse_sig orc (uses_der_parser c) sig = true ->
  orc_verify orc pk h sig (uses_der_parser c) = Some true ->
  fst (engine_execute (mk_sigops orc tE idx)
         (mkExecInput unlock lock flags true true (Z.of_N (tx_lock t)) (Z.of_N (tx_version t)) (Z.of_N (in_seq inp)))) = VOk.
Proof. exact InscribeAccept.signed_inscription_enriched_accepts. Qed.
Print Assumptions C04_signed_inscription_enriched_accepts.

(** end to end: an input spending what Inscribe built WITH OP_RETURN data for the signing key's hash, signed by
    FillInput with a standard FORKID type, IS filled and, after Genesis, accepted - nothing assumed about content
    type, payload or OP_RETURN items beyond Inscribe having accepted them *)
Theorem C04_inscription_enriched_input_signed_and_accepted : forall (orc : sig_oracle) (s : signer) (t : tx) (idx : N)
    (inp : input) (flags ht : N) (ct data d : bytes) (dd : list bytes) (lock h sig : bytes),
  let ht' := default_type ht in
  let pk := sg_pub s in
  let c := mkCtx (normalise_flags flags) true (Z.of_N (tx_lock t)) (Z.of_N (tx_version t)) (Z.of_N (in_seq inp)) false in
  wf_tx t -> idx + 1 < two32 -> In ht' [0x41; 0x42; 0x43; 0xc1; 0xc2; 0xc3] ->
  nthN (tx_ins t) idx = Some inp ->
  Inscription.inscribe_script (p2pkh_lock (hash160 pk)) ct data (Some (d :: dd)) = Some lock -> in_script inp = Some lock ->
  signer_ok s ->
  fst (calc_input_signature_hash t idx ht') = SOk h -> sg_sign s h = Some sig ->
  has_flag c F_FORKID = true -> after_genesis c = true ->
  (has_flag c F_CLEANSTACK = true -> has_flag c F_BIP16 = true) ->
  (lenZ lock <= max_script_size c)%Z ->
  oracle_accepts_signer orc c s h ->
  exists t' inp', fill_input (Some s) t idx ht = SgOk t' /\ nthN (tx_ins t') idx = Some inp' /\
    in_script inp' = Some lock /\ in_sats inp' = in_sats inp /\ in_seq inp' = in_seq inp /\
    fst (engine_execute (mk_sigops orc (engine_tx t' idx (in_unlock inp') lock (in_sats inp')) idx)
           (mkExecInput (in_unlock inp') lock flags true true (Z.of_N (tx_lock t')) (Z.of_N (tx_version t'))
                        (Z.of_N (in_seq inp')))) = VOk.
Proof. exact InscribeAccept.inscription_enriched_input_signed_and_accepted. Qed.
Print Assumptions C04_inscription_enriched_input_signed_and_accepted.

(** the self-signed form (as [C04_self_signed_input_accepted_forkid]) for every Inscribe output: no tail, empty
    OpReturnData, or OP_RETURN data *)
Theorem C04_self_signed_inscribed_input_accepted : forall (orc : sig_oracle) (s : signer) (A : tx) (idx : N) (inp : input)
    (flags ht : N) (ct data : bytes) (enriched : option (list bytes)) (lock : bytes),
  let ht' := default_type ht in
  let pk := sg_pub s in
  let c := mkCtx (normalise_flags flags) true (Z.of_N (tx_lock A)) (Z.of_N (tx_version A)) (Z.of_N (in_seq inp)) false in
  wf_tx A -> idx + 1 < two32 -> In ht' [0x41; 0x42; 0x43; 0xc1; 0xc2; 0xc3] ->
  nthN (tx_ins A) idx = Some inp ->
  Inscription.inscribe_script (p2pkh_lock (hash160 pk)) ct data enriched = Some lock -> in_script inp = Some lock ->
  signer_ok s ->
  unlocking_script s A idx ht = SgOk (in_unlock inp) ->
  has_flag c F_FORKID = true -> after_genesis c = true ->
  (has_flag c F_CLEANSTACK = true -> has_flag c F_BIP16 = true) ->
  (lenZ lock <= max_script_size c)%Z ->
  (forall h, fst (calc_input_signature_hash A idx ht') = SOk h -> oracle_accepts_signer orc c s h) ->
  fst (engine_execute (mk_sigops orc (engine_tx A idx (in_unlock inp) lock (in_sats inp)) idx)
         (mkExecInput (in_unlock inp) lock flags true true (Z.of_N (tx_lock A)) (Z.of_N (tx_version A))
                      (Z.of_N (in_seq inp)))) = VOk.
Proof. exact InscribeAccept.self_signed_inscribed_input_accepted. Qed.
Print Assumptions C04_self_signed_inscribed_input_accepted.

(** non-vacuity: the parser on the envelope body at every boundary payload length (0, 1, 75, 76, 255, 256, 65535,
    65536); an enriched inscription output signed through FillInput and run through the interpreter model: accepted
    after Genesis, rejected before (OP_RETURN is an error there); the hypotheses of the enriched theorem hold on it *)
Example C04_inscribe_body_boundary_lengths :
  forallb (fun n => match parse_ops (length (SignAcceptAll.ord_body InscribeAccept.ex_ct (repeat_byte n x41))) false
                            (SignAcceptAll.ord_body InscribeAccept.ex_ct (repeat_byte n x41)) 1 with
                    | Some ops => is_push_only ops && Nat.eqb (length ops) 5
                    | None => false end)
          [0; 1; 75; 76; 255; 256]%nat = true.
Proof. vm_compute. reflexivity. Qed.
Example C04_enriched_direct_evaluation :
  InscribeAccept.ex_lock_e <> [] /\
  match fill_input (Some ex_signer) InscribeAccept.ex_tx_e 0 0 with
  | SgOk t' =>
      match tx_ins t' with
      | i :: _ =>
          fst (engine_execute (mk_sigops ex_orc (engine_tx t' 0 (in_unlock i) InscribeAccept.ex_lock_e 1) 0)
                 (mkExecInput (in_unlock i) InscribeAccept.ex_lock_e FLAGS_FORKID_GENESIS true true 0 1 4294967295)) = VOk /\
          fst (engine_execute (mk_sigops ex_orc (engine_tx t' 0 (in_unlock i) InscribeAccept.ex_lock_e 1) 0)
                 (mkExecInput (in_unlock i) InscribeAccept.ex_lock_e (2 ^ 11) true true 0 1 4294967295)) = VErr
      | [] => False
      end
  | _ => False
  end.
Proof. exact InscribeAccept.enriched_direct_evaluation. Qed.
Example C04_inscription_enriched_hypotheses_satisfiable :
  let c := mkCtx (normalise_flags FLAGS_FORKID_GENESIS) true 0 1 4294967295 false in
  wf_tx InscribeAccept.ex_tx_e /\ nthN (tx_ins InscribeAccept.ex_tx_e) 0 = Some InscribeAccept.ex_inp_e /\
  Inscription.inscribe_script (p2pkh_lock (hash160 (sg_pub ex_signer))) InscribeAccept.ex_ct [x68; x69]
    (Some InscribeAccept.ex_op_return) = Some InscribeAccept.ex_lock_e /\
  in_script InscribeAccept.ex_inp_e = Some InscribeAccept.ex_lock_e /\ signer_ok ex_signer /\
  (exists h, fst (calc_input_signature_hash InscribeAccept.ex_tx_e 0 65) = SOk h /\ sg_sign ex_signer h = Some ex_sig /\
             oracle_accepts_signer ex_orc c ex_signer h) /\
  has_flag c F_FORKID = true /\ after_genesis c = true /\
  (has_flag c F_CLEANSTACK = true -> has_flag c F_BIP16 = true) /\ (lenZ InscribeAccept.ex_lock_e <= max_script_size c)%Z.
Proof. exact InscribeAccept.inscription_enriched_hypotheses_satisfiable. Qed.

(** ** Call paths (round 7).  The same transaction, input and spent output can reach Engine.Execute in several ways:
    locking / unlocking script inside the previous output / the input, through WithScripts only, or both; the caller's
    object recording nothing, the right or a stale previous output.  model/EngineCall.v models the full call
    (WithScripts + WithTx over a previous output whose script may be nil, thread.apply's write of script and value into
    the caller's object); the verdict is the canonical call's on every path. *)
From GoBT Require model.EngineCall proofs.EngineCallProofs.
Theorem C04_call_verdict_path_independent : forall (orc : CheckSig.sig_oracle) t i inp lock sats flags lv uv rec,
  SigHash.nthN (Tx.tx_ins t) i = Some inp -> uv <> EngineCall.ViaScripts ->
  EngineCall.call_verdict (CheckSig.mk_sigops orc) (EngineCall.call_for t i lock (Tx.in_unlock inp) sats flags lv uv rec) =
  fst (Interp.engine_execute (CheckSig.mk_sigops orc (CheckSig.engine_tx t i (Tx.in_unlock inp) lock sats) i)
         (Interp.mkExecInput (Tx.in_unlock inp) lock flags true true (Z.of_N (Tx.tx_lock t)) (Z.of_N (Tx.tx_version t))
                      (Z.of_N (Tx.in_seq inp)))).
Proof. exact EngineCallProofs.call_verdict_path_independent. Qed.
Print Assumptions C04_call_verdict_path_independent.
Theorem C04_call_verdict_scripts_only : forall (orc : CheckSig.sig_oracle) t i inp lock sats flags lv rec,
  SigHash.nthN (Tx.tx_ins t) i = Some inp ->
  EngineCall.call_verdict (CheckSig.mk_sigops orc)
    (EngineCall.call_for t i lock (Tx.in_unlock inp) sats flags lv EngineCall.ViaScripts rec) =
  fst (Interp.engine_execute (CheckSig.mk_sigops orc (CheckSig.engine_tx t i nil lock sats) i)
         (Interp.mkExecInput (Tx.in_unlock inp) lock flags true true (Z.of_N (Tx.tx_lock t)) (Z.of_N (Tx.tx_version t))
                      (Z.of_N (Tx.in_seq inp)))).
Proof. exact EngineCallProofs.call_verdict_path_independent_scripts_only. Qed.
Print Assumptions C04_call_verdict_scripts_only.
Theorem C04_signed_p2pkh_accepts_on_every_call_path : forall orc t idx inp flags sats ht sig pk body insc bops h lv uv rec,
  P2PKHProofs.p2pkh_hyps orc t idx inp flags sats ht sig pk body insc bops h ->
  SigHash.nthN (Tx.tx_ins t) idx = Some inp -> Tx.in_unlock inp = P2PKHProofs.p2pkh_unlock sig ht pk ->
  uv <> EngineCall.ViaScripts ->
  EngineCall.call_verdict (CheckSig.mk_sigops orc)
    (EngineCall.call_for t idx
       (P2PKHProofs.p2pkh_lock (Ripemd160.hash160 pk) ++ (if insc then P2PKHProofs.inscription_suffix body else nil))%list
       (P2PKHProofs.p2pkh_unlock sig ht pk) sats flags lv uv rec) = Interp.VOk.
Proof. exact EngineCallProofs.signed_p2pkh_accepts_on_every_call_path. Qed.
Print Assumptions C04_signed_p2pkh_accepts_on_every_call_path.
Theorem C04_recorded_previous_output_is_overwritten : forall t i uv rec p,
  EngineCall.record_prevout (EngineCall.object_for t i uv rec) i p = EngineCall.object_for t i uv p.
Proof. exact EngineCallProofs.record_overwrites. Qed.
Print Assumptions C04_recorded_previous_output_is_overwritten.
