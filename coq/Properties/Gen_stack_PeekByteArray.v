(** Export: the Go source of stack.PeekByteArray, as printed into gen/Funcs.v on every run, has the meaning the interpreter
    model gives it (proofs/GenFuncs_stack_PeekByteArray.v).  Compiled only while gen/Funcs.status.json says the function is translated. *)
From Coq Require Import List ZArith NArith Bool.
From Coq Require Import Strings.Byte.
From GoBT Require Import lib.Bytes lib.GoSem lib.GoInterp gen.Funcs proofs.GenFuncsTac proofs.GenFuncsInterpTac proofs.GenFuncs_stack_PeekByteArray.
From GoBT Require model.Interp model.ScriptNum.
Import ListNotations.
Local Open Scope Z_scope.

Theorem C05_go_source_stack_PeekByteArray_is_model : forall (i : Z) (d : list bytes), Interp.lenZ d < 2147483648 -> in31 i ->
  stack_PeekByteArray i (rev d) = Val (peek_model i d).
Proof. exact stack_PeekByteArray_spec. Qed.
Print Assumptions C05_go_source_stack_PeekByteArray_is_model.

Theorem C08_go_source_stack_PeekByteArray_is_model : forall (i : Z) (d : list bytes), Interp.lenZ d < 2147483648 -> in31 i ->
  stack_PeekByteArray i (rev d) = Val (peek_model i d).
Proof. exact stack_PeekByteArray_spec. Qed.
Print Assumptions C08_go_source_stack_PeekByteArray_is_model.
