(** Export: the Go source of Script.IsP2PK, as printed into gen/Funcs.v on every run, is the model function the
    property theorems are about (proofs/GenFuncs_Script_IsP2PK.v).  Compiled only while gen/Funcs.status.json says the
    function is translated. The printed function calls the printed DecodeParts; the outcome includes the panic case (the function indexes the decoded parts). *)
From Coq Require Import List ZArith NArith Bool.
From Coq Require Import Strings.Byte.
From GoBT Require Import lib.Bytes lib.GoSem lib.GoTx gen.Funcs proofs.GenFuncsTac proofs.GenFuncs_Script_IsP2PK.
Local Open Scope Z_scope.

Theorem C14_go_source_Script_IsP2PK_is_model :
  forall b : bytes, to_outcome (Script_IsP2PK b) = GoBT.model.Classify.is_p2pk b.
Proof. exact Script_IsP2PK_is_model. Qed.
Print Assumptions C14_go_source_Script_IsP2PK_is_model.
