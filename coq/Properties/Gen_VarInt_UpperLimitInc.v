(** Export: the Go source of VarInt.UpperLimitInc, as printed into gen/Funcs.v on every run, is the model function the
    property theorems are about (proofs/GenFuncs_VarInt_UpperLimitInc.v).  Compiled only while gen/Funcs.status.json says the
    function is translated. *)
From Coq Require Import List ZArith NArith Bool.
From Coq Require Import Strings.Byte.
From GoBT Require Import lib.Bytes lib.GoSem gen.Funcs proofs.GenFuncsTac proofs.GenFuncs_VarInt_UpperLimitInc.
From GoBT Require Import lib.VarInt.
Local Open Scope Z_scope.

Theorem C10_go_source_VarInt_UpperLimitInc_is_model :
  forall v : N, (v < 18446744073709551616)%N -> VarInt_UpperLimitInc (Z.of_N v) = Val (upper_limit_inc v).
Proof. exact VarInt_UpperLimitInc_is_model. Qed.
Print Assumptions C10_go_source_VarInt_UpperLimitInc_is_model.

Theorem C11_go_source_VarInt_UpperLimitInc_is_model :
  forall v : N, (v < 18446744073709551616)%N -> VarInt_UpperLimitInc (Z.of_N v) = Val (upper_limit_inc v).
Proof. exact VarInt_UpperLimitInc_is_model. Qed.
Print Assumptions C11_go_source_VarInt_UpperLimitInc_is_model.
