(** C13 — Script codecs round-trip: push data, opcode parse/unparse, hex, JSON, ASM.
    Only statements, [exact], [Print Assumptions], and examples showing the hypotheses are satisfiable.
    Models: model/Push.v (bscript/oppushdata.go), model/Parser.v (interpreter/opcodeparser.go, over
    the generated gen/OpTable.v), model/Asm.v (bscript/script.go, over the generated gen/OpNames.v).
    Specification of the push grammar: spec/PushSpec.v.  No bound on script or item sizes. *)
From Coq Require Import List NArith ZArith String.
From Coq Require Import Strings.Byte.
From GoBT Require Import lib.Bytes lib.Hex lib.Checked gen.OpNames gen.OpTable model.Push model.Parser model.Asm
  spec.PushSpec spec.TemplateSpec spec.CondDepthSpec proofs.PushProofs proofs.ParserProofs proofs.TokenProofs proofs.AsmProofs proofs.AuditD13
  proofs.CondDepthProofs proofs.ShapedD13.
Import ListNotations.
Local Open Scope N_scope.

(** EncodeParts then DecodeParts returns the items (non-empty, below 2^32 bytes each) *)
Theorem C13_decode_encode_parts : forall items, Forall item_ok items ->
  exists e, encode_parts items = Some e /\ decode_parts e = DOk items.
Proof. exact decode_encode_parts. Qed.
Print Assumptions C13_decode_encode_parts.

(** ... also in front of any following script bytes *)
Theorem C13_decode_encode_parts_app : forall items e rest, Forall item_ok items -> encode_parts items = Some e ->
  decode_parts (e ++ rest) = fold_right dcons (decode_parts rest) items.
Proof. exact decode_encode_parts_app. Qed.
Print Assumptions C13_decode_encode_parts_app.

(** PushDataPrefix is a push header for the data's length, and no header of the grammar is shorter;
    it refuses exactly the data of 2^32 bytes or more *)
Theorem C13_push_prefix_shortest : forall data pfx, push_data_prefix data = Some pfx -> 1 <= lenN data ->
  shortest_header pfx (lenN data).
Proof. exact push_prefix_shortest. Qed.
Print Assumptions C13_push_prefix_shortest.
Theorem C13_push_prefix_refuses : forall data, push_data_prefix data = None <-> 4294967296 <= lenN data.
Proof. exact push_prefix_none_iff. Qed.
Print Assumptions C13_push_prefix_refuses.

(** the opcode table generated from operations.go is the push grammar (index = value; length field
    n+1 for OP_DATA_n, -1/-2/-4 for OP_PUSHDATA1/2/4, 1 otherwise): 256 rows, by computation *)
Theorem C13_op_table_is_push_grammar : forall op, op < 256 ->
  entry_val (op_entry op) = op /\ op_length op = expected_len op.
Proof. exact op_table_spec. Qed.
Print Assumptions C13_op_table_is_push_grammar.

(** both tokenisers are total: no panic on any byte string, and the model's fuel never runs out *)
Theorem C13_decode_parts_total : forall b, decode_parts b <> DPanic /\ decode_parts b <> DFuel.
Proof. exact decode_parts_total. Qed.
Print Assumptions C13_decode_parts_total.
Theorem C13_parse_total : forall eocs s, parse eocs s <> Panic /\ parse eocs s <> Fuel.
Proof. exact parse_total. Qed.
Print Assumptions C13_parse_total.

(** Unparse (Parse s) = s for EVERY byte string Parse accepts — including the data after a
    top-level OP_RETURN, with or without ErrorOnCheckSig *)
Theorem C13_unparse_parse : forall eocs s ops, parse eocs s = Ok ops -> unparse ops = Ok s.
Proof. exact unparse_parse. Qed.
Print Assumptions C13_unparse_parse.

(** on scripts without an OP_RETURN opcode at a token boundary the two tokenisers return the same
    verdict and the same tokens *)
Theorem C13_tokenisers_agree : forall s, ~ op_return_at_boundary s -> agree s.
Proof. exact tokenisers_agree. Qed.
Print Assumptions C13_tokenisers_agree.

(** a truncated push after any well-formed OP_RETURN-free prefix is an error for DecodeParts and for
    Parse (either parser option, any conditional depth) *)
Theorem C13_truncated_push_rejected : forall pre t, tokens_no_return pre -> truncated_push t ->
  dres_ok (decode_parts (pre ++ t)) = false /\ forall eocs cb, parse_from eocs cb (pre ++ t) = Err.
Proof. exact truncated_push_rejected. Qed.
Print Assumptions C13_truncated_push_rejected.

(** hex and JSON renderings of any script convert back to it *)
Theorem C13_hex_roundtrip : forall s, new_from_hex (script_string s) = Ok s.
Proof. exact hex_roundtrip. Qed.
Print Assumptions C13_hex_roundtrip.
Theorem C13_json_roundtrip : forall s, unmarshal_json (marshal_json s) = Ok s.
Proof. exact json_roundtrip. Qed.
Print Assumptions C13_json_roundtrip.

(** the two name tables generated from opcodes.go: opCodeStrings[opCodeValues[b]] = b, all 256 bytes *)
Theorem C13_opname_tables_inverse : forall b, b < 256 -> op_value (op_name b) = Some b.
Proof. exact opname_tables_inverse. Qed.
Print Assumptions C13_opname_tables_inverse.

(** ASM: non-data script of non-push opcodes and minimal pushes of two bytes or more *)
Theorem C13_asm_roundtrip : forall s, asm_domain s -> exists a, to_asm s = Ok a /\ new_from_asm a = Ok s.
Proof. exact asm_roundtrip. Qed.
Print Assumptions C13_asm_roundtrip.

(** MinPushSize is the encoded size for data of two bytes or more *)
Theorem C13_min_push_size : forall data pfx, 2 <= lenN data -> push_data_prefix data = Some pfx ->
  min_push_size data = lenN pfx + lenN data.
Proof. exact min_push_size_spec. Qed.
Print Assumptions C13_min_push_size.

(** ** non-vacuity and sharpness of the hypotheses *)
Definition p2pkh_ex : bytes := [x76; xa9; x14] ++ repeat_byte 20 x6a ++ [x88; xac].

Example C13_items_satisfiable : Forall item_ok [[x01]; repeat_byte 75 xaa; repeat_byte 76 xbb; repeat_byte 256 xcc].
Proof. repeat constructor; vm_compute; congruence. Qed.

(** a P2PKH script (no byte 0x6a in it) meets the hypothesis of the agreement theorem; so does a
    script with 0x6a inside push data *)
Definition p2pkh_ex2 : bytes := [x76; xa9; x14] ++ repeat_byte 20 x11 ++ [x88; xac].
Example C13_agree_hypothesis_satisfiable : ~ op_return_at_boundary p2pkh_ex2 /\ agree p2pkh_ex2.
Proof.
  split; [|vm_compute; reflexivity].
  apply no_6a_no_return. intros H. cbn in H. repeat (destruct H as [H|H]; [discriminate H|]). exact H.
Qed.
Example C13_agree_6a_inside_push : ~ op_return_at_boundary [x01; x6a] /\ agree [x01; x6a].
Proof.
  split; [|vm_compute; reflexivity].
  intros H. inversion H as [r E|b r Hb Hr E|hdr data r Hh Hr E]; subst; clear H.
  { destruct Hb as [C|C]; vm_compute in C; congruence. }
  inversion Hh as [n Hn E1 E2|n Hn E1 E2|n Hn E1 E2|n Hn E1 E2]; subst n; rewrite <- E1 in E; cbn [app] in E;
    injection E as E0 Er; try discriminate E0.
  assert (lenN data = 1) as L.
  { apply (f_equal b2n) in E0. rewrite b2n_n2b_small in E0; [exact E0|].
    destruct Hn as [_ Hn]. apply N.le_lt_trans with 75; [exact Hn|reflexivity]. }
  destruct data as [|d [|d2 data]]; [discriminate L| |discriminate Er]. cbn [app] in Er. injection Er as _ Er. subst r.
  inversion Hr as [r E|b r Hb Hr' E|hdr' data' r Hh' Hr' E].
  destruct (push_header_first _ _ Hh') as (h0 & htl & -> & _). discriminate E.
Qed.

(** ... while after an OP_RETURN opcode the tokenisers really differ (DecodeParts reads on and
    fails on the truncated push, Parse stops): the exclusion in the statement is needed *)
Example C13_tokenisers_differ_after_op_return :
  op_return_at_boundary [x6a; x4c] /\ dres_ok (decode_parts [x6a; x4c]) = false /\
  parse false [x6a; x4c] = Ok [mkPop 106 [] 1 false; mkPop 76 [] 1 true].
Proof. split; [constructor|split; vm_compute; reflexivity]. Qed.

Example C13_truncated_hypotheses_satisfiable :
  tokens_no_return [x76; x02; xab; xcd] /\ truncated_push [x4d; x05] /\ truncated_push [x03; x01].
Proof.
  split; [|split].
  - apply tnr_op; [right; vm_compute; reflexivity|discriminate|].
    apply (tnr_push [x02] [xab; xcd] []); [apply (ph_direct 2); vm_compute; split; congruence|constructor].
  - exists [x4d; x05; x00], [x01; x02; x03; x04; x05], [x00; x01; x02; x03; x04; x05]. repeat split; try discriminate.
    apply (ph_pd2 5). reflexivity.
  - exists [x03], [x01; x02; x03], [x02; x03]. repeat split; try discriminate.
    apply (ph_direct 3). vm_compute; split; congruence.
Qed.

Example C13_asm_domain_satisfiable : asm_domain p2pkh_ex.
Proof.
  split; [|reflexivity]. unfold p2pkh_ex.
  apply (ats_cons [x76]); [apply at_op; right; vm_compute; reflexivity|].
  apply (ats_cons [xa9]); [apply at_op; right; vm_compute; reflexivity|].
  change (x14 :: repeat_byte 20 x6a ++ [x88; xac]) with (([x14] ++ repeat_byte 20 x6a) ++ [x88; xac]).
  apply ats_cons.
  - apply at_push; [vm_compute; congruence|].
    apply (push_prefix_shortest (repeat_byte 20 x6a) [x14]); [reflexivity|vm_compute; congruence].
  - apply (ats_cons [x88]); [apply at_op; right; vm_compute; reflexivity|].
    apply (ats_cons [xac] []); [apply at_op; right; vm_compute; reflexivity|constructor].
Qed.

(** outside the domain the ASM round trip fails: a one-byte push is rendered as an opcode name, a
    zero-length push as the empty string *)
Example C13_asm_domain_is_sharp :
  (exists a, to_asm [x01; x51] = Ok a /\ new_from_asm a = Ok [x51]) /\
  (exists a, to_asm [x4c; x00] = Ok a /\ new_from_asm a = Ok []).
Proof.
  split.
  - exists "OP_TRUE"%string. split; vm_compute; reflexivity.
  - exists EmptyString. split; vm_compute; reflexivity.
Qed.

(** ** which byte strings are accepted (audit D) *)

(** DecodeParts returns without error on exactly the byte strings that are sequences of complete
    tokens of the push grammar ([tokens], spec/TemplateSpec.v: one-byte opcodes and headers followed
    by as many bytes as they announce) - so "rejected" means "not well-formed" and nothing else *)
Theorem C13_decode_accepts_iff_wellformed : forall s, dres_ok (decode_parts s) = true <-> tokens s.
Proof. exact decode_ok_iff_tokens. Qed.
Print Assumptions C13_decode_accepts_iff_wellformed.

(** every byte string is well-formed, or a well-formed prefix followed by a push cut short: the two
    outcomes of the decoders are the only two cases of the grammar *)
Theorem C13_wellformed_or_truncated : forall s,
  tokens s \/ exists pre t, s = pre ++ t /\ tokens pre /\ truncated_push t.
Proof. exact tokens_or_truncated. Qed.
Print Assumptions C13_wellformed_or_truncated.

(** Parse (without ErrorOnCheckSig) accepts every well-formed script, at any conditional depth; hence
    Unparse (Parse s) = s for EVERY well-formed s (the hypothesis of [C13_unparse_parse] is met) *)
Theorem C13_parse_accepts_wellformed : forall s, tokens s -> forall cb, exists ops, parse_from false cb s = Ok ops.
Proof. exact parse_accepts_tokens. Qed.
Print Assumptions C13_parse_accepts_wellformed.
Theorem C13_parse_unparse_wellformed : forall s, tokens s ->
  exists ops, parse false s = Ok ops /\ unparse ops = Ok s.
Proof. exact parse_unparse_wellformed. Qed.
Print Assumptions C13_parse_unparse_wellformed.

(** DecodeParts rejects a truncated push after ANY well-formed prefix, one with OP_RETURN included
    (DecodeParts does not stop at OP_RETURN) *)
Theorem C13_truncated_push_rejected_decode : forall pre t, tokens pre -> truncated_push t ->
  dres_ok (decode_parts (pre ++ t)) = false.
Proof. exact truncated_push_rejected_decode. Qed.
Print Assumptions C13_truncated_push_rejected_decode.

(** the third decoder: the text ToASM returns for a script DecodeParts rejects ends in "[error]" *)
Theorem C13_to_asm_marks_undecodable : forall s, dres_ok (decode_parts s) = false ->
  exists pre, to_asm s = Ok (pre ++ "[error]")%string.
Proof. exact to_asm_marks_undecodable. Qed.
Print Assumptions C13_to_asm_marks_undecodable.

Example C13_to_asm_marks_example : to_asm [x76; x4c] = Ok "OP_DUP [error]"%string /\ tokens p2pkh_ex2.
Proof. split; [vm_compute; reflexivity|]. apply decode_ok_iff_tokens. vm_compute. reflexivity. Qed.

(** ** template-SHAPED scripts (proofs/ShapedD13.v): no short cut keyed on a script's length and first bytes.

    What DecodeParts makes of the bytes behind a well-formed head is what it makes of those bytes alone: the head
    contributes its own tokens and nothing else, whatever its length and shape *)
Theorem C13_decode_head_independent : forall pre, tokens pre ->
  exists l, forall rest, decode_parts (pre ++ rest) = fold_right dcons (decode_parts rest) l.
Proof. exact decode_head_independent. Qed.
Print Assumptions C13_decode_head_independent.

(** OP_DUP OP_HASH160 <20 bytes> followed by ANY bytes - two of them make the 25 bytes of a P2PKH script - is DUP,
    HASH160, the hash, and then those bytes read by the grammar; when they are a push cut short, DecodeParts reports
    an error and ToASM ends in [error] *)
Theorem C13_p2pkh_shaped_decode : forall (h rest : bytes), List.length h = 20%nat ->
  decode_parts ([x76; xa9; x14] ++ h ++ rest) = dcons [x76] (dcons [xa9] (dcons h (decode_parts rest))).
Proof. exact p2pkh_shaped_decode. Qed.
Print Assumptions C13_p2pkh_shaped_decode.
Theorem C13_p2pkh_shaped_truncated_tail : forall (h t : bytes), List.length h = 20%nat -> truncated_push t ->
  dres_ok (decode_parts ([x76; xa9; x14] ++ h ++ t)) = false /\
  exists pre, to_asm ([x76; xa9; x14] ++ h ++ t) = Ok (pre ++ "[error]")%string.
Proof. exact p2pkh_shaped_truncated_tail. Qed.
Print Assumptions C13_p2pkh_shaped_truncated_tail.

(** the two tokenisers agree on any OP_RETURN-free head followed by any bytes without an OP_RETURN at a token
    boundary - in particular on every script with the head of a P2PKH script, of any length *)
Theorem C13_shaped_tail_agree : forall pre rest, tokens_no_return pre -> ~ op_return_at_boundary rest ->
  agree (pre ++ rest).
Proof. exact shaped_tail_agree. Qed.
Print Assumptions C13_shaped_tail_agree.
Theorem C13_p2pkh_shaped_agree : forall (h rest : bytes), List.length h = 20%nat -> ~ op_return_at_boundary rest ->
  agree ([x76; xa9; x14] ++ h ++ rest).
Proof. exact p2pkh_shaped_agree. Qed.
Print Assumptions C13_p2pkh_shaped_agree.

(** 25-byte scripts with the head of a P2PKH script whose last two bytes are not OP_EQUALVERIFY OP_CHECKSIG: a
    PUSHDATA1 opcode alone at the end is a truncated push (error, [error] marker); 01 ac is ONE push of one byte
    for both tokenisers, not two opcodes *)
Example C13_p2pkh_shaped_examples :
  truncated_push [x4c] /\
  dres_ok (decode_parts ([x76; xa9; x14] ++ repeat_byte 20 x11 ++ [x88; x4c])) = false /\
  parse false ([x76; xa9; x14] ++ repeat_byte 20 x11 ++ [x88; x4c]) = Err /\
  decode_parts ([x76; xa9; x14] ++ repeat_byte 20 x11 ++ [x01; xac]) = DOk [[x76]; [xa9]; repeat_byte 20 x11; [xac]] /\
  agree ([x76; xa9; x14] ++ repeat_byte 20 x11 ++ [x01; xac]) /\
  ~ op_return_at_boundary [x01; xac].
Proof.
  split; [|split; [|split; [|split; [|split]]]]; try (vm_compute; reflexivity).
  - exists [x4c; x01], [x00], [x01; x00]. repeat split; try discriminate. apply (ph_pd1 1). reflexivity.
  - apply no_6a_no_return. cbn. intros [H|[H|[]]]; discriminate.
Qed.

(** Conditional depth (spec/CondDepthSpec.v): only OP_IF / OP_NOTIF open a block and only OP_ENDIF closes one - not
    OP_ELSE, OP_VERIF, OP_VERNOTIF, nor bytes inside push data.  After ANY token sequence that leaves that depth at 0
    an OP_RETURN ends the parse whatever bytes follow (they need not be pushes): the result is the prefix's opcodes,
    OP_RETURN and one unformatted token, and Unparse returns the script. *)
Theorem C13_parse_stops_at_top_level_return : forall d pre, walk d pre 0%Z -> forall tail,
  exists ops, parse_from false d pre = Ok ops /\
              parse_from false d (pre ++ x6a :: tail) = Ok (ops ++ stop_ops tail) /\
              unparse (ops ++ stop_ops tail) = Ok (pre ++ x6a :: tail).
Proof. exact parse_stops_at_top_level_return. Qed.
Print Assumptions C13_parse_stops_at_top_level_return.

(** at any other depth (inside a block, or below zero after a stray OP_ENDIF) the OP_RETURN is an ordinary opcode: a
    truncated push behind it is an error, with or without ErrorOnCheckSig *)
Theorem C13_parse_nested_return_is_an_opcode : forall d pre d' mid t, walk d pre d' -> d' <> 0%Z ->
  tokens_no_return mid -> truncated_push t ->
  forall eocs, parse_from eocs d (pre ++ x6a :: mid ++ t) = Err.
Proof. exact parse_nested_return_is_an_opcode. Qed.
Print Assumptions C13_parse_nested_return_is_an_opcode.

(** the hypotheses are satisfiable, and OP_VERIF / OP_VERNOTIF / OP_ELSE / push data do not move the depth *)
Example C13_depth_unmoved_by_verif_vernotif_else : walk 0 [x65; x66; x67] 0 /\ walk 0 [x02; x63; x63] 0 /\
  walk 0 [x63; x6a; x67; x68; x68; x64] 0.
Proof. exact (conj walk_verif_vernotif_else (conj walk_push_of_if walk_balanced)). Qed.
Example C13_verif_then_return_then_blob :
  parse false [x65; x6a; x05] = Ok [mkPop 101 [] 1 false; mkPop 106 [] 1 false; mkPop 5 [] 1 true] /\
  parse false [x51; x65; x6a; x4d; x01] =
    Ok [mkPop 81 [] 1 false; mkPop 101 [] 1 false; mkPop 106 [] 1 false; mkPop 77 [x01] 2 true] /\
  parse false [x67; x6a; x4c] = Ok [mkPop 103 [] 1 false; mkPop 106 [] 1 false; mkPop 76 [] 1 true].
Proof. exact parse_verif_return_blob. Qed.
Example C13_nested_return_rejects_blob :
  parse false [x63; x6a; x05] = Err /\ parse false [x64; x6a; x4c] = Err /\ parse false [x68; x6a; x05] = Err /\
  walk 0 [x63] 1 /\ walk 0 [x68] (-1) /\ truncated_push [x05].
Proof. exact parse_nested_return_rejects. Qed.

(** State inventory (tie, translator part): every Go struct the model of this property represents has, in the
    source as it is NOW (gen/Structs.v, regenerated on every run), exactly the fields - names, types, order - the
    model was written against (model/StateInventory.v).  New state in these objects (a memoised digest, a cached
    document, a remembered operand) is state the theorems above do not speak about: this is the obligation that
    stops checking then. *)
From GoBT Require gen.Structs model.StateInventory.
Theorem C13_state_inventory :
  forall k, In k (StateInventory.group_of StateInventory.pC13) ->
  exists f, StateInventory.lookup_gen gen.Structs.structs k = Some f /\ StateInventory.lookup_model k = Some f.
Proof. apply StateInventory.inventory_ok_spec. vm_compute. reflexivity. Qed.
Print Assumptions C13_state_inventory.

(** Package-level state (tie, translator part): in the source as it is NOW (gen/Globals.v) no package-level variable of
    the packages this property's code lives in can change after initialisation or is handed out by reference - the
    model's functions are functions of their arguments only (model/StateInventory.v). *)
From GoBT Require gen.Globals.
Theorem C13_no_mutable_package_state :
  forall g, In g gen.Globals.globals -> In (StateInventory.rg_pkg g) (StateInventory.packages_of StateInventory.pC13) ->
  StateInventory.rg_mutated g = false /\ StateInventory.rg_escapes g = false.
Proof. apply StateInventory.pkg_state_ok_spec. vm_compute. reflexivity. Qed.
Print Assumptions C13_no_mutable_package_state.
