(** Export: the Go source of fromBool, as printed into gen/Funcs.v on every run, is the model function the
    property theorems are about (proofs/GenFuncs_fromBool.v).  Compiled only while gen/Funcs.status.json says the
    function is translated. *)
From Coq Require Import List ZArith NArith Bool.
From Coq Require Import Strings.Byte.
From GoBT Require Import lib.Bytes lib.GoSem gen.Funcs proofs.GenFuncsTac proofs.GenFuncs_fromBool.
Local Open Scope Z_scope.

Theorem C05_go_source_fromBool_is_model :
  forall v : bool, fromBool v = Val (GoBT.model.ScriptNum.from_bool v).
Proof. exact fromBool_is_model. Qed.
Print Assumptions C05_go_source_fromBool_is_model.
