(** Export: the Go source of Input.Bytes (input.go), as printed into gen/Funcs.v on every run, is the model function the
    property theorems are about (proofs/GenFuncs_Input_Bytes.v).  Go values are related to the model's records by the
    abstraction functions of proofs/GenFuncsTxTac.v; the hypotheses are the ranges of the Go types.  Compiled only
    while gen/Funcs.status.json says the function is translated. *)
From Coq Require Import List ZArith NArith Bool.
From Coq Require Import Strings.Byte.
From GoBT Require Import lib.Bytes lib.GoSem lib.GoTx gen.Funcs proofs.GenFuncsTxTac proofs.GenFuncs_Input_Bytes.
From GoBT Require Import model.Tx.
Import ListNotations.
Local Open Scope Z_scope.

(** every Go value: any txid length, a nil or non-nil unlocking script, cleared or not *)
Theorem C01_go_source_Input_Bytes_is_model :
  forall (clear : bool) (txid : bytes) (vout : Z) (us : option bytes) (sq : Z) (sats : N) (ps : option bytes),
  u32 vout -> u32 sq -> len_ok (script_of us) ->
  Input_Bytes clear txid vout us sq =
  Val (input_bytes false (mkInput txid (Z.to_N vout) (if clear then [] else script_of us) (Z.to_N sq) sats ps)).
Proof. exact Input_Bytes_is_model. Qed.
Print Assumptions C01_go_source_Input_Bytes_is_model.

Theorem C11_go_source_Input_Bytes_is_model :
  forall (clear : bool) (txid : bytes) (vout : Z) (us : option bytes) (sq : Z) (sats : N) (ps : option bytes),
  u32 vout -> u32 sq -> len_ok (script_of us) ->
  Input_Bytes clear txid vout us sq =
  Val (input_bytes false (mkInput txid (Z.to_N vout) (if clear then [] else script_of us) (Z.to_N sq) sats ps)).
Proof. exact Input_Bytes_is_model. Qed.
Print Assumptions C11_go_source_Input_Bytes_is_model.

