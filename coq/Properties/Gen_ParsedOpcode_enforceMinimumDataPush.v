(** Export: the Go source of ParsedOpcode.enforceMinimumDataPush, as printed into gen/Funcs.v on every run, is the model function the
    property theorems are about (proofs/GenFuncs_ParsedOpcode_enforceMinimumDataPush.v).  Compiled only while gen/Funcs.status.json says the
    function is translated. *)
From Coq Require Import List ZArith NArith Bool.
From Coq Require Import Strings.Byte.
From GoBT Require Import lib.Bytes lib.GoSem gen.Funcs proofs.GenFuncsTac proofs.GenFuncs_ParsedOpcode_enforceMinimumDataPush.
Local Open Scope Z_scope.

Theorem C05_go_source_ParsedOpcode_enforceMinimumDataPush_is_model :
  forall p : GoBT.model.Interp.pop, (GoBT.model.Interp.p_val p <= GoBT.model.Interp.OP_PUSHDATA4)%N ->
  ParsedOpcode_enforceMinimumDataPush (Z.of_N (GoBT.model.Interp.p_val p)) (GoBT.model.Interp.p_data p) = Val (negb (GoBT.model.Interp.minimal_push_ok p)).
Proof. exact ParsedOpcode_enforceMinimumDataPush_is_model. Qed.
Print Assumptions C05_go_source_ParsedOpcode_enforceMinimumDataPush_is_model.

Theorem C05_go_source_ParsedOpcode_enforceMinimumDataPush_gen_is_model :
  forall p : GoBT.model.Interp.pop, (GoBT.model.Interp.p_val p < 9223372036854775808)%N -> (GoBT.model.Interp.p_val p <> 79)%N -> ~ (81 <= GoBT.model.Interp.p_val p <= 96)%N ->
  ParsedOpcode_enforceMinimumDataPush (Z.of_N (GoBT.model.Interp.p_val p)) (GoBT.model.Interp.p_data p) = Val (negb (GoBT.model.Interp.minimal_push_ok p)).
Proof. exact ParsedOpcode_enforceMinimumDataPush_is_model_gen. Qed.
Print Assumptions C05_go_source_ParsedOpcode_enforceMinimumDataPush_gen_is_model.
