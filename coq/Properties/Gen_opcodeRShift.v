(** Export: the Go source of opcodeRShift, as printed into gen/Funcs.v on every run, has the meaning the interpreter
    model gives it (proofs/GenFuncs_opcodeRShift.v).  Compiled only while gen/Funcs.status.json says the function is translated. *)
From Coq Require Import List ZArith NArith Bool.
From Coq Require Import Strings.Byte.
From GoBT Require Import lib.Bytes lib.GoSem lib.GoInterp gen.Funcs proofs.GenFuncsTac proofs.GenFuncsInterpTac proofs.GenFuncsBytesTac proofs.GenFuncs_opcodeRShift.
From GoBT Require model.Interp model.ScriptNum.
Import ListNotations.
Local Open Scope Z_scope.

Theorem C05_go_source_opcodeRShift_is_model : forall so c p idx s, small (Interp.ds s) -> items_alloc (Interp.ds s) -> Interp.p_real p = true -> Interp.p_val p = Interp.OP_RSHIFT ->
  h_view s (opcodeRShift (Interp.max_numlen c) (Interp.has_flag c Interp.F_MINIMALDATA) (Interp.after_genesis c) (rev (Interp.ds s))) = Some (Interp.exec_handler so c p idx s).
Proof. exact opcodeRShift_is_model. Qed.
Print Assumptions C05_go_source_opcodeRShift_is_model.
