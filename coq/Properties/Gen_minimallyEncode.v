(** Export: the Go source of minimallyEncode, as printed into gen/Funcs.v on every run, is the model function the
    property theorems are about (proofs/GenFuncs_minimallyEncode.v).  Compiled only while gen/Funcs.status.json says the
    function is translated. *)
From Coq Require Import List ZArith NArith Bool.
From Coq Require Import Strings.Byte.
From GoBT Require Import lib.Bytes lib.GoSem gen.Funcs proofs.GenFuncsTac proofs.GenFuncs_minimallyEncode.
Local Open Scope Z_scope.

Theorem C05_go_source_minimallyEncode_is_model :
  forall data : bytes, (lenN data <= 281474976710656)%N -> minimallyEncode data = Val (GoBT.model.ScriptNum.minimally_encode data).
Proof. exact minimallyEncode_is_model. Qed.
Print Assumptions C05_go_source_minimallyEncode_is_model.
