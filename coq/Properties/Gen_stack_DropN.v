(** Export: the Go source of stack.DropN, as printed into gen/Funcs.v on every run, has the meaning the interpreter
    model gives it (proofs/GenFuncs_stack_DropN.v).  Compiled only while gen/Funcs.status.json says the function is translated. *)
From Coq Require Import List ZArith NArith Bool.
From Coq Require Import Strings.Byte.
From GoBT Require Import lib.Bytes lib.GoSem lib.GoInterp gen.Funcs proofs.GenFuncsTac proofs.GenFuncsInterpTac proofs.GenFuncs_stack_PopByteArray proofs.GenFuncs_stack_DropN.
From GoBT Require model.Interp model.ScriptNum.
Import ListNotations.
Local Open Scope Z_scope.

Theorem C05_go_source_stack_DropN_is_model : forall (n : Z) (d : list bytes), small d -> n = 1 \/ n = 2 ->
  st_view (stack_DropN n (rev d)) = Val (match Z.to_nat n, d with 1%nat, _ :: r => Some r | 2%nat, _ :: _ :: r => Some r | _, _ => None end).
Proof. exact stack_DropN_inst. Qed.
Print Assumptions C05_go_source_stack_DropN_is_model.

Theorem C08_go_source_stack_DropN_is_model : forall (n : Z) (d : list bytes), small d -> n = 1 \/ n = 2 ->
  st_view (stack_DropN n (rev d)) = Val (match Z.to_nat n, d with 1%nat, _ :: r => Some r | 2%nat, _ :: _ :: r => Some r | _, _ => None end).
Proof. exact stack_DropN_inst. Qed.
Print Assumptions C08_go_source_stack_DropN_is_model.
