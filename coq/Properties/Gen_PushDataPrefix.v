(** Export: the Go source of PushDataPrefix, as printed into gen/Funcs.v on every run, is the model function the
    property theorems are about (proofs/GenFuncs_PushDataPrefix.v).  Compiled only while gen/Funcs.status.json says the
    function is translated. *)
From Coq Require Import List ZArith NArith Bool.
From Coq Require Import Strings.Byte.
From GoBT Require Import lib.Bytes lib.GoSem gen.Funcs proofs.GenFuncsTac proofs.GenFuncs_PushDataPrefix.
Local Open Scope Z_scope.

Theorem C13_go_source_PushDataPrefix_is_model :
  forall data : bytes, (lenN data < 9223372036854775808)%N -> PushDataPrefix data = Val (of_option (GoBT.model.Push.push_data_prefix data)).
Proof. exact PushDataPrefix_is_model. Qed.
Print Assumptions C13_go_source_PushDataPrefix_is_model.

Theorem C06_go_source_PushDataPrefix_is_model :
  forall data : bytes, (lenN data < 9223372036854775808)%N -> PushDataPrefix data = Val (of_option (GoBT.model.CheckSig.push_prefix data)).
Proof. exact PushDataPrefix_is_checksig_model. Qed.
Print Assumptions C06_go_source_PushDataPrefix_is_model.

Theorem C11_go_source_PushDataPrefix_is_model :
  forall data : bytes, (lenN data <= 4294967295)%N -> PushDataPrefix data = Val (GoBT.model.Fees.push_prefix data, false).
Proof. exact PushDataPrefix_is_fees_model. Qed.
Print Assumptions C11_go_source_PushDataPrefix_is_model.
