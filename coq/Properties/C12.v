(** C12 — Funding stops exactly when covered and consumes supplier UTXOs faithfully.
    Only statements, [exact], and [Print Assumptions]. Model: model/Fund.v (+ model/Fees.v);
    proofs: proofs/FundProofs.v (induction on the supplier history). *)
From Coq Require Import List NArith Bool.
From Coq Require Import Strings.Byte.
From GoBT Require Import lib.Bytes lib.VarInt model.Tx gen.Consts spec.FeeSpec model.Fees model.Fund
  proofs.FeesProofs proofs.FundProofs proofs.AuditC12.
Import ListNotations.
Local Open Scope N_scope.

(** on success the inputs are the previous inputs followed by every UTXO of every consumed answer, in
    order; in every case (errors included) they are the previous inputs followed by a prefix of those *)
Theorem C12_fund_inputs : forall t q hist,
  let r := fund t q hist in
  let supplied := concat (map batch_utxos (firstn (f_consumed r) hist)) in
  (exists l rest', supplied = l ++ rest' /\ tx_ins (f_tx r) = tx_ins t ++ map of_utxo l) /\
  (f_res r = FOk tt -> tx_ins (f_tx r) = tx_ins t ++ map of_utxo supplied).
Proof. exact fund_inputs. Qed.
Print Assumptions C12_fund_inputs.

(** ... each with the supplier's txid, index, value and script and the final sequence number.
    (Holds by construction of the model: the statement reads off the definition of [of_utxo]; its content is the
    regenerated constant DefaultSequenceNumber = 0xFFFFFFFF; that FromUTXOs builds this input is carried by the
    correspondence.) *)
Theorem C12_of_utxo_fields : forall u,
  in_txid (of_utxo u) = u_txid u /\ in_vout (of_utxo u) = u_vout u /\ in_sats (of_utxo u) = u_sats u /\
  in_script (of_utxo u) = u_script u /\ in_unlock (of_utxo u) = [] /\ in_seq (of_utxo u) = 4294967295.
Proof. exact of_utxo_fields. Qed.
Print Assumptions C12_of_utxo_fields.

(** FromUTXOs appends valid UTXOs in order and stops at the first txid that is not 32 bytes long *)
Theorem C12_from_utxos : forall t us,
  (Forall valid_utxo us /\ from_utxos t us = (FOk tt, add_all t us)) \/
  (exists pre u post, us = pre ++ u :: post /\ Forall valid_utxo pre /\ ~ valid_utxo u /\
     from_utxos t us = (FErr ErrInvalidTxID, add_all t pre)).
Proof. exact from_utxos_spec. Qed.
Print Assumptions C12_from_utxos.

(** on success total inputs cover total outputs plus the estimated fee *)
Theorem C12_fund_covers : forall t q hist,
  let r := fund t q hist in
  f_res r = FOk tt ->
  estimate_deficit (f_tx r) q = FOk 0 /\
  (wf_tx (f_tx r) -> ~ ambiguous (f_tx r) -> no_overflow q (f_tx r) 0 = true ->
   exists sf df sz, q_std q = Some sf /\ q_data q = Some df /\ estimate_size_with_types (f_tx r) = FOk sz /\
     sum_out (f_tx r) + quoted_fee sf df (sz_std sz) (sz_data sz) <= sum_in (f_tx r)).
Proof. exact fund_covers. Qed.
Print Assumptions C12_fund_covers.

(** the same with hypotheses on what goes in: a well-formed start transaction and supplier answers *)
Theorem C12_fund_covers_wf : forall t q hist,
  let r := fund t q hist in
  wf_tx t -> ~ ambiguous t -> forallb wf_responseb hist = true ->
  N.of_nat (length (tx_ins (f_tx r))) < two64 -> no_overflow q (f_tx r) 0 = true ->
  f_res r = FOk tt ->
  exists sf df sz, q_std q = Some sf /\ q_data q = Some df /\ estimate_size_with_types (f_tx r) = FOk sz /\
    sum_out (f_tx r) + quoted_fee sf df (sz_std sz) (sz_data sz) <= sum_in (f_tx r).
Proof. exact fund_covers_wf. Qed.
Print Assumptions C12_fund_covers_wf.

(** the supplier is called only while a deficit remains and is always given the current deficit: the k-th
    argument is the (positive) deficit of the k-th intermediate transaction; on success the transaction
    after the last call has deficit zero; with no deficit to begin with there is no call at all *)
Theorem C12_fund_calls : forall t q hist,
  let r := fund t q hist in
  f_consumed r = length (f_calls r) /\
  (forall k, (k < length (f_calls r))%nat ->
     estimate_deficit (inter t hist k) q = FOk (nth k (f_calls r) 0) /\ 0 < nth k (f_calls r) 0 /\
     forall j, (j < k)%nat -> exists us, nth_error hist j = Some (Batch us) /\ Forall valid_utxo us) /\
  (f_res r = FOk tt ->
     f_tx r = inter t hist (length (f_calls r)) /\ estimate_deficit (inter t hist (length (f_calls r))) q = FOk 0) /\
  (estimate_deficit t q = FOk 0 -> f_calls r = [] /\ f_res r = FOk tt /\ f_tx r = t).
Proof. exact fund_calls. Qed.
Print Assumptions C12_fund_calls.

(** exhaustion while a deficit remains (ErrNoUTXO, or a used-up history) gives ErrInsufficientFunds, and only that does *)
Theorem C12_fund_exhaustion : forall t q hist,
  let r := fund t q hist in
  f_res r = FErr ErrInsufficientFunds <->
  (1 <= f_consumed r)%nat /\
  (nth_error hist (f_consumed r - 1) = Some NoUTXO \/ nth_error hist (f_consumed r - 1) = None).
Proof. exact fund_exhaustion. Qed.
Print Assumptions C12_fund_exhaustion.

Theorem C12_fund_exhaustion_first : forall t q rest d, estimate_deficit t q = FOk d -> 0 < d ->
  fund t q (NoUTXO :: rest) = mkFund (FErr ErrInsufficientFunds) [d] 1 t.
Proof. exact fund_exhaustion_first. Qed.
Print Assumptions C12_fund_exhaustion_first.

(** the run, PREDICTED from the history: after k answers that were batches of valid UTXOs, each leaving a
    positive deficit, the deficit [dk] of the k-th intermediate transaction and the k-th answer decide the
    result, the number of calls and the final transaction.  (Excludes spurious errors and early stops: success
    DOES occur at the first covering prefix.) *)
Theorem C12_fund_forward : forall q hist t d k,
  estimate_deficit t q = FOk d ->
  (forall j, (j < k)%nat -> valid_batch_at hist j /\
     exists dj, estimate_deficit (inter t hist j) q = FOk dj /\ 0 < dj) ->
  forall dk, estimate_deficit (inter t hist k) q = FOk dk ->
  let r := fund t q hist in
  (dk = 0 -> f_res r = FOk tt /\ f_consumed r = k /\ f_tx r = inter t hist k) /\
  (0 < dk -> (nth_error hist k = Some NoUTXO \/ nth_error hist k = None) ->
     f_res r = FErr ErrInsufficientFunds /\ f_consumed r = S k /\ f_tx r = inter t hist k) /\
  (0 < dk -> nth_error hist k = Some OtherErr ->
     f_res r = FErr ErrSupplier /\ f_consumed r = S k /\ f_tx r = inter t hist k).
Proof. exact fund_forward. Qed.
Print Assumptions C12_fund_forward.

(** ... the fourth ending: a batch containing a txid that is not 32 bytes long gives ErrInvalidTxID, keeping the
    UTXOs of that batch that came before it *)
Theorem C12_fund_forward_invalid_txid : forall q hist t d k pre u post,
  estimate_deficit t q = FOk d ->
  (forall j, (j < k)%nat -> valid_batch_at hist j /\
     exists dj, estimate_deficit (inter t hist j) q = FOk dj /\ 0 < dj) ->
  forall dk, estimate_deficit (inter t hist k) q = FOk dk -> 0 < dk ->
  nth_error hist k = Some (Batch (pre ++ u :: post)) -> Forall valid_utxo pre -> ~ valid_utxo u ->
  let r := fund t q hist in
  f_res r = FErr ErrInvalidTxID /\ f_consumed r = S k /\ f_tx r = add_all (inter t hist k) pre.
Proof. exact fund_forward_invalid_txid. Qed.
Print Assumptions C12_fund_forward_invalid_txid.

(** ... and the arguments of the calls made while walking that prefix are the successive deficits *)
Theorem C12_fund_loop_skip : forall q hist t d k, estimate_deficit t q = FOk d ->
  (forall j, (j < k)%nat -> valid_batch_at hist j /\
     exists dj, estimate_deficit (inter t hist j) q = FOk dj /\ 0 < dj) ->
  forall dk, estimate_deficit (inter t hist k) q = FOk dk ->
  let r := fund_loop q hist t d in
  let r' := fund_loop q (skipn k hist) (inter t hist k) dk in
  f_res r = f_res r' /\ f_consumed r = (k + f_consumed r')%nat /\ f_tx r = f_tx r' /\
  f_calls r = map (fun j => match estimate_deficit (inter t hist j) q with FOk x => x | _ => 0 end) (seq 0 k) ++ f_calls r'.
Proof. exact fund_loop_skip. Qed.
Print Assumptions C12_fund_loop_skip.

(** Fund never exits the process or panics on a well-formed transaction, well-formed supplier answers and a
    quote without zero byte denominators *)
Theorem C12_fund_no_crash : forall t q hist, quote_pos q -> wf_tx t -> ~ ambiguous t ->
  forallb wf_responseb hist = true ->
  N.of_nat (length (tx_ins t) + length (concat (map batch_utxos hist))) < two64 ->
  f_res (fund t q hist) <> FFatal /\ f_res (fund t q hist) <> FPanic.
Proof. exact fund_no_crash. Qed.
Print Assumptions C12_fund_no_crash.

(** outputs (and version, locktime) are left untouched in every case *)
Theorem C12_fund_outputs_untouched : forall t q hist,
  let r := fund t q hist in
  tx_outs (f_tx r) = tx_outs t /\ tx_version (f_tx r) = tx_version t /\ tx_lock (f_tx r) = tx_lock t.
Proof. exact fund_outputs_untouched. Qed.
Print Assumptions C12_fund_outputs_untouched.

(** non-vacuity: a start transaction with a data output, 1 sat/byte; the supplier answers with an empty
    batch, an under-funding UTXO, then two UTXOs that cover; a fourth answer is never asked for *)
Definition ex_p2pkh : bytes := [x76; xa9; x14] ++ repeat_byte 20 x11 ++ [x88; xac].
Definition ex_tx : tx := mkTx 1 [] [mkOutput 1000 ex_p2pkh; mkOutput 0 [x00; x6a; x01; x41]] 0.
Definition ex_quote : quote := mkQuote (Some (mkRate 1 1)) (Some (mkRate 1 2)).
Definition ex_u (v : N) : utxo := mkUtxo (repeat_byte 32 xcd) 0 (Some ex_p2pkh) v.
Definition ex_hist : list response := [Batch []; Batch [ex_u 200]; Batch [ex_u 700; ex_u 900]; OtherErr].

Example C12_example :
  let r := fund ex_tx ex_quote ex_hist in
  f_res r = FOk tt /\ f_calls r = [1055; 1055; 1003] /\ f_consumed r = 3%nat /\
  tx_ins (f_tx r) = map of_utxo [ex_u 200; ex_u 700; ex_u 900] /\
  wf_tx (f_tx r) /\ ~ ambiguous (f_tx r) /\ no_overflow ex_quote (f_tx r) 0 = true /\
  fund ex_tx ex_quote [Batch [ex_u 200]; NoUTXO] = mkFund (FErr ErrInsufficientFunds) [1055; 1003] 2 (f_tx (fund ex_tx ex_quote [Batch [ex_u 200]])).
Proof.
  cbv zeta. split; [vm_compute; reflexivity|]. split; [vm_compute; reflexivity|]. split; [vm_compute; reflexivity|].
  split; [vm_compute; reflexivity|]. split; [apply wf_txb_sound; vm_compute; reflexivity|].
  split; [apply ambiguousb_sound; vm_compute; reflexivity|]. split; vm_compute; reflexivity.
Qed.

(** ** The shape of the outputs (proofs/FundDataProofs.v).  The data part of the estimated size is the sum of the
    script lengths of ALL data outputs, wherever they stand: each one contributes its full length, the order of the
    outputs plays no part; the deficit of a transaction is the quoted fee of that split, and this is what the supplier
    is given at EVERY call - the data part being that of the starting transaction's outputs. *)
From GoBT Require Import proofs.FundDataProofs.
From Coq Require Import Permutation.
Theorem C12_every_data_output_counts : forall a o b,
  data_sum (a ++ o :: b) = (if is_data (out_script o) then lenN (out_script o) else 0) + data_sum (a ++ b).
Proof. exact data_sum_middle. Qed.
Print Assumptions C12_every_data_output_counts.

Theorem C12_data_part_order_independent : forall a b, Permutation a b -> data_sum a = data_sum b.
Proof. exact data_sum_perm. Qed.
Print Assumptions C12_data_part_order_independent.

Theorem C12_deficit_data_outputs : forall t q d, wf_tx t -> ~ ambiguous t ->
  estimate_deficit t q = FOk d ->
  exists te f,
    estimated_final_tx t = FOk te /\ tx_outs te = tx_outs t /\
    fees_paid (mkSize (tx_size te) (tx_size te - data_sum (tx_outs t)) (data_sum (tx_outs t))) q = FOk f /\
    d = deficit_of t f.
Proof. exact deficit_data_outputs. Qed.
Print Assumptions C12_deficit_data_outputs.

Theorem C12_fund_calls_data_outputs : forall t q hist,
  wf_tx t -> ~ ambiguous t -> forallb wf_responseb hist = true ->
  let r := fund t q hist in
  forall k, (k < length (f_calls r))%nat ->
    N.of_nat (length (tx_ins (inter t hist k))) < two64 ->
    exists te f,
      estimated_final_tx (inter t hist k) = FOk te /\ tx_outs te = tx_outs t /\
      fees_paid (mkSize (tx_size te) (tx_size te - data_sum (tx_outs t)) (data_sum (tx_outs t))) q = FOk f /\
      nth k (f_calls r) 0 = deficit_of (inter t hist k) f.
Proof. exact fund_calls_data_outputs. Qed.
Print Assumptions C12_fund_calls_data_outputs.

(** non-vacuity: a payment and TWO data outputs (103 and 104 script bytes, one of each form), 1 sat/byte standard and
    1/10 sat/byte data: 269 bytes, 207 of them data: the supplier is asked for 1000 + 62 + 20; charging only the first
    data output at the data rate would ask for 1000 + 166 + 10 *)
Definition ex_tx2 : tx :=
  mkTx 1 [] [mkOutput 1000 ex_p2pkh; mkOutput 0 ([x6a; x4c; x64] ++ repeat_byte 100 xaa);
             mkOutput 0 ([x00; x6a; x4c; x64] ++ repeat_byte 100 xbb)] 0.
Definition ex_quote2 : quote := mkQuote (Some (mkRate 1 1)) (Some (mkRate 1 10)).
Example C12_two_data_outputs_example :
  wf_tx ex_tx2 /\ ~ ambiguous ex_tx2 /\ tx_size ex_tx2 = 269 /\ data_sum (tx_outs ex_tx2) = 207 /\
  f_calls (fund ex_tx2 ex_quote2 [NoUTXO]) = [1082] /\
  f_calls (fund ex_tx2 ex_quote2 [Batch [ex_u 1229]; NoUTXO]) = [1082; 1] /\
  f_calls (fund ex_tx2 ex_quote2 [Batch [ex_u 1230]; NoUTXO]) = [1082] /\
  f_res (fund ex_tx2 ex_quote2 [Batch [ex_u 1230]; NoUTXO]) = FOk tt.
Proof.
  split; [apply wf_txb_sound; vm_compute; reflexivity|]. split; [apply ambiguousb_sound; vm_compute; reflexivity|].
  split; [vm_compute; reflexivity|]. split; [vm_compute; reflexivity|]. split; [vm_compute; reflexivity|].
  split; [vm_compute; reflexivity|]. split; vm_compute; reflexivity.
Qed.

(** ** However the starting transaction was obtained.  The Go object holds an input's unlocking script behind a
    pointer - nil after From / FromUTXOs / a struct literal, present with length 0 after NewTxFromBytes /
    NewTxFromString / Clone / JSON decoding of an unsigned draft or after clearing a signature.  model/FundObtained.v
    models estimatedFinalTx / estimateDeficit / FromUTXOs / Fund over inputs that carry this distinction, in the
    shape of the Go code; every observable (verdict, the deficits handed to the supplier, number of calls, what the
    transaction left behind says) is that of [fund] on what the transaction SAYS, so all theorems above hold for it. *)
From GoBT Require model.FundObtained proofs.FundObtainedProofs.
Import FundObtained.
Theorem C12_fund_however_obtained : forall (t : gtx) q hist,
  says_result (g_fund t q hist) = fund (says t) q hist.
Proof. exact FundObtainedProofs.fund_says. Qed.
Print Assumptions C12_fund_however_obtained.

(** two transactions that say the same are funded alike; and every [tx] is said by a decoded and by a hand-built object *)
Theorem C12_fund_obtained_irrelevant : forall (t1 t2 : gtx) q hist,
  says t1 = says t2 -> says_result (g_fund t1 q hist) = says_result (g_fund t2 q hist).
Proof. exact FundObtainedProofs.fund_obtained_irrelevant. Qed.
Print Assumptions C12_fund_obtained_irrelevant.

Theorem C12_fund_decoded_built : forall t q hist,
  says_result (g_fund (decoded t) q hist) = fund t q hist /\ says_result (g_fund (built t) q hist) = fund t q hist.
Proof. exact FundObtainedProofs.fund_decoded_built. Qed.
Print Assumptions C12_fund_decoded_built.

(** the distinction is real (non-vacuity): one draft with an unsigned prior input, hand-built and decoded.  Both say the
    same and are funded alike (same deficit handed to the supplier); an estimate that decided "unsigned" on the
    receiver's inputs by `== nil` alone would be 107 bytes short for the decoded one. *)
Definition ex_draft : tx :=
  mkTx 1 [mkInput (repeat_byte 32 xab) 1 [] 4294967295 300 (Some ex_p2pkh)] [mkOutput 2000 ex_p2pkh] 0.
Definition ex_est_size (o : outcome gtx) : outcome N := olet a := o in FOk (tx_size (says a)).
Example C12_obtained_example :
  says (built ex_draft) = says (decoded ex_draft) /\ built ex_draft <> decoded ex_draft /\
  gf_calls (g_fund (built ex_draft) ex_quote [NoUTXO]) = [1892] /\
  gf_calls (g_fund (decoded ex_draft) ex_quote [NoUTXO]) = [1892] /\
  ex_est_size (g_estimated_final_tx (built ex_draft)) = FOk 192 /\
  ex_est_size (g_estimated_final_tx (decoded ex_draft)) = FOk 192 /\
  ex_est_size (g_estimated_final_tx_receiver_nil (built ex_draft)) = FOk 192 /\
  ex_est_size (g_estimated_final_tx_receiver_nil (decoded ex_draft)) = FOk 85.
Proof.
  split; [vm_compute; reflexivity|]. split; [intro H; discriminate H|].
  split; [vm_compute; reflexivity|]. split; [vm_compute; reflexivity|].
  split; [vm_compute; reflexivity|]. split; [vm_compute; reflexivity|].
  split; vm_compute; reflexivity.
Qed.

(** State inventory (tie, translator part): every Go struct the model of this property represents has, in the
    source as it is NOW (gen/Structs.v, regenerated on every run), exactly the fields - names, types, order - the
    model was written against (model/StateInventory.v).  New state in these objects (a memoised digest, a cached
    document, a remembered operand) is state the theorems above do not speak about: this is the obligation that
    stops checking then. *)
From GoBT Require gen.Structs model.StateInventory.
Theorem C12_state_inventory :
  forall k, In k (StateInventory.group_of StateInventory.pC12) ->
  exists f, StateInventory.lookup_gen gen.Structs.structs k = Some f /\ StateInventory.lookup_model k = Some f.
Proof. apply StateInventory.inventory_ok_spec. vm_compute. reflexivity. Qed.
Print Assumptions C12_state_inventory.

(** Package-level state (tie, translator part): in the source as it is NOW (gen/Globals.v) no package-level variable of
    the packages this property's code lives in can change after initialisation or is handed out by reference - the
    model's functions are functions of their arguments only (model/StateInventory.v). *)
From GoBT Require gen.Globals.
Theorem C12_no_mutable_package_state :
  forall g, In g gen.Globals.globals -> In (StateInventory.rg_pkg g) (StateInventory.packages_of StateInventory.pC12) ->
  StateInventory.rg_mutated g = false /\ StateInventory.rg_escapes g = false.
Proof. apply StateInventory.pkg_state_ok_spec. vm_compute. reflexivity. Qed.
Print Assumptions C12_no_mutable_package_state.
