(** Export: the Go source of scriptflag.Flag.HasAny, as printed into gen/Funcs.v on every run, is the model function the
    property theorems are about (proofs/GenFuncs_ScriptFlag_HasAny.v).  Compiled only while gen/Funcs.status.json says the
    function is translated. *)
From Coq Require Import List ZArith NArith Bool.
From Coq Require Import Strings.Byte.
From GoBT Require Import lib.Bytes lib.GoSem gen.Funcs proofs.GenFuncsTac proofs.GenFuncs_ScriptFlag_HasAny.
Local Open Scope Z_scope.

Theorem C05_go_source_ScriptFlag_HasAny_is_model :
  forall (c : GoBT.model.Interp.ctx) (fs : list N),
  ScriptFlag_HasAny (Z.of_N (GoBT.model.Interp.c_flags c)) (map Z.of_N (map (fun f => 2 ^ f)%N fs)) = Val (existsb (GoBT.model.Interp.has_flag c) fs).
Proof. exact ScriptFlag_HasAny_is_model. Qed.
Print Assumptions C05_go_source_ScriptFlag_HasAny_is_model.

Theorem C05_go_source_ScriptFlag_HasAny_mask_is_model :
  forall (s : N) (ms : list N), ScriptFlag_HasAny (Z.of_N s) (map Z.of_N ms) = Val (existsb (fun m => N.land s m =? m)%N ms).
Proof. exact ScriptFlag_HasAny_mask. Qed.
Print Assumptions C05_go_source_ScriptFlag_HasAny_mask_is_model.
