(** Export: the Go source of Script.ScriptType, as printed into gen/Funcs.v on every run, is the model function the
    property theorems are about (proofs/GenFuncs_Script_ScriptType.v).  Compiled only while gen/Funcs.status.json says the
    function is translated. The printed function calls the five printed classifiers in the order of the source; the Go string is returned as its bytes, [stype_bytes] renders the model's constructor with [stype_name] of model/JsonScripts.v.  Hypothesis (Go's): fewer than 2^63 bytes. *)
From Coq Require Import List ZArith NArith Bool.
From Coq Require Import Strings.Byte.
From GoBT Require Import lib.Bytes lib.GoSem lib.GoTx gen.Funcs proofs.GenFuncsTac proofs.GenFuncs_Script_ScriptType.
Local Open Scope Z_scope.

Theorem C14_go_source_Script_ScriptType_is_model :
  forall b : bytes, (lenN b < 9223372036854775808)%N -> to_outcome (Script_ScriptType b) = GoBT.lib.Checked.obind (GoBT.model.Classify.script_type b) (fun t => GoBT.lib.Checked.Ok (stype_bytes t)).
Proof. exact Script_ScriptType_is_model. Qed.
Print Assumptions C14_go_source_Script_ScriptType_is_model.

Theorem C16_go_source_Script_ScriptType_is_model :
  forall b : bytes, (lenN b < 9223372036854775808)%N -> to_outcome (Script_ScriptType b) = GoBT.lib.Checked.obind (GoBT.model.Classify.script_type b) (fun t => GoBT.lib.Checked.Ok (stype_bytes t)).
Proof. exact Script_ScriptType_is_model. Qed.
Print Assumptions C16_go_source_Script_ScriptType_is_model.
