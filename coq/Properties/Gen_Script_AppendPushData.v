(** Export: the Go source of Script.AppendPushData, as printed into gen/Funcs.v on every run, is the model function the
    property theorems are about (proofs/GenFuncs_Script_AppendPushData.v).  Compiled only while gen/Funcs.status.json says the
    function is translated.  The receiver's target [*s] is state: a parameter and, with the error, the result.  Hypothesis (Go's): the data is shorter than 2^63 bytes. *)
From Coq Require Import List ZArith NArith Bool.
From Coq Require Import Strings.Byte.
From GoBT Require Import lib.Bytes lib.GoSem gen.Funcs proofs.GenFuncsTac proofs.GenFuncs_Script_AppendPushDataArray proofs.GenFuncs_Script_AppendPushData.
Local Open Scope Z_scope.

Theorem C20_go_source_Script_AppendPushData_is_model :
  forall d s : bytes, (lenN d < 9223372036854775808)%N ->
  Script_AppendPushData d s = Val (of_append s (GoBT.model.Inscription.append_push_data s d)).
Proof. exact Script_AppendPushData_is_model. Qed.
Print Assumptions C20_go_source_Script_AppendPushData_is_model.
