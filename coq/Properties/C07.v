(** C07 — Script execution is total: it always terminates with success or an error value.
    Model: model/Interp.v (every Go expression that can panic is an explicit [OPanic]/[VPanic] outcome);
    proofs: proofs/InterpTotal.v.  Termination: [engine_execute] is a structurally recursive Gallina
    function over the parsed opcode lists (no fuel, no general recursion), so every run returns -- this holds by
    construction of the model, not by a measure argument about the Go loops; the clause "terminates" is carried by
    the correspondence (every case runs under a timeout).  Not modelled: thread.State() (debugger attached). *)
From Coq Require Import List NArith ZArith.
From Coq Require Import Strings.Byte.
From GoBT Require Import lib.Bytes model.ScriptNum model.Interp model.ExecOpts proofs.InterpTotal proofs.ExecOptsTotal.
Import ListNotations.

(** for every pair of scripts, every 32-bit flag word, with or without a transaction and previous output,
    whatever the locktime / version / sequence: the verdict is success or error, never a panic *)
Theorem C07_engine_total : forall i, fst (engine_execute no_sigops i) <> VPanic.
Proof. intros i. apply engine_execute_no_panic. exact no_sigops_ok. Qed.
Print Assumptions C07_engine_total.

(** the same for any implementation of the signature opcodes that itself never panics, never returns early
    and leaves the condition stack alone (model/CheckSig.v discharges this for the real ones) *)
Theorem C07_engine_total_with_signatures : forall so i, sigops_ok so -> fst (engine_execute so i) <> VPanic.
Proof. intros so i H. apply engine_execute_no_panic. exact H. Qed.
Print Assumptions C07_engine_total_with_signatures.

(** Engine.Execute on whatever the caller passes: nil / empty / mismatching scripts, a nil transaction or one
    with any number of inputs, a nil previous output or one without a locking script, and any Go [int] as
    input index (negative, beyond the inputs, MaxInt64).  [validate] and the head of thread.apply (model/ExecOpts.v)
    have an explicit panic outcome for every slice index and nil dereference of the Go code; none is reachable. *)
Theorem C07_execute_total_any_arguments : forall so o, sigops_ok so -> fst (engine_execute_opts so o) <> VPanic.
Proof. exact engine_execute_opts_no_panic. Qed.
Print Assumptions C07_execute_total_any_arguments.

(** validation is what makes it so: an index the later code would dereference out of range is rejected *)
Theorem C07_validate_rejects_bad_index : forall o t,
  eo_tx o = Some t -> index (ot_ins t) (eo_idx o) = IPanic -> validate o = VRerr.
Proof. exact validate_rejects_bad_index. Qed.
Print Assumptions C07_validate_rejects_bad_index.

(** ... and so is a nil input at the requested index (a transaction value whose Inputs slice holds a nil
    element), which apply would dereference when it records the previous output on the input *)
Theorem C07_validate_rejects_nil_input : forall o t,
  eo_tx o = Some t -> index (ot_ins t) (eo_idx o) = IOk None -> validate o = VRerr.
Proof. exact validate_rejects_nil_input. Qed.
Print Assumptions C07_validate_rejects_nil_input.

(** the verdict is one of exactly two values *)
Theorem C07_verdict_ok_or_err : forall i,
  fst (engine_execute no_sigops i) = VOk \/ fst (engine_execute no_sigops i) = VErr.
Proof.
  intros i. pose proof (C07_engine_total i) as H.
  destruct (fst (engine_execute no_sigops i)); [left|right|exfalso]; auto.
Qed.
Print Assumptions C07_verdict_ok_or_err.

(** parsing: truncated pushes are errors (None); the fuel is irrelevant.  (That the parser never slices out of range
    holds by construction of model/Interp.parse_ops -- total list functions, no panic outcome; the clause is carried by
    the correspondence on arbitrary byte strings.  The parser model with checked slice primitives is model/Parser.v,
    [parse_total] in proofs/ParserProofs.v, a separate definition.) *)
Theorem C07_parse_fuel_irrelevant : forall eoc f bs d, (length bs <= f)%nat ->
  parse_ops f eoc bs d = parse_ops (length bs) eoc bs d.
Proof. intros. apply parse_ops_fuel; auto. Qed.
Print Assumptions C07_parse_fuel_irrelevant.

(** what the parser returns is well formed: the synthetic "Unformatted Data" opcode (whose handler is nil
    in Go) only ever follows a top-level OP_RETURN ... *)
Theorem C07_parse_wf : forall eoc bs ops, parse_script eoc bs = Some ops -> wf_ops eoc 0 ops.
Proof. exact parse_script_wf. Qed.
Print Assumptions C07_parse_wf.

(** ... and a top-level OP_RETURN always ends the script, so that opcode is never executed *)
Theorem C07_unformatted_never_executed : forall so c p idx s,
  p_real p = true -> p_val p = OP_RETURN -> p_data p = [] -> cond s = [] ->
  (exists s', execute_opcode so c p idx s = OReturn s') \/ execute_opcode so c p idx s = OErr.
Proof. exact execute_return_ends. Qed.
Print Assumptions C07_unformatted_never_executed.

(** pay-to-script-hash: the redeem script is fetched from a non-empty saved stack (an empty one means
    OP_HASH160 already failed) *)
Theorem C07_p2sh_saved_stack_nonempty : forall so c eoc lock_bytes lock s acc,
  is_p2sh lock_bytes = true -> parse_script eoc lock_bytes = Some lock ->
  ds s = [] -> cond s = [] -> after_genesis c = false -> fst (run_ops so c lock 0 s acc) = SErr.
Proof. exact p2sh_lock_needs_an_item. Qed.
Print Assumptions C07_p2sh_saved_stack_nonempty.

(** * Audit B additions (proofs/AuditB_C07.v) *)
From GoBT Require Import model.Tx model.CheckSig proofs.AuditB_C07.

(** any arguments AND the real signature opcodes of model/CheckSig.v: [proj_tx t] is what Engine.Execute reads of the
    transaction [t]; whatever the index (negative, beyond the inputs), the scripts, the previous output and the flags,
    no panic -- validate rejects the call before a signature operation could index an input that is not there *)
Theorem C07_execute_total_with_real_tx : forall orc t o,
  wf_tx t -> eo_tx o = Some (proj_tx t) -> (Z.of_nat (length (tx_ins t)) < 2 ^ 31)%Z ->
  fst (engine_execute_opts (mk_sigops orc t (Z.to_N (eo_idx o))) o) <> VPanic.
Proof. exact execute_total_with_real_tx. Qed.
Print Assumptions C07_execute_total_with_real_tx.

(** without a transaction or without a previous output no signature operation is ever called (the parser rejects
    them, in the redeem script too): the run -- verdict and snapshots -- is that of [no_sigops], for ANY [so] *)
Theorem C07_run_without_context_ignores_signature_operations : forall so i,
  ei_has_tx i = false \/ ei_has_prevout i = false -> engine_execute so i = engine_execute no_sigops i.
Proof. exact engine_execute_without_context. Qed.
Print Assumptions C07_run_without_context_ignores_signature_operations.

(** ... so such a run never panics, even with signature operations that would *)
Theorem C07_engine_total_without_context : forall so i,
  ei_has_tx i = false \/ ei_has_prevout i = false -> fst (engine_execute so i) <> VPanic.
Proof. exact engine_total_without_context. Qed.
Print Assumptions C07_engine_total_without_context.

(** non-vacuity: programs of each kind exist and evaluate *)
Example C07_runs :
  fst (engine_execute no_sigops (mkExecInput [x51] [x51; x87] 0 false false 0 0 0)) = VOk /\
  fst (engine_execute no_sigops (mkExecInput [] [x51; x6a; x63] 16384 false false 0 0 0)) = VOk /\
  fst (engine_execute no_sigops (mkExecInput [] [x00; x51; x98] 16384 false false 0 0 0)) = VErr.
Proof. vm_compute. repeat split; reflexivity. Qed.

Example C07_argument_runs :
  let tx i := Some (mkOTx [Some (mkOIn (Some [x51]) 0); Some (mkOIn None 0); None] 0 1) in
  (* scripts taken from the transaction and the previous output *)
  fst (engine_execute_opts no_sigops (mkOpts None None (Some (Some [x51])) (tx 0) 0 0)) = VOk /\
  (* index beyond the inputs, negative, and 2^63-1 *)
  fst (engine_execute_opts no_sigops (mkOpts None None (Some (Some [x51])) (tx 0) 2 0)) = VErr /\
  fst (engine_execute_opts no_sigops (mkOpts (Some [x51]) (Some [x51]) None None (-1) 0)) = VErr /\
  fst (engine_execute_opts no_sigops (mkOpts None None (Some (Some [x51])) (tx 0) 9223372036854775807 0)) = VErr /\
  (* input without an unlocking script and none passed *)
  fst (engine_execute_opts no_sigops (mkOpts None None (Some (Some [x51])) (tx 0) 1 0)) = VErr /\
  (* a nil input at the requested index, scripts passed separately: rejected, not dereferenced *)
  fst (engine_execute_opts no_sigops (mkOpts (Some [x51]) (Some [x51]) (Some (Some [x51])) (tx 0) 2 0)) = VErr /\
  (* ... a nil input elsewhere is never touched *)
  fst (engine_execute_opts no_sigops (mkOpts (Some [x51]) (Some [x51]) (Some (Some [x51])) (tx 0) 0 0)) = VOk /\
  (* no transaction: any non-negative index passes validation *)
  fst (engine_execute_opts no_sigops (mkOpts (Some [x51]) (Some []) None None 9223372036854775807 0)) = VOk.
Proof. vm_compute. repeat split; reflexivity. Qed.

(** * The engine OBJECT over a sequence of calls (model/EngineHistory.v, proofs/EngineHistoryProofs.v)

    One interpreter.Engine on which Execute is called again and again ([engine]: the fields of the Go struct - none,
    C07_state_inventory below; [execute]: engine before the call -> engine after it and the result; [run_history]: the
    engine threaded through a list of calls, each with the signature operations of its own transaction).  The n-th call
    of any history returns what the same call returns on an engine nobody has used, and no call of any history
    panics.  The history cases of the correspondence (corr/C07.v KHist) compare what ONE Go engine returned, call
    after call, with [run_history]. *)
From GoBT Require Import model.EngineHistory proofs.EngineHistoryProofs.

Theorem C07_history_call_is_fresh_call : forall e calls n sc,
  nth_error calls n = Some sc ->
  nth_error (run_history e calls) n = Some (snd (execute new_engine sc)).
Proof. exact history_call_is_fresh_call. Qed.
Print Assumptions C07_history_call_is_fresh_call.

Theorem C07_history_total : forall e calls,
  Forall (fun sc => sigops_ok (fst sc)) calls ->
  Forall (fun r => fst r <> VPanic) (run_history e calls).
Proof. exact history_no_panic. Qed.
Print Assumptions C07_history_total.

(** non-vacuity: a history that alternates contexts around a signature opcode - with a transaction and previous
    output (signature operations are a parameter; here the ones that fail), then without: refused, an error value *)
Example C07_history_runs :
  map fst (run_history new_engine
    [(no_sigops, CProg (mkExecInput [x01; x01] [x01; x02; xac] 0 false false 0 0 0));
     (no_sigops, CProg (mkExecInput [x51] [x51; x87] 0 true true 0 1 0));
     (no_sigops, CProg (mkExecInput [x01; x01] [x01; x02; xac] 0 false false 0 0 0));
     (no_sigops, COpts (mkOpts (Some [x51; xb2]) (Some [x51]) None None 0 0))]) = [VErr; VOk; VErr; VErr].
Proof. vm_compute. reflexivity. Qed.

(** State inventory (tie, translator part): every Go struct the model of this property represents has, in the
    source as it is NOW (gen/Structs.v, regenerated on every run), exactly the fields - names, types, order - the
    model was written against (model/StateInventory.v).  New state in these objects (a memoised digest, a cached
    document, a remembered operand) is state the theorems above do not speak about: this is the obligation that
    stops checking then. *)
From GoBT Require gen.Structs model.StateInventory.
Theorem C07_state_inventory :
  forall k, In k (StateInventory.group_of StateInventory.pC07) ->
  exists f, StateInventory.lookup_gen gen.Structs.structs k = Some f /\ StateInventory.lookup_model k = Some f.
Proof. apply StateInventory.inventory_ok_spec. vm_compute. reflexivity. Qed.
Print Assumptions C07_state_inventory.

(** Package-level state (tie, translator part): in the source as it is NOW (gen/Globals.v) no package-level variable of
    the packages this property's code lives in can change after initialisation or is handed out by reference - the
    model's functions are functions of their arguments only (model/StateInventory.v). *)
From GoBT Require gen.Globals.
Theorem C07_no_mutable_package_state :
  forall g, In g gen.Globals.globals -> In (StateInventory.rg_pkg g) (StateInventory.packages_of StateInventory.pC07) ->
  StateInventory.rg_mutated g = false /\ StateInventory.rg_escapes g = false.
Proof. apply StateInventory.pkg_state_ok_spec. vm_compute. reflexivity. Qed.
Print Assumptions C07_no_mutable_package_state.
