(** Export: the Go source of opcodeEqualVerify, as printed into gen/Funcs.v on every run, has the meaning the interpreter
    model gives it (proofs/GenFuncs_opcodeEqualVerify.v).  Compiled only while gen/Funcs.status.json says the function is translated. *)
From Coq Require Import List ZArith NArith Bool.
From Coq Require Import Strings.Byte.
From GoBT Require Import lib.Bytes lib.GoSem lib.GoInterp gen.Funcs proofs.GenFuncsTac proofs.GenFuncsInterpTac proofs.GenFuncs_stack_PopByteArray proofs.GenFuncs_stack_PushBool proofs.GenFuncs_stack_PopBool proofs.GenFuncs_asBool proofs.GenFuncs_opcodeEqualVerify.
From GoBT Require model.Interp model.ScriptNum.
Import ListNotations.
Local Open Scope Z_scope.

Theorem C05_go_source_opcodeEqualVerify_is_model : forall so c p idx s, small (Interp.ds s) -> items_ok (Interp.ds s) -> Interp.p_real p = true -> Interp.p_val p = Interp.OP_EQUALVERIFY ->
  h_view s (opcodeEqualVerify (rev (Interp.ds s))) = Some (Interp.exec_handler so c p idx s).
Proof. exact opcodeEqualVerify_is_model. Qed.
Print Assumptions C05_go_source_opcodeEqualVerify_is_model.
