(** Export: the Go source of Script.IsMultiSigOut, as printed into gen/Funcs.v on every run, is the model function the
    property theorems are about (proofs/GenFuncs_Script_IsMultiSigOut.v).  Compiled only while gen/Funcs.status.json says the
    function is translated. The printed function calls the printed Script.IsData, DecodeParts and isSmallIntOp; panic case included.  Hypothesis (Go's): fewer than 2^63 bytes. *)
From Coq Require Import List ZArith NArith Bool.
From Coq Require Import Strings.Byte.
From GoBT Require Import lib.Bytes lib.GoSem lib.GoTx gen.Funcs proofs.GenFuncsTac proofs.GenFuncs_Script_IsMultiSigOut.
Local Open Scope Z_scope.

Theorem C14_go_source_Script_IsMultiSigOut_is_model :
  forall b : bytes, (lenN b < 9223372036854775808)%N -> to_outcome (Script_IsMultiSigOut b) = GoBT.model.Classify.is_multisig_out b.
Proof. exact Script_IsMultiSigOut_is_model. Qed.
Print Assumptions C14_go_source_Script_IsMultiSigOut_is_model.
