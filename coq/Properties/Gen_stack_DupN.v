(** Export: the Go source of stack.DupN, as printed into gen/Funcs.v on every run, has the meaning the interpreter
    model gives it (proofs/GenFuncs_stack_DupN.v).  Compiled only while gen/Funcs.status.json says the function is translated. *)
From Coq Require Import List ZArith NArith Bool.
From Coq Require Import Strings.Byte.
From GoBT Require Import lib.Bytes lib.GoSem lib.GoInterp gen.Funcs proofs.GenFuncsTac proofs.GenFuncsInterpTac proofs.GenFuncs_stack_PeekByteArray proofs.GenFuncs_stack_PushByteArray proofs.GenFuncs_stack_DupN.
From GoBT Require model.Interp model.ScriptNum.
Import ListNotations.
Local Open Scope Z_scope.

Theorem C05_go_source_stack_DupN_is_model : forall (n : Z) (d : list bytes), small d -> n = 1 \/ n = 2 \/ n = 3 ->
  st_view (stack_DupN n (rev d)) = Val (Interp.dup_n (Z.to_nat n) d).
Proof. exact stack_DupN_inst. Qed.
Print Assumptions C05_go_source_stack_DupN_is_model.

Theorem C08_go_source_stack_DupN_is_model : forall (n : Z) (d : list bytes), small d -> n = 1 \/ n = 2 \/ n = 3 ->
  st_view (stack_DupN n (rev d)) = Val (Interp.dup_n (Z.to_nat n) d).
Proof. exact stack_DupN_inst. Qed.
Print Assumptions C08_go_source_stack_DupN_is_model.
