(** Export: the Go source of Script.PublicKeyHash, as printed into gen/Funcs.v on every run, is the model function the
    property theorems are about (proofs/GenFuncs_Script_PublicKeyHash.v).  Compiled only while gen/Funcs.status.json says the
    function is translated. The receiver is a pointer ([None] = the nil *Script); [to_res] maps ([]byte, error) to the model's outcome, a non-nil error being [Err]; panic case included (parts[0] is indexed without a length check). *)
From Coq Require Import List ZArith NArith Bool.
From Coq Require Import Strings.Byte.
From GoBT Require Import lib.Bytes lib.GoSem lib.GoTx gen.Funcs proofs.GenFuncsTac proofs.GenFuncs_Script_PublicKeyHash.
Local Open Scope Z_scope.

Theorem C14_go_source_Script_PublicKeyHash_is_model :
  forall b : bytes, to_res (Script_PublicKeyHash (Some b)) = GoBT.model.Classify.public_key_hash b.
Proof. exact Script_PublicKeyHash_is_model. Qed.
Print Assumptions C14_go_source_Script_PublicKeyHash_is_model.

Theorem C14_go_source_Script_PublicKeyHash_nil_receiver :
  Script_PublicKeyHash None = Val (@nil byte, true).
Proof. exact Script_PublicKeyHash_nil. Qed.
Print Assumptions C14_go_source_Script_PublicKeyHash_nil_receiver.

Theorem C16_go_source_Script_PublicKeyHash_is_model :
  forall b : bytes, to_res (Script_PublicKeyHash (Some b)) = GoBT.model.Classify.public_key_hash b.
Proof. exact Script_PublicKeyHash_is_model. Qed.
Print Assumptions C16_go_source_Script_PublicKeyHash_is_model.
