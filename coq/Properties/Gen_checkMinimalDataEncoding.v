(** Export: the Go source of checkMinimalDataEncoding, as printed into gen/Funcs.v on every run, is the model function the
    property theorems are about (proofs/GenFuncs_checkMinimalDataEncoding.v).  Compiled only while gen/Funcs.status.json says the
    function is translated. *)
From Coq Require Import List ZArith NArith Bool.
From Coq Require Import Strings.Byte.
From GoBT Require Import lib.Bytes lib.GoSem gen.Funcs proofs.GenFuncsTac proofs.GenFuncs_checkMinimalDataEncoding.
Local Open Scope Z_scope.

Theorem C05_go_source_checkMinimalDataEncoding_is_model :
  forall v : bytes, (lenN v < 9223372036854775808)%N -> checkMinimalDataEncoding v = Val (negb (GoBT.model.ScriptNum.is_minimal v)).
Proof. exact checkMinimalDataEncoding_is_model. Qed.
Print Assumptions C05_go_source_checkMinimalDataEncoding_is_model.
