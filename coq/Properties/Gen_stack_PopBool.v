(** Export: the Go source of stack.PopBool, as printed into gen/Funcs.v on every run, has the meaning the interpreter
    model gives it (proofs/GenFuncs_stack_PopBool.v).  Compiled only while gen/Funcs.status.json says the function is translated. *)
From Coq Require Import List ZArith NArith Bool.
From Coq Require Import Strings.Byte.
From GoBT Require Import lib.Bytes lib.GoSem lib.GoInterp gen.Funcs proofs.GenFuncsTac proofs.GenFuncsInterpTac proofs.GenFuncs_stack_PopByteArray proofs.GenFuncs_stack_PopBool.
From GoBT Require model.Interp model.ScriptNum.
Import ListNotations.
Local Open Scope Z_scope.

Theorem C05_go_source_stack_PopBool_is_model : forall (d : list bytes), Interp.lenZ d < 2147483648 ->
  stack_PopBool (rev d) =
  match d with [] => Val (rev [], (false, true)) | x :: r => bind (asBool x) (fun b => Val (rev r, (b, false))) end.
Proof. exact stack_PopBool_spec. Qed.
Print Assumptions C05_go_source_stack_PopBool_is_model.
