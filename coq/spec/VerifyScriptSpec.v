(** Specification of Bitcoin SV's VerifyScript as a composition of per-script evaluations.

    The node evaluates the unlocking script, then the locking script on the resulting data stack and,
    for pay-to-script-hash outputs before Genesis, the redeem script on the stack the unlocking script
    left (minus the serialised script itself).  Each evaluation is a separate call of EvalScript: only the
    DATA STACK is handed from one script to the next; the alt stack, the condition ("vfExec") stack, the
    else stack, the opcode counter and the code-separator position are local to one evaluation.

    The interpreter model (model/Interp.v, in the shape of go-bt's thread.Step) is one machine that runs
    through the scripts in sequence and resets parts of its state at every script boundary.
    proofs/VerifyRefine.v proves that its verdict is the one defined here.

    The per-opcode semantics ([run_ops], i.e. thread.executeOpcode applied to the opcodes in order, with the
    combined stack-size limit after each) is shared with the model: this file specifies the composition,
    not the opcodes. *)
From Coq Require Import List NArith ZArith Bool.
From Coq Require Import Strings.Byte.
From GoBT Require Import lib.Bytes model.ScriptNum model.Interp.
Import ListNotations.
Local Open Scope Z_scope.

(** result of evaluating one script: the data stack it leaves, a script error, or a Go panic *)
Inductive eres :=
| EOk (d : list bytes)
| EErr
| EPanic.

(** EvalScript: ONE script on the data stack [d].  Every other component of the machine starts empty:
    [set_ds (init_st ops) d] has an empty alt stack, condition stack and else stack, zero counted
    opcodes, no code separator seen, and [ops] as the current script.
    - a zero-length script is skipped and leaves the stack as it is;
    - a top-level OP_RETURN after Genesis ([SReturn]) ends the script successfully;
    - a script that runs off its end with an open conditional is an error. *)
Definition eval_script (so : sigops) (c : ctx) (ops : list pop) (d : list bytes) : eres :=
  match ops with
  | [] => EOk d
  | _ :: _ =>
      match fst (run_ops so c ops 0 (set_ds (init_st ops) d) []) with
      | SErr => EErr
      | SPanic => EPanic
      | SReturn s => EOk (ds s)
      | SEnd s => match cond s with [] => EOk (ds s) | _ :: _ => EErr end
      end
  end.

(** the final check on a data stack: non-empty, true on top, and (CLEANSTACK) nothing else *)
Definition final_verdict (c : ctx) (d : list bytes) : verdict :=
  if check_error_condition c true d then VOk else VErr.

(** pay-to-script-hash evaluation is in force: the caller asked for it ([bip16]: the BIP16 flag is set and
    the locking script has the P2SH shape) and the Genesis rules are not active *)
Definition p2sh_active (c : ctx) (bip16 : bool) : bool := bip16 && negb (after_genesis c).

(** VerifyScript over the parsed scripts *)
Definition verify_script (so : sigops) (c : ctx) (bip16 : bool) (unlock lock : list pop) : verdict :=
  match unlock, lock with
  | [], [] => VErr
  | _, _ =>
      match eval_script so c unlock [] with
      | EErr => VErr
      | EPanic => VPanic
      | EOk d1 =>
          match eval_script so c lock d1 with
          | EErr => VErr
          | EPanic => VPanic
          | EOk d2 =>
              if p2sh_active c bip16 then
                (* the locking script (the hash comparison) must have succeeded *)
                if negb (check_error_condition c false d2) then VErr
                else
                  (* the redeem script is the top item the unlocking script left *)
                  match d1 with
                  | [] => VPanic
                  | script :: below =>
                      match parse_script (c_err_on_checksig c) script with
                      | None => VErr
                      | Some redeem =>
                          match eval_script so c redeem below with
                          | EErr => VErr
                          | EPanic => VPanic
                          | EOk d3 => final_verdict c d3
                          end
                      end
                  end
              else final_verdict c d2
          end
      end
  end.

(** ** The entry point: argument checks of Engine.Execute / thread.apply, then [verify_script] *)
Definition entry_ctx (i : exec_input) : ctx :=
  mkCtx (normalise_flags (ei_flags i)) (ei_has_tx i) (ei_tx_lock i) (ei_tx_version i) (ei_in_seq i)
        (negb (ei_has_tx i) || negb (ei_has_prevout i)).

Definition verify_entry (so : sigops) (i : exec_input) : verdict :=
  let c := entry_ctx i in
  match ei_unlock i, ei_lock i with
  | [], [] => VErr                                                       (* both scripts empty *)
  | _, _ =>
      if has_flag c F_CLEANSTACK && negb (has_flag c F_BIP16) then VErr    (* CLEANSTACK needs BIP16 *)
      else if (max_script_size c <? lenZ (ei_unlock i)) || (max_script_size c <? lenZ (ei_lock i)) then VErr
      else
        match parse_script (c_err_on_checksig c) (ei_unlock i) with
        | None => VErr
        | Some u =>
            match parse_script (c_err_on_checksig c) (ei_lock i) with
            | None => VErr
            | Some l =>
                if has_flag c F_SIGPUSHONLY && negb (is_push_only u) then VErr
                else
                  let p2sh := has_flag c F_BIP16 && negb (after_genesis c) && is_p2sh (ei_lock i) in
                  if p2sh && negb (is_push_only u) then VErr                (* P2SH: push-only unlocking script *)
                  else verify_script so c p2sh u l
            end
        end
  end.
