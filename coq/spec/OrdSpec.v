(** What C20 demands, stated without reference to the code.

    1. First-in-first-out satoshi numbering (ordinal theory): the satoshis of a transaction's inputs,
       concatenated in input order, are assigned to the outputs in output order; output k receives the
       satoshis numbered [sum of outputs before k, sum of outputs up to and including k).  Satoshis
       beyond the last output are the fee.
    2. What a SIGHASH_SINGLE|ANYONECANPAY|FORKID signature commits to: by the replay-protected digest
       (spec/DigestSpec.v) with both zeroing rules in force, only the version, the signed input's own
       outpoint / script code / value / sequence, the output at the signed input's index, the locktime
       and the hash type.  [single_acp_preimage] is that digest as a function of exactly those things.
    3. What SIGHASH_SINGLE|FORKID (without ANYONECANPAY) commits to in addition: every input's outpoint. *)
From Coq Require Import List NArith.
From Coq Require Import Strings.Byte.
From GoBT Require Import lib.Bytes spec.DigestSpec.
Import ListNotations.
Local Open Scope N_scope.

(** ** first-in-first-out satoshi numbering *)
Definition sum_list (l : list N) : N := fold_right N.add 0 l.

(** number of the first satoshi of input [k], given the input values *)
Definition first_sat_of_input (ins : list N) (k : nat) : N := sum_list (firstn k ins).

(** satoshi number [s] is assigned to output [k], given the output values *)
Definition lands_in (outs : list N) (s : N) (k : nat) : Prop :=
  (k < length outs)%nat /\ sum_list (firstn k outs) <= s < sum_list (firstn (S k) outs).

(** the same as a function: the output a satoshi number is assigned to ([None]: it is part of the fee) *)
Fixpoint output_of_sat (outs : list N) (s : N) : option nat :=
  match outs with
  | [] => None
  | v :: r => if s <? v then Some O else option_map S (output_of_sat r (s - v))
  end.

(** ** SINGLE|ANYONECANPAY: the digest as a function of what it commits to *)
Definition single_acp_preimage (version : N) (prevout : outpoint) (script_code : bytes)
    (amount sequence : N) (matching_output : option txout) (locktime ht : N) : bytes :=
  u32 version ++ uint256_zero ++ uint256_zero ++ ser_outpoint prevout ++ ser_script script_code ++
  u64 amount ++ u32 sequence ++
  match matching_output with Some o => hash256 (ser_txout o) | None => uint256_zero end ++
  u32 locktime ++ u32 ht.

(** ** SINGLE without ANYONECANPAY: additionally all the outpoints *)
Definition single_preimage (version : N) (all_prevouts : list outpoint) (prevout : outpoint)
    (script_code : bytes) (amount sequence : N) (matching_output : option txout) (locktime ht : N) : bytes :=
  u32 version ++ hash256 (concat (map ser_outpoint all_prevouts)) ++ uint256_zero ++
  ser_outpoint prevout ++ ser_script script_code ++ u64 amount ++ u32 sequence ++
  match matching_output with Some o => hash256 (ser_txout o) | None => uint256_zero end ++
  u32 locktime ++ u32 ht.

(** SIGHASH_SINGLE | SIGHASH_FORKID | SIGHASH_ANYONECANPAY and SIGHASH_SINGLE | SIGHASH_FORKID *)
Definition SINGLE_ACP_FORKID : N := 195.   (* 0xc3 *)
Definition SINGLE_FORKID : N := 67.        (* 0x43 *)
Definition ALL_FORKID : N := 65.           (* 0x41 *)
