(** C18 — what is demanded of a lock-based program (short, readable statements).

    - a data race: two different threads positioned at accesses to the same location, at least
      one of them a write (for lock-based programs this is the standard definition: the two
      accesses are not ordered by a common mutex held in modes that exclude each other — if they
      were, the two threads could not both be positioned at them);
    - reads see writes: every value a read returned is the initial value of the location or a
      value some completed write stored there (and, stronger, the newest one);
    - a deadlock ([stuck]): some thread has work left and no thread can take a step;
    - sequential meaning of a lock-free program, against which concurrent runs are compared. *)
From Coq Require Import List String Bool Arith PeanoNat.
From GoBT Require Import model.Locks.
Import ListNotations.

(** the location an action accesses, and whether it writes *)
Definition access (a : mact) : option (loc * bool) :=
  match a with
  | GRead o f => Some ((o, f), false)
  | GWBegin o f => Some ((o, f), true)
  | GWEnd o f _ => Some ((o, f), true)
  | _ => None
  end.

Definition positioned_at (s : state) (t : tid) (l : loc) (w : bool) : Prop :=
  exists a rest, prog (thr s t) = a :: rest /\ access a = Some (l, w).

Definition racy (s : state) : Prop :=
  exists t1 t2 l w1 w2, t1 <> t2 /\ positioned_at s t1 l w1 /\ positioned_at s t2 l w2 /\ (w1 = true \/ w2 = true).

(** every logged read of every thread returned the initial value or a stored one *)
Definition reads_from_writes (mem0 : loc -> value) (s : state) : Prop :=
  forall t l v, In (l, v) (log (thr s t)) -> v = mem0 l \/ In v (written s l).

(** linearizability of one guarded location: a read returns the newest completed write *)
Definition newest (mem0 : loc -> value) (s : state) (l : loc) : value := hd (mem0 l) (written s l).

(** deadlock: some thread still has work to do, yet no thread can take a step, whatever the
    schedule offers ([step] answers [None] for a finished thread, for an acquire of a mutex that is
    not available, and for an unlock of a mutex the thread does not hold) *)
Definition stuck (s : state) : Prop :=
  (exists t, prog (thr s t) <> []) /\ forall t g, step s t g = None.

(** sequential meaning of a program: plain memory, no threads; the log of its reads (newest first) *)
Fixpoint seq_log (m : loc -> value) (p : list mact) (acc : list (loc * value)) : list (loc * value) :=
  match p with
  | [] => acc
  | GRead o f :: r => seq_log m r (((o, f), m (o, f)) :: acc)
  | GWEnd o f v :: r => seq_log (upd_loc m (o, f) v) r acc
  | _ :: r => seq_log m r acc
  end.

(** the check the run-time harness' observations are put through (same shape as
    [reads_from_writes], over whatever keys and values the harness uses) *)
Definition observed_ok {L V} (leqb : L -> L -> bool) (veqb : V -> V -> bool)
           (init stored : list (L * V)) (reads : list (L * V)) : bool :=
  forallb (fun r => existsb (fun w => leqb (fst w) (fst r) && veqb (snd w) (snd r)) (init ++ stored)) reads.
