(** Specification side of C14: the standard script templates as byte-level recognisers, written
    independently of the library's classifier (no tokeniser involved: each template is spelled out
    as a concatenation of literal bytes and length-prefixed fields). *)
From Coq Require Import List NArith Lia.
From Coq Require Import Strings.Byte.
From GoBT Require Import lib.Bytes spec.PushSpec.
Import ListNotations.
Local Open Scope N_scope.

(** P2PKH: OP_DUP OP_HASH160 <20 bytes> OP_EQUALVERIFY OP_CHECKSIG — exactly 25 bytes *)
Definition p2pkh_script (h : bytes) : bytes := [x76; xa9; x14] ++ h ++ [x88; xac].
Definition is_p2pkh_t (s : bytes) : Prop := exists h, length h = 20%nat /\ s = p2pkh_script h.

(** a public key of valid length: 33 bytes starting 02/03, or 65 bytes starting 04/06/07 *)
Definition valid_pubkey (k : bytes) : Prop :=
  match k with
  | v :: _ =>
      (length k = 33%nat /\ (b2n v = 2 \/ b2n v = 3)) \/
      (length k = 65%nat /\ (b2n v = 4 \/ b2n v = 6 \/ b2n v = 7))
  | [] => False
  end.
(** a key-sized field (for multisig the library does not look inside the keys) *)
Definition key_sized (k : bytes) : Prop := length k = 33%nat \/ length k = 65%nat.
(** direct push of 1..75 bytes *)
Definition push_direct (d : bytes) : bytes := n2b (lenN d) :: d.

(** P2PK: <key> OP_CHECKSIG *)
Definition is_p2pk_t (s : bytes) : Prop := exists k, valid_pubkey k /\ s = push_direct k ++ [xac].

(** bare m-of-n multisig: OP_m <key>*n OP_n OP_CHECKMULTISIG, 1 <= m <= n <= 16 *)
Definition op_n (k : N) : byte := n2b (80 + k).
Definition is_multisig_t (s : bytes) : Prop :=
  exists m keys, 1 <= m /\ m <= N.of_nat (length keys) /\ N.of_nat (length keys) <= 16 /\ Forall key_sized keys /\
    s = [op_n m] ++ concat (map push_direct keys) ++ [op_n (N.of_nat (length keys)); xae].

(** data: starts with OP_RETURN or OP_FALSE OP_RETURN *)
Definition is_data_t (s : bytes) : Prop := exists t, s = x6a :: t \/ s = x00 :: x6a :: t.

(** how the library's Inscribe writes a field: OP_0 for the empty string, else the shortest push *)
Definition min_push (x e : bytes) : Prop :=
  (x = [] /\ e = [x00]) \/ (exists hdr, 1 <= lenN x /\ shortest_header hdr (lenN x) /\ e = hdr ++ x).

(** a sequence of complete tokens (any opcodes, any push forms) *)
Inductive tokens : bytes -> Prop :=
| tok_nil : tokens []
| tok_op b r : non_push b -> tokens r -> tokens (b :: r)
| tok_push hdr data r : push_header hdr (lenN data) -> tokens r -> tokens (hdr ++ data ++ r).

(** P2PKH inscription (1Sat ordinals envelope after a P2PKH prefix, optionally followed by
    OP_RETURN and further well-formed pushes):
    p2pkh OP_FALSE OP_IF <"ord"> OP_1 <content type> OP_0 <data> OP_ENDIF [OP_RETURN ...] *)
Definition ord_header : bytes := [x00; x63; x03; x6f; x72; x64; x51].
Definition is_inscription_t (s : bytes) : Prop :=
  exists h ct data ect edata suffix,
    length h = 20%nat /\ min_push ct ect /\ min_push data edata /\
    (suffix = [] \/ exists t, suffix = x6a :: t /\ tokens t) /\
    s = p2pkh_script h ++ ord_header ++ ect ++ [x00] ++ edata ++ [x68] ++ suffix.
