(** What the fee properties (C10, C11, C12) demand, stated without reference to the code:
    the fee a miner quotes for a transaction whose bytes split into standard and data bytes, the
    dust limit, and the slack by which a change computation may overpay. *)
From Coq Require Import NArith.
From GoBT Require Import gen.Consts.
Local Open Scope N_scope.

(** a fee unit of a quote: [r_sat] satoshis per [r_bytes] bytes (FeeUnit{Satoshis, Bytes}) *)
Record rate := mkRate { r_sat : N; r_bytes : N }.

(** the quote for [n] bytes at a rate: rounded down to whole satoshis *)
Definition floor_fee (n : N) (r : rate) : N := n * r_sat r / r_bytes r.

(** the quoted fee of a (standard bytes, data bytes) size pair: each part floored separately *)
Definition quoted_fee (std data : rate) (std_bytes data_bytes : N) : N :=
  floor_fee std_bytes std + floor_fee data_bytes data.

(** outputs at or below this many satoshis are not worth creating (txchange.go DustLimit, regenerated) *)
Definition dust : N := dust_limit.

(** C10: the fee left after adding change may exceed the quoted fee by at most the fee for nine bytes
    plus nine satoshis *)
Definition slack (std : rate) : N := floor_fee 9 std + 9.
