(** Specification of the positions the OP_CHECKMULTISIG loop examines (C06), written independently of the
    interpreter model.

    The node's algorithm (CScript evaluation of OP_CHECKMULTISIG) walks the keys once, in the order they are
    popped; it pairs the current signature with the current key:

      start at (signature 0, key 0);
      on success advance both, on failure advance the key only;
      stop when every signature has been matched, or when fewer keys than signatures remain.

    [ok j i] is "signature j verifies under key i" (positions in loop order).  [examined ok nsigs nkeys] is the
    sequence of (signature index, key index) pairs the algorithm looks at, in that order.  The recursion is
    over the number of keys that remain (one key is consumed per pair): no fuel.

    Closed form ([reached]): the k-th examined pair has key index k; its signature index is the number of
    successes among the earlier pairs ([hits]); pair number k exists exactly while a signature is left and no
    fewer keys than signatures remain.

    Nothing here mentions the interpreter model. *)
From Coq Require Import List Arith Bool.
Import ListNotations.

Section Trace.
Variable ok : nat -> nat -> bool.      (* ok j i: signature j verifies under key i *)

(** [j], [i]: the current signature / key; [m], [n]: how many signatures / keys remain (current one included) *)
Fixpoint examined_from (j i m n : nat) : list (nat * nat) :=
  match n with
  | 0 => []                                             (* no key left *)
  | S n' =>
      match m with
      | 0 => []                                         (* every signature is matched *)
      | S m' =>
          if Nat.ltb n m then []                        (* nsigs > nkeys remaining: cannot succeed any more *)
          else (j, i) :: (if ok j i then examined_from (S j) (S i) m' n'     (* success: next signature, next key *)
                          else examined_from j (S i) m n')                   (* failure: same signature, next key *)
      end
  end.

Definition examined (nsigs nkeys : nat) : list (nat * nat) := examined_from 0 0 nsigs nkeys.

(** the closed form.  [hits i]: the number of successes among the pairs with a key index below [i]; it is the
    signature index paired with key [i] *)
Fixpoint hits (i : nat) : nat :=
  match i with
  | 0 => 0
  | S i' => if ok (hits i') i' then S (hits i') else hits i'
  end.

(** pair (j, i) is examined: j is the signature the walk has arrived at when it looks at key i, that signature
    exists, and the signatures left are not more than the keys left *)
Definition reached (nsigs nkeys j i : nat) : Prop :=
  j = hits i /\ j < nsigs /\ nsigs - j <= nkeys - i.

(** the number of successes of a trace; the loop's verdict: every signature found its key *)
Definition successes (tr : list (nat * nat)) : nat := length (filter (fun p => ok (fst p) (snd p)) tr).
Definition verdict (nsigs nkeys : nat) : bool := Nat.eqb (successes (examined nsigs nkeys)) nsigs.
End Trace.

(** What the loop returns, given for each pair
      [bad j i]  : an encoding check that the flags enable fails on signature j or on key i (hard error), and
      [stop j i] : the verification of the pair cannot be carried out and ends the operation with result r
                   (only for pairs whose encodings are fine: the encodings are looked at first).
    The pairs are visited in order; the first pair that is bad, or that stops, decides; if there is none the
    verdict is [final]. *)
Section Outcome.
Context {R : Type}.
Variable bad : nat -> nat -> bool.
Variable stop : nat -> nat -> option R.
Variable err : R.
Variable done : bool -> R.

Fixpoint trace_outcome (final : bool) (tr : list (nat * nat)) : R :=
  match tr with
  | [] => done final
  | (j, i) :: rest =>
      if bad j i then err
      else match stop j i with
           | Some r => r
           | None => trace_outcome final rest
           end
  end.
End Outcome.
