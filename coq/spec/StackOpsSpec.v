(** List-level specification of the counted stack operation the interpreter model has no general primitive for:
    stack.DropN(n) (stack.go) removes the top [n] items.  (The model writes OP_DROP / OP_2DROP as patterns; its general
    primitives [dup_n], [rot_n], [swap_n], [over_n] -- DupN copies the top n items in order, RotN rotates the top 3n
    items left by n, SwapN exchanges the top n with the n below, OverN copies the n items below the top n to the top --
    are specified in proofs/ShiftProofs.v: [dup_n_spec], [rot_n_spec], [swap_n_spec], [over_n_spec] and the [_none]
    theorems.)  Stacks are lists with the TOP FIRST, as in model/Interp.v. *)
From Coq Require Import List Arith Lia.
From GoBT Require Import lib.Bytes.
Import ListNotations.

(** remove the top [n] items; [None] (ErrInvalidStackOperation) when there are fewer *)
Definition drop_n (n : nat) (d : list bytes) : option (list bytes) :=
  if Nat.ltb (length d) n then None else Some (skipn n d).

Theorem drop_n_spec : forall n d r, drop_n n d = Some r ->
  exists top, d = top ++ r /\ length top = n.
Proof.
  intros n d r H. unfold drop_n in H. destruct (Nat.ltb_spec (length d) n) as [Hlt|Hge]; [discriminate|].
  injection H as <-. exists (firstn n d). split; [symmetry; apply firstn_skipn|apply firstn_length_le; exact Hge].
Qed.

Theorem drop_n_app : forall top rest, drop_n (length top) (top ++ rest) = Some rest.
Proof.
  intros top rest. unfold drop_n. rewrite app_length.
  destruct (Nat.ltb_spec (length top + length rest) (length top)) as [H|H]; [lia|].
  rewrite skipn_app, skipn_all, Nat.sub_diag. reflexivity.
Qed.

Theorem drop_n_none : forall n d, drop_n n d = None <-> length d < n.
Proof. intros n d. unfold drop_n. destruct (Nat.ltb_spec (length d) n); split; intros; try discriminate; try lia; reflexivity. Qed.

(** the instances the opcode handlers use *)
Theorem drop_n_1 : forall d, drop_n 1 d = match d with _ :: r => Some r | _ => None end.
Proof. intros [|x r]; reflexivity. Qed.
Theorem drop_n_2 : forall d, drop_n 2 d = match d with _ :: _ :: r => Some r | _ => None end.
Proof. intros [|x [|y r]]; reflexivity. Qed.
