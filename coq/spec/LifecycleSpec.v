(** The documented callback order of interpreter.Debugger as a grammar (C19), independent of the automaton
    [Debug.lifecycle_ok] that decides it (proofs/DebugProofs.lifecycle_ok_iff shows they agree).

      execute  ::= BE step+ AE (EOK | EER)
                 | BE step* interrupted AE EER
      step     ::= BS BO AO AS                 an instruction inside a script
                 | BS BO AO BC AC AS           the last instruction of a script, then the script change
                 | BS BO BC AC AS              post-genesis top-level OP_RETURN: script change, no AfterExecuteOpcode
      interrupted ::= BS                       invalid program counter
                 | BS BO                       the opcode failed
                 | BS BO AO                    stack overflow / unbalanced conditional at the end of a script
                 | BS BO AO BC AC              pay-to-script-hash: first half failed or redeem script malformed

    (stack push/pop callbacks happen inside BO..AO, between AO and BC, after AC and after AE; they are not
    lifecycle events and are checked by the Go harness only) *)
From Coq Require Import List.
From GoBT Require Import model.Debug.
Import ListNotations.

Inductive complete_step : list ev -> Prop :=
| cs_mid : complete_step [BS; BO; AO; AS]
| cs_end : complete_step [BS; BO; AO; BC; AC; AS]
| cs_ret : complete_step [BS; BO; BC; AC; AS].

Inductive interrupted_step : list ev -> Prop :=
| int_pc : interrupted_step [BS]
| int_op : interrupted_step [BS; BO]
| int_limit : interrupted_step [BS; BO; AO]
| int_p2sh : interrupted_step [BS; BO; AO; BC; AC].

Inductive completed : list ev -> Prop :=
| co_nil : completed []
| co_step st r : complete_step st -> completed r -> completed (st ++ r).

Inductive lifecycle : list ev -> Prop :=
| lc_success st r : complete_step st -> completed r -> lifecycle (BE :: (st ++ r) ++ [AE; EOK])
| lc_failure st r : complete_step st -> completed r -> lifecycle (BE :: (st ++ r) ++ [AE; EER])
| lc_interrupted r b : completed r -> interrupted_step b -> lifecycle (BE :: r ++ b ++ [AE; EER]).
