(** Specification side of C13, conditional depth: which opcodes decide whether an OP_RETURN is "at the top
    level" for the opcode parser, written independently of the parser.

    Only OP_IF (0x63) and OP_NOTIF (0x64) open a conditional block and only OP_ENDIF (0x68) closes one (the
    depth may go below zero: a stray OP_ENDIF).  OP_ELSE switches branch inside the same block; OP_VERIF and
    OP_VERNOTIF never open one (executed they are an error, skipped they do nothing); bytes inside push data are
    not opcodes.  An OP_RETURN met at depth 0 ends the parse and everything after it is one opaque blob. *)
From Coq Require Import List NArith ZArith.
From Coq Require Import Strings.Byte.
From GoBT Require Import lib.Bytes spec.PushSpec.
Import ListNotations.

(** effect of a one-byte opcode on the conditional depth *)
Definition depth_step (b : byte) (d : Z) : Z :=
  match b with
  | x63 | x64 => (d + 1)%Z
  | x68 => (d - 1)%Z
  | _ => d
  end.

(** [walk d pre d']: [pre] is a sequence of complete tokens which, read from conditional depth [d], leaves the
    depth at [d'] and contains no OP_RETURN opcode met at depth 0 (the parser reads all of it) *)
Inductive walk : Z -> bytes -> Z -> Prop :=
| wk_nil d : walk d [] d
| wk_op d b r d' : non_push b -> (b = x6a -> d <> 0%Z) -> walk (depth_step b d) r d' -> walk d (b :: r) d'
| wk_push d hdr data r d' : push_header hdr (lenN data) -> walk d r d' -> walk d (hdr ++ data ++ r) d'.
