(** What a signature commits to (property C04), stated over the node's view of a transaction
    ([spec/DigestSpec.v]) and independently of any cryptography.

    - [sign_ctx]: everything the two digest algorithms read: the transaction, the position of the
      signed input, the script code (the spent output's script) and the spent value.
    - [mutation]: the single-field mutation classes of the property: version, locktime, an input's
      outpoint (txid or vout) or sequence, an output's value or script, insertion / removal of an
      output or of an input (the signed input keeps its identity: its position shifts when an input
      is inserted or removed in front of it), spent value, spent script.
    - [committed alg ht idx nouts field]: THE TABLE — the ALL / NONE / SINGLE x ANYONECANPAY rules,
      "spent value only under FORKID", and the two corner cases of SINGLE without a matching output
      (FORKID: hashOutputs is zero; legacy: the digest is the constant 1 and commits to nothing).
    - the committed VIEW of each algorithm ([forkid_view], [legacy_view]): exactly the structured
      data that enters the digest, and the byte strings built from it ([forkid_components]: the ten
      fields BEFORE the three inner double-SHA-256 are taken; legacy: the preimage itself).

    The theorems (proofs/CommitProofs.v, Properties/C04.v): the preimage is a function of the view;
    the view is unchanged by a mutation of an uncommitted field and changed by an effective mutation
    of a committed one; the pre-hash byte strings are injective in the view. *)
From Coq Require Import List NArith Bool Arith.
From Coq Require Import Strings.Byte.
From GoBT Require Import lib.Bytes lib.VarInt lib.Sha256 spec.DigestSpec.
Import ListNotations.
Local Open Scope N_scope.

(** ** list edits *)
Fixpoint set_nth {A} (j : nat) (f : A -> A) (l : list A) : list A :=
  match l, j with
  | [], _ => []
  | x :: r, O => f x :: r
  | x :: r, S k => x :: set_nth k f r
  end.
Definition insert_at {A} (j : nat) (x : A) (l : list A) : list A := firstn j l ++ x :: skipn j l.
Definition remove_at {A} (j : nat) (l : list A) : list A := firstn j l ++ skipn (S j) l.

(** ** what is signed *)
Record sign_ctx := mkSignCtx {
  sc_tx : transaction;
  sc_idx : nat;          (* position of the signed input *)
  sc_code : bytes;       (* script code: the spent output's locking script *)
  sc_amount : N          (* the spent output's value *)
}.

(** ** the single-field mutations *)
Inductive mutation :=
| MVersion (v : N)
| MLocktime (v : N)
| MInHash (j : nat) (h : bytes)          (* input j spends another transaction *)
| MInVout (j : nat) (n : N)              (* input j spends another output index *)
| MInSequence (j : nat) (s : N)
| MOutValue (j : nat) (v : N)
| MOutScript (j : nat) (s : bytes)
| MOutInsert (j : nat) (o : txout)       (* new output at position j <= #outputs *)
| MOutRemove (j : nat)
| MInInsert (j : nat) (i : txin)         (* new input at position j <= #inputs *)
| MInRemove (j : nat)                    (* j <> the signed input *)
| MSpentValue (v : N)
| MSpentScript (s : bytes).

Definition set_hash (h : bytes) (i : txin) : txin :=
  mkTxIn (mkOutPoint h (op_n (ti_prevout i))) (ti_script_sig i) (ti_sequence i).
Definition set_vout (n : N) (i : txin) : txin :=
  mkTxIn (mkOutPoint (op_hash (ti_prevout i)) n) (ti_script_sig i) (ti_sequence i).
Definition set_sequence (s : N) (i : txin) : txin := mkTxIn (ti_prevout i) (ti_script_sig i) s.
Definition set_value (v : N) (o : txout) : txout := mkTxOut v (to_script o).
Definition set_script (s : bytes) (o : txout) : txout := mkTxOut (to_value o) s.

Definition with_vin (tx : transaction) (vin : list txin) : transaction :=
  mkTransaction (t_version tx) vin (t_vout tx) (t_locktime tx).
Definition with_vout (tx : transaction) (vout : list txout) : transaction :=
  mkTransaction (t_version tx) (t_vin tx) vout (t_locktime tx).
Definition with_tx (c : sign_ctx) (tx : transaction) : sign_ctx :=
  mkSignCtx tx (sc_idx c) (sc_code c) (sc_amount c).

Definition apply_mutation (m : mutation) (c : sign_ctx) : sign_ctx :=
  let tx := sc_tx c in
  match m with
  | MVersion v => with_tx c (mkTransaction v (t_vin tx) (t_vout tx) (t_locktime tx))
  | MLocktime v => with_tx c (mkTransaction (t_version tx) (t_vin tx) (t_vout tx) v)
  | MInHash j h => with_tx c (with_vin tx (set_nth j (set_hash h) (t_vin tx)))
  | MInVout j n => with_tx c (with_vin tx (set_nth j (set_vout n) (t_vin tx)))
  | MInSequence j s => with_tx c (with_vin tx (set_nth j (set_sequence s) (t_vin tx)))
  | MOutValue j v => with_tx c (with_vout tx (set_nth j (set_value v) (t_vout tx)))
  | MOutScript j s => with_tx c (with_vout tx (set_nth j (set_script s) (t_vout tx)))
  | MOutInsert j o => with_tx c (with_vout tx (insert_at j o (t_vout tx)))
  | MOutRemove j => with_tx c (with_vout tx (remove_at j (t_vout tx)))
  | MInInsert j i =>
      mkSignCtx (with_vin tx (insert_at j i (t_vin tx)))
                (if Nat.leb j (sc_idx c) then S (sc_idx c) else sc_idx c) (sc_code c) (sc_amount c)
  | MInRemove j =>
      mkSignCtx (with_vin tx (remove_at j (t_vin tx)))
                (if Nat.ltb j (sc_idx c) then pred (sc_idx c) else sc_idx c) (sc_code c) (sc_amount c)
  | MSpentValue v => mkSignCtx tx (sc_idx c) (sc_code c) v
  | MSpentScript s => mkSignCtx tx (sc_idx c) s (sc_amount c)
  end.

(** positions are in range; the signed input itself is never removed *)
Definition applicable (m : mutation) (c : sign_ctx) : Prop :=
  match m with
  | MOutInsert j _ => (j <= length (t_vout (sc_tx c)))%nat
  | MOutRemove j => (j < length (t_vout (sc_tx c)))%nat
  | MInInsert j _ => (j <= length (t_vin (sc_tx c)))%nat
  | MInRemove j => (j < length (t_vin (sc_tx c)))%nat /\ j <> sc_idx c
  | _ => True
  end.

(** the mutation really changes the field it names (a "mutation" to the old value is none) *)
Definition effective (m : mutation) (c : sign_ctx) : Prop :=
  let tx := sc_tx c in
  match m with
  | MVersion v => v <> t_version tx
  | MLocktime v => v <> t_locktime tx
  | MInHash j h => exists i, nth_error (t_vin tx) j = Some i /\ h <> op_hash (ti_prevout i)
  | MInVout j n => exists i, nth_error (t_vin tx) j = Some i /\ n <> op_n (ti_prevout i)
  | MInSequence j s => exists i, nth_error (t_vin tx) j = Some i /\ s <> ti_sequence i
  | MOutValue j v => exists o, nth_error (t_vout tx) j = Some o /\ v <> to_value o
  | MOutScript j s => exists o, nth_error (t_vout tx) j = Some o /\ s <> to_script o
  | MSpentValue v => v <> sc_amount c
  | MSpentScript s => s <> sc_code c
  | _ => applicable m c
  end.

(** ** the table *)
Inductive digest_alg := AlgForkid | AlgLegacy.

Inductive field :=
| FVersion | FLocktime
| FOutpoint (j : nat)        (* input j's txid or vout *)
| FSequence (j : nat)
| FOutput (j : nat)          (* output j's value or script *)
| FOutInsert (j : nat) | FOutRemove (j : nat)
| FInInsert (j : nat) | FInRemove (j : nat)
| FSpentValue | FSpentScript.

Definition field_of (m : mutation) : field :=
  match m with
  | MVersion _ => FVersion | MLocktime _ => FLocktime
  | MInHash j _ | MInVout j _ => FOutpoint j
  | MInSequence j _ => FSequence j
  | MOutValue j _ | MOutScript j _ => FOutput j
  | MOutInsert j _ => FOutInsert j | MOutRemove j => FOutRemove j
  | MInInsert j _ => FInInsert j | MInRemove j => FInRemove j
  | MSpentValue _ => FSpentValue | MSpentScript _ => FSpentScript
  end.

(** base type ALL (anything that is neither NONE nor SINGLE signs like ALL) *)
Definition is_all (ht : N) : bool := negb (is_none ht) && negb (is_single ht).

(** [idx]: position of the signed input, [nouts]: number of outputs before the mutation.
    The general rules: *)
Definition committed_rules (alg : digest_alg) (ht : N) (idx nouts : nat) (f : field) : bool :=
  let acp := anyone_can_pay ht in
  match f with
  | FVersion | FLocktime | FSpentScript => true
  | FSpentValue => match alg with AlgForkid => true | AlgLegacy => false end
  (* the signed input's own outpoint and sequence always; the others' outpoints unless ANYONECANPAY;
     the others' sequences only under ALL without ANYONECANPAY *)
  | FOutpoint j => Nat.eqb j idx || negb acp
  | FSequence j => Nat.eqb j idx || (negb acp && is_all ht)
  (* ALL: every output; NONE: none; SINGLE: the output at the signed input's position, only *)
  | FOutput j => if is_none ht then false else if is_single ht then Nat.eqb j idx else true
  (* an output inserted / removed at or before the matching position replaces the matching output
     (when there is one before or after) *)
  | FOutInsert j => if is_none ht then false else if is_single ht then Nat.leb j idx && Nat.leb idx nouts else true
  | FOutRemove j => if is_none ht then false else if is_single ht then Nat.leb j idx && Nat.ltb idx nouts else true
  (* the set of inputs unless ANYONECANPAY; under SINGLE|ANYONECANPAY an input inserted / removed in
     front of the signed one moves it to another output *)
  | FInInsert j => negb acp || (is_single ht && Nat.leb j idx && Nat.ltb idx nouts)
  | FInRemove j => negb acp || (is_single ht && Nat.ltb j idx && Nat.leb idx nouts)
  end.

(** the legacy SIGHASH_SINGLE bug: without a matching output the digest is the constant 1; it
    commits to nothing except to there being no matching output *)
Definition legacy_single_bug (alg : digest_alg) (ht : N) (idx nouts : nat) : bool :=
  match alg with AlgLegacy => is_single ht && Nat.leb nouts idx | AlgForkid => false end.

Definition committed (alg : digest_alg) (ht : N) (idx nouts : nat) (f : field) : bool :=
  if legacy_single_bug alg ht idx nouts then
    match f with
    | FOutInsert _ => Nat.eqb idx nouts                    (* the new output list reaches the signed position *)
    | FInRemove j => Nat.ltb j idx && Nat.eqb idx nouts    (* the signed input moves onto the last output *)
    | _ => false
    end
  else committed_rules alg ht idx nouts f.

Definition committed_in (alg : digest_alg) (ht : N) (c : sign_ctx) (m : mutation) : bool :=
  committed alg ht (sc_idx c) (length (t_vout (sc_tx c))) (field_of m).

(** ** the committed view: replay-protected (FORKID) digest *)
Record forkid_view := mkFV {
  fv_version : N;
  fv_prevouts : option (list outpoint);     (* every input's outpoint, unless ANYONECANPAY *)
  fv_sequences : option (list N);           (* every input's sequence, under ALL without ANYONECANPAY *)
  fv_outpoint : outpoint;                   (* the signed input's *)
  fv_code : bytes;
  fv_amount : N;
  fv_sequence : N;                          (* the signed input's *)
  fv_outputs : option (list txout);         (* ALL: all; SINGLE: the matching one, if any; else nothing *)
  fv_locktime : N;
  fv_type : N }.

Definition forkid_view_of (c : sign_ctx) (ht : N) : option forkid_view :=
  let tx := sc_tx c in
  match nth_error (t_vin tx) (sc_idx c) with
  | None => None
  | Some inp =>
      Some (mkFV (t_version tx)
                 (if commits_to_all_prevouts ht then Some (map ti_prevout (t_vin tx)) else None)
                 (if commits_to_all_sequences ht then Some (map ti_sequence (t_vin tx)) else None)
                 (ti_prevout inp) (sc_code c) (sc_amount c) (ti_sequence inp)
                 (match committed_outputs ht (sc_idx c) (t_vout tx) with
                  | AllOutputs => Some (t_vout tx)
                  | MatchingOutput o => Some [o]
                  | NoOutputs => None
                  end)
                 (t_locktime tx) ht)
  end.

(** the ten fields before the inner hashes: [None] = the field is 32 zero bytes *)
Record forkid_components := mkFC {
  fc_version : bytes; fc_prevouts : option bytes; fc_sequences : option bytes; fc_outpoint : bytes;
  fc_code : bytes; fc_amount : bytes; fc_sequence : bytes; fc_outputs : option bytes;
  fc_locktime : bytes; fc_type : bytes }.

Definition components_of (v : forkid_view) : forkid_components :=
  mkFC (u32 (fv_version v))
       (option_map (fun l => concat (map ser_outpoint l)) (fv_prevouts v))
       (option_map (fun l => concat (map u32 l)) (fv_sequences v))
       (ser_outpoint (fv_outpoint v)) (ser_script (fv_code v)) (u64 (fv_amount v)) (u32 (fv_sequence v))
       (option_map (fun l => concat (map ser_txout l)) (fv_outputs v))
       (u32 (fv_locktime v)) (u32 (fv_type v)).

Definition hash_or_zero (o : option bytes) : bytes :=
  match o with Some b => hash256 b | None => uint256_zero end.

(** the preimage: the only place the three inner hashes are taken *)
Definition assemble (k : forkid_components) : bytes :=
  fc_version k ++ hash_or_zero (fc_prevouts k) ++ hash_or_zero (fc_sequences k) ++ fc_outpoint k ++
  fc_code k ++ fc_amount k ++ fc_sequence k ++ hash_or_zero (fc_outputs k) ++ fc_locktime k ++ fc_type k.

(** ** the committed view: original (legacy) algorithm — the edited copy that is serialised, or
    nothing at all *)
Inductive legacy_view := LVOne | LVCopy (copy : transaction) (ht : N).

Definition legacy_view_of (c : sign_ctx) (ht : N) : legacy_view :=
  let tx := sc_tx c in
  match nth_error (t_vin tx) (sc_idx c) with
  | None => LVOne
  | Some inp =>
      if is_single ht && Nat.leb (length (t_vout tx)) (sc_idx c) then LVOne
      else LVCopy (legacy_tx_copy (sc_code c) tx (sc_idx c) inp ht) ht
  end.

Definition legacy_digest_of (v : legacy_view) : legacy_digest :=
  match v with
  | LVOne => LegacyOne
  | LVCopy copy ht => LegacyPreimage (ser_transaction copy ++ u32 ht)
  end.

(** ** ranges of the fields (what the wire format can carry) *)
Definition wf_outpoint (o : outpoint) : Prop := length (op_hash o) = 32%nat /\ op_n o < two32.
Definition wf_txin (i : txin) : Prop :=
  wf_outpoint (ti_prevout i) /\ lenN (ti_script_sig i) < two64 /\ ti_sequence i < two32.
Definition wf_txout (o : txout) : Prop := to_value o < two64 /\ lenN (to_script o) < two64.
Definition wf_transaction (t : transaction) : Prop :=
  t_version t < two32 /\ t_locktime t < two32 /\ Forall wf_txin (t_vin t) /\ Forall wf_txout (t_vout t) /\
  N.of_nat (length (t_vin t)) < two64 /\ N.of_nat (length (t_vout t)) < two64.
Definition wf_ctx (c : sign_ctx) : Prop :=
  wf_transaction (sc_tx c) /\ lenN (sc_code c) < two64 /\ sc_amount c < two64.
