(** Base58Check P2PKH addresses, the textbook definition:
      address = Base58 (version ‖ h ‖ first4 (sha256d (version ‖ h)))
    with version 0x00 (mainnet) or 0x6f (testnet) and a 20-byte hash h. Base58 itself is
    lib/Base58.v: one '1' per leading zero byte, then the number in base 58 over the alphabet. *)
From Coq Require Import List NArith.
From Coq Require Import Strings.Byte.
From GoBT Require Import lib.Bytes lib.Sha256 lib.Base58.
Import ListNotations.

Definition first4 (b : bytes) : bytes := firstn 4 b.

Definition base58check (version : byte) (h : bytes) : bytes :=
  b58_encode (version :: h ++ first4 (sha256d (version :: h))).

Definition supported_version (v : byte) : Prop := v = x00 \/ v = x6f.

(** [s] (the characters of the string) is a well-formed P2PKH address *)
Definition is_p2pkh_address (s : bytes) : Prop :=
  exists v h, supported_version v /\ length h = 20 /\ s = base58check v h.

(** the same without the checksum requirement: Base58 of any 25 bytes with a supported version *)
Definition is_base58_25 (s : bytes) : Prop :=
  exists v rest, supported_version v /\ length rest = 24 /\ s = b58_encode (v :: rest).

(** the canonical P2PKH locking script *)
Definition p2pkh_script (h : bytes) : bytes := [x76; xa9; x14] ++ h ++ [x88; xac].
