(** BIP65 (OP_CHECKLOCKTIMEVERIFY) and BIP112 (OP_CHECKSEQUENCEVERIFY) as adopted by Bitcoin SV before Genesis,
    stated over the integers: the transaction's fields are UNSIGNED 32-bit numbers (version, lock time, input
    sequence: 0 .. 2^32-1), the operand is a script number of at most five bytes (|operand| < 2^39) - no width in
    which a comparison could wrap or change sign.

    BIP65: the operand must not be negative; operand and lock time must be of the same kind (both block heights,
    < 500 000 000, or both times); the operand must not exceed the lock time; the input must not be final
    (sequence 0xffffffff), because then the lock time is not in force.

    BIP112: the operand must not be negative; when its bit 31 (disable flag) is set the opcode does nothing; else the
    transaction version must be at least 2, the input's sequence must not have bit 31 set, both - masked to the type
    bit 22 and the 16 value bits - must be of the same kind (blocks or 512-second units) and the operand's masked value
    must not exceed the sequence's.

    After Genesis, or without the respective flag, both are NOPs (reserved for upgrades: an error under
    DISCOURAGE_UPGRADABLE_NOPS). *)
From Coq Require Import ZArith Bool.
Local Open Scope Z_scope.

Definition locktime_threshold : Z := 500000000.
Definition seq_final : Z := 4294967295.           (* 0xffffffff *)
Definition seq_disable_bit : Z := 31.
Definition seq_type_flag : Z := 4194304.          (* 1 << 22 *)
Definition seq_mask : Z := 4259839.               (* (1 << 22) | 0xffff *)

Definition same_kind (threshold a b : Z) : bool := Bool.eqb (a <? threshold) (b <? threshold).

Definition bip65_ok (tx_lock in_seq operand : Z) : bool :=
  (0 <=? operand) && same_kind locktime_threshold tx_lock operand && (operand <=? tx_lock) &&
  negb (in_seq =? seq_final).

Definition bip112_ok (tx_version in_seq operand : Z) : bool :=
  (0 <=? operand) &&
  (Z.testbit operand seq_disable_bit ||
   ((2 <=? tx_version) && negb (Z.testbit in_seq seq_disable_bit) &&
    same_kind seq_type_flag (Z.land in_seq seq_mask) (Z.land operand seq_mask) &&
    (Z.land operand seq_mask <=? Z.land in_seq seq_mask))).
