(** The two signature-digest algorithms, written from their specifications and NOT from go-bt:

    - [forkid_preimage]: "BUIP-HF Digest for replay protected signature verification across hard
      forks" (bitcoin-sv doc/abc/replay-protected-sighash.md; the BIP143 layout): ten fields
        1 nVersion (4 LE)   2 hashPrevouts (32)   3 hashSequence (32)   4 outpoint (32 + 4 LE)
        5 scriptCode (CompactSize-prefixed)   6 value (8 LE)   7 nSequence (4 LE)
        8 hashOutputs (32)   9 nLocktime (4 LE)   10 sighash type (4 LE)
      with the three zeroing rules stated as predicates over (base type, ANYONECANPAY).
    - [legacy_signature_hash]: the original Satoshi SignatureHash: copy the transaction, blank
      every input script, install the script code in the signed input, apply the NONE / SINGLE /
      ANYONECANPAY edits, serialise, append the 4-byte hash type; the two "return 1" exits.

    Both take the full 32-bit hash type, as the node does.  Transactions here are the node's wire
    view (previous-output hash in serialisation order); nothing in this file refers to the model.
    The node's own vectors (sighash_bip143.json / sighash_legacy.json) are evaluated against these
    definitions on every run (corr/C02.v, corr/C03.v). *)
From Coq Require Import List NArith Bool.
From Coq Require Import Strings.Byte.
From GoBT Require Import lib.Bytes lib.VarInt lib.Sha256.
Import ListNotations.
Local Open Scope N_scope.

(** ** the node's transaction *)
Record outpoint := mkOutPoint { op_hash : bytes; op_n : N }.
Record txin := mkTxIn { ti_prevout : outpoint; ti_script_sig : bytes; ti_sequence : N }.
Record txout := mkTxOut { to_value : N; to_script : bytes }.
Record transaction := mkTransaction {
  t_version : N; t_vin : list txin; t_vout : list txout; t_locktime : N }.

(** ** serialisation primitives *)
Definition u32 (v : N) : bytes := le_enc 4 v.
Definition u64 (v : N) : bytes := le_enc 8 v.
Definition compact_size (n : N) : bytes := varint_bytes n.
Definition ser_script (s : bytes) : bytes := compact_size (lenN s) ++ s.
Definition ser_outpoint (o : outpoint) : bytes := op_hash o ++ u32 (op_n o).
Definition ser_txin (i : txin) : bytes :=
  ser_outpoint (ti_prevout i) ++ ser_script (ti_script_sig i) ++ u32 (ti_sequence i).
Definition ser_txout (o : txout) : bytes := u64 (to_value o) ++ ser_script (to_script o).
Definition ser_vector {A} (f : A -> bytes) (l : list A) : bytes :=
  compact_size (N.of_nat (length l)) ++ concat (map f l).
Definition ser_transaction (t : transaction) : bytes :=
  u32 (t_version t) ++ ser_vector ser_txin (t_vin t) ++ ser_vector ser_txout (t_vout t) ++
  u32 (t_locktime t).

Definition hash256 (b : bytes) : bytes := sha256 (sha256 b).
Definition uint256_zero : bytes := repeat x00 32.
Definition uint256_one : bytes := x01 :: repeat x00 31.       (* 1 as a little-endian 256-bit number *)

(** ** decomposition of the hash type *)
Definition SIGHASH_ALL : N := 1.
Definition SIGHASH_NONE : N := 2.
Definition SIGHASH_SINGLE : N := 3.
Definition base_type (ht : N) : N := ht mod 32.              (* nHashType & 0x1f *)
Definition anyone_can_pay (ht : N) : bool := N.testbit ht 7. (* nHashType & 0x80 *)
Definition has_forkid (ht : N) : bool := N.testbit ht 6.     (* nHashType & 0x40 *)
Definition is_none (ht : N) : bool := base_type ht =? SIGHASH_NONE.
Definition is_single (ht : N) : bool := base_type ht =? SIGHASH_SINGLE.

(** ** replay-protected (FORKID) digest *)

(** the three zeroing rules *)
Definition commits_to_all_prevouts (ht : N) : bool := negb (anyone_can_pay ht).
Definition commits_to_all_sequences (ht : N) : bool :=
  negb (anyone_can_pay ht) && negb (is_single ht) && negb (is_none ht).
Inductive outputs_commitment := AllOutputs | MatchingOutput (o : txout) | NoOutputs.
Definition committed_outputs (ht : N) (nIn : nat) (vout : list txout) : outputs_commitment :=
  if negb (is_single ht) && negb (is_none ht) then AllOutputs
  else if is_single ht then
    match nth_error vout nIn with Some o => MatchingOutput o | None => NoOutputs end
  else NoOutputs.

Definition hash_prevouts (tx : transaction) (ht : N) : bytes :=
  if commits_to_all_prevouts ht
  then hash256 (concat (map (fun i => ser_outpoint (ti_prevout i)) (t_vin tx)))
  else uint256_zero.
Definition hash_sequence (tx : transaction) (ht : N) : bytes :=
  if commits_to_all_sequences ht
  then hash256 (concat (map (fun i => u32 (ti_sequence i)) (t_vin tx)))
  else uint256_zero.
Definition hash_outputs (tx : transaction) (nIn : nat) (ht : N) : bytes :=
  match committed_outputs ht nIn (t_vout tx) with
  | AllOutputs => hash256 (concat (map ser_txout (t_vout tx)))
  | MatchingOutput o => hash256 (ser_txout o)
  | NoOutputs => uint256_zero
  end.

Record digest_fields := mkDigest {
  d_version : bytes; d_hash_prevouts : bytes; d_hash_sequence : bytes; d_outpoint : bytes;
  d_script_code : bytes; d_value : bytes; d_sequence : bytes; d_hash_outputs : bytes;
  d_locktime : bytes; d_hash_type : bytes }.
Definition digest_bytes (d : digest_fields) : bytes :=
  d_version d ++ d_hash_prevouts d ++ d_hash_sequence d ++ d_outpoint d ++ d_script_code d ++
  d_value d ++ d_sequence d ++ d_hash_outputs d ++ d_locktime d ++ d_hash_type d.

Definition forkid_fields (tx : transaction) (nIn : nat) (inp : txin) (script_code : bytes)
    (amount ht : N) : digest_fields :=
  mkDigest (u32 (t_version tx)) (hash_prevouts tx ht) (hash_sequence tx ht)
           (ser_outpoint (ti_prevout inp)) (ser_script script_code) (u64 amount)
           (u32 (ti_sequence inp)) (hash_outputs tx nIn ht) (u32 (t_locktime tx)) (u32 ht).

(** defined for an existing input only *)
Definition forkid_preimage (tx : transaction) (nIn : nat) (script_code : bytes) (amount ht : N)
    : option bytes :=
  match nth_error (t_vin tx) nIn with
  | Some inp => Some (digest_bytes (forkid_fields tx nIn inp script_code amount ht))
  | None => None
  end.
Definition forkid_sighash (tx : transaction) (nIn : nat) (script_code : bytes) (amount ht : N)
    : option bytes := option_map hash256 (forkid_preimage tx nIn script_code amount ht).

(** ** original (legacy) SignatureHash *)
Definition blank_script (i : txin) : txin := mkTxIn (ti_prevout i) [] (ti_sequence i).
Definition with_script (s : bytes) (i : txin) : txin := mkTxIn (ti_prevout i) s (ti_sequence i).
Definition zero_sequence (i : txin) : txin := mkTxIn (ti_prevout i) (ti_script_sig i) 0.
Definition null_txout : txout := mkTxOut 18446744073709551615 [].   (* CTxOut::SetNull: value -1, empty script *)

(** the transaction that is serialised; [inp] is vin[nIn] *)
Definition legacy_tx_copy (script_code : bytes) (tx : transaction) (nIn : nat) (inp : txin) (ht : N)
    : transaction :=
  let lets_others_update := is_none ht || is_single ht in
  let other (i : txin) := if lets_others_update then zero_sequence (blank_script i) else blank_script i in
  let signed := with_script script_code inp in
  let vin := if anyone_can_pay ht then [signed]
             else map other (firstn nIn (t_vin tx)) ++ signed :: map other (skipn (S nIn) (t_vin tx)) in
  let vout := if is_none ht then []
              else if is_single ht then repeat null_txout nIn ++ firstn 1 (skipn nIn (t_vout tx))
              else t_vout tx in
  mkTransaction (t_version tx) vin vout (t_locktime tx).

Inductive legacy_digest := LegacyOne | LegacyPreimage (b : bytes).

Definition legacy_signature_hash (script_code : bytes) (tx : transaction) (nIn : nat) (ht : N)
    : legacy_digest :=
  match nth_error (t_vin tx) nIn with
  | None => LegacyOne                                   (* nIn out of range: "return 1" *)
  | Some inp =>
      if is_single ht && Nat.leb (length (t_vout tx)) nIn then LegacyOne   (* no matching output: "return 1" *)
      else LegacyPreimage (ser_transaction (legacy_tx_copy script_code tx nIn inp ht) ++ u32 ht)
  end.

Definition legacy_sighash (script_code : bytes) (tx : transaction) (nIn : nat) (ht : N) : bytes :=
  match legacy_signature_hash script_code tx nIn ht with
  | LegacyOne => uint256_one
  | LegacyPreimage p => hash256 p
  end.
