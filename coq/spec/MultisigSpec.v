(** Specifications for the signature opcodes (C06), written independently of the model:

    - [monotone_matching]: m-of-n acceptance — every signature is matched to a key, the matched keys
      appear in the same order as the signatures (inductive definition; [increasing_map] is the same
      thing said with an explicit strictly increasing index map);
    - [strict_der]: the BIP66 grammar of a DER signature (the bytes before the hash-type byte);
    - [low_s]: BIP62 rule 5 / BIP146: S at most half the group order of secp256k1, for signatures whose
      R and S are below the group order.

    Nothing here mentions the interpreter model. *)
From Coq Require Import List NArith Lia Bool.
From Coq Require Import Strings.Byte.
From GoBT Require Import lib.Bytes.
Import ListNotations.

(** ** m-of-n: signatures matched to keys in order *)
Section Matching.
Context {S K : Type}.
Variable ok : S -> K -> Prop.     (* "signature s verifies under key k" *)

Inductive monotone_matching : list S -> list K -> Prop :=
| mm_done ks : monotone_matching [] ks
| mm_take s ss k ks : ok s k -> monotone_matching ss ks -> monotone_matching (s :: ss) (k :: ks)
| mm_skip s ss k ks : monotone_matching (s :: ss) ks -> monotone_matching (s :: ss) (k :: ks).

(** the same with an explicit map: f lists, for each signature in order, the index of its key *)
Fixpoint increasing_from (lo : nat) (f : list nat) : Prop :=
  match f with
  | [] => True
  | j :: r => lo <= j /\ increasing_from (Datatypes.S j) r
  end.
Definition increasing_map (sigs : list S) (keys : list K) : Prop :=
  exists f : list nat,
    increasing_from 0 f /\                                            (* strictly increasing *)
    Forall2 (fun s j => exists k, nth_error keys j = Some k /\ ok s k) sigs f.
End Matching.

(** ** BIP66: strict DER *)
(** an ASN.1 INTEGER body as BIP66 wants it: non-empty, not negative, no unnecessary leading zero *)
Definition der_integer (x : bytes) : Prop :=
  match x with
  | [] => False
  | b0 :: r =>
      (b2n b0 < 128)%N /\
      match r with
      | [] => True
      | b1 :: _ => b2n b0 = 0%N -> (128 <= b2n b1)%N
      end
  end.

(** 0x30 [total length] 0x02 [length of R] R 0x02 [length of S] S, at most 72 bytes (73 with the
    hash-type byte), every length exact, nothing after S *)
Definition strict_der (b : bytes) : Prop :=
  exists R Sv : bytes,
    b = x30 :: n2b (N.of_nat (4 + length R + length Sv)) :: x02 :: n2b (N.of_nat (length R)) :: R ++
        x02 :: n2b (N.of_nat (length Sv)) :: Sv /\
    der_integer R /\ der_integer Sv /\ length b <= 72.

(** the components of a strict-DER signature as numbers (big endian).  BIP62 rule 5 / BIP146 (LOW_S):
    S at most half the group order.  The rule speaks of signatures in range: when R or S is not below
    the group order the signature is not the "high twin" of anything (the node's parser reads it as the
    null signature, which is not high) -- it simply never verifies. *)
Definition secp256k1_order : N := 0xFFFFFFFFFFFFFFFFFFFFFFFFFFFFFFFEBAAEDCE6AF48A03BBFD25E8CD0364141.
Definition in_range (R Sv : bytes) : Prop := (be_dec R < secp256k1_order)%N /\ (be_dec Sv < secp256k1_order)%N.
Definition low_s (R Sv : bytes) : Prop := in_range R Sv -> (be_dec Sv <= secp256k1_order / 2)%N.

Definition strict_der_low_s (b : bytes) : Prop :=
  exists R Sv : bytes,
    b = x30 :: n2b (N.of_nat (4 + length R + length Sv)) :: x02 :: n2b (N.of_nat (length R)) :: R ++
        x02 :: n2b (N.of_nat (length Sv)) :: Sv /\
    der_integer R /\ der_integer Sv /\ length b <= 72 /\ low_s R Sv.
