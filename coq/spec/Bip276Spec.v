(** BIP276 text layout as the BIP (and property C17) specify it:
    prefix, colon, two hex digits of VERSION, two hex digits of NETWORK, hex data, eight hex
    digits of checksum = first four bytes of the double SHA-256 of the preceding text. *)
From Coq Require Import String Ascii List NArith.
From Coq Require Import Strings.Byte.
From GoBT Require Import lib.Bytes lib.Hex lib.Str lib.Sha256.
Import ListNotations.
Local Open Scope string_scope.

(** two lower-case hex digits of a number below 256 *)
Definition hex2 (k : N) : string :=
  String (hexdigit_of (k / 16)) (String (hexdigit_of (k mod 16)) "").

Definition checksum_text (preceding : string) : string :=
  hex_of (firstn 4 (sha256d (bytes_of_string preceding))).

(** [first] and [second] are the two header fields in the order they appear in the text *)
Definition bip276_layout_text (prefix : string) (first second : N) (data : bytes) : string :=
  let preceding := prefix ++ ":" ++ hex2 first ++ hex2 second ++ hex_of data in
  preceding ++ checksum_text preceding.

(** the specified text: version first, then network *)
Definition bip276_spec_text (prefix : string) (version network : N) (data : bytes) : string :=
  bip276_layout_text prefix version network data.

(** a text with the specified shape (any letter case in the fields; whether the checksum is the
    right one is a separate question) *)
Definition no_newline (s : string) : bool :=
  string_forall (fun c => negb (Ascii.eqb c "010"%char)) s.

Definition wellformed_layout (text : string) : Prop :=
  exists p g2 g3 g4 c,
    text = p ++ ":" ++ g2 ++ g3 ++ g4 ++ c /\
    p <> "" /\ no_newline p = true /\
    String.length g2 = 2 /\ String.length g3 = 2 /\ String.length c = 8 /\
    Nat.even (String.length g4) = true /\
    string_forall is_hexdigit (g2 ++ g3 ++ g4 ++ c) = true.
