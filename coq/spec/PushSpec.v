(** Specification side of C13: the Bitcoin push grammar, written independently of the two
    tokenisers of the library.

    A push token is a header followed by exactly as many data bytes as the header announces; there
    are four header forms.  Everything else (0x00 and every byte above OP_PUSHDATA4 = 0x4e) is a
    one-byte opcode. *)
From Coq Require Import List NArith Lia.
From Coq Require Import Strings.Byte.
From GoBT Require Import lib.Bytes.
Import ListNotations.
Local Open Scope N_scope.

(** [push_header hdr n]: [hdr] is a header announcing [n] data bytes *)
Inductive push_header : bytes -> N -> Prop :=
| ph_direct n : 1 <= n <= 75 -> push_header [n2b n] n                      (* OP_DATA_1 .. OP_DATA_75 *)
| ph_pd1 n : n < 256 -> push_header [x4c; n2b n] n                          (* OP_PUSHDATA1 *)
| ph_pd2 n : n < 65536 -> push_header (x4d :: le_enc 2 n) n                 (* OP_PUSHDATA2 *)
| ph_pd4 n : n < 4294967296 -> push_header (x4e :: le_enc 4 n) n.           (* OP_PUSHDATA4 *)

(** a one-byte opcode that is not a push *)
Definition non_push (b : byte) : Prop := b2n b = 0 \/ 78 < b2n b.

(** the header is the shortest one able to announce [n] bytes *)
Definition shortest_header (hdr : bytes) (n : N) : Prop :=
  push_header hdr n /\ forall h, push_header h n -> (length hdr <= length h)%nat.

(** an OP_RETURN opcode (0x6a) sits at a token boundary of [s], all tokens before it complete *)
Inductive op_return_at_boundary : bytes -> Prop :=
| orb_here r : op_return_at_boundary (x6a :: r)
| orb_op b r : non_push b -> op_return_at_boundary r -> op_return_at_boundary (b :: r)
| orb_push hdr data r : push_header hdr (lenN data) -> op_return_at_boundary r ->
    op_return_at_boundary (hdr ++ data ++ r).

(** a well-formed sequence of complete tokens, none of which is OP_RETURN *)
Inductive tokens_no_return : bytes -> Prop :=
| tnr_nil : tokens_no_return []
| tnr_op b r : non_push b -> b <> x6a -> tokens_no_return r -> tokens_no_return (b :: r)
| tnr_push hdr data r : push_header hdr (lenN data) -> tokens_no_return r ->
    tokens_no_return (hdr ++ data ++ r).

(** [t] is a push token cut short: a non-empty proper prefix of header ++ data *)
Definition truncated_push (t : bytes) : Prop :=
  exists hdr data suffix, push_header hdr (lenN data) /\ t <> [] /\ suffix <> [] /\ hdr ++ data = t ++ suffix.

(** ** the domain of the assembly round trip (C13): a non-data script built from non-push opcodes
    and minimal pushes of at least two bytes *)
Definition is_data_script (s : bytes) : bool :=            (* starts with OP_RETURN or OP_FALSE OP_RETURN *)
  match s with
  | x6a :: _ => true
  | x00 :: x6a :: _ => true
  | _ => false
  end.

Inductive asm_token : bytes -> Prop :=
| at_op b : non_push b -> asm_token [b]
| at_push hdr d : 2 <= lenN d -> shortest_header hdr (lenN d) -> asm_token (hdr ++ d).

Inductive asm_tokens : bytes -> Prop :=
| ats_nil : asm_tokens []
| ats_cons tok rest : asm_token tok -> asm_tokens rest -> asm_tokens (tok ++ rest).

Definition asm_domain (s : bytes) : Prop := asm_tokens s /\ is_data_script s = false.
