(** Model of bscript/oppushdata.go: PushDataPrefix, EncodeParts, DecodeParts (and MinPushSize of
    bscript/script.go), in the shape of the code.  Every index / slice expression of DecodeParts is a
    checked primitive of lib/Checked.v; Go [int] is taken to be 64 bits wide.

    DecodeParts as coded: OP_0 (0x00) and every byte above OP_PUSHDATA4 — OP_RETURN included — is
    returned as the one-byte part [[b]] and decoding simply continues (it does not stop at
    OP_RETURN); on a truncated push it returns the parts decoded so far together with the error. *)
From Coq Require Import List NArith Lia ZifyN ZifyNat ZifyBool ZArith Bool.
From Coq Require Import Strings.Byte.
From GoBT Require Import lib.Bytes lib.Checked.
Import ListNotations.
Local Open Scope N_scope.
Local Open Scope bool_scope.

Definition OP_PUSHDATA1 : N := 76.
Definition OP_PUSHDATA2 : N := 77.
Definition OP_PUSHDATA4 : N := 78.

(** ** PushDataPrefix / EncodeParts *)
Definition push_data_prefix (data : bytes) : option bytes :=
  let l := lenN data in
  if l <=? 75 then Some [n2b l]
  else if l <=? 255 then Some [x4c; n2b l]
  else if l <=? 65535 then Some (x4d :: le_enc 2 l)
  else if l <=? 4294967295 then Some (x4e :: le_enc 4 l)
  else None.                                             (* ErrDataTooBig *)

Fixpoint encode_parts (parts : list bytes) : option bytes :=
  match parts with
  | [] => Some []
  | p :: r =>
      match push_data_prefix p with
      | None => None                                     (* ErrPartTooBig *)
      | Some pd => match encode_parts r with Some t => Some (pd ++ p ++ t) | None => None end
      end
  end.

(** MinPushSize (script.go) *)
Definition min_push_size (bb : bytes) : N :=
  let l := lenN bb in
  if 4294967295 <? l then 0
  else if l =? 0 then 1
  else if l =? 1 then
    match bb with
    | b :: _ => if (b2n b <=? 16) || (b2n b =? 129) then 1 else 2
    | [] => 0
    end
  else if l <=? 75 then l + 1
  else if l <=? 255 then l + 2
  else if l <=? 65535 then l + 3
  else l + 5.

(** ** DecodeParts *)
Inductive dstep := DSPart (part rest : bytes) | DSErr | DSPanic.

(** binary.LittleEndian.Uint16 / Uint32 of a slice: index out of range when it is too short *)
Definition le_uint (n : nat) (t : bytes) : option N :=
  if N.of_nat n <=? lenN t then Some (le_dec (firstn n t)) else None.

(** [b = b[hdr:]; if len(b) < l {err}; part := b[:l]; b = b[l:]] *)
Definition take_push (b : bytes) (hdr l : N) : dstep :=
  match slice_from b hdr with
  | None => DSPanic
  | Some b' =>
      if lenN b' <? l then DSErr
      else match slice_to b' l, slice_from b' l with
           | Some part, Some rest => DSPart part rest
           | _, _ => DSPanic
           end
  end.

(** one iteration of the [for len(b) > 0] loop *)
Definition decode_step (b : bytes) : dstep :=
  match idx b 0 with
  | None => DSPanic
  | Some b0 =>
      let op := b2n b0 in
      if op =? OP_PUSHDATA1 then
        if lenN b <? 2 then DSErr
        else match idx b 1 with None => DSPanic | Some l1 => take_push b 2 (b2n l1) end
      else if op =? OP_PUSHDATA2 then
        if lenN b <? 3 then DSErr
        else match slice_from b 1 with
             | None => DSPanic
             | Some t => match le_uint 2 t with None => DSPanic | Some l => take_push b 3 l end
             end
      else if op =? OP_PUSHDATA4 then
        if lenN b <? 5 then DSErr
        else match slice_from b 1 with
             | None => DSPanic
             | Some t => match le_uint 4 t with None => DSPanic | Some l => take_push b 5 l end
             end
      else if (1 <=? op) && (op <=? OP_PUSHDATA4) then
        let l := op in                                   (* a byte; 1+l is byte arithmetic *)
        if lenN b <? (1 + l) mod 256 then DSErr
        else match slice b 1 ((l + 1) mod 256), slice_from b ((1 + l) mod 256) with
             | Some part, Some rest => DSPart part rest
             | _, _ => DSPanic
             end
      else
        match slice_from b 1 with
        | Some rest => DSPart [b0] rest
        | None => DSPanic
        end
  end.

(** result of DecodeParts: the parts and a nil error, or the parts so far and ErrDataTooSmall *)
Inductive dres := DOk (parts : list bytes) | DErr (parts : list bytes) | DPanic | DFuel.

Definition dcons (p : bytes) (r : dres) : dres :=
  match r with DOk l => DOk (p :: l) | DErr l => DErr (p :: l) | DPanic => DPanic | DFuel => DFuel end.

Fixpoint decode_loop (fuel : nat) (b : bytes) : dres :=
  match b with
  | [] => DOk []
  | _ :: _ =>
      match fuel with
      | O => DFuel
      | S f =>
          match decode_step b with
          | DSPart part rest => dcons part (decode_loop f rest)
          | DSErr => DErr []
          | DSPanic => DPanic
          end
      end
  end.

Definition decode_parts (b : bytes) : dres := decode_loop (length b) b.

Definition dres_parts (r : dres) : list bytes := match r with DOk l | DErr l => l | _ => [] end.
Definition dres_ok (r : dres) : bool := match r with DOk _ => true | _ => false end.

(** ** The push grammar both tokenisers follow, as one classification of the first byte *)
Inductive pkind := KOp | KDirect (l : N) | KLen (h : nat).
Definition push_kind (op : N) : pkind :=
  if op =? 76 then KLen 1 else if op =? 77 then KLen 2 else if op =? 78 then KLen 4
  else if (1 <=? op) && (op <=? 75) then KDirect op else KOp.

Definition take_data (l : N) (r : bytes) : dstep :=
  if lenN r <? l then DSErr else DSPart (firstn (N.to_nat l) r) (skipn (N.to_nat l) r).

(** [decode_step] without the bounds-checking noise (proved equal in proofs/PushProofs.v) *)
Definition decode_step_clean (b : bytes) : dstep :=
  match b with
  | [] => DSPanic
  | b0 :: r =>
      match push_kind (b2n b0) with
      | KOp => DSPart [b0] r
      | KDirect l => take_data l r
      | KLen h => if lenN r <? N.of_nat h then DSErr else take_data (le_dec (firstn h r)) (skipn h r)
      end
  end.
