(** C17 — EncodeBIP276 over the MEMORY its payload lives in (additive to model/Bip276.v).

    In model/Bip276.v the payload is a value ([bytes]) and encoding cannot change anything.  In Go the payload
    [BIP276.Data] is a slice: a window (offset, length, capacity) of a buffer the CALLER owns — the locking script of
    one output of a parsed transaction, with the next output's script, or spare capacity, inside the window's
    capacity.  The struct is passed by value but the backing array is not copied.  Here the payload is a Go slice
    value ([gslice] of model/AsmArena.v, where [go_append] has its real meaning: it writes in place behind the
    slice's length while the capacity lasts) and the encoder returns the caller's buffer as it is afterwards.

    The encoder of this file is the code as it is: [fmt.Sprintf("%s:%.2x%.2x%x", ..., script.Data)] only READS the
    window, the checksum is computed over a string of the encoder's own — nothing is appended to [Data].
    proofs/Bip276MemProofs.v: the buffer afterwards is the buffer before, the text is the one model/Bip276.v gives
    for the bytes the window denotes, and therefore a sequence of encodings of sibling windows gives each the text
    of what it held at the start.  The harness states the same on the implementation (harness/cmd/c17/memory.go):
    every payload is a window of a guarded buffer and the whole buffer must be byte for byte what it was; the
    correspondence (corr/C17.v, [CEncWin]) compares the buffer observed after the call with the one computed here. *)
From Coq Require Import List NArith ZArith Bool String Arith.
From Coq Require Import Strings.Byte.
From GoBT Require Import lib.Bytes lib.Hex lib.Str lib.Sha256 model.Bip276 model.AsmArena.
Import ListNotations.
Local Open Scope string_scope.

(** one call: the fields that are values, and the payload as a slice value into the caller's buffer *)
Record enc_call := mkCall { c_prefix : string; c_version : Z; c_network : Z; c_data : gslice }.

(** the value the encoder sees, read through the window *)
Definition value_of (h : bytes) (c : enc_call) : bip276 :=
  mkBip276 (c_prefix c) (c_version c) (c_network c) (rd h (c_data c)).

(** EncodeBIP276 / createBIP276 as coded: the range check, then Sprintf reads the window; no write *)
Definition encode_mem (h : bytes) (c : enc_call) : bytes * string :=
  if ((c_version c <? 1) || (c_version c >? 255) || (c_network c <? 1) || (c_network c >? 255))%Z
  then (h, "ERROR")
  else
    let payload := c_prefix c ++ ":" ++ fmt_x2 (c_network c) ++ fmt_x2 (c_version c) ++ hex_of (rd h (c_data c)) in
    (h, payload ++ checksum_of payload).

(** one call after the other on the same buffer (the outputs of one transaction, in order) *)
Fixpoint encode_seq_mem (h : bytes) (cs : list enc_call) : bytes * list string :=
  match cs with
  | [] => (h, [])
  | c :: r =>
      let '(h1, t) := encode_mem h c in
      let '(h2, ts) := encode_seq_mem h1 r in
      (h2, t :: ts)
  end.

(** ** The shape this file is about: "the data and the checksum that follows it are hex encoded in one go",

    [hex.EncodeToString(append(script.Data, checkSum...))] — one allocation fewer, the same text, and four bytes
    written behind the payload in the caller's buffer whenever the window has the capacity. *)
Definition encode_mem_appending (h : bytes) (c : enc_call) : bytes * string :=
  if ((c_version c <? 1) || (c_version c >? 255) || (c_network c <? 1) || (c_network c >? 255))%Z
  then (h, "ERROR")
  else
    let header := c_prefix c ++ ":" ++ fmt_x2 (c_network c) ++ fmt_x2 (c_version c) in
    let sum := firstn 4 (sha256d (bytes_of_string (header ++ hex_of (rd h (c_data c))))) in
    let '(h1, s1) := go_append_all h (c_data c) sum in
    (h1, header ++ hex_of (rd h1 s1)).

Fixpoint encode_seq_mem_appending (h : bytes) (cs : list enc_call) : bytes * list string :=
  match cs with
  | [] => (h, [])
  | c :: r =>
      let '(h1, t) := encode_mem_appending h c in
      let '(h2, ts) := encode_seq_mem_appending h1 r in
      (h2, t :: ts)
  end.

(** ** what the harness observed of one call, for the correspondence: the places of the buffer that read
    differently after the call, with what they read now *)
Fixpoint apply_writes (h : bytes) (ws : list (N * byte)) : bytes :=
  match ws with
  | [] => h
  | (i, x) :: r => apply_writes (upd h (N.to_nat i) x) r
  end.
