(** C02: the setters / builders through which a caller gives a transaction the fields the FORKID digest
    reads — and what they leave behind when they REFUSE their argument.

    The digest theorems (Properties/C02.v) quantify over "every transaction".  For a caller the transaction
    is what its successful calls made: a call that returns an error has not happened.  This file models,
    in the shape of the Go code (check first, assign afterwards — the order IS the content here):

      input.go    Input.PreviousTxIDAdd, Input.PreviousTxIDAddStr       (tx.go IsValidTxID)
      txinput.go  Tx.From, Tx.FromUTXOs (the loop; inputs added before a refused UTXO stay)

    and, for the other builders of the public API (address / key / script taking output builders, Change*,
    FillInput, JSON …: their own code belongs to other properties' models), only their contract as an
    [effect]: nothing when the call returned an error, the documented effect when it returned nil.

    A result is [(failed, object afterwards)].  Indices are N (held in an int / uint32 in Go); an index
    outside the slice is Go's index panic ([None]). *)
From Coq Require Import List NArith Bool String.
From Coq Require Import Strings.Byte.
From GoBT Require Import lib.Bytes lib.Hex model.Tx model.SigHash.
Import ListNotations.
Local Open Scope N_scope.

(** tx.go: IsValidTxID — len(txid) == 32 *)
Definition is_valid_txid (id : bytes) : bool := Nat.eqb (List.length id) 32.

Definition set_txid (i : input) (id : bytes) : input :=
  mkInput id (in_vout i) (in_unlock i) (in_seq i) (in_sats i) (in_script i).

(** input.go: if !IsValidTxID(txID) { return ErrInvalidTxID }; i.previousTxID = txID; return nil *)
Definition previous_txid_add (i : input) (id : bytes) : bool * input :=
  if negb (is_valid_txid id) then (true, i) else (false, set_txid i id).

(** input.go: bb, err := hex.DecodeString(txID); if err != nil { return err }; return i.PreviousTxIDAdd(bb) *)
Definition previous_txid_add_str (i : input) (s : string) : bool * input :=
  match hexdecode s with
  | None => (true, i)
  | Some bb => previous_txid_add i bb
  end.

(** utxo.go: the fields of a UTXO that FromUTXOs reads (SequenceNumber is not among them) *)
Record utxo := mkUtxo { u_txid : bytes; u_vout : N; u_script : option bytes; u_sats : N }.

Definition add_input (t : tx) (i : input) : tx := mkTx (tx_version t) (tx_ins t ++ [i]) (tx_outs t) (tx_lock t).
Definition add_output (t : tx) (o : output) : tx := mkTx (tx_version t) (tx_ins t) (tx_outs t ++ [o]) (tx_lock t).

(** DefaultSequenceNumber *)
Definition default_sequence : N := 4294967295.

(** txinput.go FromUTXOs: for each utxo: a new Input {Vout, Satoshis, LockingScript, DefaultSequenceNumber};
    if err := i.PreviousTxIDAdd(utxo.TxID); err != nil { return err }; tx.addInput(i) *)
Fixpoint from_utxos (t : tx) (us : list utxo) : bool * tx :=
  match us with
  | [] => (false, t)
  | u :: r =>
      let i := mkInput [] (u_vout u) [] default_sequence (u_sats u) (u_script u) in
      let '(e, i') := previous_txid_add i (u_txid u) in
      if e then (true, t) else from_utxos (add_input t i') r
  end.

(** txinput.go From: the script hex is decoded first, then the txid hex, then FromUTXOs of the one UTXO *)
Definition from (t : tx) (txid : string) (vout : N) (script : string) (sats : N) : bool * tx :=
  match hexdecode script with
  | None => (true, t)
  | Some pts =>
      match hexdecode txid with
      | None => (true, t)
      | Some pti => from_utxos t [mkUtxo pti vout (Some pts) sats]
      end
  end.

(** tx.Inputs[j] = f(tx.Inputs[j]) *)
Fixpoint upd_nth {A} (l : list A) (j : N) (f : A -> A) : list A :=
  match l with
  | [] => []
  | x :: r => if j =? 0 then f x :: r else x :: upd_nth r (j - 1) f
  end.
Definition upd_input (t : tx) (j : N) (f : input -> input) : tx :=
  mkTx (tx_version t) (upd_nth (tx_ins t) j f) (tx_outs t) (tx_lock t).

(** ** the calls of a history *)
Inductive effect :=
| ENothing                                   (* calls that are only ever made in a form that must be refused *)
| EAddOutput (o : output)                    (* output builders: tx.AddOutput(&Output{…}) *)
| ESetUnlock (j : N) (s : bytes)             (* FillInput / InsertInputUnlockingScript *)
| ESetSeqVout (j : N) (seq vout : N).        (* the caller assigns the exported fields itself *)

Inductive op :=
| OTxidAdd (j : N) (id : bytes)              (* tx.Inputs[j].PreviousTxIDAdd(id) *)
| OTxidAddStr (j : N) (s : string)           (* tx.Inputs[j].PreviousTxIDAddStr(s) *)
| OFrom (txid : string) (vout : N) (script : string) (sats : N)
| OFromUTXOs (us : list utxo)
| OBuilder (e : effect).                     (* a builder known only by its contract *)

Definition apply_effect (t : tx) (e : effect) : tx :=
  match e with
  | ENothing => t
  | EAddOutput o => add_output t o
  | ESetUnlock j s =>
      upd_input t j (fun i => mkInput (in_txid i) (in_vout i) s (in_seq i) (in_sats i) (in_script i))
  | ESetSeqVout j seq vout =>
      upd_input t j (fun i => mkInput (in_txid i) vout (in_unlock i) seq (in_sats i) (in_script i))
  end.

(** the calls whose code is modelled: the model decides the verdict.  [None]: index panic (tx.Inputs[j]) *)
Definition run_setter (t : tx) (o : op) : option (bool * tx) :=
  match o with
  | OTxidAdd j id =>
      match nthN (tx_ins t) j with
      | None => None
      | Some i => let '(e, i') := previous_txid_add i id in Some (e, upd_input t j (fun _ => i'))
      end
  | OTxidAddStr j s =>
      match nthN (tx_ins t) j with
      | None => None
      | Some i => let '(e, i') := previous_txid_add_str i s in Some (e, upd_input t j (fun _ => i'))
      end
  | OFrom txid vout script sats => Some (from t txid vout script sats)
  | OFromUTXOs us => Some (from_utxos t us)
  | OBuilder _ => None
  end.

(** one call of a history whose verdict [failed] was observed: the transaction afterwards; [None] when the
    model's own verdict differs from the observed one (or the call indexes outside the inputs) *)
Definition step_op (t : tx) (o : op) (failed : bool) : option tx :=
  match o with
  | OBuilder e => Some (if failed then t else apply_effect t e)
  | _ => match run_setter t o with
         | Some (e, t') => if Bool.eqb e failed then Some t' else None
         | None => None
         end
  end.
