(** A verification as the caller hands it to Engine.Execute - WithScripts, WithTx and the flags together - for the
    signature opcodes (property C04).

    model/ExecOpts.v has the option handling of thread.apply (validate, which script is executed); the transaction
    there carries only what validate and the locktime opcodes read.  Here the transaction is the full model/Tx.v
    object, INCLUDING what its inputs record of their previous outputs before the call, and the previous output
    of WithTx is a (nil-able script, value) pair: the caller may pass the locking script through WithScripts and a
    previous output that carries the value only.  What opcodeCheckSig later clones is the caller's object after
    the bookkeeping at the end of thread.apply:

        if t.tx != nil && t.prevOutput != nil {
            t.tx.InputIdx(t.inputIdx).PreviousTxScript   = t.prevOutput.LockingScript     // nil stays nil
            t.tx.InputIdx(t.inputIdx).PreviousTxSatoshis = t.prevOutput.Satoshis
        }

    [record_prevout] is that store; [call_verdict] is Engine.Execute on the call: [apply_opts] of the projected
    options selects the scripts, the signature opcodes work on the recorded object. *)
From Coq Require Import List NArith ZArith Bool.
From Coq Require Import Strings.Byte.
From GoBT Require Import lib.Bytes model.Tx model.SigHash model.ScriptNum model.Interp model.CheckSig model.ExecOpts.
Import ListNotations.
Local Open Scope N_scope.

(** the *bt.Output given to WithTx: LockingScript (nil-able) and Satoshis *)
Record prev_out := mkPrevOut { po_script : option bytes; po_sats : N }.

Definition with_recorded (p : prev_out) (x : input) : input :=
  mkInput (in_txid x) (in_vout x) (in_unlock x) (in_seq x) (po_sats p) (po_script p).

(** thread.apply's two stores into the caller's transaction object *)
Definition record_prevout (t : tx) (i : N) (p : prev_out) : tx :=
  mkTx (tx_version t) (mapi (fun j x => if j =? i then with_recorded p x else x) (tx_ins t)) (tx_outs t) (tx_lock t).

Record engine_call := mkCall {
  ec_lock : option bytes;        (* WithScripts: lockingScript, nil-able *)
  ec_unlock : option bytes;      (* WithScripts: unlockingScript, nil-able *)
  ec_tx : tx;                    (* WithTx: the object, its inputs recording whatever they record *)
  ec_unlock_nil : bool;          (* ... whose checked input has a nil UnlockingScript ([in_unlock] is then []) *)
  ec_idx : N;                    (* WithTx: inputIdx *)
  ec_prev : prev_out;            (* WithTx: previousTxOut *)
  ec_flags : N
}.

(** what validate / apply read of the object *)
Definition o_tx_of (t : tx) (i : N) (unlock_nil : bool) : o_tx :=
  mkOTx (mapi (fun j x => Some (mkOIn (if (j =? i) && unlock_nil then None else Some (in_unlock x)) (Z.of_N (in_seq x))))
              (tx_ins t))
        (Z.of_N (tx_lock t)) (Z.of_N (tx_version t)).

Definition opts_of_call (k : engine_call) : exec_opts :=
  mkOpts (ec_lock k) (ec_unlock k) (Some (po_script (ec_prev k)))
         (Some (o_tx_of (ec_tx k) (ec_idx k) (ec_unlock_nil k))) (Z.of_N (ec_idx k)) (ec_flags k).

(** the object the signature opcodes clone *)
Definition engine_tx_of_call (k : engine_call) : tx := record_prevout (ec_tx k) (ec_idx k) (ec_prev k).

(** Engine.Execute; [mk]: [mk_sigops orc] or [mk_sigops_loud orc] *)
Definition call_verdict (mk : tx -> N -> sigops) (k : engine_call) : verdict :=
  match apply_opts (opts_of_call k) with
  | ARerr => VErr
  | ARpanic => VPanic
  | ARrun ei => fst (engine_execute (mk (engine_tx_of_call k) (ec_idx k)) ei)
  end.

(** ** the calls that hand over one and the same (transaction, input, scripts, spent value) *)

(** how a script reaches the engine: through the object / the previous output only, through WithScripts only, both *)
Inductive via := ViaObject | ViaScripts | ViaBoth.

Definition arg_of (v : via) (s : bytes) : option bytes := match v with ViaObject => None | _ => Some s end.
Definition held_of (v : via) (s : bytes) : option bytes := match v with ViaScripts => None | _ => Some s end.

(** the object handed to WithTx: [t] with input [i] recording [rec] beforehand (anything: nothing, what the signer
    recorded, another output) and, when the unlocking script travels through WithScripts only, without its script *)
Definition object_for (t : tx) (i : N) (uv : via) (rec : prev_out) : tx :=
  mkTx (tx_version t)
       (mapi (fun j x => if j =? i
                         then mkInput (in_txid x) (in_vout x) (match uv with ViaScripts => [] | _ => in_unlock x end)
                                      (in_seq x) (po_sats rec) (po_script rec)
                         else x) (tx_ins t))
       (tx_outs t) (tx_lock t).

Definition call_for (t : tx) (i : N) (lock unlock : bytes) (sats flags : N) (lv uv : via) (rec : prev_out) : engine_call :=
  mkCall (arg_of lv lock) (arg_of uv unlock) (object_for t i uv rec)
         (match uv with ViaScripts => true | _ => false end) i (mkPrevOut (held_of lv lock) sats) flags.
