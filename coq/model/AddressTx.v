(** Model of the acceptors of address strings that are METHODS OF A TRANSACTION (txoutput.go, txchange.go), as
    functions of the transaction they are called on: Tx.AddP2PKHOutputFromAddress / Tx.PayToAddress and
    Tx.ChangeToAddress.  model/Address.v says what the string alone decides (the script or the error); here the
    receiver is an argument too - every version / input list / output list / lock time, every fee quote - and the
    result is the verdict together with the transaction afterwards, so that "the verdict on a string does not depend on
    the state of the transaction" and "a rejected call leaves the transaction as it was" are statements about values.
    The change arithmetic is model/Change.v (property C10); ChangeToAddress is its composition with
    [p2pkh_from_address], in the order of the code: the string is decoded FIRST, whatever the totals are. *)
From Coq Require Import String List NArith Bool.
From Coq Require Import Strings.Byte.
From GoBT Require Import lib.Bytes lib.Str model.Tx spec.FeeSpec model.Fees model.Change.
From GoBT Require Import model.Address.
Import ListNotations.
Local Open Scope N_scope.

(** Tx.AddP2PKHOutputFromAddress(addr, satoshis):
      s, err := bscript.NewP2PKHFromAddress(addr); if err != nil { return err }
      tx.AddOutput(&Output{Satoshis: satoshis, LockingScript: s}); return nil *)
Definition add_p2pkh_output_from_address (t : tx) (addr : string) (sats : N) : res unit * tx :=
  match p2pkh_from_address addr with
  | Ok s => (Ok tt, add_output t (mkOutput sats s))
  | Err e => (Err e, t)
  | Panic => (Panic, t)
  end.

(** Tx.PayToAddress is that function under another name *)
Definition pay_to_address (t : tx) (addr : string) (sats : N) : res unit * tx :=
  add_p2pkh_output_from_address t addr sats.

(** Tx.ChangeToAddress(addr, f):
      s, err := bscript.NewP2PKHFromAddress(addr); if err != nil { return err }
      return tx.Change(s, f) *)
Definition change_to_address_str (t : tx) (q : quote) (addr : string) : outcome bool * tx :=
  match p2pkh_from_address addr with
  | Ok s => change_to_address t q (Some s)
  | Err _ => change_to_address t q None
  | Panic => (FPanic, t)
  end.

(** the string is refused AS AN ADDRESS (whatever else the call might have objected to) *)
Definition refused_as_address {A} (r : outcome A) : bool :=
  match r with FErr ErrBadAddress => true | _ => false end.
