(** C16 (round 8) - UNMARSHALLING INTO A DESTINATION WITH A PAST.

    model/Json.v sees the unmarshal half as a function from a document to a value (with [prev] for the one field the
    document does not carry).  What the Go code does is WRITE into an object the caller hands in, and what encoding/json
    does with a JSON array is decode INTO the elements the destination slice already has:

      encoding/json decode.go, (d *decodeState).array:   for element i of the document
          if i >= cap(v) { v.Grow(1) }                    beyond the capacity: new backing array, new slots are nil
          if i >= len(v) { v.SetLen(i+1) }                between len and cap: the STALE slot comes back into view
          d.value(v.Index(i))                             indirect(): a non-nil *UTXO is kept and its UnmarshalJSON is
                                                          called on the object it points to; a nil one is allocated first

    so the *bt.UTXO objects of a pre-populated bt.UTXOs are reused, with whatever their fields refer to.  And those
    fields are references: UTXO.TxID is a []byte (a window of some buffer, which other UTXOs, the inputs of a
    transaction built by Tx.FromUTXOs, ... may refer to as well - Tx.AddP2PKHInputsFromTx computes the txid once and
    every UTXO of that transaction gets the same slice), UTXO.LockingScript is a *bscript.Script shared with the
    transaction the UTXO comes from.

    Here: a heap of byte buffers and of UTXO objects; slices are (buffer, offset, length); a *bscript.Script is the
    address of the buffer holding its bytes.  [unmarshal_utxo_at] / [node_unmarshal_utxo_at] are UTXO.UnmarshalJSON and
    nodeUTXOWrapper.UnmarshalJSON as they are in utxojson.go: hex.DecodeString and bscript.NewFromHexString ALLOCATE
    (two new buffers), then four fields of the receiver are assigned; no existing buffer is written.
    [decode_array] is the loop above; nodeUTXOsWrapper.UnmarshalJSON ([node_decode_list]) ignores what the destination
    held ( *nn = make(nodeUTXOsWrapper, 0); var utxo UTXO per element).

    proofs/JsonHeapProofs.v: whatever the destination's elements share with each other and with the rest of the heap, the
    list that comes back is the list model/Json.v's [unmarshal_utxos] returns, every buffer that existed before is
    unchanged, and every object that is not one of the reused elements reads as before.  The one hypothesis is the one
    encoding/json imposes on any []*T destination: the reused elements are distinct objects (the same pointer twice in
    the destination is decoded into twice - [alias_example]). *)
From Coq Require Import List NArith String Bool.
From Coq Require Import Strings.Byte.
From GoBT Require Import lib.Bytes lib.Hex model.Amount model.Json.
Import ListNotations.
Local Open Scope N_scope.

(** a []byte value: a window of a buffer (its capacity runs to the end of the buffer; nothing here appends in place) *)
Record slice := mkSlice { sl_buf : nat; sl_off : nat; sl_len : nat }.
(** a bt.UTXO object; [None] = nil slice / nil *bscript.Script.  The Unlocker is not modelled (no JSON code reads it) *)
Record uobj := mkUObj { uo_txid : option slice; uo_vout : N; uo_lock : option nat; uo_sats : N; uo_seq : N }.
Record heap := mkHeap { h_bufs : list bytes; h_objs : list uobj }.
Definition zero_obj : uobj := mkUObj None 0 None 0 0.

Definition read_slice (bufs : list bytes) (s : option slice) : bytes :=
  match s with
  | None => []
  | Some sl => firstn (sl_len sl) (skipn (sl_off sl) (nth (sl_buf sl) bufs []))
  end.
Definition read_script (bufs : list bytes) (p : option nat) : option bytes :=
  match p with None => None | Some a => Some (nth a bufs []) end.
Definition get_obj (h : heap) (a : nat) : uobj := nth a (h_objs h) zero_obj.

(** the object at address [a] as the value model/Json.v talks about *)
Definition view (h : heap) (a : nat) : gutxo :=
  let o := get_obj h a in
  mkGUtxo (read_slice (h_bufs h) (uo_txid o)) (uo_vout o) (read_script (h_bufs h) (uo_lock o)) (uo_sats o) (uo_seq o).

Fixpoint upd {A} (n : nat) (x : A) (l : list A) : list A :=
  match l, n with
  | [], _ => []
  | _ :: t, O => x :: t
  | y :: t, S k => y :: upd k x t
  end.

(** u.TxID = txID; u.LockingScript = lscript; u.Vout = ...; u.Satoshis = ... with txID, lscript freshly allocated *)
Definition store (h : heap) (a : nat) (t s : bytes) (vout sats : N) : heap :=
  let nb := List.length (h_bufs h) in
  mkHeap (h_bufs h ++ [t; s])
         (upd a (mkUObj (Some (mkSlice nb 0 (List.length t))) vout (Some (S nb)) sats (uo_seq (get_obj h a))) (h_objs h)).

(** UTXO.UnmarshalJSON on the object at [a] *)
Definition unmarshal_utxo_at (h : heap) (a : nat) (j : utxo_j) : jres heap :=
  jbind (from_hex (uj_txid j)) (fun t =>
  jbind (from_hex (uj_lock j)) (fun s =>
  JOk (store h a t s (uj_vout j) (uj_sats j)))).
(** nodeUTXOWrapper.UnmarshalJSON on the object at [a] *)
Definition node_unmarshal_utxo_at (h : heap) (a : nat) (j : utxo_node_j) : jres heap :=
  jbind (from_hex (un_txid j)) (fun t =>
  jbind (from_hex (un_spk j)) (fun s =>
  JOk (store h a t s (un_vout j) (to_sat (un_amount j))))).

Definition alloc (h : heap) : heap * nat := (mkHeap (h_bufs h) (h_objs h ++ [zero_obj]), List.length (h_objs h)).

(** encoding/json decoding a JSON array into a []*UTXO whose backing array is [backing] (pointers; [None] = nil), all of
    it: the elements up to the old length and the stale ones up to the capacity are treated alike.  Result: the heap and
    the elements of the resulting slice.  An error aborts (json.Unmarshal returns it). *)
Fixpoint decode_array {J} (elem : heap -> nat -> J -> jres heap) (h : heap) (backing : list (option nat)) (docs : list J)
  : jres (heap * list nat) :=
  match docs with
  | [] => JOk (h, [])
  | j :: docs' =>
      let slot := match backing with p :: _ => p | [] => None end in
      let rest := match backing with _ :: r => r | [] => [] end in
      let '(h1, a) := match slot with Some a => (h, a) | None => alloc h end in
      jbind (elem h1 a j) (fun h2 =>
      jbind (decode_array elem h2 rest docs') (fun r => JOk (fst r, a :: snd r)))
  end.

(** json.Unmarshal(doc, &utxos) - the library dialect: bt.UTXOs is a plain slice type *)
Definition unmarshal_utxos_into (h : heap) (backing : list (option nat)) (docs : list utxo_j) : jres (heap * list nat) :=
  decode_array unmarshal_utxo_at h backing docs.
(** json.Unmarshal(doc, utxos.NodeJSON()) - nodeUTXOsWrapper.UnmarshalJSON builds the list anew *)
Definition node_unmarshal_utxos_into (h : heap) (backing : list (option nat)) (docs : list utxo_node_j) : jres (heap * list nat) :=
  decode_array node_unmarshal_utxo_at h [] docs.

(** what the property compares of a UTXO *)
Definition fields (u : gutxo) : bytes * N * bytes * N := (u_txid u, u_vout u, script_or_empty (u_lock u), u_sats u).

(** the addresses among the first [n] slots *)
Fixpoint somes (l : list (option nat)) : list nat :=
  match l with [] => [] | Some a :: r => a :: somes r | None :: r => somes r end.
Definition reused (backing : list (option nat)) (n : nat) : list nat := somes (firstn n backing).

(** every reference of every object is to a buffer that exists *)
Definition slice_ok (nb : nat) (s : option slice) : Prop := match s with Some sl => (sl_buf sl < nb)%nat | None => True end.
Definition ptr_ok (nb : nat) (p : option nat) : Prop := match p with Some a => (a < nb)%nat | None => True end.
Definition obj_ok (nb : nat) (o : uobj) : Prop := slice_ok nb (uo_txid o) /\ ptr_ok nb (uo_lock o).
Definition heap_ok (h : heap) : Prop := Forall (obj_ok (List.length (h_bufs h))) (h_objs h).
