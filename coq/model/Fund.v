(** Model of txinput.go Tx.Fund / Tx.FromUTXOs (+ input.go PreviousTxIDAdd, IsValidTxID) over a
    **supplier history**: the UTXOGetterFunc is replaced by the list of answers it gives to its successive
    calls; after the list is used up the supplier reports exhaustion (ErrNoUTXO), as a depleted source does.
    The result records everything the property talks about: the error result, the deficits the supplier was
    called with (in order), how many calls were made, and the transaction afterwards. *)
From Coq Require Import List NArith Lia Bool.
From Coq Require Import Strings.Byte.
From GoBT Require Import lib.Bytes lib.VarInt model.Tx gen.Consts spec.FeeSpec model.Fees.
Import ListNotations.
Local Open Scope N_scope.
Local Open Scope bool_scope.

(** bt.UTXO as FromUTXOs reads it (its SequenceNumber and Unlocker fields are ignored by FromUTXOs) *)
Record utxo := mkUtxo {
  u_txid : bytes;               (* TxID, any length: validated *)
  u_vout : N;                   (* Vout, uint32 *)
  u_script : option bytes;      (* LockingScript, nil = None *)
  u_sats : N                    (* Satoshis, uint64 *)
}.

(** one answer of the supplier *)
Inductive response :=
| Batch (us : list utxo)        (* (utxos, nil) *)
| NoUTXO                        (* (_, ErrNoUTXO) *)
| OtherErr.                     (* (_, some other error) *)

(** the input FromUTXOs builds: supplier's txid / index / value / script, no unlocking script, final sequence *)
Definition of_utxo (u : utxo) : input :=
  mkInput (u_txid u) (u_vout u) [] default_sequence_number (u_sats u) (u_script u).

Definition add_input (t : tx) (i : input) : tx :=
  mkTx (tx_version t) (tx_ins t ++ [i]) (tx_outs t) (tx_lock t).

(** IsValidTxID *)
Definition valid_txid (b : bytes) : bool := Nat.eqb (length b) 32.

(** Tx.FromUTXOs: inputs are appended one by one; an invalid txid stops with ErrInvalidTxID, keeping what
    was already appended *)
Fixpoint from_utxos (t : tx) (us : list utxo) : outcome unit * tx :=
  match us with
  | [] => (FOk tt, t)
  | u :: r =>
      if valid_txid (u_txid u) then from_utxos (add_input t (of_utxo u)) r
      else (FErr ErrInvalidTxID, t)
  end.

Record fund_result := mkFund {
  f_res : outcome unit;         (* nil / error returned by Fund *)
  f_calls : list N;             (* the deficit argument of every supplier call, in order *)
  f_consumed : nat;             (* number of supplier calls made (= responses consumed) *)
  f_tx : tx                     (* the transaction afterwards *)
}.

(** the loop `for deficit != 0 { ... }` followed by the final `if deficit != 0` *)
Fixpoint fund_loop (q : quote) (hist : list response) (t : tx) (deficit : N) : fund_result :=
  if deficit =? 0 then mkFund (FOk tt) [] 0 t else
  match hist with
  | [] | NoUTXO :: _ => mkFund (FErr ErrInsufficientFunds) [deficit] 1 t    (* break; deficit != 0 *)
  | OtherErr :: _ => mkFund (FErr ErrSupplier) [deficit] 1 t
  | Batch us :: rest =>
      match from_utxos t us with
      | (FOk _, t1) =>
          match estimate_deficit t1 q with
          | FOk d' =>
              let r := fund_loop q rest t1 d' in
              mkFund (f_res r) (deficit :: f_calls r) (S (f_consumed r)) (f_tx r)
          | FErr e => mkFund (FErr e) [deficit] 1 t1
          | FFatal => mkFund FFatal [deficit] 1 t1
          | FPanic => mkFund FPanic [deficit] 1 t1
          end
      | (FErr e, t1) => mkFund (FErr e) [deficit] 1 t1
      | (FFatal, t1) => mkFund FFatal [deficit] 1 t1
      | (FPanic, t1) => mkFund FPanic [deficit] 1 t1
      end
  end.

(** Tx.Fund *)
Definition fund (t : tx) (q : quote) (hist : list response) : fund_result :=
  match estimate_deficit t q with
  | FOk d => fund_loop q hist t d
  | FErr e => mkFund (FErr e) [] 0 t
  | FFatal => mkFund FFatal [] 0 t
  | FPanic => mkFund FPanic [] 0 t
  end.

(** well-formedness of what a Go supplier can return: uint32 index, uint64 value, script shorter than 2^64 *)
Definition wf_utxob (u : utxo) : bool :=
  (u_vout u <? two32) && (u_sats u <? two64) && match u_script u with Some s => lenN s <? two64 | None => true end.
Definition wf_responseb (r : response) : bool :=
  match r with Batch us => forallb wf_utxob us | _ => true end.
Definition batch_utxos (r : response) : list utxo := match r with Batch us => us | _ => [] end.
