(** Zero-length VIEWS (C08).  A Go slice of length 0 is not nothing: it has an address and a capacity, and
    [append] to it writes into whatever lies behind it in its backing array - the sibling it was split from,
    the rest of the caller's script.  model/Heap.v already carries these items as slices (array, offset, 0):
    the left half of a split at 0 is [sub x 0 0], the right half of a split at the end is [sub x (len x) 0], an
    OP_PUSHDATA1/2/4 of length 0 is [sub script (off + data_off) 0].  What it does not do is SHOW them: the
    observable of [canon_trace] reports every empty slice as (0, 0, 0), "no storage", because the Go harness
    could not say more of an empty item.  It can: a zero-length item with capacity left lies in a backing array
    (identified by its end address like every other item's) at an offset.

    This file refines the observable.  A zero-length slice is reported as (array number, offset, 0) when its
    array has been seen before in the scan (it never introduces an array: the numbering of [canon_trace] is
    unchanged), as (0, 0, 0) when it has not.  What the model can promise about the Go side:

      - the slice starts strictly inside its array (offset < length of the array in the model's heap): the Go
        item has capacity left - at least the bytes of the array behind it - so the harness MUST see it in that
        array at that offset;
      - the slice starts at the very end of its array: the Go item has capacity only if the Go array happens
        to be longer than its contents (an allocation rounded up, scriptNumber.Bytes' spare sign byte), which the
        model does not describe: either report is accepted;
      - OP_0 pushes nil, modelled [mkSl 0 0 0] by [rebuild]: no storage.  (No zero-length view of the unlocking
        script starts at its offset 0: push data lies behind its opcode byte, and the P2SH redeem script is a
        view of a pushed item.)

    An expectation is therefore a pair of triples; the observation must be one of the two. *)
From Coq Require Import List NArith ZArith Lia Bool.
From Coq Require Import Strings.Byte.
From GoBT Require Import lib.Bytes model.ScriptNum model.Interp model.Heap.
Import ListNotations.
Local Open Scope Z_scope.

Definition ztriple := (Z * Z * Z)%type.
Definition expect := (ztriple * ztriple)%type.
Definition no_storage : ztriple := (0, 0, 0).

Definition is_nil_slice (x : slice) : bool := Nat.eqb (sl_arr x) 0 && Nat.eqb (sl_off x) 0 && Nat.eqb (sl_len x) 0.

(** the bytes of the array behind the start of the slice: its guaranteed capacity *)
Definition room (h : heap) (x : slice) : nat := (length (nth (sl_arr x) h []) - sl_off x)%nat.

Definition canon1z (h : heap) (tbl : list seen) (x : slice) : list seen * expect :=
  if Nat.eqb (sl_len x) 0 then
    if is_nil_slice x then (tbl, (no_storage, no_storage))
    else match lookup tbl (sl_arr x) 1 with
         | Some (k, base) =>
             let t : ztriple := (Z.of_nat k, Z.of_nat (sl_off x) - Z.of_nat base, 0) in
             (tbl, (t, if Nat.ltb 0 (room h x) then t else no_storage))
         | None => (tbl, (no_storage, no_storage))
         end
  else let (t1, y) := canon1 tbl x in (t1, (y, y)).

Fixpoint canon_list_z (h : heap) (tbl : list seen) (xs : list slice) : list seen * list expect :=
  match xs with
  | [] => (tbl, [])
  | x :: r => let (t1, y) := canon1z h tbl x in let (t2, ys) := canon_list_z h t1 r in (t2, y :: ys)
  end.

Fixpoint canon_snaps_z (h : heap) (tbl : list seen) (sn : list hsnapshot) : list (list expect * list expect) :=
  match sn with
  | [] => []
  | (d, a) :: r =>
      let (t1, cd) := canon_list_z h tbl d in
      let (t2, ca) := canon_list_z h t1 a in
      (cd, ca) :: canon_snaps_z h t2 r
  end.

(** [h]: the FINAL heap of the run (arrays are only ever appended, never changed: HeapRefine.v), in which the
    length of every array a slice of any snapshot lies in can be read *)
Definition canon_trace_z (h : heap) (ub lb : bytes) (sn : list hsnapshot) : list (list expect * list expect) :=
  let (t0, _) := canon_list [] [whole 0 ub; whole 1 lb] in
  canon_snaps_z h t0 sn.

(** the observation meets the expectation *)
Definition ztriple_eqb (a b : ztriple) : bool :=
  let '(a1, a2, a3) := a in let '(b1, b2, b3) := b in (a1 =? b1) && (a2 =? b2) && (a3 =? b3).
Definition meets (e : expect) (o : ztriple) : bool := ztriple_eqb (fst e) o || ztriple_eqb (snd e) o.

Fixpoint all2 {A B} (m : A -> B -> bool) (a : list A) (b : list B) : bool :=
  match a, b with
  | [], [] => true
  | x :: a', y :: b' => m x y && all2 m a' b'
  | _, _ => false
  end.

Definition snap_meets (e : list expect * list expect) (o : list ztriple * list ztriple) : bool :=
  all2 meets (fst e) (fst o) && all2 meets (snd e) (snd o).
Definition trace_meets (e : list (list expect * list expect)) (o : list (list ztriple * list ztriple)) : bool :=
  all2 snap_meets e o.

(** the observable of model/Heap.v, recovered: an expectation with every zero-length item erased *)
Definition erase (e : expect) : ztriple := let '(_, _, l) := fst e in if l =? 0 then no_storage else fst e.
