(** The way the flags reach the engine (bscript/interpreter/options.go, thread.apply): an execution is configured by
    a list of options applied in order to an [execOpts] whose flag word starts at 0.  The four flag-carrying options
    ([WithFlags w], [WithForkID], [WithAfterGenesis], [WithP2SH]) all ADD to the word ([p.flags.AddFlag(x)], i.e.
    [*s |= x]); the others ([WithTx], [WithScripts], [WithDebugger], [WithState]) do not touch it.  [thread.apply]
    then copies the word into the thread ([t.flags = opts.flags]), from where [engine_execute] takes it
    ([ei_flags]).

    Written in the shape of the code: one step per option, left to right. *)
From Coq Require Import List NArith Bool.
From GoBT Require Import model.Interp.
Import ListNotations.
Local Open Scope N_scope.

Inductive exec_option :=
| OptFlags (w : N)       (* WithFlags(w) *)
| OptForkID              (* WithForkID() *)
| OptAfterGenesis        (* WithAfterGenesis() *)
| OptP2SH                (* WithP2SH() *)
| OptNoFlags.            (* WithTx / WithScripts / WithDebugger / WithState *)

(** the argument of the option's [AddFlag] *)
Definition option_word (o : exec_option) : N :=
  match o with
  | OptFlags w => w
  | OptForkID => N.shiftl 1 F_FORKID
  | OptAfterGenesis => N.shiftl 1 F_GENESIS
  | OptP2SH => N.shiftl 1 F_BIP16
  | OptNoFlags => 0
  end.

(** [Flag.AddFlag]: [*s |= flag] *)
Definition add_flag (s flag : N) : N := N.lor s flag.

(** one option applied to the flag word of [execOpts] *)
Definition apply_option (flags : N) (o : exec_option) : N :=
  match o with
  | OptNoFlags => flags
  | _ => add_flag flags (option_word o)
  end.

(** [Execute(oo...)]: [for _, o := range oo { o(opts) }] on a zero [execOpts] *)
Definition flags_of_options (oo : list exec_option) : N := fold_left apply_option oo 0.

(** the union of the words the options name *)
Definition options_union (oo : list exec_option) : N := fold_right (fun o acc => N.lor (option_word o) acc) 0 oo.

(** the engine run configured by an option list: what [Execute] does with the assembled word *)
Definition engine_execute_options (so : sigops) (oo : list exec_option) (i : exec_input) : verdict * list snapshot :=
  engine_execute so (mkExecInput (ei_unlock i) (ei_lock i) (flags_of_options oo) (ei_has_tx i) (ei_has_prevout i)
                                 (ei_tx_lock i) (ei_tx_version i) (ei_in_seq i)).
