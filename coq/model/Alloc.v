(** C09: the transaction decoders re-run with an allocation counter.

    Same functions, same order of reads and the same case splits as model/Tx.v (which the C01
    theorems are about); in addition every [make], [new], [append] growth and pointer-escaping
    composite literal of the CURRENT Go code (tx.go, input.go, output.go, varint.go and
    [readBytes] in bytemanipulation.go) adds the number of bytes it asks for to a counter.
    [erase] forgets the counter: proofs/AllocProofs.v shows that the erased functions ARE the
    functions of model/Tx.v, so verdicts and byte counts of this file are those of the C01 model.

    What is counted:
      - make([]byte, k) for the fixed-width fields (4, 32, 8, 1, 2 bytes): [msize k] = 2k + 16, which is
        above the size class the allocator rounds k up to (a zero-length make allocates nothing);
      - readBytes(r, l):  l <= 4096: make([]byte, l) up front;  otherwise the chunk loop
          for len(b) < l { chunk = min(l-len(b), len(b)+4096); b = append(b, make([]byte, chunk)...); ReadFull(b[have:]) }
        every pass asks for a backing array of have+chunk bytes; it is counted twice ([grow_cost]) so
        that the runtime's rounding to a size class and the argument of append stay below the count;
      - &Input{}, new(Output), new(Tx), Tx{} (escapes), bytes.NewReader: the struct sizes rounded up
        to the allocator's size class; ReverseBytes: 32; bscript.NewFromBytes: one slice header;
      - tx.Inputs = append(tx.Inputs, input) and the like: amortised [append_cost] per element;
      - a returned error: [err_cost] (github.com/pkg/errors: a 32-entry stack, the formatted
        message and two wrapper structs).
    The struct and error constants are upper estimates of what the runtime does, tied to the code
    only by the measured inequality of the correspondence; the shape (what depends on a length or
    count FIELD and what on bytes actually read) is the point of the model.

    Partial operations.  The result type has a fourth outcome, [APanic]: every operation of the Go
    decoders that the runtime can refuse is a function here that answers [APanic] when it would:
      - an allocation request ([make], [new], [append] growth, escaping literal) of [alloc_limit] = 2^47
        bytes or more ([a_request]; the runtime's limit, maxAlloc, is 2^48 on linux/amd64 - the model
        panics earlier, and every amount it checks is an upper estimate of what the runtime is asked for).
        [acharge] - the counter - contains the check, so that nothing is counted without being checked;
      - [make([]byte, v)] with [v] a uint64: makeslice64 converts to int first and panics when the
        int is negative, v >= 2^63 ([a_int_of_u64]);
      - a slice expression [b[lo:hi]] on a slice of capacity [cap] ([a_slice]: lo <= hi <= cap);
      - an index expression [b[i]] ([a_index]: i < len), including the [_ = b[7]] / [b[3]] / [b[1]] that
        binary.LittleEndian.Uint64 / Uint32 / Uint16 start with;
      - [xs = append(xs, x)] on a slice of pointers that has [done] elements ([slice_grow done] bytes).
    They stand where the Go code has them; where the Go code guards first ([l <= readChunkSize],
    [chunk = min(l - have, have + 4096)], the loop guard [len(b) < l]) the model guards first.
    proofs/AllocProofs.v section 5 proves that no entry point answers [APanic] on an input shorter
    than [input_limit] = 2^42 bytes, whatever its length and count fields say.  (On longer inputs the
    model does panic: a script that is really there and is 2^45 bytes long makes the chunk loop of
    readBytes ask for more than [alloc_limit].)

    Not modelled as partial: int64(n), int(bytesRead), uint64(len(b)) (conversions of non-negative
    values between 64-bit types), [bytesRead += n] (wraps, does not panic), the loop of ReverseBytes
    (its indices are i < j <= len-1 by its own guard), io.ReadFull and bytes.Reader (library). *)
From Coq Require Import List NArith Lia.
From Coq Require Import Strings.Byte.
From GoBT Require Import lib.Bytes lib.Parse lib.VarInt model.Tx.
Import ListNotations.
Local Open Scope N_scope.

Inductive ares (A : Type) :=
| AOk (a : A) (n : N) (rest : bytes) (al : N)   (* value, bytes consumed, remaining input, bytes allocated *)
| AErr (n : N) (al : N)                          (* error after consuming n bytes, having allocated al *)
| AFuel
| APanic.                                        (* a run-time panic: the process is gone *)
Arguments AOk {A}. Arguments AErr {A}. Arguments AFuel {A}. Arguments APanic {A}.

Definition aparser A := bytes -> ares A.

Definition abind {A B} (p : ares A) (f : A -> bytes -> ares B) : ares B :=
  match p with
  | AOk a n rest al =>
      match f a rest with
      | AOk b m r al2 => AOk b (n + m) r (al + al2)
      | AErr m al2 => AErr (n + m) (al + al2)
      | AFuel => AFuel
      | APanic => APanic
      end
  | AErr n al => AErr n al
  | AFuel => AFuel
  | APanic => APanic
  end.
Definition aret {A} (a : A) : aparser A := fun bs => AOk a 0 bs 0.

(** ** the partial operations *)
Definition alloc_limit : N := 2 ^ 47.
Definition two63 : N := 2 ^ 63.

(** mallocgc / makeslice / growslice asked for [size] bytes, then [r] *)
Definition a_request {A} (size : N) (r : ares A) : ares A :=
  if alloc_limit <=? size then APanic else r.

(** int(v) for a uint64 [v] that is about to be a length: negative is a panic *)
Definition a_int_of_u64 {A} (v : N) (r : ares A) : ares A :=
  if two63 <=? v then APanic else r.

(** b[lo:hi] with cap(b) = cap *)
Definition a_slice {A} (lo hi cap : N) (r : ares A) : ares A :=
  if andb (lo <=? hi) (hi <=? cap) then r else APanic.

(** b[i] with len(b) = len *)
Definition a_index {A} (i len : N) (r : ares A) : ares A :=
  if i <? len then r else APanic.

(** an allocation of (at most) x bytes that consumes no input, then [r] *)
Definition acharge {A} (x : N) (r : ares A) : ares A :=
  a_request x
  match r with
  | AOk a n rest al => AOk a n rest (x + al)
  | AErr n al => AErr n (x + al)
  | AFuel => AFuel
  | APanic => APanic
  end.

(** forgetting the counter; a panic has no counterpart in model/Tx.v (the value given to it is arbitrary:
    the erasure theorems are stated for results that are not [APanic]) *)
Definition erase {A} (r : ares A) : pres A :=
  match r with AOk a n rest _ => POk a n rest | AErr n _ => PErr n | AFuel => PFuel | APanic => PFuel end.
Definition alloc_of {A} (r : ares A) : N :=
  match r with AOk _ _ _ al => al | AErr _ al => al | AFuel => 0 | APanic => 0 end.

Notation "'alet' x ':=' p 'on' bs 'as' r 'in' k" :=
  (abind (p bs) (fun x r => k)) (at level 200, x pattern, bs at level 0, r name, k at level 200).

(** ** constants (bytes) *)
Definition err_cost : N := 2048.        (* one wrapped error *)
Definition msize (k : N) : N := if k =? 0 then 0 else 2 * k + 16.   (* make([]byte, k) *)
Definition input_struct : N := 64.      (* &Input{}: 56 bytes *)
Definition output_struct : N := 16.     (* new(Output) *)
Definition tx_struct : N := 64.         (* new(Tx) / escaping Tx{}: 56 bytes *)
Definition reader_struct : N := 48.     (* bytes.NewReader *)
Definition script_hdr : N := 32.        (* s := Script(b); &s  (24 bytes) *)
Definition append_cost : N := 64.       (* amortised growth of a []*T per appended pointer *)
Definition chunk_size : N := 4096.      (* readChunkSize *)
Definition grow_cost (have chunk : N) : N := 2 * (have + chunk).
(** xs = append(xs, x) on a []*T with [done] elements: growslice doubles below 256 elements, then asks for
    1.25 * done + 192 elements, rounded up to a size class or (above 32 KiB) to a page of 8 KiB *)
Definition slice_grow (done : N) : N := 16 * done + 16384.

(** ** primitives *)

(** io.ReadFull(r, buf) into an existing buffer of k bytes *)
Definition a_read_full (k : nat) : aparser bytes := fun bs =>
  if Nat.leb k (length bs) then AOk (firstn k bs) (N.of_nat k) (skipn k bs) 0
  else AErr (lenN bs) err_cost.

(** buf := make([]byte, k); io.ReadFull(r, buf) *)
Definition a_read_exact (k : nat) : aparser bytes := fun bs => acharge (msize (N.of_nat k)) (a_read_full k bs).

(** VarInt.ReadFrom: switch b[0]; binary.LittleEndian.UintNN(bb) *)
Definition a_read_varint : aparser (N * bool) := fun bs =>
  alet b := a_read_exact 1 on bs as r in
    a_index 0 (lenN b)
    (let t := match b with c :: _ => b2n c | [] => 0 end in
    if t =? 255 then alet x := a_read_exact 8 on r as r2 in a_index 7 (lenN x) (aret (le_dec x, two32 <=? le_dec x) r2)
    else if t =? 254 then alet x := a_read_exact 4 on r as r2 in a_index 3 (lenN x) (aret (le_dec x, two16 <=? le_dec x) r2)
    else if t =? 253 then alet x := a_read_exact 2 on r as r2 in a_index 1 (lenN x) (aret (le_dec x, 253 <=? le_dec x) r2)
    else aret (t, true) r).

(** one pass of the readBytes loop, len(b) = have:
      b = append(b, make([]byte, chunk)...)      chunk is a uint64; b grows to have+chunk
      n, err := io.ReadFull(r, b[have:])
      if err != nil { return b[:have+n], ... } *)
Definition a_read_into (have chunk : N) : aparser bytes := fun bs =>
  a_int_of_u64 chunk
  (acharge (grow_cost have chunk)
  (a_slice have (have + chunk) (have + chunk)
  (if lenN bs <? chunk then a_slice 0 (have + lenN bs) (have + chunk) (AErr (lenN bs) err_cost)
   else AOk (firstn (N.to_nat chunk) bs) chunk (skipn (N.to_nat chunk) bs) 0))).

(** the loop of readBytes, entered with len(b) < l; recursion on the remaining input *)
Fixpoint a_read_chunks (fuel : nat) (l : N) (acc : bytes) : aparser bytes := fun bs =>
  match fuel with
  | O => AFuel
  | S f =>
      let have := lenN acc in
      let chunk := N.min (l - have) (have + chunk_size) in
      alet x := a_read_into have chunk on bs as r in
        let acc' := acc ++ x in
        if lenN acc' <? l then a_read_chunks f l acc' r else aret acc' r
  end.

(** readBytes(r, l); [l] is a uint64 and [make([]byte, l)] converts it *)
Definition a_read_bytes (l : N) : aparser bytes := fun bs =>
  if l <=? chunk_size then a_int_of_u64 l (a_read_exact (N.to_nat l) bs)
  else a_read_chunks (S (length bs)) l [] bs.

(** varint length, then readBytes *)
Definition a_read_script : aparser (bytes * bool) := fun bs =>
  alet lm := a_read_varint on bs as r in
  alet s := a_read_bytes (fst lm) on r as r2 in aret (s, snd lm) r2.

(** ** Input.readFrom *)
Definition a_read_input (ext : bool) : aparser (input * bool) := fun bs =>
  alet txidw := a_read_exact 32 on bs as r1 in
  alet vout := a_read_exact 4 on r1 as r2 in
  alet sm := a_read_script on r2 as r3 in
  alet sq := a_read_exact 4 on r3 as r4 in
  (* ReverseBytes(previousTxID), Uint32(prevIndex), bscript.NewFromBytes(script), Uint32(sequence) *)
  acharge (32 + script_hdr)
  (a_index 3 (lenN vout) (a_index 3 (lenN sq)
  (if ext then
    alet sats := a_read_exact 8 on r4 as r5 in
    alet pm := a_read_script on r5 as r6 in
    (* prevTxLockingScript = *NewFromBytes(script); Uint64(prevSatoshis); NewFromBytes(prevTxLockingScript) *)
    acharge (2 * script_hdr)
    (a_index 7 (lenN sats) (aret (mkInput (rev txidw) (le_dec vout) (fst sm) (le_dec sq) (le_dec sats) (Some (fst pm)),
          snd sm && snd pm)%bool r6))
  else aret (mkInput (rev txidw) (le_dec vout) (fst sm) (le_dec sq) 0 None, snd sm) r4))).

(** ** Output.ReadFrom *)
Definition a_read_output : aparser (output * bool) := fun bs =>
  alet sats := a_read_exact 8 on bs as r1 in
  alet sm := a_read_script on r1 as r2 in
  (* Uint64(satoshis), bscript.NewFromBytes(script) *)
  a_index 7 (lenN sats) (acharge script_hdr (aret (mkOutput (le_dec sats) (fst sm), snd sm) r2)).

(** for i := 0; i < count; i++ { x := new(T); x.ReadFrom(r); xs = append(xs, x) }
    [done] is len(xs): what the append has to find room for *)
Fixpoint a_read_many {A} (fuel : nat) (item_cost : N) (p : aparser (A * bool)) (count done : N)
    : aparser (list A * bool) := fun bs =>
  if count =? 0 then aret ([], true) bs else
  match fuel with
  | O => AFuel
  | S f =>
      alet xm := (fun b => acharge item_cost (p b)) on bs as r in
      a_request (slice_grow done)
      (alet rest := a_read_many f item_cost p (count - 1) (done + 1) on r as r2 in
       aret (fst xm :: fst rest, snd xm && snd rest)%bool r2)
  end.

(** ** Tx.ReadFrom *)
Definition a_read_tx_body (fuel : nat) (ver : bytes) (ext : bool) (icount : N) (ocount_known : option N)
    (m0 : bool) : aparser parsed := fun r =>
  alet ins := a_read_many fuel (input_struct + append_cost) (a_read_input ext) icount 0 on r as ra in
  alet oc := (match ocount_known with
              | Some c => aret (c, true)
              | None => a_read_varint end) on ra as rb in
  alet outs := a_read_many fuel (output_struct + append_cost) a_read_output (fst oc) 0 on rb as rc in
  alet lt := a_read_full 4 on rc as rd in
  (* binary.LittleEndian.Uint32(locktime) *)
  a_index 3 (lenN lt) (aret (mkParsed (mkTx (le_dec ver) (fst ins) (fst outs) (le_dec lt)) ext
          (m0 && snd ins && snd oc && snd outs)%bool) rd).

Definition a_read_tx : aparser parsed := fun bs =>
  let fuel := S (length bs) in
  alet ver := a_read_exact 4 on bs as r1 in
  (* binary.LittleEndian.Uint32(version) *)
  a_index 3 (lenN ver)
  (alet ic := a_read_varint on r1 as r2 in
  (* locktime := make([]byte, 4) *)
  acharge (msize 4)
  (if fst ic =? 0 then
    alet oc := a_read_varint on r2 as r3 in
    if fst oc =? 0 then
      alet lt := a_read_full 4 on r3 as r4 in
      (* binary.BigEndian.Uint32(locktime) *)
      a_index 3 (lenN lt)
      (if be_dec lt =? 239 then
        alet ic2 := a_read_varint on r4 as r5 in
        a_read_tx_body fuel ver true (fst ic2) None (snd ic && snd oc && snd ic2)%bool r5
      else aret (mkParsed (mkTx (le_dec ver) [] [] (le_dec lt)) false (snd ic && snd oc)%bool) r4)
    else a_read_tx_body fuel ver false 0 (Some (fst oc)) (snd ic && snd oc)%bool r3
  else a_read_tx_body fuel ver false (fst ic) None (snd ic) r2)).

(** NewTxFromStream / NewTxFromBytes: tx := Tx{} (escapes), bytes.NewReader(b) *)
Definition a_tx_from_stream : aparser parsed := fun bs =>
  acharge (tx_struct + reader_struct) (a_read_tx bs).

(** Txs.ReadFrom *)
Definition a_read_txs : aparser (list parsed * bool) := fun bs =>
  alet c := a_read_varint on bs as r in
  alet l := a_read_many (S (length bs)) (tx_struct + append_cost)
              (fun b => match a_read_tx b with
                        | AOk p n rest al => AOk (p, p_min p) n rest al
                        | AErr n al => AErr n al
                        | AFuel => AFuel
                        | APanic => APanic end) (fst c) 0 on r as r2 in
  aret (fst l, snd c && snd l)%bool r2.

(** ** the bound the theorems and the harness talk about *)
Definition alloc_c : N := 32.
Definition alloc_k : N := 16384.
Definition alloc_bound (len : N) : N := alloc_c * len + alloc_k.

(** the no-panic theorems are for inputs shorter than this (4 TiB) *)
Definition input_limit : N := 2 ^ 42.
