(** How the starting transaction was OBTAINED.  model/Tx.v keeps an input's unlocking script as bytes ("nil and
    empty are the same bytes"): that is what every serialisation shows.  The Go object keeps it behind a pointer,
    and the ways a caller comes by a transaction differ exactly there: From / FromUTXOs and a struct literal leave
    [UnlockingScript == nil]; NewTxFromBytes / NewTxFromString / Clone / JSON decoding of an unsigned draft give a
    present script of length 0; clearing a signature gives either.  This file models tx.go estimatedFinalTx /
    estimateDeficit and txinput.go FromUTXOs / Fund once more over inputs that carry this distinction
    ([gi_unlock : option bytes]), in the shape of the Go code: the test for "unsigned" is made on the inputs of
    the CLONE and reads [in.UnlockingScript == nil || len( *in.UnlockingScript) == 0].
    proofs/FundObtainedProofs.v shows that every observable of this model is the observable of model/Fund.v on
    what the transaction SAYS ([says]); the theorems of Properties/C12.v therefore hold for a transaction however
    it was obtained, and the correspondence may feed the model what the transaction says. *)
From Coq Require Import List NArith Bool.
From Coq Require Import Strings.Byte.
From GoBT Require Import lib.Bytes lib.VarInt model.Tx gen.Consts spec.FeeSpec model.Fees model.Fund.
Import ListNotations.
Local Open Scope N_scope.
Local Open Scope bool_scope.

(** bt.Input as the Go object holds it *)
Record ginput := mkGInput {
  gi_txid : bytes;
  gi_vout : N;
  gi_unlock : option bytes;        (* UnlockingScript *bscript.Script: nil = None; Some [] = present, length 0 *)
  gi_seq : N;
  gi_sats : N;
  gi_script : option bytes         (* PreviousTxScript, nil = None *)
}.
Record gtx := mkGTx { g_version : N; g_ins : list ginput; g_outs : list output; g_lock : N }.

(** what the object says: Input.Bytes writes a zero length for a nil script (input.go) *)
Definition says_in (i : ginput) : input :=
  mkInput (gi_txid i) (gi_vout i) (match gi_unlock i with Some u => u | None => [] end)
          (gi_seq i) (gi_sats i) (gi_script i).
Definition says (t : gtx) : tx := mkTx (g_version t) (map says_in (g_ins t)) (g_outs t) (g_lock t).

(** what decoding produces: input.readFrom stores bscript.NewFromBytes(script), a non-nil pointer *)
Definition decoded_in (i : input) : ginput :=
  mkGInput (in_txid i) (in_vout i) (Some (in_unlock i)) (in_seq i) (in_sats i) (in_script i).
Definition decoded (t : tx) : gtx := mkGTx (tx_version t) (map decoded_in (tx_ins t)) (tx_outs t) (tx_lock t).

(** what assembling by hand / From / FromUTXOs produces: no unlocking script object where the script is empty *)
Definition built_in (i : input) : ginput :=
  mkGInput (in_txid i) (in_vout i) (match in_unlock i with [] => None | u => Some u end)
           (in_seq i) (in_sats i) (in_script i).
Definition built (t : tx) : gtx := mkGTx (tx_version t) (map built_in (tx_ins t)) (tx_outs t) (tx_lock t).

(** Tx.Clone: NewTxFromBytes(tx.Bytes()), then the previous-output fields copied across.  Bytes() is a function
    of what the object says; the result is a decoded transaction. *)
Definition g_clone (t : gtx) : result gtx :=
  match clone (says t) with
  | ROk c => ROk (decoded c)
  | RErr => RErr
  | RFuel => RFuel
  end.

(** the test of estimatedFinalTx: `in.UnlockingScript == nil || len( *in.UnlockingScript) == 0` *)
Definition g_unsigned (i : ginput) : bool :=
  match gi_unlock i with None => true | Some u => Nat.eqb (length u) 0 end.
Definition g_with_unlock (i : ginput) (u : bytes) : ginput :=
  mkGInput (gi_txid i) (gi_vout i) (Some u) (gi_seq i) (gi_sats i) (gi_script i).

Fixpoint g_fill_dummy (unsignedp : ginput -> bool) (ins : list ginput) : outcome (list ginput) :=
  match ins with
  | [] => FOk []
  | i :: r =>
      match gi_script i with
      | None => FErr ErrEmptyPreviousTxScript
      | Some s =>
          if negb (supported s) then FErr ErrUnsupportedScript
          else
            let i' := if unsignedp i then g_with_unlock i dummy_unlocking_script else i in
            olet r' := g_fill_dummy unsignedp r in FOk (i' :: r')
      end
  end.

Definition g_set_ins (t : gtx) (ins : list ginput) : gtx := mkGTx (g_version t) ins (g_outs t) (g_lock t).

(** estimatedFinalTx: the loop runs over the inputs of the clone *)
Definition g_estimated_final_tx (t : gtx) : outcome gtx :=
  match g_clone t with
  | ROk c => olet ins := g_fill_dummy g_unsigned (g_ins c) in FOk (g_set_ins c ins)
  | _ => FFatal
  end.

(** SizeWithTypes reads Bytes() and the output scripts: a function of what the estimated transaction says *)
Definition g_estimate_size_with_types (t : gtx) : outcome txsize :=
  olet te := g_estimated_final_tx t in FOk (size_with_types (says te)).
Definition g_estimate_fees_paid (t : gtx) (q : quote) : outcome txfees :=
  olet sz := g_estimate_size_with_types t in fees_paid sz q.
Definition g_estimate_deficit (t : gtx) (q : quote) : outcome N :=
  let i := total_in (says t) in
  let o := total_out (says t) in
  olet f := g_estimate_fees_paid t q in
  let need := add64 o (fee_total f) in
  if need <? i then FOk 0 else FOk (need - i).

(** FromUTXOs: the Input literal has no UnlockingScript field set *)
Definition g_of_utxo (u : utxo) : ginput :=
  mkGInput (u_txid u) (u_vout u) None default_sequence_number (u_sats u) (u_script u).
Definition g_add_input (t : gtx) (i : ginput) : gtx :=
  mkGTx (g_version t) (g_ins t ++ [i]) (g_outs t) (g_lock t).
Fixpoint g_from_utxos (t : gtx) (us : list utxo) : outcome unit * gtx :=
  match us with
  | [] => (FOk tt, t)
  | u :: r =>
      if valid_txid (u_txid u) then g_from_utxos (g_add_input t (g_of_utxo u)) r
      else (FErr ErrInvalidTxID, t)
  end.

Record g_fund_result := mkGFund {
  gf_res : outcome unit; gf_calls : list N; gf_consumed : nat; gf_tx : gtx
}.

Fixpoint g_fund_loop (q : quote) (hist : list response) (t : gtx) (deficit : N) : g_fund_result :=
  if deficit =? 0 then mkGFund (FOk tt) [] 0 t else
  match hist with
  | [] | NoUTXO :: _ => mkGFund (FErr ErrInsufficientFunds) [deficit] 1 t
  | OtherErr :: _ => mkGFund (FErr ErrSupplier) [deficit] 1 t
  | Batch us :: rest =>
      match g_from_utxos t us with
      | (FOk _, t1) =>
          match g_estimate_deficit t1 q with
          | FOk d' =>
              let r := g_fund_loop q rest t1 d' in
              mkGFund (gf_res r) (deficit :: gf_calls r) (S (gf_consumed r)) (gf_tx r)
          | FErr e => mkGFund (FErr e) [deficit] 1 t1
          | FFatal => mkGFund FFatal [deficit] 1 t1
          | FPanic => mkGFund FPanic [deficit] 1 t1
          end
      | (FErr e, t1) => mkGFund (FErr e) [deficit] 1 t1
      | (FFatal, t1) => mkGFund FFatal [deficit] 1 t1
      | (FPanic, t1) => mkGFund FPanic [deficit] 1 t1
      end
  end.

Definition g_fund (t : gtx) (q : quote) (hist : list response) : g_fund_result :=
  match g_estimate_deficit t q with
  | FOk d => g_fund_loop q hist t d
  | FErr e => mkGFund (FErr e) [] 0 t
  | FFatal => mkGFund FFatal [] 0 t
  | FPanic => mkGFund FPanic [] 0 t
  end.

(** the result, read through what the transaction left behind says *)
Definition says_result (r : g_fund_result) : fund_result :=
  mkFund (gf_res r) (gf_calls r) (gf_consumed r) (says (gf_tx r)).

(** ** The variant that is NOT a function of what the transaction says: deciding "unsigned" on the RECEIVER's
    inputs by `UnlockingScript == nil` alone (an empty script that is present counts as signed) and writing the
    dummy into the clone.  Used only to show (proofs/FundObtainedProofs.v, by an example) that the distinction is
    observable: the two ways of obtaining one and the same draft then get different estimates. *)
Definition g_nil_only (i : ginput) : bool := match gi_unlock i with None => true | Some _ => false end.
Fixpoint g_fill_dummy_by (flags : list bool) (ins : list ginput) : outcome (list ginput) :=
  match ins, flags with
  | i :: r, f :: fr =>
      match gi_script i with
      | None => FErr ErrEmptyPreviousTxScript
      | Some s =>
          if negb (supported s) then FErr ErrUnsupportedScript
          else olet r' := g_fill_dummy_by fr r in FOk ((if f then g_with_unlock i dummy_unlocking_script else i) :: r')
      end
  | _, _ => FOk []
  end.
Definition g_estimated_final_tx_receiver_nil (t : gtx) : outcome gtx :=
  match g_clone t with
  | ROk c => olet ins := g_fill_dummy_by (map g_nil_only (g_ins t)) (g_ins c) in FOk (g_set_ins c ins)
  | _ => FFatal
  end.
